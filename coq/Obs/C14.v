(* Correspondence for C14: histories run through ocifilter.ReadOnly(mem), ocifilter.Immutable(mem)
   and ocimem.NewWithConfig(ImmutableTags) versus the models (Model/Immutable.v over Model/Mem.v,
   [model_agrees]) and versus the property read as a specification on observations ([obs_ok]).

   Shape of a case (what the harness did, in this order):
     1. [c_setup]   run directly on the underlying *ocimem.Registry (configuration [c_under_imm]);
     2. [c_probes]  read-only probes run directly on the underlying registry -> [c_before]
                    (all listings, every tag, every (repository, digest) the case mentions, and a
                    walk from every tag through the manifests it references: a probe with a parent
                    asks for something the parent's bytes name);
     3. [c_ops]     run through the mechanism ([c_mech]; the wrappers are given the registry under
                    the dynamic type [c_wrap]); for ReadOnly every read is also run directly on
                    the underlying registry right afterwards -> [c_direct].  When the registry is
                    handed to the wrapper behind a forwarding value, that value keeps a list of the
                    method calls that reach the registry, per operation of the history ->
                    [c_trace]; and it may act for a rival client of the same registry: right after
                    it has served its n-th call it performs the operations [c_rivals] lists for n
                    directly on the registry (Immutable only: the wrapper's resolve-push-resolve is
                    three calls, and somebody else's push may land between any two of them);
     4. [c_threads] (immutable-tags mode only) a batch of goroutines, each running its own list
                    (the harness may delay single operations to aim one goroutine's operation
                    at the span of another's; the delays are not part of the case);
     5. the probes again -> [c_after]. *)
From Coq Require Import String.
From OCI Require Export Obs.MemObs Model.Immutable.

Inductive mech := MReadOnly | MImmutable | MImmTags.

(* How the *ocimem.Registry is handed to the wrapper.  ReadOnly and Immutable take ANY
   ociregistry.Interface; the harness hands them the registry as it is, inside a
   *ociregistry.Funcs whose every member forwards to it (the documented way to build an
   Interface), inside a struct that embeds it as an ociregistry.Interface, or behind
   ocifilter.Select with a predicate that accepts every repository.  Each of these forwards every
   call unchanged, so the model of the wrapped value is the registry's own step function
   ([wrapped]); what the case records is the dynamic type the wrapper under test was given (a
   wrapper that treats some dynamic type specially disagrees with the model on those cases). *)
Inductive wrapping := WDirect | WFuncs | WEmbed | WSelect.
Definition wrapped {St} (w : wrapping) (under : registry St) : registry St := under.

Record probe := { p_parent : option N; p_op : op }.

Definition ev := (op * oresult)%type.

Record case := {
  c_mech : mech;
  c_wrap : wrapping;
  c_under_imm : bool;
  c_orc : oracles;
  c_setup : list op; c_setup_obs : list oresult;
  c_probes : list probe;
  c_before : list oresult;
  c_rivals : list (N * op);
  c_ops : list op; c_obs : list oresult;
  c_trace : option (list (list op));
  c_direct : list (option oresult);
  c_threads : list (list ev);
  c_after : list oresult
}.

(* ------------------------------------------------------------------------------------ *)
(* The model's prediction                                                               *)
(* ------------------------------------------------------------------------------------ *)

Definition cfg_imm (c : case) : bool :=
  match c_mech c with MImmTags => true | _ => c_under_imm c end.

(* digest.FromBytes as the harness observed it; a content the table does not know hashes to
   "?" followed by the content itself, which no digest of the table is (checked by [orc_wf]):
   so the function is injective exactly when the table is *)
Definition hash14 (o : oracles) (c : bytes) : bytes :=
  match alookup c (o_hash o) with Some d => d | None => 63 :: c end.

Definition mem14 (o : oracles) (imm : bool) : registry state :=
  step (hash14 o) (orc_vd o) (orc_vr o) (orc_vt o) (orc_img o) (orc_idx o) {| immutable_tags := imm |}.

Definition under_step (c : case) : registry state := mem14 (c_orc c) (cfg_imm c).

Definition mech_step (c : case) : registry state :=
  match c_mech c with
  | MReadOnly => forget (ro_step (wrapped (c_wrap c) (under_step c)))
  | MImmutable => forget (imm_step (wrapped (c_wrap c) (under_step c)) (hash14 (c_orc c)))
  | MImmTags => under_step c
  end.

Definition probe_ops (c : case) : list op := map p_op (c_probes c).

(* ---- a registry that somebody else writes to as well ---- *)

(* a method call of ociregistry.Interface (not an operation on a BlobWriter handed out earlier:
   those go to the writer object, not through the value the wrapper holds) *)
Definition has_method (o : op) : bool :=
  match op_method o with Some _ => true | None => false end.

(* what the rival does right after the n-th call *)
Definition fired (sch : list (N * op)) (n : N) : list op :=
  map snd (filter (fun x => N.eqb (fst x) n) sch).

(* [under] behind a door-keeper that counts the method calls it lets through (from 0) and, right
   after serving the n-th, performs the rival's operations scheduled for n directly on [under].
   The caller gets the answer of its own call; the state it meets at its next call is the one the
   rival left. *)
Definition rival_step {St} (under : registry St) (sch : list (N * op)) : registry (St * N) :=
  fun sn o =>
    let '(st1, r) := under (fst sn) o in
    if has_method o then (final under st1 (fired sch (snd sn)), N.succ (snd sn), r)
    else (st1, snd sn, r).

(* what a rival may do: push (a deleting rival would break what no wrapper can defend) *)
Definition is_rival_op (o : op) : bool :=
  match o with PushBlob _ _ _ | MountBlob _ _ _ | PushManifest _ _ _ _ => true | _ => false end.

(* the calls that reached the registry, as the forwarding value saw them (method calls only) *)
Definition trace_agrees (tr : option (list (list op))) (m : list (list op)) : bool :=
  match tr with
  | None => true
  | Some t => list_eqb (list_eqb op_eqb) t (map (filter has_method) m)
  end.

Definition imm_rival (c : case) : tstep (state * N) op :=
  imm_step (rival_step (wrapped (c_wrap c) (under_step c)) (c_rivals c)) (hash14 (c_orc c)).

(* ReadOnly: the same read, directly on the underlying registry, after the wrapper call *)
Fixpoint direct_ok (under mechs : registry state) (st : state) (ops : list op)
         (direct : list (option oresult)) : bool :=
  match ops, direct with
  | [], [] => true
  | o :: ops', d :: direct' =>
      let st' := fst (mechs st o) in
      match d with Some ob => agrees ob (snd (under st' o)) | None => negb (is_read_op o) end
      && direct_ok under mechs st' ops' direct'
  | _, _ => false
  end.

Fixpoint replace_nth {A} (i : nat) (a : A) (l : list A) : list A :=
  match l, i with
  | [], _ => []
  | _ :: l', O => a :: l'
  | b :: l', S i' => b :: replace_nth i' a l'
  end.

Definition is_nil {A} (l : list A) : bool := match l with [] => true | _ => false end.

(* [existsb] and [&&] written with [if]: vm_compute evaluates the arguments of a function before
   the call, so [f a || existsb f l] would visit every branch of the search even after a success,
   and [agrees ob r && search ...] would search below a step the model does not reproduce *)
Fixpoint existsb_lazy {A} (f : A -> bool) (l : list A) : bool :=
  match l with
  | [] => false
  | a :: l' => if f a then true else existsb_lazy f l'
  end.

Lemma existsb_lazy_eq {A} (f : A -> bool) l : existsb_lazy f l = existsb f l.
Proof. induction l as [|a l IH]; cbn; [reflexivity|]. rewrite IH. now destruct (f a). Qed.

(* is there an interleaving of the threads that the model reproduces, after which [k] holds? *)
Fixpoint lin_search (step : registry state) (fuel : nat) (ths : list (list ev)) (st : state)
         (k : state -> bool) : bool :=
  if forallb is_nil ths then k st
  else
    match fuel with
    | O => false
    | S f =>
        existsb_lazy (fun i =>
          match nth i ths [] with
          | (o, ob) :: th =>
              let '(st', r) := step st o in
              if agrees ob r then lin_search step f (replace_nth i th ths) st' k else false
          | [] => false
          end) (seq 0 (length ths))
    end.

Definition total_len {A} (ths : list (list A)) : nat := length (concat ths).

(* the hash table is the table of an injective function and no digest in it starts with "?" *)
Definition orc_wf (o : oracles) : bool :=
  forallb (fun cd =>
     forallb (fun cd' => implb (beqb (snd cd) (snd cd')) (beqb (fst cd) (fst cd'))) (o_hash o)
     && match snd cd with 63 :: _ => false | _ => true end) (o_hash o).

(* ReadOnly and immutable-tags mode *)
Definition model_agrees_seq (c : case) : bool :=
  let under := under_step c in
  let '(s1, rs) := run under init (c_setup c) in
  orc_wf (c_orc c)
  && forallb is_read_op (probe_ops c)
  && agrees_all (c_setup_obs c) rs
  && agrees_all (c_before c) (snd (run under s1 (probe_ops c)))
  && (let '(s2, ro) := run (mech_step c) s1 (c_ops c) in
      agrees_all (c_obs c) ro
      && match c_mech c with
         | MReadOnly => direct_ok under (mech_step c) s1 (c_ops c) (c_direct c)
                        && trace_agrees (c_trace c)
                             (map snd (snd (trun (ro_step (wrapped (c_wrap c) under)) s1 (c_ops c))))
         | _ => true
         end
      && match c_mech c with
         | MImmTags => true
         | _ => is_nil (c_threads c)
         end
      && lin_search under (total_len (c_threads c)) (c_threads c) s2
           (fun s3 => agrees_all (c_after c) (snd (run under s3 (probe_ops c))))).

(* Immutable: over the registry with the rival behind it (no rival: [c_rivals] empty), results
   and backend calls operation by operation *)
Definition model_agrees_imm (c : case) : bool :=
  let under := under_step c in
  let '(s1, rs) := run under init (c_setup c) in
  orc_wf (c_orc c)
  && forallb is_read_op (probe_ops c)
  && agrees_all (c_setup_obs c) rs
  && agrees_all (c_before c) (snd (run under s1 (probe_ops c)))
  && forallb (fun x => is_rival_op (snd x)) (c_rivals c)
  && is_nil (c_threads c)
  && (let '(s2, rt) := trun (imm_rival c) (s1, 0%N) (c_ops c) in
      agrees_all (c_obs c) (map fst rt)
      && trace_agrees (c_trace c) (map snd rt)
      && agrees_all (c_after c) (snd (run under (fst s2) (probe_ops c)))).

Definition model_agrees (c : case) : bool :=
  match c_mech c with
  | MImmutable => model_agrees_imm c
  | _ => model_agrees_seq c
  end.

(* ------------------------------------------------------------------------------------ *)
(* The specification, on observations only                                              *)
(* ------------------------------------------------------------------------------------ *)

Definition ores_eqb (a b : oresult) : bool :=
  match a, b with
  | OOk x, OOk y => MemObs.res_eqb x y
  | OList l e, OList l' e' => list_eqb beqb l l' && option_eqb ecode_eqb e e'
  | ODescs l e, ODescs l' e' => list_eqb desc_eqb l l' && option_eqb ecode_eqb e e'
  | OErr x, OErr y => ecode_eqb x y
  | OPanic, OPanic => true
  | _, _ => false
  end.

(* p a b for every a that comes before b *)
Fixpoint all_later {A} (p : A -> A -> bool) (l : list A) : bool :=
  match l with
  | [] => true
  | a :: l' => forallb (p a) l' && all_later p l'
  end.

(* ---- ReadOnly ---- *)

Definition is_mutating_op (o : op) : bool :=
  match op_method o with Some m => negb (is_read_method m) | None => false end.

Fixpoint ro_events_ok (ops : list op) (obs : list oresult) (direct : list (option oresult)) : bool :=
  match ops, obs, direct with
  | [], [], [] => true
  | o :: ops', ob :: obs', d :: direct' =>
      (if is_mutating_op o then ores_eqb ob (OErr UNSUPPORTED)
       else if is_read_op o then match d with Some ob' => ores_eqb ob ob' | None => false end
       else match ob with OErr _ => true | _ => false end)      (* an operation on a writer nobody can hold *)
      && ro_events_ok ops' obs' direct'
  | _, _, _ => false
  end.

(* the calls that were seen to reach the registry behind the wrapper: all of them satisfy [p] *)
Definition traced_all (p : op -> bool) (c : case) : bool :=
  match c_trace c with
  | None => true
  | Some tr => forallb (forallb p) tr
  end.

Definition clause_readonly (c : case) : bool :=
  ro_events_ok (c_ops c) (c_obs c) (c_direct c)
  && list_eqb ores_eqb (c_before c) (c_after c)
  && traced_all is_read_op c.

(* ---- tags: once observed, forever ---- *)

Record tagobs := { to_repo : bytes; to_tag : bytes; to_digest : bytes; to_bytes : option bytes }.

(* what an event shows about a tag.  A successful tagged push shows the digest the tag
   resolves to; in immutable-tags mode also the bytes (the registry itself stored them). *)
Definition tag_obs (m : mech) (e : ev) : option tagobs :=
  match e with
  | (ResolveTag r t, OOk (RDesc de)) =>
      Some {| to_repo := r; to_tag := t; to_digest := d_digest de; to_bytes := None |}
  | (GetTag r t, OOk (RRead de data)) =>
      Some {| to_repo := r; to_tag := t; to_digest := d_digest de; to_bytes := Some data |}
  | (PushManifest r t content _, OOk (RDesc de)) =>
      match t with
      | [] => None
      | _ => Some {| to_repo := r; to_tag := t; to_digest := d_digest de;
                     to_bytes := match m with MImmTags => Some content | _ => None end |}
      end
  | _ => None
  end.

(* does a later event respect an earlier observation? *)
Definition respects (m : mech) (ob : tagobs) (e : ev) : bool :=
  match e with
  | (ResolveTag r t, res) =>
      if beqb r (to_repo ob) && beqb t (to_tag ob) then
        match res with
        | OOk (RDesc de) => beqb (d_digest de) (to_digest ob)
        | _ => false
        end
      else true
  | (GetTag r t, res) =>
      if beqb r (to_repo ob) && beqb t (to_tag ob) then
        match res with
        | OOk (RRead de data) =>
            beqb (d_digest de) (to_digest ob)
            && match to_bytes ob with Some b => beqb data b | None => true end
        | OErr _ =>
            (* the bytes were never seen and the mechanism is the wrapper, whose backend may hold a
               tag without its manifest: only then may the read fail *)
            match to_bytes ob, m with None, MImmutable => true | _, _ => false end
        | _ => false
        end
      else true
  | (PushManifest r (n :: t) content _, res) =>
      if beqb r (to_repo ob) && beqb (n :: t) (to_tag ob) then
        match res with
        | OOk (RDesc de) =>
            beqb (d_digest de) (to_digest ob)
            && match to_bytes ob, m with Some b, MImmTags => beqb content b | _, _ => true end
        | OErr _ => true
        | _ => false
        end
      else true
  | _ => true
  end.

Definition pair_ok (m : mech) (e1 e2 : ev) : bool :=
  match tag_obs m e1 with Some ob => respects m ob e2 | None => true end.

(* Tags a rival of the case pushes under (Immutable over a registry with a rival; otherwise
   none).  About those the wrapper's user is promised nothing: the rival's push may land after the
   wrapper has reported the tag - the wrapper is no lock on the registry.  Every other tag is
   promised everything. *)
Definition dist (c : case) : list (bytes * bytes) :=
  flat_map (fun x => match snd x with
                     | PushManifest r (n :: t) _ _ => [(r, n :: t)]
                     | _ => []
                     end) (c_rivals c).

Definition undisturbed (ds : list (bytes * bytes)) (r t : bytes) : bool :=
  negb (existsb (fun rt => beqb (fst rt) r && beqb (snd rt) t) ds).

Definition tag_obs_d (ds : list (bytes * bytes)) (m : mech) (e : ev) : option tagobs :=
  match tag_obs m e with
  | Some ob => if undisturbed ds (to_repo ob) (to_tag ob) then Some ob else None
  | None => None
  end.

Definition pair_by (tobs : ev -> option tagobs) (m : mech) (e1 e2 : ev) : bool :=
  match tobs e1 with Some ob => respects m ob e2 | None => true end.

Definition pair_ok_d (ds : list (bytes * bytes)) (m : mech) : ev -> ev -> bool :=
  pair_by (tag_obs_d ds m) m.

(* two events of different goroutines: whatever the order, they agree on the binding *)
Definition weak_ok (m : mech) (e1 e2 : ev) : bool :=
  match tag_obs m e1, tag_obs m e2 with
  | Some a, Some b =>
      if beqb (to_repo a) (to_repo b) && beqb (to_tag a) (to_tag b) then
        beqb (to_digest a) (to_digest b)
        && match to_bytes a, to_bytes b with Some x, Some y => beqb x y | _, _ => true end
      else true
  | _, _ => true
  end.

Fixpoint cross_weak (m : mech) (ths : list (list ev)) : bool :=
  match ths with
  | [] => true
  | th :: ths' =>
      forallb (fun a => forallb (fun th' => forallb (weak_ok m a) th') ths') th
      && cross_weak m ths'
  end.

(* the sequential part before the batch, and the probes after it *)
Definition prefix_events (c : case) : list ev :=
  (match c_mech c with MImmTags => combine (c_setup c) (c_setup_obs c) | _ => [] end)
  ++ combine (probe_ops c) (c_before c) ++ combine (c_ops c) (c_obs c).
Definition suffix_events (c : case) : list ev := combine (probe_ops c) (c_after c).

Definition clause_tags (c : case) : bool :=
  forallb (fun th => all_later (pair_ok_d (dist c) (c_mech c)) (prefix_events c ++ th ++ suffix_events c))
          (match c_threads c with [] => [[]] | ths => ths end)
  && cross_weak (c_mech c) (c_threads c).

(* ---- Immutable: every delete is refused ---- *)

Fixpoint deletes_denied (ops : list op) (obs : list oresult) : bool :=
  match ops, obs with
  | o :: ops', ob :: obs' =>
      (if is_delete_op o then ores_eqb ob (OErr DENIED) else true) && deletes_denied ops' obs'
  | _, _ => true
  end.

(* ---- Immutable: a tagged push that succeeds reports the digest of the pushed bytes ---- *)

(* (what the push shows its caller about the tag is the caller's own content, never somebody
   else's that happens to sit under the tag) *)
Definition push_digest_ok (hash : bytes -> bytes) (e : ev) : bool :=
  match e with
  | (PushManifest _ (_ :: _) content _, OOk (RDesc de)) => beqb (d_digest de) (hash content)
  | _ => true
  end.

(* ---- what was retrievable stays retrievable, with the same bytes ---- *)

Definition same_content (b a : oresult) : bool :=
  match b with
  | OOk (RRead de data) =>
      match a with
      | OOk (RRead de' data') => beqb (d_digest de) (d_digest de') && beqb data data'
      | _ => false
      end
  | OOk (RDesc de) =>
      match a with
      | OOk (RDesc de') => beqb (d_digest de) (d_digest de')
      | _ => false
      end
  | _ => true
  end.

Definition is_content_probe (o : op) : bool :=
  match o with
  | GetBlob _ _ | GetManifest _ _ | GetTag _ _ | ResolveBlob _ _ | ResolveManifest _ _
  | ResolveTag _ _ => true
  | _ => false
  end.

Definition is_tag_probe (o : op) : bool :=
  match o with GetTag _ _ | ResolveTag _ _ => true | _ => false end.

(* repository a probe asks in *)
Definition probe_repo (o : op) : bytes :=
  match o with
  | GetBlob r _ | GetManifest r _ | GetTag r _ => r
  | _ => []
  end.

(* is probe [o] a request for something the manifest (media, data) names? *)
Definition names_child (orc : oracles) (r media data : bytes) (o : op) : bool :=
  match manifest_refs (orc_img orc) (orc_idx orc) media data with
  | None => false
  | Some refs =>
      existsb (fun kd =>
        match fst kd, o with
        | KBlob, GetBlob r' d => beqb r' r && beqb d (d_digest (snd kd))
        | (KManifest | KSubject), GetManifest r' d => beqb r' r && beqb d (d_digest (snd kd))
        | _, _ => false
        end) refs
  end.

(* which probes are reached from a tag: a GetTag root, or a child justified by its parent's
   observed bytes (the parent comes earlier in the list) *)
Fixpoint justified_from (orc : oracles) (ps : list probe) (before : list oresult)
         (done : list (bool * (op * oresult))) : list bool :=
  match ps, before with
  | p :: ps', b :: before' =>
      let j :=
        match p_parent p with
        | None => match p_op p with GetTag _ _ => true | _ => false end
        | Some i =>
            match nth_error done (N.to_nat i) with
            | Some (true, (po, OOk (RRead pde pdata))) =>
                (match po with GetTag _ _ | GetManifest _ _ => true | _ => false end)
                && names_child orc (probe_repo po) (d_media pde) pdata (p_op p)
            | _ => false
            end
        end in
      j :: justified_from orc ps' before' (done ++ [(j, (p_op p, b))])
  | _, _ => []
  end.

Definition justified (c : case) : list bool := justified_from (c_orc c) (c_probes c) (c_before c) [].

Fixpoint keep3 (sel : list bool) (before after : list oresult) : bool :=
  match sel, before, after with
  | [], [], [] => true
  | s :: sel', b :: before', a :: after' =>
      (if s then same_content b a else true) && keep3 sel' before' after'
  | _, _, _ => false
  end.

(* a tag probe on a tag no rival pushes under; every other probe *)
Definition tag_undisturbed (ds : list (bytes * bytes)) (o : op) : bool :=
  match o with
  | GetTag r t | ResolveTag r t => undisturbed ds r t
  | _ => true
  end.

Definition clause_keep (c : case) : bool :=
  match c_mech c with
  | MReadOnly => true
  | MImmutable => keep3 (map (fun p => is_content_probe (p_op p) && tag_undisturbed (dist c) (p_op p)) (c_probes c))
                        (c_before c) (c_after c)
  | MImmTags => keep3 (map (fun pj => is_tag_probe (p_op (fst pj)) || snd pj)
                           (combine (c_probes c) (justified c))) (c_before c) (c_after c)
  end.

(* ---- immutable-tags mode: what a tagged manifest names directly is retrievable, in every
        snapshot ---- *)

(* is probe [o] a request for one of the references [refs] that the registry insists on when the
   manifest naming them is pushed: a layer, the config, an index entry (not the subject, which
   may dangle)? *)
Definition kid_probe (r : bytes) (refs : list (refkind * desc)) (o : op) : bool :=
  existsb (fun kd =>
    match fst kd, o with
    | KBlob, GetBlob r' d => beqb r' r && beqb d (d_digest (snd kd))
    | KManifest, GetManifest r' d => beqb r' r && beqb d (d_digest (snd kd))
    | _, _ => false
    end) refs.

Definition is_read_ok (ob : oresult) : bool :=
  match ob with OOk (RRead _ _) => true | _ => false end.

(* in one snapshot: whenever a tag answers with a manifest, every probe of the snapshot that asks
   for a direct reference of that manifest is answered with content.  Unlike [clause_keep] this
   does not need the reference to have been seen earlier: it covers tags bound during the history
   and during the concurrent batch (a delete that raced a tagged push and won after the push had
   been let through leaves exactly such a hole). *)
Definition closed_snapshot (orc : oracles) (ps : list op) (obs : list oresult) : bool :=
  let evs := combine ps obs in
  forallb (fun e : ev =>
    match e with
    | (GetTag r _, OOk (RRead de data)) =>
        match manifest_refs (orc_img orc) (orc_idx orc) (d_media de) data with
        | None => true
        | Some refs => forallb (fun e' : ev => implb (kid_probe r refs (fst e')) (is_read_ok (snd e'))) evs
        end
    | _ => true
    end) evs.

Definition clause_closed (c : case) : bool :=
  closed_snapshot (c_orc c) (probe_ops c) (c_before c)
  && closed_snapshot (c_orc c) (probe_ops c) (c_after c).

(* ---- retrievable means: the content of that digest ---- *)

(* a digest-addressed read of a snapshot that succeeds hands out a descriptor with the digest
   asked for, and bytes that hash to it *)
Definition faithful (orc : oracles) (e : ev) : bool :=
  match e with
  | (GetBlob _ d, OOk (RRead de data)) | (GetManifest _ d, OOk (RRead de data)) =>
      beqb (d_digest de) d && beqb (hash14 orc data) d
  | _ => true
  end.

Definition clause_faithful (c : case) : bool :=
  forallb (faithful (c_orc c)) (combine (probe_ops c) (c_before c))
  && forallb (faithful (c_orc c)) (combine (probe_ops c) (c_after c)).

(* ... and at every moment of the history, not only in the two snapshots: whatever was pushed,
   committed or mounted under a digest in the meantime (nothing, a truncated copy, something
   else), a read by digest that succeeds - the user's own through the mechanism, any goroutine's,
   in immutable-tags mode also the ones of the setup - hands out bytes of that digest *)
Definition history_events (c : case) : list ev :=
  (match c_mech c with MImmTags => combine (c_setup c) (c_setup_obs c) | _ => [] end)
  ++ combine (c_ops c) (c_obs c) ++ concat (c_threads c).

Definition clause_reads (c : case) : bool := forallb (faithful (c_orc c)) (history_events c).

Definition obs_ok (c : case) : bool :=
  match c_mech c with
  | MReadOnly => clause_readonly c
  | MImmutable => clause_tags c && deletes_denied (c_ops c) (c_obs c) && clause_keep c
                  && traced_all (fun o => negb (is_delete_op o)) c && clause_faithful c
                  && forallb (push_digest_ok (hash14 (c_orc c))) (combine (c_ops c) (c_obs c))
                  && clause_reads c
  | MImmTags => clause_tags c && clause_keep c && clause_closed c && clause_faithful c && clause_reads c
  end.

(* ---- non-trivial: the case attempts the change the mechanism must prevent ---- *)

Definition attempts_change (ob : tagobs) (e : ev) : bool :=
  match fst e with
  | PushManifest r t _ _ | DeleteTag r t => beqb r (to_repo ob) && beqb t (to_tag ob)
  | DeleteManifest r d => beqb r (to_repo ob) && beqb d (to_digest ob)
  | _ => false
  end.

Fixpoint some_later {A} (p : A -> A -> bool) (l : list A) : bool :=
  match l with
  | [] => false
  | a :: l' => existsb (p a) l' || some_later p l'
  end.

Definition probe_target (o : op) : option (bytes * bytes) :=
  match o with GetBlob r d | GetManifest r d => Some (r, d) | _ => None end.

Definition nontrivial (c : case) : bool :=
  match c_mech c with
  | MReadOnly => existsb is_mutating_op (c_ops c)
  | m =>
      let evs := prefix_events c ++ concat (c_threads c) in
      some_later (fun e1 e2 => match tag_obs m e1 with Some ob => attempts_change ob e2 | None => false end) evs
      || existsb (fun pj =>
           snd pj && match probe_target (p_op (fst pj)) with
                     | Some (r, d) =>
                         existsb (fun o => match o with
                                           | DeleteBlob r' d' | DeleteManifest r' d' => beqb r r' && beqb d d'
                                           (* something is pushed, mounted or committed under that digest *)
                                           | PushBlob r' de _ => beqb r r' && beqb d (d_digest de)
                                           | MountBlob _ r' d' => beqb r r' && beqb d d'
                                           | WCommit _ d' => beqb d d'
                                           | _ => false end)
                                 (c_ops c ++ map fst (concat (c_threads c)))
                     | None => false
                     end) (combine (c_probes c) (justified c))
  end.

Definition mismatches (cs : list case) : list (N * bool) :=
  bad_from 0 (fun c => if model_agrees c then None else Some (obs_ok c)) cs.
Definition bad_obs (cs : list case) : list (N * bool) :=
  bad_from 0 (fun c => if obs_ok c then None else Some (model_agrees c)) cs.

(* diagnostics *)
Definition where_bad (c : case) :=
  let under := under_step c in
  let '(s1, rs) := run under init (c_setup c) in
  let '(s2, ro) := run (mech_step c) s1 (c_ops c) in
  (orc_wf (c_orc c), first_bad 0 (c_setup_obs c) rs,
   first_bad 0 (c_before c) (snd (run under s1 (probe_ops c))),
   first_bad 0 (c_obs c) ro,
   first_bad 0 (c_after c) (snd (run under s2 (probe_ops c)))).

Definition where_bad_imm (c : case) :=
  let under := under_step c in
  let '(s1, rs) := run under init (c_setup c) in
  let '(s2, rt) := trun (imm_rival c) (s1, 0%N) (c_ops c) in
  (orc_wf (c_orc c), first_bad 0 (c_setup_obs c) rs,
   first_bad 0 (c_before c) (snd (run under s1 (probe_ops c))),
   first_bad 0 (c_obs c) (map fst rt), trace_agrees (c_trace c) (map snd rt),
   first_bad 0 (c_after c) (snd (run under (fst s2) (probe_ops c)))).

From Coq Require Import Lia.
From OCI Require Import Proofs.MemBasics Proofs.MemInv Proofs.MemImmutable Proofs.MemTagKids Proofs.FilterSelect
  Proofs.Immutable Proofs.ImmutableMem.
(* ------------------------------------------------------------------------------------ *)
(* corr_sound                                                                           *)
(* ------------------------------------------------------------------------------------ *)

(* ---- the observation vocabulary ---- *)

Lemma mres_eqb_eq a b : MemObs.res_eqb a b = true -> a = b.
Proof.
  destruct a, b; cbn; try discriminate; intros H.
  - apply desc_eqb_eq in H. now subst.
  - apply andb_true_iff in H as [H1 H2]. apply desc_eqb_eq in H1. apply beqb_eq in H2. now subst.
  - apply N.eqb_eq in H. now subst.
  - apply Z.eqb_eq in H. now subst.
  - apply beqb_eq in H. now subst.
  - reflexivity.
Qed.

Lemma opt_ecode_eq a b : option_eqb ecode_eqb a b = true -> a = b.
Proof. apply (option_eqb_eq ecode_eqb ecode_eqb_eq). Qed.

(* the model result determines the observation *)
Lemma agrees_inj a b m : agrees a m = true -> agrees b m = true -> a = b.
Proof.
  destruct m as [r|e| |].
  - destruct a as [ra|la ea|la ea|ca|]; cbn; try discriminate;
      destruct b as [rb|lb eb|lb eb|cb|]; cbn; try discriminate.
    + intros H1 H2. apply mres_eqb_eq in H1, H2. congruence.
    + intros H1 H2. destruct ra, r; cbn in *; discriminate.
    + intros H1 H2. destruct ra, r; cbn in *; discriminate.
    + intros H1 H2. destruct rb, r; cbn in *; discriminate.
    + destruct r; try discriminate. intros H1 H2.
      apply andb_true_iff in H1 as [H1 H1'], H2 as [H2 H2'].
      apply (list_eqb_eq beqb beqb_eq) in H1, H2. apply opt_ecode_eq in H1', H2'. congruence.
    + intros H1 H2. destruct r; cbn in *; discriminate.
    + intros H1 H2. destruct rb, r; cbn in *; discriminate.
    + intros H1 H2. destruct r; cbn in *; discriminate.
    + destruct r; try discriminate. intros H1 H2.
      apply andb_true_iff in H1 as [H1 H1'], H2 as [H2 H2'].
      apply (list_eqb_eq desc_eqb desc_eqb_eq) in H1, H2. apply opt_ecode_eq in H1', H2'. congruence.
  - destruct a; cbn; try discriminate; destruct b; cbn; try discriminate.
    intros H1 H2. apply ecode_eqb_eq in H1, H2. congruence.
  - destruct a; cbn; try discriminate; destruct b; cbn; try discriminate. reflexivity.
  - destruct a; discriminate.
Qed.

Lemma ores_eqb_refl a m : agrees a m = true -> ores_eqb a a = true.
Proof.
  intros Ha. destruct a as [r|l e|l e|c|]; cbn.
  - destruct m as [r'| | |]; try discriminate. cbn in Ha.
    destruct r; cbn in *; rewrite ?desc_eqb_refl, ?beqb_refl, ?N.eqb_refl, ?Z.eqb_refl; try reflexivity;
      destruct r'; discriminate.
  - apply andb_true_iff. split; [now apply (list_eqb_eq beqb beqb_eq) | now apply (option_eqb_eq ecode_eqb ecode_eqb_eq)].
  - apply andb_true_iff. split; [now apply (list_eqb_eq desc_eqb desc_eqb_eq) | now apply (option_eqb_eq ecode_eqb ecode_eqb_eq)].
  - now apply ecode_eqb_eq.
  - reflexivity.
Qed.

Lemma agrees_model_desc ob de : agrees ob (Ok (RDesc de)) = true -> ob = OOk (RDesc de).
Proof. intros H. apply (agrees_inj _ _ _ H). cbn. apply desc_eqb_refl. Qed.
Lemma agrees_model_read ob de data : agrees ob (Ok (RRead de data)) = true -> ob = OOk (RRead de data).
Proof. intros H. apply (agrees_inj _ _ _ H). cbn. now rewrite desc_eqb_refl, beqb_refl. Qed.
Lemma agrees_model_err ob e : agrees ob (Err e) = true -> ob = OErr (e_code e).
Proof. intros H. apply (agrees_inj _ _ _ H). cbn. now apply ecode_eqb_eq. Qed.
Lemma agrees_obs_ok r m : agrees (OOk r) m = true -> m = Ok r.
Proof. destruct m; cbn; try discriminate. intros H. apply mres_eqb_eq in H. now subst. Qed.
Lemma agrees_obs_err c m : agrees (OErr c) m = true -> exists e, m = Err e.
Proof. destruct m; cbn; try discriminate. eauto. Qed.

Lemma agrees_all_length obs ms : agrees_all obs ms = true -> length obs = length ms.
Proof.
  revert ms; induction obs as [|o obs IH]; intros [|m ms]; cbn; try discriminate; [reflexivity|].
  intros H. apply andb_true_iff in H as [_ H]. f_equal. now apply IH.
Qed.

Lemma agrees_all_app o1 o2 m1 m2 :
  length o1 = length m1 ->
  agrees_all (o1 ++ o2) (m1 ++ m2) = agrees_all o1 m1 && agrees_all o2 m2.
Proof.
  revert m1; induction o1 as [|o o1 IH]; intros [|m m1]; cbn; try discriminate; [reflexivity|].
  intros H. injection H as H. rewrite IH by exact H. now rewrite andb_assoc.
Qed.

Lemma agrees_all_same a b ms :
  agrees_all a ms = true -> agrees_all b ms = true -> list_eqb ores_eqb a b = true.
Proof.
  revert a b; induction ms as [|m ms IH]; intros [|x a] [|y b]; cbn; try discriminate; [reflexivity|].
  intros H1 H2. apply andb_true_iff in H1 as [H1 H1'], H2 as [H2 H2'].
  rewrite (agrees_inj _ _ _ H1 H2), (ores_eqb_refl _ _ H2). cbn. now apply IH.
Qed.

Lemma agrees_all_nth obs ms i ob :
  agrees_all obs ms = true -> nth_error obs i = Some ob ->
  exists m, nth_error ms i = Some m /\ agrees ob m = true.
Proof.
  revert ms i; induction obs as [|o obs IH]; intros [|m ms] [|i]; cbn; try discriminate.
  - intros H E. injection E as ->. apply andb_true_iff in H as [H _]. eauto.
  - intros H E. apply andb_true_iff in H as [_ H]. eauto.
Qed.

(* ---- runs ---- *)

Lemma run_app {St} (step : registry St) s h1 h2 :
  run step s (h1 ++ h2) =
  let '(s1, r1) := run step s h1 in let '(s2, r2) := run step s1 h2 in (s2, r1 ++ r2).
Proof.
  revert s; induction h1 as [|o h1 IH]; intros s; cbn.
  - now destruct (run step s h2).
  - destruct (step s o) as [s1 r]. rewrite IH. destruct (run step s1 h1) as [s2 r1].
    now destruct (run step s2 h2).
Qed.

Lemma run_length {St} (step : registry St) h : forall s, length (snd (run step s h)) = length h.
Proof.
  induction h as [|o h IH]; intros s; cbn; [reflexivity|].
  destruct (step s o) as [s1 r]. specialize (IH s1). destruct (run step s1 h). cbn in *. now rewrite IH.
Qed.

Lemma run_fst_final {St} (step : registry St) s h : fst (run step s h) = final step s h.
Proof. reflexivity. Qed.

(* two step functions that agree on every operation of a list run it alike *)
Lemma run_ext {St} (f g : registry St) h : forall s,
  (forall s o, In o h -> f s o = g s o) -> run f s h = run g s h.
Proof.
  induction h as [|o h IH]; intros s H; cbn; [reflexivity|].
  rewrite (H s o (or_introl eq_refl)). destruct (g s o) as [s1 r]. rewrite IH; [reflexivity|].
  intros s' o' Hin. apply H. now right.
Qed.

(* a list of state-preserving operations leaves the state alone *)
Lemma run_pure {St} (f : registry St) h : forall s,
  (forall s o, In o h -> fst (f s o) = s) -> fst (run f s h) = s.
Proof.
  induction h as [|o h IH]; intros s H; cbn; [reflexivity|].
  pose proof (H s o (or_introl eq_refl)) as H1. destruct (f s o) as [s1 r]. cbn in H1. subst s1.
  specialize (IH s (fun s' o' Hin => H s' o' (or_intror Hin))).
  destruct (run f s h). exact IH.
Qed.

(* ---- all_later, subsequences, interleavings ---- *)

Lemma all_later_spec {A} (p : A -> A -> bool) l :
  all_later p l = true <-> ForallOrdPairs (fun a b => p a b = true) l.
Proof.
  induction l as [|a l IH]; cbn.
  - split; [constructor | reflexivity].
  - rewrite andb_true_iff, forallb_forall, IH. split.
    + intros [H1 H2]. constructor; [apply Forall_forall; exact H1 | exact H2].
    + intros H. inversion H; subst. split; [apply Forall_forall; assumption | assumption].
Qed.

Inductive subseq {A} : list A -> list A -> Prop :=
| ss_nil : subseq [] []
| ss_skip a l' l : subseq l' l -> subseq l' (a :: l)
| ss_take a l' l : subseq l' l -> subseq (a :: l') (a :: l).

Lemma subseq_refl {A} (l : list A) : subseq l l.
Proof. induction l; [apply ss_nil | now apply ss_take]. Qed.
Lemma subseq_nil {A} (l : list A) : subseq [] l.
Proof. induction l; [apply ss_nil | now apply ss_skip]. Qed.
Lemma subseq_In {A} (l' l : list A) a : subseq l' l -> In a l' -> In a l.
Proof. induction 1; cbn; intuition. Qed.
Lemma subseq_app {A} (a a' b b' : list A) : subseq a' a -> subseq b' b -> subseq (a' ++ b') (a ++ b).
Proof.
  induction 1; cbn; intros Hb; [exact Hb | apply ss_skip; auto | apply ss_take; auto].
Qed.

Lemma FOP_subseq {A} (R : A -> A -> Prop) l' l :
  subseq l' l -> ForallOrdPairs R l -> ForallOrdPairs R l'.
Proof.
  induction 1 as [|a l' l Hs IH|a l' l Hs IH]; intros H; [constructor| |].
  - inversion H; subst. auto.
  - inversion H; subst. constructor; [|auto].
    apply Forall_forall. intros x Hx. eapply Forall_forall; [eassumption|]. eapply subseq_In; eauto.
Qed.

Lemma all_later_subseq {A} (p : A -> A -> bool) l' l :
  subseq l' l -> all_later p l = true -> all_later p l' = true.
Proof. rewrite !all_later_spec. apply FOP_subseq. Qed.

(* an interleaving of threads: repeatedly take the head of some thread *)
Inductive interleave {A} : list (list A) -> list A -> Prop :=
| il_done ths : forallb is_nil ths = true -> interleave ths []
| il_take ths i a th m :
    nth i ths [] = a :: th -> interleave (replace_nth i th ths) m -> interleave ths (a :: m).

Lemma nth_replace_nth {A} i j (a : list A) l :
  nth j (replace_nth i a l) [] = if Nat.eqb j i then (if Nat.ltb i (length l) then a else []) else nth j l [].
Proof.
  revert i j; induction l as [|b l IH]; intros [|i] [|j]; cbn [replace_nth nth length Nat.eqb];
    try reflexivity; try (now destruct j); try (now destruct (Nat.eqb j i)).
  rewrite IH. reflexivity.
Qed.

Lemma nth_nonnil_lt {A} i (l : list (list A)) a th : nth i l [] = a :: th -> (i < length l)%nat.
Proof.
  intros H. destruct (Nat.lt_ge_cases i (length l)) as [Hl|Hg]; [exact Hl|].
  rewrite nth_overflow in H by exact Hg. discriminate.
Qed.

Lemma interleave_In {A} (ths : list (list A)) m :
  interleave ths m -> forall j x, In x (nth j ths []) -> In x m.
Proof.
  induction 1 as [ths Hn | ths i a th m Hi Hil IH]; intros j x Hx.
  - rewrite forallb_forall in Hn.
    destruct (Nat.lt_ge_cases j (length ths)) as [Hl|Hg].
    + specialize (Hn (nth j ths []) (nth_In _ _ Hl)). destruct (nth j ths []); [destruct Hx | discriminate].
    + rewrite nth_overflow in Hx by exact Hg. destruct Hx.
  - pose proof (nth_nonnil_lt _ _ _ _ Hi) as Hlt.
    destruct (Nat.eqb j i) eqn:E.
    + apply Nat.eqb_eq in E. subst j. rewrite Hi in Hx. destruct Hx as [->|Hx]; [now left|].
      right. apply (IH i). rewrite nth_replace_nth, Nat.eqb_refl.
      apply Nat.ltb_lt in Hlt. now rewrite Hlt.
    + right. apply (IH j). now rewrite nth_replace_nth, E.
Qed.

(* each thread is a subsequence of the interleaving *)
Lemma interleave_subseq {A} (ths : list (list A)) m :
  interleave ths m -> forall j, subseq (nth j ths []) m.
Proof.
  induction 1 as [ths Hn | ths i a th m Hi Hil IH]; intros j.
  - rewrite forallb_forall in Hn.
    destruct (Nat.lt_ge_cases j (length ths)) as [Hl|Hg].
    + specialize (Hn (nth j ths []) (nth_In _ _ Hl)). destruct (nth j ths []); [constructor | discriminate].
    + rewrite nth_overflow by exact Hg. constructor.
  - pose proof (nth_nonnil_lt _ _ _ _ Hi) as Hlt. specialize (IH j).
    rewrite nth_replace_nth in IH. destruct (Nat.eqb j i) eqn:E.
    + apply Nat.eqb_eq in E. subst j. rewrite Hi. apply Nat.ltb_lt in Hlt. rewrite Hlt in IH.
      now constructor.
    + now constructor.
Qed.

(* two events of different threads are ordered one way or the other *)
Lemma interleave_cross {A} (p : A -> A -> bool) (ths : list (list A)) m :
  interleave ths m -> all_later p m = true ->
  forall i j, i <> j -> forall a b, In a (nth i ths []) -> In b (nth j ths []) ->
  p a b = true \/ p b a = true.
Proof.
  induction 1 as [ths Hn | ths k e th m Hk Hil IH]; intros Hal i j Hij a b Ha Hb.
  - exfalso. eapply (interleave_In ths []); [now constructor | exact Ha].
  - cbn in Hal. apply andb_true_iff in Hal as [Hhead Hrest]. rewrite forallb_forall in Hhead.
    pose proof (nth_nonnil_lt _ _ _ _ Hk) as Hlt. apply Nat.ltb_lt in Hlt.
    assert (Hin : forall q x, q <> k -> In x (nth q ths []) -> In x m).
    { intros q x Hq Hx. apply (interleave_In _ _ Hil q). rewrite nth_replace_nth.
      apply Nat.eqb_neq in Hq. now rewrite Hq. }
    assert (Hin' : forall x, In x th -> In x m).
    { intros x Hx. apply (interleave_In _ _ Hil k). now rewrite nth_replace_nth, Nat.eqb_refl, Hlt. }
    destruct (Nat.eq_dec i k) as [->|Hik].
    + rewrite Hk in Ha. destruct Ha as [<-|Ha].
      * left. apply Hhead. apply (Hin j b); auto.
      * apply (IH Hrest k j Hij a b).
        -- now rewrite nth_replace_nth, Nat.eqb_refl, Hlt.
        -- rewrite nth_replace_nth. apply Nat.neq_sym, Nat.eqb_neq in Hij. now rewrite Hij.
    + destruct (Nat.eq_dec j k) as [->|Hjk].
      * rewrite Hk in Hb. destruct Hb as [<-|Hb].
        -- right. apply Hhead. apply (Hin i a); auto.
        -- apply (IH Hrest i k Hij a b).
           ++ rewrite nth_replace_nth. apply Nat.eqb_neq in Hik. now rewrite Hik.
           ++ now rewrite nth_replace_nth, Nat.eqb_refl, Hlt.
      * apply (IH Hrest i j Hij a b); rewrite nth_replace_nth.
        -- apply Nat.eqb_neq in Hik. now rewrite Hik.
        -- apply Nat.eqb_neq in Hjk. now rewrite Hjk.
Qed.

(* ---- the search for a linearization is sound ---- *)

Lemma lin_sound (step : registry state) k fuel : forall ths st,
  lin_search step fuel ths st k = true ->
  exists m, interleave ths m /\
            agrees_all (map snd m) (snd (run step st (map fst m))) = true /\
            k (final step st (map fst m)) = true.
Proof.
  induction fuel as [|f IH]; intros ths st H; cbn [lin_search] in H.
  - destruct (forallb is_nil ths) eqn:En; [|discriminate].
    exists []. split; [now constructor|]. split; [reflexivity | exact H].
  - destruct (forallb is_nil ths) eqn:En.
    { exists []. split; [now constructor|]. split; [reflexivity | exact H]. }
    rewrite existsb_lazy_eq in H. apply existsb_exists in H as [i [_ Hi]].
    destruct (nth i ths []) as [|[o ob] th] eqn:Eth; [discriminate|].
    destruct (step st o) as [st' r] eqn:Es.
    destruct (agrees ob r) eqn:Hag; [|discriminate]. rename Hi into Hrec.
    destruct (IH _ _ Hrec) as [m [Hil [Hall Hk]]].
    exists ((o, ob) :: m). split; [eapply il_take; eauto|].
    cbn [map fst snd run]. rewrite Es. rewrite final_cons, Es. cbn [fst].
    destruct (run step st' (map fst m)) as [s2 rs] eqn:Er. cbn [snd agrees_all] in *.
    split; [now rewrite Hag | exact Hk].
Qed.

(* ---- the generic argument: an observation establishes a fact that every later step keeps and
        that dictates the answer to every later query ---- *)

Section AllLater.
  Variable St : Type.
  Variable stepf : registry St.
  Variable Good : St -> Prop.
  Variable m : mech.
  Variable holds : St -> tagobs -> Prop.
  Hypothesis good_step : forall st o, Good st -> Good (fst (stepf st o)).
  Hypothesis holds_step : forall st o ob, Good st -> holds st ob -> holds (fst (stepf st o)) ob.
  Hypothesis establishes : forall st o obs ob,
    Good st -> agrees obs (snd (stepf st o)) = true -> tag_obs m (o, obs) = Some ob ->
    holds (fst (stepf st o)) ob.
  Hypothesis answers : forall st o obs ob,
    Good st -> holds st ob -> agrees obs (snd (stepf st o)) = true -> respects m ob (o, obs) = true.

  Lemma holds_answers_all ob : forall ops obs st,
    Good st -> holds st ob -> agrees_all obs (snd (run stepf st ops)) = true ->
    forallb (respects m ob) (combine ops obs) = true.
  Proof.
    induction ops as [|o ops IH]; intros obs st HG HH Hag; [reflexivity|].
    destruct obs as [|x obs]; [reflexivity|]. cbn [run] in Hag.
    pose proof (good_step st o HG) as HG'. pose proof (holds_step st o ob HG HH) as HH'.
    pose proof (answers st o x ob HG HH) as Han.
    destruct (stepf st o) as [s1 r]. cbn [fst snd] in *.
    destruct (run stepf s1 ops) as [s2 rs] eqn:Er. cbn [snd agrees_all] in Hag.
    apply andb_true_iff in Hag as [H1 H2]. cbn [combine forallb].
    rewrite (Han H1). cbn. apply (IH obs s1 HG' HH'). now rewrite Er.
  Qed.

  Theorem all_later_ok : forall ops obs st,
    Good st -> agrees_all obs (snd (run stepf st ops)) = true ->
    all_later (pair_ok m) (combine ops obs) = true.
  Proof.
    induction ops as [|o ops IH]; intros obs st HG Hag; [reflexivity|].
    destruct obs as [|x obs]; [reflexivity|]. cbn [run] in Hag.
    pose proof (good_step st o HG) as HG'.
    pose proof (establishes st o x) as Hes.
    destruct (stepf st o) as [s1 r]. cbn [fst snd] in *.
    destruct (run stepf s1 ops) as [s2 rs] eqn:Er. cbn [snd agrees_all] in Hag.
    apply andb_true_iff in Hag as [H1 H2]. cbn [combine all_later].
    apply andb_true_iff. split.
    - unfold pair_ok at 1. destruct (tag_obs m (o, x)) as [ob|] eqn:Eo.
      + apply (holds_answers_all ob ops obs s1 HG' (Hes ob HG H1 eq_refl)). now rewrite Er.
      + apply forallb_forall. reflexivity.
    - apply (IH obs s1 HG'). now rewrite Er.
  Qed.
End AllLater.

(* the same for a history whose operations go through one of several doors to the same state
   (the wrapper, or the registry directly), and for any way [tobs] of reading an observation off
   an event *)
Fixpoint runk {St K} (stepk : K -> registry St) (s : St) (h : list (K * op)) : St * list result :=
  match h with
  | [] => (s, [])
  | (k, o) :: h' => let '(s1, r) := stepk k s o in
                    let '(s2, rs) := runk stepk s1 h' in (s2, r :: rs)
  end.

Lemma runk_app {St K} (stepk : K -> registry St) s h1 h2 :
  runk stepk s (h1 ++ h2) =
  let '(s1, r1) := runk stepk s h1 in let '(s2, r2) := runk stepk s1 h2 in (s2, r1 ++ r2).
Proof.
  revert s; induction h1 as [|[k o] h1 IH]; intros s; cbn.
  - now destruct (runk stepk s h2).
  - destruct (stepk k s o) as [s1 r]. rewrite IH. destruct (runk stepk s1 h1) as [s2 r1].
    now destruct (runk stepk s2 h2).
Qed.

Lemma runk_snd_app {St K} (stepk : K -> registry St) s h1 h2 :
  snd (runk stepk s (h1 ++ h2)) = snd (runk stepk s h1) ++ snd (runk stepk (fst (runk stepk s h1)) h2).
Proof.
  rewrite runk_app. destruct (runk stepk s h1) as [s1 r1]. cbn [fst snd].
  now destruct (runk stepk s1 h2).
Qed.

Lemma runk_map {St K} (stepk : K -> registry St) k h : forall s,
  runk stepk s (map (pair k) h) = run (stepk k) s h.
Proof.
  induction h as [|o h IH]; intros s; cbn; [reflexivity|].
  destruct (stepk k s o) as [s1 r]. now rewrite IH.
Qed.

Section AllLaterK.
  Variables St K : Type.
  Variable stepk : K -> registry St.
  Variable Good : St -> Prop.
  Variable m : mech.
  Variable tobs : ev -> option tagobs.
  Variable holds : St -> tagobs -> Prop.
  Hypothesis good_step : forall k st o, Good st -> Good (fst (stepk k st o)).
  Hypothesis holds_step : forall k st o ob, Good st -> holds st ob -> holds (fst (stepk k st o)) ob.
  Hypothesis establishes : forall k st o obs ob,
    Good st -> agrees obs (snd (stepk k st o)) = true -> tobs (o, obs) = Some ob ->
    holds (fst (stepk k st o)) ob.
  Hypothesis answers : forall k st o obs ob,
    Good st -> holds st ob -> agrees obs (snd (stepk k st o)) = true -> respects m ob (o, obs) = true.

  Lemma holds_answers_allk ob : forall ops obs st,
    Good st -> holds st ob -> agrees_all obs (snd (runk stepk st ops)) = true ->
    forallb (respects m ob) (combine (map snd ops) obs) = true.
  Proof.
    induction ops as [|[k o] ops IH]; intros obs st HG HH Hag; [reflexivity|].
    destruct obs as [|x obs]; [reflexivity|]. cbn [runk] in Hag.
    pose proof (good_step k st o HG) as HG'. pose proof (holds_step k st o ob HG HH) as HH'.
    pose proof (answers k st o x ob HG HH) as Han.
    destruct (stepk k st o) as [s1 r]. cbn [fst snd] in *.
    destruct (runk stepk s1 ops) as [s2 rs] eqn:Er. cbn [snd agrees_all] in Hag.
    apply andb_true_iff in Hag as [H1 H2]. cbn [map snd combine forallb].
    rewrite (Han H1). cbn. apply (IH obs s1 HG' HH'). now rewrite Er.
  Qed.

  Theorem all_later_okk : forall ops obs st,
    Good st -> agrees_all obs (snd (runk stepk st ops)) = true ->
    all_later (pair_by tobs m) (combine (map snd ops) obs) = true.
  Proof.
    induction ops as [|[k o] ops IH]; intros obs st HG Hag; [reflexivity|].
    destruct obs as [|x obs]; [reflexivity|]. cbn [runk] in Hag.
    pose proof (good_step k st o HG) as HG'.
    pose proof (establishes k st o x) as Hes.
    destruct (stepk k st o) as [s1 r]. cbn [fst snd] in *.
    destruct (runk stepk s1 ops) as [s2 rs] eqn:Er. cbn [snd agrees_all] in Hag.
    apply andb_true_iff in Hag as [H1 H2]. cbn [map snd combine all_later].
    apply andb_true_iff. split.
    - unfold pair_by at 1. destruct (tobs (o, x)) as [ob|] eqn:Eo.
      + apply (holds_answers_allk ob ops obs s1 HG' (Hes ob HG H1 eq_refl)). now rewrite Er.
      + apply forallb_forall. reflexivity.
    - apply (IH obs s1 HG'). now rewrite Er.
  Qed.
End AllLaterK.

(* ---- the hash of a well-formed table is injective ---- *)

Lemma hash14_inj o : orc_wf o = true -> forall a b, hash14 o a = hash14 o b -> a = b.
Proof.
  intros Hwf a b. unfold hash14, orc_wf in *. rewrite forallb_forall in Hwf.
  destruct (alookup a (o_hash o)) as [da|] eqn:Ea; destruct (alookup b (o_hash o)) as [db|] eqn:Eb.
  - intros ->. apply alookup_In in Ea, Eb. specialize (Hwf _ Ea).
    apply andb_true_iff in Hwf as [Hwf _]. rewrite forallb_forall in Hwf. specialize (Hwf _ Eb).
    cbn in Hwf. rewrite beqb_refl in Hwf. cbn in Hwf. now apply beqb_eq.
  - intros ->. apply alookup_In in Ea. specialize (Hwf _ Ea). apply andb_true_iff in Hwf as [_ Hwf].
    cbn in Hwf. discriminate.
  - intros <-. apply alookup_In in Eb. specialize (Hwf _ Eb). apply andb_true_iff in Hwf as [_ Hwf].
    cbn in Hwf. discriminate.
  - intros H. now injection H.
Qed.

(* ---- tag bindings in the in-memory registry ---- *)

Section Bound.
  Variable o : oracles.
  Variable imm : bool.
  Hypothesis Hwf : orc_wf o = true.

  Local Notation mstep := (mem14 o imm).
  Local Notation InvO := (Inv (hash14 o) (orc_img o) (orc_idx o)).
  Local Notation bdesc := (blob_desc (hash14 o)).

  Definition holds (st : state) (ob : tagobs) : Prop :=
    exists tde, itag st (to_repo ob) (to_tag ob) = Some tde /\ d_digest tde = to_digest ob /\
      match to_bytes ob with
      | Some b => exists bl, iman st (to_repo ob) (to_digest ob) = Some bl /\ b_data bl = b
      | None => True
      end.

  Lemma resolve_obs st r t de :
    agrees (OOk (RDesc de)) (snd (mstep st (ResolveTag r t))) = true -> itag st r t = Some de.
  Proof.
    intros H. apply agrees_obs_ok in H. unfold mem14 in H. rewrite resolve_tag_res in H.
    destruct (itag st r t); [now injection H as -> | discriminate].
  Qed.

  Lemma gettag_obs st r t de data :
    agrees (OOk (RRead de data)) (snd (mstep st (GetTag r t))) = true ->
    exists tde bl, itag st r t = Some tde /\ iman st r (d_digest tde) = Some bl /\
                   de = bdesc bl /\ data = b_data bl.
  Proof.
    intros H. apply agrees_obs_ok in H. unfold mem14 in H. rewrite get_tag_res in H.
    destruct (itag st r t) as [tde|]; [|discriminate].
    destruct (iman st r (d_digest tde)) as [bl|] eqn:E; [|discriminate].
    injection H as <- <-. exists tde, bl. repeat split. exact E.
  Qed.

  Lemma mstep_read_state st op : mem_read op = true -> fst (mstep st op) = st.
  Proof. apply read_pure. Qed.

  (* what a bound tag answers to the two reads *)
  Lemma bound_resolve st r t tde ob :
    itag st r t = Some tde -> agrees ob (snd (mstep st (ResolveTag r t))) = true -> ob = OOk (RDesc tde).
  Proof.
    intros Ht H. unfold mem14 in H. rewrite resolve_tag_res, Ht in H. now apply agrees_model_desc.
  Qed.

  Lemma bound_gettag st r t tde ob :
    InvO st -> itag st r t = Some tde -> agrees ob (snd (mstep st (GetTag r t))) = true ->
    match iman st r (d_digest tde) with
    | Some bl => ob = OOk (RRead (bdesc bl) (b_data bl)) /\ d_digest (bdesc bl) = d_digest tde
    | None => exists c, ob = OErr c
    end.
  Proof.
    intros HI Ht H. unfold mem14 in H. rewrite get_tag_res, Ht in H.
    destruct (iman st r (d_digest tde)) as [bl|] eqn:E.
    - split; [now apply agrees_model_read|]. cbn. exact (proj1 (inv_iman _ _ _ _ _ _ _ HI E)).
    - apply agrees_model_err in H. eauto.
  Qed.
End Bound.

(* ---- immutable-tags mode ---- *)

Section ImmTagsCorr.
  Variable o : oracles.
  Hypothesis Hwf : orc_wf o = true.

  Local Notation mstep := (mem14 o true).
  Local Notation InvO := (Inv (hash14 o) (orc_img o) (orc_idx o)).
  Local Notation bdesc := (blob_desc (hash14 o)).
  Local Notation cfgT := {| immutable_tags := true |}.

  Definition good_t (st : state) : Prop := InvO st /\ forall r, tagman (repo_of st r).

  Lemma good_t_init : good_t init.
  Proof. split; [apply inv_init | apply tagman_init]. Qed.

  Lemma good_t_step st op : good_t st -> good_t (fst (mstep st op)).
  Proof.
    intros [HI HT]. split; [now apply inv_step|]. intros r.
    apply (step_tagman (hash14 o) (orc_vd o) (orc_vr o) (orc_vt o) (orc_img o) (orc_idx o) cfgT eq_refl); auto.
  Qed.

  Lemma good_t_final h : forall st, good_t st -> good_t (final mstep st h).
  Proof. apply (invariant_final mstep good_t). intros; now apply good_t_step. Qed.

  Lemma keeps_t st op r :
    InvO st -> keeps (orc_img o) (orc_idx o) (repo_of st r) (repo_of (fst (mstep st op)) r).
  Proof.
    intros HI. apply (step_keeps (hash14 o) (orc_vd o) (orc_vr o) (orc_vt o) (orc_img o) (orc_idx o) cfgT eq_refl
                        (hash14_inj o Hwf)); auto.
  Qed.

  Lemma holds_keeps st st' ob :
    keeps (orc_img o) (orc_idx o) (repo_of st (to_repo ob)) (repo_of st' (to_repo ob)) ->
    holds st ob -> holds st' ob.
  Proof.
    intros HK [tde [Ht [Hd Hb]]]. rewrite itag_repo_of in Ht.
    exists tde. split; [rewrite itag_repo_of; now apply (k_tag _ _ _ _ HK)|]. split; [exact Hd|].
    destruct (to_bytes ob) as [b|]; [|exact I]. destruct Hb as [bl [Hm Hdata]].
    rewrite iman_repo_of in Hm.
    destruct (k_man _ _ _ _ HK (to_digest ob) bl) as [bl' [Hm' [Hd' _]]]; [|exact Hm|].
    - rewrite <- Hd. eapply tagged_is_reached; eauto.
    - exists bl'. rewrite iman_repo_of. split; congruence.
  Qed.

  Lemma holds_step_t st op ob : good_t st -> holds st ob -> holds (fst (mstep st op)) ob.
  Proof. intros [HI _]. apply holds_keeps. now apply keeps_t. Qed.

  Lemma establishes_t st op obs ob :
    good_t st -> agrees obs (snd (mstep st op)) = true -> tag_obs MImmTags (op, obs) = Some ob ->
    holds (fst (mstep st op)) ob.
  Proof.
    intros HG Hag Hob. pose proof (good_t_step st op HG) as [HI' HT']. destruct HG as [HI HT].
    destruct op; cbn in Hob; try discriminate.
    - (* GetTag *)
      destruct obs as [[]| | | |]; try discriminate. injection Hob as <-.
      rewrite (mstep_read_state o true st (GetTag r t) eq_refl).
      destruct (gettag_obs o true st _ _ _ _ Hag) as [tde [bl [Ht [Hm [-> ->]]]]].
      pose proof (proj1 (inv_iman _ _ _ _ _ _ _ HI Hm)) as Hh.
      exists tde. cbn. repeat split; [exact Ht | now symmetry |].
      exists bl. split; [now rewrite Hh | reflexivity].
    - (* ResolveTag *)
      destruct obs as [[]| | | |]; try discriminate. injection Hob as <-.
      rewrite (mstep_read_state o true st (ResolveTag r t) eq_refl).
      exists d. cbn. repeat split. now apply (resolve_obs o true).
    - (* PushManifest *)
      destruct obs as [[]| | | |]; try discriminate. destruct t as [|n t]; [discriminate|].
      injection Hob as <-. apply agrees_obs_ok in Hag.
      destruct (push_tagged_ok (hash14 o) (orc_vd o) (orc_vr o) (orc_vt o) (orc_img o) (orc_idx o) cfgT eq_refl
                  st r (n :: t) content media d ltac:(discriminate) Hag) as [Ht Hd].
      exists d. cbn. repeat split; [exact Ht|].
      destruct (HT' r (n :: t) d) as [bl Hm]; [now rewrite <- itag_repo_of|].
      rewrite <- iman_repo_of in Hm. exists bl. split; [exact Hm|].
      apply (hash14_inj o Hwf). rewrite <- Hd. exact (proj1 (inv_iman _ _ _ _ _ _ _ HI' Hm)).
  Qed.

  Lemma answers_t st op obs ob :
    good_t st -> holds st ob -> agrees obs (snd (mstep st op)) = true -> respects MImmTags ob (op, obs) = true.
  Proof.
    intros [HI HT] [tde [Ht [Hd Hb]]] Hag.
    destruct op; try reflexivity; cbn [respects].
    - (* GetTag *)
      destruct (beqb r (to_repo ob) && beqb t (to_tag ob)) eqn:E; [|reflexivity].
      apply andb_true_iff in E as [E1 E2]. apply beqb_eq in E1, E2. subst r t.
      pose proof (bound_gettag o true st _ _ tde obs HI Ht Hag) as Hg.
      destruct (HT (to_repo ob) (to_tag ob) tde) as [bl Hm]; [now rewrite <- itag_repo_of|].
      rewrite <- iman_repo_of in Hm. rewrite Hm in Hg. destruct Hg as [-> Hdig].
      rewrite Hdig, Hd, beqb_refl. cbn.
      destruct (to_bytes ob) as [b|]; [|reflexivity]. destruct Hb as [bl0 [Hm0 <-]].
      rewrite <- Hd, Hm in Hm0. injection Hm0 as ->. apply beqb_refl.
    - (* ResolveTag *)
      destruct (beqb r (to_repo ob) && beqb t (to_tag ob)) eqn:E; [|reflexivity].
      apply andb_true_iff in E as [E1 E2]. apply beqb_eq in E1, E2. subst r t.
      rewrite (bound_resolve o true st _ _ tde obs Ht Hag). rewrite Hd. apply beqb_refl.
    - (* PushManifest *)
      destruct t as [|n t]; [reflexivity|].
      destruct (beqb r (to_repo ob) && beqb (n :: t) (to_tag ob)) eqn:E; [|reflexivity].
      apply andb_true_iff in E as [E1 E2]. apply beqb_eq in E1, E2. subst r. rewrite <- E2 in Ht.
      destruct (push_on_bound_tag (hash14 o) (orc_vd o) (orc_vr o) (orc_vt o) (orc_img o) (orc_idx o) cfgT eq_refl
                  st (to_repo ob) (n :: t) content media tde ltac:(discriminate) Ht) as [[Hr Hc]|[e Hr]];
        unfold mem14 in Hag; rewrite Hr in Hag.
      + apply agrees_model_desc in Hag. subst obs. rewrite Hd, beqb_refl. cbn.
        destruct (to_bytes ob) as [b|]; [|reflexivity]. destruct Hb as [bl0 [Hm0 <-]].
        apply beqb_eq. apply (hash14_inj o Hwf). rewrite <- Hc, Hd.
        symmetry. exact (proj1 (inv_iman _ _ _ _ _ _ _ HI Hm0)).
      + apply agrees_model_err in Hag. now subst obs.
  Qed.

  Theorem all_later_t ops obs st :
    good_t st -> agrees_all obs (snd (run mstep st ops)) = true ->
    all_later (pair_ok MImmTags) (combine ops obs) = true.
  Proof.
    apply (all_later_ok state mstep good_t MImmTags holds).
    - apply good_t_step.
    - apply holds_step_t.
    - apply establishes_t.
    - apply answers_t.
  Qed.
End ImmTagsCorr.


(* ---- what model_agrees says, unpacked ---- *)

Lemma model_agrees_facts c : model_agrees_seq c = true ->
  let under := under_step c in
  let s1 := final under init (c_setup c) in
  let s2 := final (mech_step c) s1 (c_ops c) in
  orc_wf (c_orc c) = true /\
  forallb is_read_op (probe_ops c) = true /\
  agrees_all (c_setup_obs c) (snd (run under init (c_setup c))) = true /\
  agrees_all (c_before c) (snd (run under s1 (probe_ops c))) = true /\
  agrees_all (c_obs c) (snd (run (mech_step c) s1 (c_ops c))) = true /\
  (c_mech c = MReadOnly ->
     direct_ok under (mech_step c) s1 (c_ops c) (c_direct c)
     && trace_agrees (c_trace c) (map snd (snd (trun (ro_step (wrapped (c_wrap c) under)) s1 (c_ops c)))) = true) /\
  (c_mech c <> MImmTags -> c_threads c = []) /\
  exists M, interleave (c_threads c) M /\
            agrees_all (map snd M) (snd (run under s2 (map fst M))) = true /\
            agrees_all (c_after c) (snd (run under (final under s2 (map fst M)) (probe_ops c))) = true.
Proof.
  unfold model_agrees_seq, final. cbn zeta.
  destruct (run (under_step c) init (c_setup c)) as [s1 rs]. cbn [fst snd].
  destruct (run (mech_step c) s1 (c_ops c)) as [s2 ro]. cbn [fst snd].
  intros H.
  apply andb_true_iff in H as [H H5]. apply andb_true_iff in H as [H H4].
  apply andb_true_iff in H as [H H3]. apply andb_true_iff in H as [H1 H2].
  apply andb_true_iff in H5 as [H5 H9]. apply andb_true_iff in H5 as [H5 H8].
  apply andb_true_iff in H5 as [H6 H7].
  split; [exact H1|]. split; [exact H2|]. split; [exact H3|]. split; [exact H4|]. split; [exact H6|].
  split; [intros Hm; rewrite Hm in H7; exact H7|].
  split.
  - intros Hm. destruct (c_mech c); try congruence; destruct (c_threads c); try discriminate; reflexivity.
  - apply lin_sound in H9 as [M [Hi [Ha Hk]]]. exists M. auto.
Qed.

Lemma is_read_op_pure o imm st op : is_read_op op = true -> fst (mem14 o imm st op) = st.
Proof. rewrite is_read_op_mem_read. apply read_pure. Qed.

(* the i-th result of a list of reads is the answer at the (unchanged) state *)
Lemma run_reads_nth o imm h : forall st i op,
  forallb is_read_op h = true -> nth_error h i = Some op ->
  nth_error (snd (run (mem14 o imm) st h)) i = Some (snd (mem14 o imm st op)).
Proof.
  induction h as [|x h IH]; intros st [|i] op Hr Hn; cbn in Hn; try discriminate;
    cbn [forallb] in Hr; apply andb_true_iff in Hr as [Hx Hr]; cbn [run].
  - injection Hn as ->. destruct (mem14 o imm st op) as [s1 r]. now destruct (run (mem14 o imm) s1 h).
  - pose proof (is_read_op_pure o imm st x Hx) as Hp. destruct (mem14 o imm st x) as [s1 r]. cbn in Hp. subst s1.
    specialize (IH st i op Hr Hn). now destruct (run (mem14 o imm) st h).
Qed.

Lemma run_reads_state o imm h st : forallb is_read_op h = true -> final (mem14 o imm) st h = st.
Proof.
  intros Hr. apply run_pure. intros s op Hin. apply is_read_op_pure.
  rewrite forallb_forall in Hr. now apply Hr.
Qed.

Lemma combine_app {A B} (a a' : list A) (b b' : list B) :
  length a = length b -> combine (a ++ a') (b ++ b') = combine a b ++ combine a' b'.
Proof.
  revert b; induction a as [|x a IH]; intros [|y b]; cbn; try discriminate; [reflexivity|].
  intros H. injection H as H. now rewrite IH.
Qed.

Lemma combine_fst_snd {A B} (l : list (A * B)) : combine (map fst l) (map snd l) = l.
Proof. induction l as [|[a b] l IH]; cbn; [reflexivity | now rewrite IH]. Qed.

Lemma all_later_pick {A} (p : A -> A -> bool) l1 l2 a b :
  all_later p (l1 ++ l2) = true -> In a l1 -> In b l2 -> p a b = true.
Proof.
  induction l1 as [|x l1 IH]; intros H Ha Hb; [destruct Ha|]. cbn in H.
  apply andb_true_iff in H as [H1 H2]. destruct Ha as [->|Ha]; [|auto].
  rewrite forallb_forall in H1. apply H1. apply in_or_app. now right.
Qed.

(* ---- pair_ok implies weak_ok, which is symmetric ---- *)

Lemma weak_ok_sym m a b : weak_ok m a b = weak_ok m b a.
Proof.
  unfold weak_ok. destruct (tag_obs m a) as [x|], (tag_obs m b) as [y|]; try reflexivity.
  rewrite (beqb_sym (to_repo x)), (beqb_sym (to_tag x)), (beqb_sym (to_digest x)).
  destruct (beqb (to_repo y) (to_repo x) && beqb (to_tag y) (to_tag x)); [|reflexivity].
  f_equal. destruct (to_bytes x), (to_bytes y); try reflexivity. apply beqb_sym.
Qed.

Lemma pair_weak m a b : pair_ok m a b = true -> weak_ok m a b = true.
Proof.
  unfold pair_ok, weak_ok. destruct (tag_obs m a) as [x|]; [|reflexivity].
  destruct (tag_obs m b) as [y|] eqn:Eb; [|reflexivity].
  destruct b as [op res]. destruct op; cbn in Eb; try discriminate.
  - (* GetTag *)
    destruct res as [[]| | | |]; try discriminate. injection Eb as <-. cbn.
    rewrite (beqb_sym (to_repo x)), (beqb_sym (to_tag x)).
    destruct (beqb r (to_repo x) && beqb t (to_tag x)); [|reflexivity].
    intros H. apply andb_true_iff in H as [H1 H2]. rewrite (beqb_sym (to_digest x)), H1. cbn.
    destruct (to_bytes x); [|reflexivity]. now rewrite beqb_sym.
  - (* ResolveTag *)
    destruct res as [[]| | | |]; try discriminate. injection Eb as <-. cbn.
    rewrite (beqb_sym (to_repo x)), (beqb_sym (to_tag x)).
    destruct (beqb r (to_repo x) && beqb t (to_tag x)); [|reflexivity].
    intros H. rewrite (beqb_sym (to_digest x)), H. cbn. now destruct (to_bytes x).
  - (* PushManifest *)
    destruct res as [[]| | | |]; try discriminate. destruct t as [|n t]; [discriminate|].
    injection Eb as <-. cbn -[beqb].
    rewrite (beqb_sym (to_repo x)), (beqb_sym (to_tag x)).
    destruct (beqb r (to_repo x) && beqb (n :: t) (to_tag x)); [|reflexivity].
    intros H. apply andb_true_iff in H as [H1 H2]. rewrite (beqb_sym (to_digest x)), H1. cbn.
    destruct (to_bytes x); [|now destruct m]. destruct m; try reflexivity. now rewrite beqb_sym.
Qed.

Lemma cross_weak_intro m ths :
  (forall i j, i <> j -> forall a b, In a (nth i ths []) -> In b (nth j ths []) -> weak_ok m a b = true) ->
  cross_weak m ths = true.
Proof.
  induction ths as [|th ths IH]; intros H; [reflexivity|]. cbn [cross_weak].
  apply andb_true_iff. split.
  - apply forallb_forall. intros a Ha. apply forallb_forall. intros th' Hth'.
    apply forallb_forall. intros b Hb.
    destruct (In_nth _ _ [] Hth') as [k [Hk Hn]].
    apply (H 0%nat (S k)); [discriminate | exact Ha | cbn; now rewrite Hn].
  - apply IH. intros i j Hij a b Ha Hb. apply (H (S i) (S j)); [congruence | exact Ha | exact Hb].
Qed.

(* the tag clause follows from the ordered-pairs fact on one linearization *)
Lemma all_later_impl {A} (p q : A -> A -> bool) l :
  (forall a b, p a b = true -> q a b = true) -> all_later p l = true -> all_later q l = true.
Proof.
  intros H. induction l as [|a l IH]; cbn; [reflexivity|]. intros Hl.
  apply andb_true_iff in Hl as [H1 H2]. apply andb_true_iff. split; [|auto].
  rewrite forallb_forall in *. auto.
Qed.

(* an observation that is not looked at cannot be contradicted *)
Lemma pair_ok_weaken ds m a b : pair_ok m a b = true -> pair_ok_d ds m a b = true.
Proof.
  unfold pair_ok, pair_ok_d, pair_by, tag_obs_d. destruct (tag_obs m a) as [ob|]; [|reflexivity].
  now destruct (undisturbed ds (to_repo ob) (to_tag ob)).
Qed.

Lemma clause_tags_from_linearization c M :
  interleave (c_threads c) M ->
  all_later (pair_ok_d (dist c) (c_mech c)) (prefix_events c ++ M ++ suffix_events c) = true ->
  all_later (pair_ok (c_mech c)) M = true ->
  clause_tags c = true.
Proof.
  intros Hil Hal HalM. unfold clause_tags. apply andb_true_iff. split.
  - assert (Hone : forall j, all_later (pair_ok_d (dist c) (c_mech c))
                      (prefix_events c ++ nth j (c_threads c) [] ++ suffix_events c) = true).
    { intros j. eapply all_later_subseq; [|exact Hal].
      apply subseq_app; [apply subseq_refl|]. apply subseq_app; [|apply subseq_refl].
      now apply interleave_subseq. }
    assert (Hall : forall th, In th (match c_threads c with [] => [[]] | ths => ths end) ->
                              exists j, nth j (c_threads c) [] = th).
    { destruct (c_threads c) as [|th0 ths].
      - intros th [<-|[]]. now exists 0%nat.
      - intros th Hin. destruct (In_nth _ _ [] Hin) as [k [_ Hn]]. now exists k. }
    apply forallb_forall. intros th Hin. destruct (Hall th Hin) as [j <-]. apply Hone.
  - apply cross_weak_intro. intros i j Hij a b Ha Hb.
    destruct (interleave_cross _ _ _ Hil HalM i j Hij a b Ha Hb) as [H|H].
    + now apply pair_weak.
    + rewrite weak_ok_sym. now apply pair_weak.
Qed.

(* ---- the calls that reached the registry ---- *)

Lemma trun_traces {B} (f : tstep B op) h : forall s l,
  In l (map snd (snd (trun f s h))) -> exists st o, l = snd (f st o).
Proof.
  induction h as [|o h IH]; intros s l; cbn [trun]; [intros []|].
  destruct (f s o) as [[s1 r] t] eqn:E. specialize (IH s1 l).
  destruct (trun f s1 h) as [s2 rs]. cbn [snd map] in *. intros [<-|H]; [|auto].
  exists s, o. now rewrite E.
Qed.

Lemma traced_sound c m p :
  trace_agrees (c_trace c) m = true ->
  (forall l x, In l m -> In x l -> p x = true) -> traced_all p c = true.
Proof.
  unfold trace_agrees, traced_all. destruct (c_trace c) as [t|]; [|reflexivity].
  intros H Hp. apply (list_eqb_eq _ (list_eqb_eq _ op_eqb_eq)) in H. subst t.
  apply forallb_forall. intros l Hl. apply in_map_iff in Hl as [l0 [<- Hl0]].
  apply forallb_forall. intros x Hx. apply filter_In in Hx as [Hx _]. eauto.
Qed.

Lemma run_forget {B} (f : tstep B op) h : forall s,
  run (forget f) s h = (fst (trun f s h), map fst (snd (trun f s h))).
Proof.
  induction h as [|o h IH]; intros s; cbn [run trun]; [reflexivity|]. unfold forget at 1.
  destruct (f s o) as [[s1 r] t]. cbn [fst]. rewrite IH.
  now destruct (trun f s1 h) as [s2 rs].
Qed.

(* ---- ReadOnly ---- *)

Lemma interleave_nil {A} (M : list A) : interleave [] M -> M = [].
Proof. inversion 1 as [|ths i a th m Hn]; [reflexivity|]. destruct i; discriminate. Qed.

Section ReadOnlyCorr.
  Variable o : oracles.
  Variable imm : bool.
  Local Notation under := (mem14 o imm).
  Local Notation rstep := (forget (ro_step (mem14 o imm))).

  Lemma rstep_state st op : fst (rstep st op) = st.
  Proof. apply readonly_mem_step_state. Qed.

  Lemma rstep_final h st : final rstep st h = st.
  Proof. apply run_pure. intros; apply rstep_state. Qed.

  Lemma ro_events_sound : forall ops obs direct st,
    agrees_all obs (snd (run rstep st ops)) = true ->
    direct_ok under rstep st ops direct = true ->
    ro_events_ok ops obs direct = true.
  Proof.
    induction ops as [|op ops IH]; intros obs direct st Hag Hd.
    - destruct obs; [|discriminate]. destruct direct; [reflexivity | discriminate].
    - destruct direct as [|d direct]; [discriminate|]. cbn [direct_ok] in Hd.
      apply andb_true_iff in Hd as [Hd1 Hd2]. rewrite rstep_state in Hd1, Hd2.
      cbn [run] in Hag. pose proof (rstep_state st op) as Hs.
      pose proof (ro_forget_spec (mem14 o imm) st op) as Hspec.
      destruct (rstep st op) as [s1 r]. cbn [fst] in Hs. subst s1.
      destruct (run rstep st ops) as [s2 rs] eqn:Er. cbn [snd] in Hag.
      destruct obs as [|ob obs]; [discriminate|]. cbn [agrees_all] in Hag.
      apply andb_true_iff in Hag as [Ha1 Ha2]. cbn [ro_events_ok].
      apply andb_true_iff. split; [|apply (IH obs direct st); [now rewrite Er | exact Hd2]].
      unfold is_mutating_op, is_read_op in *.
      destruct (op_method op) as [m|] eqn:Em.
      + destruct (is_read_method m) eqn:Erm; cbn [negb].
        * destruct d as [ob'|]; [|discriminate].
          assert (r = snd (mem14 o imm st op)) as -> by (rewrite <- Hspec; reflexivity).
          rewrite (agrees_inj _ _ _ Ha1 Hd1). eapply ores_eqb_refl; eauto.
        * assert (r = promoted_result m) as -> by (now injection Hspec).
          rewrite promoted_result_unsupported in Ha1.
          assert (is_iter m = false) as Hit by (destruct m; try reflexivity; discriminate).
          rewrite Hit in Ha1. apply agrees_model_err in Ha1. now subst ob.
      + injection Hspec as ->. apply agrees_model_err in Ha1. now subst ob.
  Qed.
End ReadOnlyCorr.

Lemma corr_readonly c : c_mech c = MReadOnly -> model_agrees_seq c = true -> clause_readonly c = true.
Proof.
  intros Hm H. apply model_agrees_facts in H. cbn zeta in H.
  destruct H as (Hwf & Hreads & Hsetup & Hbefore & Hobs & Hdirect & Hthreads & M & Hil & HM & Hafter).
  rewrite Hthreads in Hil by congruence. apply interleave_nil in Hil. subst M. cbn [map] in *.
  unfold mech_step, under_step, cfg_imm, wrapped in *. rewrite Hm in *.
  specialize (Hdirect eq_refl). apply andb_true_iff in Hdirect as [Hdirect Htrace].
  unfold clause_readonly. apply andb_true_iff. split; [apply andb_true_iff; split|].
  - eapply ro_events_sound; [exact Hobs | exact Hdirect].
  - unfold final in Hafter at 1. cbn [run fst] in Hafter. rewrite rstep_final in Hafter.
    eapply agrees_all_same; eauto.
  - eapply traced_sound; [exact Htrace|]. intros l x Hl Hx.
    apply trun_traces in Hl as [st [op ->]].
    destruct (is_read_op op) eqn:Er.
    + rewrite (ro_read_forwarded _ st op Er) in Hx. destruct Hx as [<-|[]]. exact Er.
    + rewrite (proj2 (ro_nonread_untouched _ st op Er)) in Hx. destruct Hx.
Qed.

(* ---- what was retrievable stays retrievable ---- *)

Lemma keep3_intro : forall sel before after,
  length sel = length before -> length before = length after ->
  (forall i s b a, nth_error sel i = Some s -> nth_error before i = Some b -> nth_error after i = Some a ->
                   s = true -> same_content b a = true) ->
  keep3 sel before after = true.
Proof.
  induction sel as [|s sel IH]; intros [|b before] [|a after]; cbn [length keep3]; try discriminate; [reflexivity|].
  intros H1 H2 H. injection H1 as H1. injection H2 as H2. apply andb_true_iff. split.
  - specialize (H 0%nat s b a eq_refl eq_refl eq_refl). destruct s; [now apply H | reflexivity].
  - apply IH; auto. intros i. apply (H (S i)).
Qed.

Lemma nth_error_combine_In {A B} (l1 : list A) (l2 : list B) i x y :
  nth_error l1 i = Some x -> nth_error l2 i = Some y -> In (x, y) (combine l1 l2).
Proof.
  revert l2 i; induction l1 as [|a l1 IH]; intros [|b l2] [|i]; cbn; try discriminate.
  - intros H1 H2. injection H1 as ->. injection H2 as ->. now left.
  - intros H1 H2. right. eauto.
Qed.

Section Content.
  Variable o : oracles.
  Local Notation bdesc := (blob_desc (hash14 o)).

  Lemma same_content_err b a e : agrees b (Err e) = true -> same_content b a = true.
  Proof. intros H. apply agrees_model_err in H. now subst b. Qed.

  Lemma same_content_read bl bl' b a :
    b_data bl' = b_data bl ->
    agrees b (Ok (RRead (bdesc bl) (b_data bl))) = true ->
    agrees a (Ok (RRead (bdesc bl') (b_data bl'))) = true -> same_content b a = true.
  Proof.
    intros Hd Hb Ha. apply agrees_model_read in Hb, Ha. subst b a. cbn. now rewrite Hd, !beqb_refl.
  Qed.

  Lemma same_content_desc bl bl' b a :
    b_data bl' = b_data bl ->
    agrees b (Ok (RDesc (bdesc bl))) = true ->
    agrees a (Ok (RDesc (bdesc bl'))) = true -> same_content b a = true.
  Proof.
    intros Hd Hb Ha. apply agrees_model_desc in Hb, Ha. subst b a. cbn. now rewrite Hd, beqb_refl.
  Qed.

  (* a tag probe before and the same probe after, related by pair_ok *)
  Lemma pair_same_content m imm st op b a :
    is_tag_probe op = true ->
    agrees b (snd (mem14 o imm st op)) = true ->
    pair_ok m (op, b) (op, a) = true -> same_content b a = true.
  Proof.
    intros Hp Hb. destruct op; try discriminate; unfold mem14 in Hb.
    - rewrite get_tag_res in Hb.
      assert (Hshape : (exists de data, b = OOk (RRead de data)) \/ (exists c, b = OErr c)).
      { destruct (itag st r t) as [tde|]; [destruct (iman st r (d_digest tde))|].
        - left. apply agrees_model_read in Hb. eauto.
        - right. apply agrees_model_err in Hb. eauto.
        - right. apply agrees_model_err in Hb. eauto. }
      destruct Hshape as [[de [data ->]]|[c ->]]; [|reflexivity].
      unfold pair_ok. cbn -[beqb]. rewrite !beqb_refl. cbn -[beqb].
      destruct a as [[]| | | |]; try discriminate.
      intros H. apply andb_true_iff in H as [H1 H2]. rewrite (beqb_sym (d_digest de)), H1.
      now rewrite beqb_sym.
    - rewrite resolve_tag_res in Hb.
      assert (Hshape : (exists de, b = OOk (RDesc de)) \/ (exists c, b = OErr c)).
      { destruct (itag st r t) as [tde|].
        - left. apply agrees_model_desc in Hb. eauto.
        - right. apply agrees_model_err in Hb. eauto. }
      destruct Hshape as [[de ->]|[c ->]]; [|reflexivity].
      unfold pair_ok. cbn -[beqb]. rewrite !beqb_refl. cbn -[beqb].
      destruct a as [[]| | | |]; try discriminate.
      intros H. now rewrite beqb_sym.
  Qed.
End Content.

(* ---- the Immutable wrapper ---- *)

Section ImmWrapKeep.
  Variable o : oracles.
  Variable imm : bool.
  Local Notation mstep := (mem14 o imm).
  Local Notation InvO := (Inv (hash14 o) (orc_img o) (orc_idx o)).

  (* a digest-addressed probe on the underlying registry, before and after *)
  Lemma content_probe_kept st st' op b a :
    InvO st -> (forall r, grows (repo_of st r) (repo_of st' r)) ->
    is_content_probe op = true -> is_tag_probe op = false ->
    agrees b (snd (mstep st op)) = true -> agrees a (snd (mstep st' op)) = true ->
    same_content b a = true.
  Proof.
    intros HI Hg Hc Ht Hb Ha. unfold mem14 in *.
    destruct op; try discriminate.
    - rewrite get_blob_res in Hb, Ha. rewrite iblob_repo_of in Hb, Ha.
      destruct (alookup d (blobs (repo_of st r))) as [bl|] eqn:E; [|eapply same_content_err; eauto].
      destruct (g_blob _ _ (Hg r) _ _ E) as [bl' [E' Hd]]. rewrite E' in Ha.
      eapply same_content_read; eauto.
    - rewrite get_manifest_res in Hb, Ha. rewrite iman_repo_of in Hb, Ha.
      destruct (alookup d (manifests (repo_of st r))) as [bl|] eqn:E; [|eapply same_content_err; eauto].
      destruct (g_man _ _ (Hg r) _ _ E) as [bl' [E' Hd]]. rewrite E' in Ha.
      eapply same_content_read; eauto.
    - rewrite resolve_blob_res in Hb, Ha. rewrite iblob_repo_of in Hb, Ha.
      destruct (alookup d (blobs (repo_of st r))) as [bl|] eqn:E; [|eapply same_content_err; eauto].
      destruct (g_blob _ _ (Hg r) _ _ E) as [bl' [E' Hd]]. rewrite E' in Ha.
      eapply same_content_desc; eauto.
    - rewrite resolve_manifest_res in Hb, Ha. rewrite iman_repo_of in Hb, Ha.
      destruct (alookup d (manifests (repo_of st r))) as [bl|] eqn:E; [|eapply same_content_err; eauto].
      destruct (g_man _ _ (Hg r) _ _ E) as [bl' [E' Hd]]. rewrite E' in Ha.
      eapply same_content_desc; eauto.
  Qed.

  (* what a read of a tag establishes about the state it was answered in, and what a state in
     which an observation holds answers to a read *)
  Lemma est_read st op obs ob :
    InvO st -> agrees obs (snd (mstep st op)) = true -> tag_obs MImmutable (op, obs) = Some ob ->
    is_read_op op = true -> holds st ob.
  Proof.
    intros HI Hag Hob Hr. destruct op; try discriminate Hr; cbn in Hob; try discriminate.
    - (* GetTag *)
      destruct obs as [[]| | | |]; try discriminate. injection Hob as <-.
      destruct (gettag_obs o imm st _ _ _ _ Hag) as [tde [bl [Ht [Hm [-> ->]]]]].
      pose proof (proj1 (inv_iman _ _ _ _ _ _ _ HI Hm)) as Hh.
      exists tde. cbn. repeat split; [exact Ht | now symmetry |].
      exists bl. split; [now rewrite Hh | reflexivity].
    - (* ResolveTag *)
      destruct obs as [[]| | | |]; try discriminate. injection Hob as <-.
      exists d. cbn. repeat split. now apply (resolve_obs o imm).
  Qed.

  Lemma ans_read st op obs ob :
    InvO st -> holds st ob -> agrees obs (snd (mstep st op)) = true ->
    is_read_op op = true -> respects MImmutable ob (op, obs) = true.
  Proof.
    intros HI [tde [Ht [Hd Hb]]] Hag Hr.
    destruct op; try discriminate Hr; try reflexivity; cbn [respects].
    - (* GetTag *)
      destruct (beqb r (to_repo ob) && beqb t (to_tag ob)) eqn:E; [|reflexivity].
      apply andb_true_iff in E as [E1 E2]. apply beqb_eq in E1, E2. subst r t.
      pose proof (bound_gettag o imm st _ _ tde obs HI Ht Hag) as Hg.
      destruct (iman st (to_repo ob) (d_digest tde)) as [bl|] eqn:Hm.
      + destruct Hg as [-> Hdig]. rewrite Hdig, Hd, beqb_refl. cbn.
        destruct (to_bytes ob) as [b|]; [|reflexivity]. destruct Hb as [bl0 [Hm0 <-]].
        rewrite <- Hd, Hm in Hm0. injection Hm0 as ->. apply beqb_refl.
      + destruct Hg as [c ->]. destruct (to_bytes ob) as [b|]; [|reflexivity].
        destruct Hb as [bl0 [Hm0 _]]. rewrite <- Hd, Hm in Hm0. discriminate.
    - (* ResolveTag *)
      destruct (beqb r (to_repo ob) && beqb t (to_tag ob)) eqn:E; [|reflexivity].
      apply andb_true_iff in E as [E1 E2]. apply beqb_eq in E1, E2. subst r t.
      rewrite (bound_resolve o imm st _ _ tde obs Ht Hag). rewrite Hd. apply beqb_refl.
  Qed.
End ImmWrapKeep.

Lemma deletes_denied_sound {B} (b : registry B) hash : forall ops obs st,
  agrees_all obs (snd (run (forget (imm_step b hash)) st ops)) = true -> deletes_denied ops obs = true.
Proof.
  induction ops as [|op ops IH]; intros obs st Hag; [reflexivity|].
  destruct obs as [|ob obs]; [reflexivity|]. cbn [run] in Hag.
  pose proof (imm_delete_denied b hash st op) as Hden.
  unfold forget in Hag at 1.
  destruct (imm_step b hash st op) as [[s1 r] tr]. cbn [fst] in Hag.
  destruct (run (forget (imm_step b hash)) s1 ops) as [s2 rs] eqn:Er. cbn [snd agrees_all] in Hag.
  apply andb_true_iff in Hag as [H1 H2]. cbn [deletes_denied]. apply andb_true_iff. split.
  - destruct (is_delete_op op); [|reflexivity]. specialize (Hden eq_refl). injection Hden as _ -> _.
    apply agrees_model_err in H1. now subst ob.
  - apply (IH obs s1). now rewrite Er.
Qed.

Lemma imm_tagged_push_digest {B} (b : registry B) hash st r n t c m de :
  snd (fst (imm_step b hash st (PushManifest r (n :: t) c m))) = Ok (RDesc de) -> d_digest de = hash c.
Proof.
  rewrite imm_step_spec. cbn [op_method immutable_declared Model.Immutable.imm_self].
  destruct (b st (ResolveTag r (n :: t))) as [st1 r1].
  destruct (as_desc r1) as [d1| | |]; cbn [fst snd]; try discriminate.
  - destruct (beqb (d_digest d1) (hash c)) eqn:Eb; cbn [fst snd]; [|discriminate].
    intros H; injection H as <-. now apply beqb_eq.
  - destruct (b st1 (PushManifest r (n :: t) c m)) as [st2 r2].
    destruct (as_desc r2) as [d2| | |]; cbn [fst snd]; try discriminate.
    destruct (b st2 (ResolveTag r (n :: t))) as [st3 r3].
    destruct (as_desc r3) as [d3| | |]; cbn [fst snd]; try discriminate.
    destruct (beqb (d_digest d3) (hash c)) eqn:Eb; cbn [fst snd]; [|discriminate].
    intros H; injection H as <-. now apply beqb_eq.
Qed.

Lemma push_digest_sound {B} (b : registry B) hash : forall ops obs st,
  agrees_all obs (snd (run (forget (imm_step b hash)) st ops)) = true ->
  forallb (push_digest_ok hash) (combine ops obs) = true.
Proof.
  induction ops as [|op ops IH]; intros obs st Hag; [reflexivity|].
  destruct obs as [|ob obs]; [reflexivity|]. cbn [run] in Hag.
  pose proof (fun r n t c m de => imm_tagged_push_digest b hash st r n t c m de) as Hd.
  unfold forget in Hag at 1.
  destruct (imm_step b hash st op) as [[s1 res] tr] eqn:E. cbn [fst] in Hag.
  destruct (run (forget (imm_step b hash)) s1 ops) as [s2 rs] eqn:Er. cbn [snd agrees_all] in Hag.
  apply andb_true_iff in Hag as [H1 H2]. cbn [combine forallb]. apply andb_true_iff. split.
  - destruct op; try reflexivity. destruct t as [|n t]; [reflexivity|].
    destruct ob as [[]| | | |]; try reflexivity. cbn [push_digest_ok].
    apply agrees_obs_ok in H1. subst res. apply beqb_eq.
    apply (Hd r n t content media d). now rewrite E.
  - apply (IH obs s1). now rewrite Er.
Qed.

(* ---- the in-memory registry with a rival behind the door, and the Immutable wrapper over it ---- *)

Definition sched_dist (sch : list (N * op)) : list (bytes * bytes) :=
  flat_map (fun x => match snd x with
                     | PushManifest r (n :: t) _ _ => [(r, n :: t)]
                     | _ => []
                     end) sch.

Section RivalCorr.
  Variable o : oracles.
  Variable imm : bool.
  Variable sch : list (N * op).
  Hypothesis Hwf : orc_wf o = true.
  Hypothesis Hsch : forallb (fun x => is_rival_op (snd x)) sch = true.

  Local Notation mstep := (mem14 o imm).
  Local Notation rb := (rival_step (mem14 o imm) sch).
  Local Notation istep := (imm_step (rival_step (mem14 o imm) sch) (hash14 o)).
  Local Notation wstep := (forget (imm_step (rival_step (mem14 o imm) sch) (hash14 o))).
  Local Notation InvO := (Inv (hash14 o) (orc_img o) (orc_idx o)).
  Local Notation cfgI := {| immutable_tags := imm |}.
  Local Notation ds := (sched_dist sch).
  Local Notation tagm := tagv.

  Lemma fired_rival n x : In x (fired sch n) -> is_rival_op x = true.
  Proof.
    unfold fired. intros H. apply in_map_iff in H as [[k y] [<- Hin]].
    apply filter_In in Hin as [Hin _]. rewrite forallb_forall in Hsch. exact (Hsch _ Hin).
  Qed.

  Lemma rival_not_delete x : is_rival_op x = true -> is_delete_op x = false.
  Proof. destruct x; try discriminate; reflexivity. Qed.

  Lemma rb_snd sn op : snd (rb sn op) = snd (mstep (fst sn) op).
  Proof. unfold rival_step. destruct (mstep (fst sn) op) as [st1 r]. now destruct (has_method op). Qed.

  Lemma rb_fst sn op :
    fst (fst (rb sn op)) =
    final mstep (fst (mstep (fst sn) op)) (if has_method op then fired sch (snd sn) else []).
  Proof. unfold rival_step. destruct (mstep (fst sn) op) as [st1 r]. now destruct (has_method op). Qed.

  Lemma extras_of (sn : state * N) op x :
    In x (if has_method op then fired sch (snd sn) else []) -> is_rival_op x = true.
  Proof. destruct (has_method op); [apply fired_rival | intros []]. Qed.

  Lemma extras_inv l : forall st, InvO st -> InvO (final mstep st l).
  Proof. apply (invariant_final mstep InvO). intros; now apply inv_step. Qed.

  Lemma rb_inv sn op : InvO (fst sn) -> InvO (fst (fst (rb sn op))).
  Proof. intros HI. rewrite rb_fst. apply extras_inv. now apply inv_step. Qed.

  Lemma rb_final_inv tr : forall sn, InvO (fst sn) -> InvO (fst (final rb sn tr)).
  Proof.
    induction tr as [|c tr IH]; intros sn HI; [exact HI|]. rewrite final_cons. apply IH. now apply rb_inv.
  Qed.

  Lemma rb_grows sn op r :
    InvO (fst sn) -> is_delete_op op = false ->
    grows (repo_of (fst sn) r) (repo_of (fst (fst (rb sn op))) r).
  Proof.
    intros HI Hd. rewrite rb_fst. apply grows_trans with (b := repo_of (fst (mstep (fst sn) op)) r).
    - unfold mem14. apply step_grows; [apply (hash14_inj o Hwf) | exact HI | now rewrite <- is_delete_op_is_delete].
    - apply (trace_grows (hash14 o) (orc_vd o) (orc_vr o) (orc_vt o) (orc_img o) (orc_idx o) cfgI (hash14_inj o Hwf)).
      + now apply inv_step.
      + intros x Hx. rewrite <- is_delete_op_is_delete. apply rival_not_delete. eapply extras_of; eauto.
  Qed.

  Lemma rb_final_grows tr : forall sn r,
    InvO (fst sn) -> (forall c, In c tr -> is_delete_op c = false) ->
    grows (repo_of (fst sn) r) (repo_of (fst (final rb sn tr)) r).
  Proof.
    induction tr as [|c tr IH]; intros sn r HI Hnd; [apply grows_refl|].
    rewrite final_cons. eapply grows_trans.
    - apply rb_grows; [exact HI | apply Hnd; now left].
    - apply IH; [now apply rb_inv | intros c' Hc'; apply Hnd; now right].
  Qed.

  Lemma good_w_step sn op : InvO (fst sn) -> InvO (fst (fst (wstep sn op))).
  Proof. intros HI. unfold forget. rewrite imm_state_replay. now apply rb_final_inv. Qed.

  Lemma good_w_final h : forall sn, InvO (fst sn) -> InvO (fst (final wstep sn h)).
  Proof.
    induction h as [|op h IH]; intros sn HI; [exact HI|]. rewrite final_cons. apply IH. now apply good_w_step.
  Qed.

  Lemma grows_w sn op r :
    InvO (fst sn) -> grows (repo_of (fst sn) r) (repo_of (fst (fst (wstep sn op))) r).
  Proof.
    intros HI. unfold forget. rewrite imm_state_replay. apply rb_final_grows; [exact HI|].
    intros c Hc. eapply imm_step_no_delete; eauto.
  Qed.

  Lemma grows_final_w h : forall sn r,
    InvO (fst sn) -> grows (repo_of (fst sn) r) (repo_of (fst (final wstep sn h)) r).
  Proof.
    induction h as [|op h IH]; intros sn r HI; [apply grows_refl|].
    rewrite final_cons. eapply grows_trans; [apply grows_w; exact HI | apply IH; now apply good_w_step].
  Qed.

  (* the binding of a tag no rival pushes under: the door-keeper's registry meets, for that tag,
     what Proofs/Immutable.v (Section ImmutableAt) asks of a backend *)
  Definition tagr (r t : bytes) (sn : state * N) : option bytes := tagm (fst sn) r t.

  Lemma extras_frame r t l : forall st,
    (forall x, In x l -> is_delete_op x = false /\ touches x r t = false) ->
    tagm (final mstep st l) r t = tagm st r t.
  Proof.
    induction l as [|a l IH]; intros st H; [reflexivity|].
    rewrite final_cons, IH by (intros; apply H; now right).
    destruct (H a (or_introl eq_refl)). unfold mem14. now apply mem_frame.
  Qed.

  Lemma rival_untouched r t n x : undisturbed ds r t = true -> In x (fired sch n) -> touches x r t = false.
  Proof.
    intros Hu Hx. unfold fired in Hx. apply in_map_iff in Hx as [[k y] [<- Hin]].
    apply filter_In in Hin as [Hin _]. cbn [snd].
    destruct y; try reflexivity. destruct t0 as [|n0 t0]; [reflexivity|]. cbn [touches].
    destruct (beqb r0 r && beqb (n0 :: t0) t) eqn:E; [|reflexivity]. exfalso.
    unfold undisturbed in Hu. apply negb_true_iff in Hu.
    enough (existsb (fun rt => beqb (fst rt) r && beqb (snd rt) t) ds = true) by congruence.
    apply existsb_exists. exists (r0, n0 :: t0). split; [|exact E].
    unfold sched_dist. apply in_flat_map. exists (k, PushManifest r0 (n0 :: t0) content media).
    split; [exact Hin | now left].
  Qed.

  Lemma rb_resolve_at r t sn :
    match tagr r t sn with
    | Some d => exists de, snd (rb sn (ResolveTag r t)) = Ok (RDesc de) /\ d_digest de = d
    | None => exists e, snd (rb sn (ResolveTag r t)) = Err e
    end.
  Proof. rewrite rb_snd. unfold tagr, mem14. apply mem_resolve_answers. Qed.

  Lemma rb_frame_at r t : undisturbed ds r t = true -> forall sn op,
    is_delete_op op = false -> touches op r t = false -> tagr r t (fst (rb sn op)) = tagr r t sn.
  Proof.
    intros Hu sn op Hd Ht. unfold tagr. rewrite rb_fst, extras_frame; [unfold mem14; now apply mem_frame|].
    intros x Hx. split; [apply rival_not_delete; eapply extras_of; eauto|].
    destruct (has_method op); [eapply rival_untouched; eauto | destruct Hx].
  Qed.

  (* an observation about a tag no rival pushes under holds in a state *)
  Definition holdsr (sn : state * N) (ob : tagobs) : Prop :=
    undisturbed ds (to_repo ob) (to_tag ob) = true /\ holds (fst sn) ob.

  Lemma holds_step_w sn op ob : InvO (fst sn) -> holdsr sn ob -> holdsr (fst (wstep sn op)) ob.
  Proof.
    intros HI [Hu [tde [Ht [Hd Hb]]]]. split; [exact Hu|].
    pose proof (imm_binding_kept_at rb (hash14 o) (to_repo ob) (to_tag ob) (tagr (to_repo ob) (to_tag ob))
                  (rb_resolve_at _ _) (rb_frame_at _ _ Hu) sn op (to_digest ob)) as Hk.
    unfold tagr, tagv in Hk. rewrite Ht in Hk. cbn in Hk. specialize (Hk (f_equal Some Hd)).
    pose proof (grows_w sn op (to_repo ob) HI) as Hg. unfold forget in *.
    destruct (itag (fst (fst (fst (istep sn op)))) (to_repo ob) (to_tag ob)) as [tde'|] eqn:Et'; [|discriminate].
    cbn in Hk. injection Hk as Hk. exists tde'. split; [exact Et'|]. split; [exact Hk|].
    destruct (to_bytes ob) as [b|]; [|exact I]. destruct Hb as [bl [Hm Hdata]].
    rewrite iman_repo_of in Hm. destruct (g_man _ _ Hg _ _ Hm) as [bl' [Hm' Hd']].
    exists bl'. rewrite iman_repo_of. split; [exact Hm' | congruence].
  Qed.

  (* a read through the wrapper is the registry's answer in the state the call met *)
  Lemma wstep_read_snd sn op : is_read_op op = true -> snd (wstep sn op) = snd (mstep (fst sn) op).
  Proof.
    intros Hr. unfold forget. rewrite imm_forwarded by (destruct op; try discriminate; reflexivity).
    cbn [fst snd]. apply rb_snd.
  Qed.

  Lemma establishes_w sn op obs ob :
    InvO (fst sn) -> agrees obs (snd (wstep sn op)) = true -> tag_obs_d ds MImmutable (op, obs) = Some ob ->
    holdsr (fst (wstep sn op)) ob.
  Proof.
    intros HI Hag Hob. unfold tag_obs_d in Hob.
    destruct (tag_obs MImmutable (op, obs)) as [ob'|] eqn:Eo; [|discriminate].
    destruct (undisturbed ds (to_repo ob') (to_tag ob')) eqn:Hu; [|discriminate]. injection Hob as ->.
    destruct (is_read_op op) eqn:Er.
    - apply holds_step_w; [exact HI|]. split; [exact Hu|].
      rewrite (wstep_read_snd sn op Er) in Hag. eapply est_read; eauto.
    - destruct op; try discriminate Er; cbn in Eo; try discriminate Eo.
      destruct obs as [[]| | | |]; try discriminate. destruct t as [|n t]; [discriminate|].
      injection Eo as <-. cbn [to_repo to_tag] in Hu. split; [exact Hu|].
      apply agrees_obs_ok in Hag. unfold forget in *.
      destruct (imm_push_binds_at rb (hash14 o) r (n :: t) (tagr r (n :: t)) (rb_resolve_at _ _) (rb_frame_at _ _ Hu)
                  sn content media d ltac:(discriminate) Hag) as [Hd Hb].
      unfold tagr, tagv in Hb.
      destruct (itag (fst (fst (fst (istep sn (PushManifest r (n :: t) content media))))) r (n :: t)) as [tde'|] eqn:Et';
        [|discriminate].
      cbn in Hb. injection Hb as Hb.
      exists tde'. cbn. repeat split; [exact Et' | congruence].
  Qed.

  Lemma answers_w sn op obs ob :
    InvO (fst sn) -> holdsr sn ob -> agrees obs (snd (wstep sn op)) = true ->
    respects MImmutable ob (op, obs) = true.
  Proof.
    intros HI [Hu HH] Hag. destruct (is_read_op op) eqn:Er.
    - rewrite (wstep_read_snd sn op Er) in Hag. eapply ans_read; eauto.
    - destruct op; try discriminate Er; try reflexivity. cbn [respects].
      destruct HH as [tde [Ht [Hd Hb]]].
      destruct t as [|n t]; [reflexivity|].
      destruct (beqb r (to_repo ob) && beqb (n :: t) (to_tag ob)) eqn:E; [|reflexivity].
      apply andb_true_iff in E as [E1 E2]. apply beqb_eq in E1, E2. subst r. rewrite <- E2 in Ht.
      unfold forget in Hag. rewrite imm_step_spec in Hag.
      cbn [op_method immutable_declared Model.Immutable.imm_self] in Hag.
      pose proof (rb_snd sn (ResolveTag (to_repo ob) (n :: t))) as Hs.
      unfold mem14 in Hs at 2. rewrite resolve_tag_res, Ht in Hs.
      destruct (rb sn (ResolveTag (to_repo ob) (n :: t))) as [sn1 r1]. cbn [snd] in Hs. subst r1.
      cbn [as_desc] in Hag.
      destruct (beqb (d_digest tde) (hash14 o content)); cbn [fst snd] in Hag.
      + apply agrees_model_desc in Hag. subst obs. rewrite Hd, beqb_refl. cbn.
        now destruct (to_bytes ob).
      + apply agrees_model_err in Hag. now subst obs.
  Qed.

  (* the registry itself, read directly (the snapshots): no call counted, no rival woken *)
  Definition dstep : registry (state * N) := fun sn op =>
    if is_read_op op then (fst (mstep (fst sn) op), snd sn, snd (mstep (fst sn) op)) else (sn, OutOfFuel).

  Lemma dstep_fst sn op : fst (dstep sn op) = sn.
  Proof.
    unfold dstep. destruct (is_read_op op) eqn:E; [|reflexivity]. cbn [fst].
    rewrite (is_read_op_pure o imm (fst sn) op E). now destruct sn.
  Qed.

  Lemma dstep_snd sn op obs : agrees obs (snd (dstep sn op)) = true ->
    is_read_op op = true /\ agrees obs (snd (mstep (fst sn) op)) = true.
  Proof.
    unfold dstep. destruct (is_read_op op); cbn [snd]; [auto|]. destruct obs; discriminate.
  Qed.

  Lemma dstep_reads h : forall sn,
    forallb is_read_op h = true -> run dstep sn h = (sn, snd (run mstep (fst sn) h)).
  Proof.
    induction h as [|x h IH]; intros sn Hr; [reflexivity|]. cbn [forallb] in Hr.
    apply andb_true_iff in Hr as [Hx Hr]. cbn [run].
    pose proof (dstep_fst sn x) as Hf. unfold dstep in *. rewrite Hx in *.
    cbn [fst] in Hf. rewrite Hf. rewrite (IH sn Hr).
    pose proof (is_read_op_pure o imm (fst sn) x Hx) as Hp.
    destruct (mstep (fst sn) x) as [s1 r]. cbn [fst snd] in *. subst s1.
    now destruct (run mstep (fst sn) h).
  Qed.

  Definition stepk (k : bool) : registry (state * N) := if k then wstep else dstep.

  Theorem all_later_r kops obs sn :
    InvO (fst sn) -> agrees_all obs (snd (runk stepk sn kops)) = true ->
    all_later (pair_ok_d ds MImmutable) (combine (map snd kops) obs) = true.
  Proof.
    apply (all_later_okk (state * N) bool stepk (fun sn => InvO (fst sn)) MImmutable (tag_obs_d ds MImmutable) holdsr).
    - intros [|] st op HI; cbn [stepk]; [now apply good_w_step | now rewrite dstep_fst].
    - intros [|] st op ob HI HH; cbn [stepk]; [now apply holds_step_w | now rewrite dstep_fst].
    - intros [|] st op ob0 ob HI Hag Hob; cbn [stepk] in *; [now apply (establishes_w st op ob0 ob)|].
      rewrite dstep_fst. apply dstep_snd in Hag as [Hr Hag].
      unfold tag_obs_d in Hob. destruct (tag_obs MImmutable (op, ob0)) as [ob'|] eqn:Eo; [|discriminate].
      destruct (undisturbed ds (to_repo ob') (to_tag ob')) eqn:Hu; [|discriminate]. injection Hob as ->.
      split; [exact Hu|]. eapply est_read; eauto.
    - intros [|] st op ob0 ob HI HH Hag; cbn [stepk] in *; [eapply answers_w; eauto|].
      apply dstep_snd in Hag as [Hr Hag]. destruct HH as [_ HH]. eapply ans_read; eauto.
  Qed.
End RivalCorr.

Lemma run_snd_app {St} (f : registry St) s a b :
  snd (run f s (a ++ b)) = snd (run f s a) ++ snd (run f (final f s a) b).
Proof.
  rewrite run_app. unfold final. destruct (run f s a) as [s1 r1]. cbn [fst].
  now destruct (run f s1 b).
Qed.

Lemma agrees_all_app' o1 o2 m1 m2 :
  agrees_all o1 m1 = true -> agrees_all o2 m2 = true -> agrees_all (o1 ++ o2) (m1 ++ m2) = true.
Proof.
  intros H1 H2. rewrite agrees_all_app by now apply agrees_all_length. now rewrite H1, H2.
Qed.

Lemma agrees_run_length {St} (f : registry St) s h obs :
  agrees_all obs (snd (run f s h)) = true -> length h = length obs.
Proof. intros H. apply agrees_all_length in H. now rewrite run_length in H. Qed.

Lemma inv_reach o imm h : Inv (hash14 o) (orc_img o) (orc_idx o) (final (mem14 o imm) init h).
Proof. apply inv_reachable. Qed.

Lemma probes_all_read (ps : list op) :
  forallb is_read_op ps = true -> forall op, In op ps -> mem_read op = true.
Proof. intros H op Hin. rewrite forallb_forall in H. rewrite <- is_read_op_mem_read. now apply H. Qed.

(* what model_agrees_imm says, unpacked *)
Lemma model_agrees_imm_facts c : model_agrees_imm c = true ->
  let under := under_step c in
  let s1 := final under init (c_setup c) in
  let tr := trun (imm_rival c) (s1, 0%N) (c_ops c) in
  orc_wf (c_orc c) = true /\
  forallb is_read_op (probe_ops c) = true /\
  agrees_all (c_before c) (snd (run under s1 (probe_ops c))) = true /\
  forallb (fun x => is_rival_op (snd x)) (c_rivals c) = true /\
  c_threads c = [] /\
  agrees_all (c_obs c) (map fst (snd tr)) = true /\
  trace_agrees (c_trace c) (map snd (snd tr)) = true /\
  agrees_all (c_after c) (snd (run under (fst (fst tr)) (probe_ops c))) = true.
Proof.
  unfold model_agrees_imm, final. cbn zeta.
  destruct (run (under_step c) init (c_setup c)) as [s1 rs]. cbn [fst snd].
  destruct (trun (imm_rival c) (s1, 0%N) (c_ops c)) as [s2 rt]. cbn [fst snd].
  intros H.
  apply andb_true_iff in H as [H H7]. apply andb_true_iff in H as [H H6].
  apply andb_true_iff in H as [H H5]. apply andb_true_iff in H as [H H4].
  apply andb_true_iff in H as [H H3]. apply andb_true_iff in H as [H1 H2].
  apply andb_true_iff in H7 as [H7 H9]. apply andb_true_iff in H7 as [H7 H8].
  repeat split; try assumption. now destruct (c_threads c).
Qed.

Lemma pair_ok_d_tag ds m op b e :
  is_tag_probe op = true -> tag_undisturbed ds op = true ->
  pair_ok_d ds m (op, b) e = pair_ok m (op, b) e.
Proof.
  intros Hp Hu. unfold pair_ok_d, pair_by, pair_ok, tag_obs_d.
  destruct op; try discriminate; cbn [tag_undisturbed] in Hu; cbn [tag_obs];
    destruct b as [[]| | | |]; try reflexivity; cbn [to_repo to_tag]; now rewrite Hu.
Qed.

Lemma In_combine_nth {A B} (l1 : list A) (l2 : list B) x y :
  In (x, y) (combine l1 l2) -> exists i, nth_error l1 i = Some x /\ nth_error l2 i = Some y.
Proof.
  revert l2; induction l1 as [|a l1 IH]; intros [|b l2] H; cbn in H; try contradiction.
  destruct H as [H|H].
  - injection H as -> ->. now exists 0%nat.
  - destruct (IH _ H) as [i Hi]. now exists (S i).
Qed.

(* a snapshot of a state that meets the registry's invariant is faithful *)
Lemma faithful_sound o imm st ps obs :
  Inv (hash14 o) (orc_img o) (orc_idx o) st ->
  forallb is_read_op ps = true ->
  agrees_all obs (snd (run (mem14 o imm) st ps)) = true ->
  forallb (faithful o) (combine ps obs) = true.
Proof.
  intros HI Hr Hag. apply forallb_forall. intros [op ob] Hin.
  destruct (In_combine_nth _ _ _ _ Hin) as [i [Hp Hb]].
  destruct (agrees_all_nth _ _ _ _ Hag Hb) as [m [Hm Ha]].
  rewrite (run_reads_nth o imm _ st i _ Hr Hp) in Hm. injection Hm as <-.
  unfold mem14 in Ha. destruct op; try reflexivity; cbn [faithful];
    destruct ob as [[]| | | |]; try reflexivity.
  - rewrite get_blob_res in Ha. destruct (iblob st r d) as [bl|] eqn:E; [|discriminate].
    apply agrees_obs_ok in Ha. injection Ha as <- <-. cbn [blob_desc d_digest].
    rewrite (inv_iblob _ _ _ _ _ _ _ HI E). now rewrite beqb_refl.
  - rewrite get_manifest_res in Ha. destruct (iman st r d) as [bl|] eqn:E; [|discriminate].
    apply agrees_obs_ok in Ha. injection Ha as <- <-. cbn [blob_desc d_digest].
    rewrite (proj1 (inv_iman _ _ _ _ _ _ _ HI E)). now rewrite beqb_refl.
Qed.

(* one answer of the registry in a state that meets the invariant *)
Lemma faithful_one o imm st op ob :
  Inv (hash14 o) (orc_img o) (orc_idx o) st ->
  agrees ob (snd (mem14 o imm st op)) = true -> faithful o (op, ob) = true.
Proof.
  intros HI Ha. unfold mem14 in Ha. destruct op; try reflexivity; cbn [faithful];
    destruct ob as [[]| | | |]; try reflexivity.
  - rewrite get_blob_res in Ha. destruct (iblob st r d) as [bl|] eqn:E; [|discriminate].
    apply agrees_obs_ok in Ha. injection Ha as <- <-. cbn [blob_desc d_digest].
    rewrite (inv_iblob _ _ _ _ _ _ _ HI E). now rewrite beqb_refl.
  - rewrite get_manifest_res in Ha. destruct (iman st r d) as [bl|] eqn:E; [|discriminate].
    apply agrees_obs_ok in Ha. injection Ha as <- <-. cbn [blob_desc d_digest].
    rewrite (proj1 (inv_iman _ _ _ _ _ _ _ HI E)). now rewrite beqb_refl.
Qed.

(* every answer along a run: of any step function whose states carry a registry state that keeps
   meeting the invariant, and whose reads are that registry's answers in the state the call met *)
Lemma faithful_run_gen o imm {St} (stp : registry St) (proj : St -> state) :
  (forall s op, Inv (hash14 o) (orc_img o) (orc_idx o) (proj s) ->
                Inv (hash14 o) (orc_img o) (orc_idx o) (proj (fst (stp s op)))) ->
  (forall s op, is_read_op op = true -> snd (stp s op) = snd (mem14 o imm (proj s) op)) ->
  forall h s obs, Inv (hash14 o) (orc_img o) (orc_idx o) (proj s) ->
    agrees_all obs (snd (run stp s h)) = true ->
    forallb (faithful o) (combine h obs) = true.
Proof.
  intros Hstep Hread. induction h as [|a h IH]; intros s obs HI Hag; [reflexivity|].
  cbn [run] in Hag. pose proof (Hstep s a HI) as HI'. pose proof (Hread s a) as Hr.
  destruct (stp s a) as [s1 r]. cbn [fst snd] in *.
  destruct (run stp s1 h) as [s2 rs] eqn:E. cbn [snd] in Hag.
  destruct obs as [|ob obs]; [discriminate|]. cbn [agrees_all] in Hag.
  apply andb_true_iff in Hag as [Ha Hag]. cbn [combine forallb].
  apply andb_true_iff. split.
  - destruct (is_read_op a) eqn:Er.
    + rewrite (Hr eq_refl) in Ha. now apply (faithful_one o imm (proj s)).
    + destruct a; try reflexivity; discriminate Er.
  - apply (IH s1); [exact HI'|]. now rewrite E.
Qed.

Lemma faithful_run o imm h st obs :
  Inv (hash14 o) (orc_img o) (orc_idx o) st ->
  agrees_all obs (snd (run (mem14 o imm) st h)) = true ->
  forallb (faithful o) (combine h obs) = true.
Proof.
  apply (faithful_run_gen o imm (mem14 o imm) (fun s => s)).
  - intros s op HI. unfold mem14. now apply inv_step.
  - reflexivity.
Qed.

Lemma corr_immutable c : c_mech c = MImmutable -> model_agrees_imm c = true ->
  clause_tags c && deletes_denied (c_ops c) (c_obs c) && clause_keep c
  && traced_all (fun o => negb (is_delete_op o)) c && clause_faithful c
  && forallb (push_digest_ok (hash14 (c_orc c))) (combine (c_ops c) (c_obs c))
  && clause_reads c = true.
Proof.
  intros Hm H. apply model_agrees_imm_facts in H. cbn zeta in H.
  destruct H as (Hwf & Hreads & Hbefore & Hsch & Hth & Hobs & Htrace & Hafter).
  unfold imm_rival, under_step, cfg_imm, wrapped in *. rewrite Hm in *.
  set (o := c_orc c) in *. set (imm := c_under_imm c) in *. set (sch := c_rivals c) in *.
  set (s1 := final (mem14 o imm) init (c_setup c)) in *.
  set (ist := imm_step (rival_step (mem14 o imm) sch) (hash14 o)) in *.
  pose proof (run_forget ist (c_ops c) (s1, 0%N)) as Hrf.
  destruct (trun ist (s1, 0%N) (c_ops c)) as [s2 rt] eqn:Etr. cbn [fst snd] in *.
  pose proof (inv_reach o imm (c_setup c)) as HI1. fold s1 in HI1.
  assert (Hobs' : agrees_all (c_obs c) (snd (run (forget ist) (s1, 0%N) (c_ops c))) = true).
  { now rewrite Hrf. }
  assert (Hs2 : final (forget ist) (s1, 0%N) (c_ops c) = s2).
  { unfold final. now rewrite Hrf. }
  pose proof (agrees_run_length _ _ _ _ Hbefore) as Lb.
  pose proof (agrees_run_length _ _ _ _ Hobs') as Lo.
  pose proof (agrees_run_length _ _ _ _ Hafter) as La.
  (* the ordered-pairs fact over probes, history, probes *)
  assert (Hal : all_later (pair_ok_d (dist c) MImmutable)
                  (combine (probe_ops c) (c_before c) ++ combine (c_ops c) (c_obs c)
                   ++ combine (probe_ops c) (c_after c)) = true).
  { rewrite <- !combine_app by assumption.
    pose proof (all_later_r o imm sch Hwf Hsch
                  (map (pair false) (probe_ops c) ++ map (pair true) (c_ops c) ++ map (pair false) (probe_ops c))
                  (c_before c ++ c_obs c ++ c_after c) (s1, 0%N) HI1) as Hk.
    rewrite !map_app, !map_map in Hk. cbn [snd] in Hk. rewrite !map_id in Hk. apply Hk. clear Hk.
    rewrite runk_snd_app, runk_map. cbn [stepk].
    rewrite (dstep_reads o imm (probe_ops c) (s1, 0%N) Hreads). cbn [fst snd].
    rewrite runk_snd_app, !runk_map. cbn [stepk].
    fold ist. rewrite Hrf. cbn [fst snd].
    rewrite (dstep_reads o imm (probe_ops c) s2 Hreads). cbn [snd].
    apply agrees_all_app'; [exact Hbefore|]. apply agrees_all_app'; assumption. }
  apply andb_true_iff. split.
  2: { unfold clause_reads, history_events. rewrite Hm, Hth. cbn [concat app]. rewrite app_nil_r.
       apply (faithful_run_gen o imm (forget ist) fst) with (s := (s1, 0%N)); [| |exact HI1|exact Hobs'].
       - intros s op HI. apply (good_w_step o imm sch s op HI).
       - intros s op Hr. apply (wstep_read_snd o imm sch s op Hr). }
  apply andb_true_iff. split; [|eapply push_digest_sound; eauto].
  apply andb_true_iff. split; [apply andb_true_iff; split; [apply andb_true_iff; split; [apply andb_true_iff; split|]|]|].
  5: { unfold clause_faithful. apply andb_true_iff. split.
       - apply (faithful_sound o imm s1); assumption.
       - apply (faithful_sound o imm (fst s2)); try assumption.
         rewrite <- Hs2. apply (good_w_final o imm sch (c_ops c) (s1, 0%N) HI1). }
  - apply (clause_tags_from_linearization c []); [rewrite Hth; now constructor| |reflexivity].
    unfold prefix_events, suffix_events. rewrite Hm. cbn [app]. rewrite <- app_assoc. exact Hal.
  - eapply deletes_denied_sound; eauto.
  - unfold clause_keep. rewrite Hm. apply keep3_intro.
    + rewrite map_length. unfold probe_ops in Lb. now rewrite map_length in Lb.
    + congruence.
    + intros i s b a Hs Hb Ha ->. rewrite nth_error_map in Hs.
      destruct (nth_error (c_probes c) i) as [p|] eqn:Ep; [|discriminate]. cbn in Hs. injection Hs as Hs.
      apply andb_true_iff in Hs as [Hs Hund].
      assert (Hop : nth_error (probe_ops c) i = Some (p_op p)).
      { unfold probe_ops. now rewrite nth_error_map, Ep. }
      destruct (agrees_all_nth _ _ _ _ Hbefore Hb) as [mb [Hmb Hagb]].
      destruct (agrees_all_nth _ _ _ _ Hafter Ha) as [ma [Hma Haga]].
      rewrite (run_reads_nth o imm _ s1 i _ Hreads Hop) in Hmb. injection Hmb as <-.
      rewrite (run_reads_nth o imm _ (fst s2) i _ Hreads Hop) in Hma. injection Hma as <-.
      destruct (is_tag_probe (p_op p)) eqn:Etp.
      * eapply (pair_same_content o MImmutable imm s1); eauto.
        rewrite <- (pair_ok_d_tag (dist c)) by assumption.
        eapply all_later_pick; [exact Hal | |].
        -- eapply nth_error_combine_In; eauto.
        -- apply in_or_app. right. eapply nth_error_combine_In; eauto.
      * eapply (content_probe_kept o imm s1 (fst s2)); eauto.
        intros r. rewrite <- Hs2. apply (grows_final_w o imm sch Hwf Hsch (c_ops c) (s1, 0%N) r HI1).
  - eapply traced_sound; [exact Htrace|]. intros l x Hl Hx.
    replace rt with (snd (trun ist (s1, 0%N) (c_ops c))) in Hl by now rewrite Etr.
    apply trun_traces in Hl as [st [op ->]].
    rewrite (imm_step_no_delete _ _ st op x Hx). reflexivity.
Qed.

(* ---- immutable-tags mode: the walk from the tags, recorded by the harness, is a walk in the model ---- *)

Section Justified.
  Variable o : oracles.
  Variable s1 : state.
  Local Notation mstep := (mem14 o true).
  Local Notation InvO := (Inv (hash14 o) (orc_img o) (orc_idx o)).
  Local Notation bdesc := (blob_desc (hash14 o)).

  Definition jfact (po : op) : Prop :=
    match po with
    | GetTag _ _ => True
    | GetManifest r x => walk (orc_img o) (orc_idx o) (repo_of s1 r) x
    | GetBlob r x => treach (orc_img o) (orc_idx o) (repo_of s1 r) x
    | _ => False
    end.

  Lemma parent_facts po pde pdata :
    jfact po ->
    match po with GetTag _ _ | GetManifest _ _ => true | _ => false end = true ->
    agrees (OOk (RRead pde pdata)) (snd (mstep s1 po)) = true ->
    exists x bl, walk (orc_img o) (orc_idx o) (repo_of s1 (probe_repo po)) x /\
                 mlk (repo_of s1 (probe_repo po)) x = Some bl /\
                 d_media pde = b_media bl /\ pdata = b_data bl.
  Proof.
    intros Hj Hk Hag. destruct po; try discriminate; cbn [probe_repo].
    - apply agrees_obs_ok in Hag. unfold mem14 in Hag. rewrite get_manifest_res in Hag.
      destruct (iman s1 r d) as [bl|] eqn:E; [|discriminate]. injection Hag as <- <-.
      exists d, bl. unfold mlk. rewrite <- iman_repo_of. repeat split; auto.
    - destruct (gettag_obs o true s1 _ _ _ _ Hag) as [tde [bl [Ht [Hm [-> ->]]]]].
      exists (d_digest tde), bl. unfold mlk. rewrite <- iman_repo_of. repeat split; auto.
      eapply walk_tag. rewrite <- itag_repo_of. exact Ht.
  Qed.

  Lemma child_fact r x bl media data child :
    walk (orc_img o) (orc_idx o) (repo_of s1 r) x -> mlk (repo_of s1 r) x = Some bl ->
    media = b_media bl -> data = b_data bl ->
    names_child o r media data child = true -> jfact child.
  Proof.
    intros Hw Hb -> -> Hn. unfold names_child in Hn.
    destruct (manifest_refs (orc_img o) (orc_idx o) (b_media bl) (b_data bl)) as [refs|] eqn:Er; [|discriminate].
    apply existsb_exists in Hn as [[k de] [Hin Hk]]. cbn [fst snd] in Hk.
    destruct k; destruct child; try discriminate;
      apply andb_true_iff in Hk as [Hr Hd]; apply beqb_eq in Hr, Hd; subst; cbn [jfact].
    - eapply walk_child; eauto. discriminate.
    - eapply walk_names; eauto.
    - eapply walk_child; eauto. discriminate.
  Qed.

  Lemma justified_sound : forall ps before done,
    (forall j flag po ob, nth_error done j = Some (flag, (po, ob)) -> flag = true ->
       jfact po /\ agrees ob (snd (mstep s1 po)) = true) ->
    (forall i p b, nth_error ps i = Some p -> nth_error before i = Some b ->
       agrees b (snd (mstep s1 (p_op p))) = true) ->
    forall i p, nth_error ps i = Some p ->
      nth_error (justified_from o ps before done) i = Some true -> jfact (p_op p).
  Proof.
    induction ps as [|p0 ps IH]; intros before done Hdone Hag i p Hp Hj; [destruct i; discriminate|].
    destruct before as [|b0 before]; [destruct i; discriminate|].
    cbn [justified_from] in Hj.
    set (j0 := match p_parent p0 with
               | None => match p_op p0 with GetTag _ _ => true | _ => false end
               | Some k =>
                   match nth_error done (N.to_nat k) with
                   | Some (true, (po, OOk (RRead pde pdata))) =>
                       (match po with GetTag _ _ | GetManifest _ _ => true | _ => false end)
                       && names_child o (probe_repo po) (d_media pde) pdata (p_op p0)
                   | _ => false
                   end
               end) in *.
    assert (Hj0 : j0 = true -> jfact (p_op p0)).
    { unfold j0. destruct (p_parent p0) as [k|].
      - destruct (nth_error done (N.to_nat k)) as [[flag [po ob]]|] eqn:En; [|discriminate].
        destruct flag; [|discriminate]. destruct ob as [[]| | | |]; try discriminate.
        intros H. apply andb_true_iff in H as [Hk Hn].
        destruct (Hdone _ _ _ _ En eq_refl) as [Hjp Hagp].
        destruct (parent_facts po d data Hjp Hk Hagp) as [x [bl [Hw [Hb [Hm Hd]]]]].
        eapply child_fact; eauto.
      - destruct (p_op p0); try discriminate. intros _. exact I. }
    destruct i as [|i]; cbn [nth_error] in Hp, Hj.
    - injection Hp as <-. injection Hj as Hj. auto.
    - apply (IH before (done ++ [(j0, (p_op p0, b0))])) with (i := i); auto.
      + intros j flag po ob Hn Hf.
        destruct (Nat.lt_ge_cases j (length done)) as [Hlt|Hge].
        * rewrite nth_error_app1 in Hn by exact Hlt. eauto.
        * rewrite nth_error_app2 in Hn by exact Hge.
          destruct (j - length done)%nat as [|q]; cbn in Hn; [|destruct q; discriminate].
          injection Hn as <- <- <-. split; [auto|]. apply (Hag 0%nat p0 b0); reflexivity.
      + intros i' p' b' Hp' Hb'. apply (Hag (S i')); assumption.
  Qed.

  Lemma justified_length : forall ps before done,
    length before = length ps -> length (justified_from o ps before done) = length ps.
  Proof.
    induction ps as [|p0 ps IH]; intros [|b0 before] done; cbn; try discriminate; [reflexivity|].
    intros H. injection H as H. now rewrite IH.
  Qed.
End Justified.

Lemma nth_error_combine {A B} (l1 : list A) (l2 : list B) i x y :
  nth_error (combine l1 l2) i = Some (x, y) -> nth_error l1 i = Some x /\ nth_error l2 i = Some y.
Proof.
  revert l2 i; induction l1 as [|a l1 IH]; intros [|b l2] [|i]; cbn; try discriminate.
  - intros H. injection H as -> ->. auto.
  - apply IH.
Qed.

(* ---- immutable-tags mode: a snapshot of a reachable state is closed under the direct references
        of tagged manifests ---- *)


Section Closed.
  Variable o : oracles.
  Local Notation mstep := (mem14 o true).

  Lemma closed_snapshot_sound st ps obs :
    (forall r, tagkids (orc_img o) (orc_idx o) (repo_of st r)) ->
    forallb is_read_op ps = true ->
    agrees_all obs (snd (run mstep st ps)) = true ->
    closed_snapshot o ps obs = true.
  Proof.
    intros HK Hr Hag. unfold closed_snapshot. cbn zeta.
    assert (Hev : forall op ob, In (op, ob) (combine ps obs) -> agrees ob (snd (mstep st op)) = true).
    { intros op ob Hin. destruct (In_combine_nth _ _ _ _ Hin) as [i [Hp Hb]].
      destruct (agrees_all_nth _ _ _ _ Hag Hb) as [m [Hm Ha]].
      rewrite (run_reads_nth o true _ st i _ Hr Hp) in Hm. now injection Hm as <-. }
    apply forallb_forall. intros [op ob] Hin.
    destruct op; try reflexivity. destruct ob as [[]| | | |]; try reflexivity.
    pose proof (Hev _ _ Hin) as Hg.
    destruct (gettag_obs o true st _ _ _ _ Hg) as [tde [bl [Ht [Hm [-> ->]]]]].
    cbn [blob_desc d_media].
    destruct (manifest_refs (orc_img o) (orc_idx o) (b_media bl) (b_data bl)) as [refs|] eqn:Er; [|reflexivity].
    apply forallb_forall. intros [op' ob'] Hin'. cbn [fst snd].
    destruct (kid_probe r refs op') eqn:En; [|reflexivity].
    cbn [implb]. pose proof (Hev _ _ Hin') as Hg'.
    unfold kid_probe in En.
    apply existsb_exists in En as [[k cd] [Hink Hk]]. cbn [fst snd] in Hk.
    rewrite itag_repo_of in Ht. rewrite iman_repo_of in Hm.
    pose proof (HK r _ _ _ _ _ Ht Hm Er Hink) as Hs. unfold stored_ref in Hs. cbn [fst snd] in Hs.
    unfold mem14 in Hg'.
    destruct k; destruct op'; try discriminate;
      apply andb_true_iff in Hk as [H1 H2]; apply beqb_eq in H1, H2; subst.
    - rewrite get_blob_res, iblob_repo_of in Hg'.
      destruct (alookup (d_digest cd) (blobs (repo_of st r))) as [b0|]; [|contradiction].
      apply agrees_model_read in Hg'. now subst ob'.
    - rewrite get_manifest_res, iman_repo_of in Hg'.
      destruct (alookup (d_digest cd) (manifests (repo_of st r))) as [b0|]; [|contradiction].
      apply agrees_model_read in Hg'. now subst ob'.
  Qed.

  Hypothesis Hwf : orc_wf o = true.

  Lemma tagkids_reach h r : tagkids (orc_img o) (orc_idx o) (repo_of (final mstep init h) r).
  Proof.
    apply (history_tagkids (hash14 o) (orc_vd o) (orc_vr o) (orc_vt o) (orc_img o) (orc_idx o)
             {| immutable_tags := true |} eq_refl (hash14_inj o Hwf) h init).
    - apply inv_init.
    - intros r'. apply tagkids_init.
  Qed.
End Closed.

Lemma corr_immtags c : c_mech c = MImmTags -> model_agrees_seq c = true ->
  clause_tags c && clause_keep c && clause_closed c && clause_faithful c && clause_reads c = true.
Proof.
  intros Hm H. apply model_agrees_facts in H. cbn zeta in H.
  destruct H as (Hwf & Hreads & Hsetup & Hbefore & Hobs & _ & _ & M & Hil & HM & Hafter).
  unfold mech_step, under_step, cfg_imm in *. rewrite Hm in *.
  set (o := c_orc c) in *.
  set (s1 := final (mem14 o true) init (c_setup c)) in *.
  set (s2 := final (mem14 o true) s1 (c_ops c)) in *.
  set (s3 := final (mem14 o true) s2 (map fst M)) in *.
  pose proof (inv_reach o true (c_setup c)) as HI1. fold s1 in HI1.
  pose proof (agrees_run_length _ _ _ _ Hsetup) as Ls.
  pose proof (agrees_run_length _ _ _ _ Hbefore) as Lb.
  pose proof (agrees_run_length _ _ _ _ Hobs) as Lo.
  pose proof (agrees_run_length _ _ _ _ HM) as Lm.
  pose proof (agrees_run_length _ _ _ _ Hafter) as La.
  assert (Hal : all_later (pair_ok MImmTags) (prefix_events c ++ M ++ suffix_events c) = true).
  { unfold prefix_events, suffix_events. rewrite Hm.
    rewrite <- (combine_fst_snd M) at 1.
    rewrite <- !app_assoc.
    unfold ev.
    rewrite <- !combine_app by (try assumption; rewrite ?app_length, ?map_length; congruence).
    apply (all_later_t o Hwf _ _ init (good_t_init o)).
    rewrite !run_snd_app. fold s1.
    rewrite (run_reads_state o true (probe_ops c) s1 Hreads). fold s2. fold s3.
    repeat (apply agrees_all_app'; [assumption|]). assumption. }
  apply andb_true_iff. split.
  2: { (* the reads of the setup, of the history and of every goroutine *)
    unfold clause_reads, history_events. rewrite Hm. rewrite !forallb_app.
    apply andb_true_iff. split; [|apply andb_true_iff; split].
    - apply (faithful_run o true (c_setup c) init); [apply inv_init | exact Hsetup].
    - apply (faithful_run o true (c_ops c) s1); [exact HI1 | exact Hobs].
    - assert (HMf : forallb (faithful o) M = true).
      { rewrite <- (combine_fst_snd M). apply (faithful_run o true (map fst M) s2); [|exact HM].
        unfold s2, s1. rewrite <- final_app. apply inv_reach. }
      rewrite forallb_forall in HMf. apply forallb_forall. intros x Hx.
      apply in_concat in Hx as [th [Hth Hx]]. apply HMf.
      destruct (In_nth _ _ [] Hth) as [j [_ Hj]]. apply (interleave_In _ _ Hil j). now rewrite Hj. }
  apply andb_true_iff. split; [apply andb_true_iff; split; [apply andb_true_iff; split|]|].
  4: { unfold clause_faithful. apply andb_true_iff. split.
       - apply (faithful_sound o true s1); assumption.
       - apply (faithful_sound o true s3); try assumption.
         unfold s3, s2, s1. rewrite <- !final_app. apply inv_reach. }
  3: { (* both snapshots are snapshots of reachable states *)
    unfold clause_closed. apply andb_true_iff. split.
    - apply (closed_snapshot_sound o s1); [|exact Hreads | exact Hbefore].
      intros r. apply (tagkids_reach o Hwf).
    - apply (closed_snapshot_sound o s3); [|exact Hreads | exact Hafter].
      intros r. unfold s3, s2, s1. rewrite <- !final_app. apply (tagkids_reach o Hwf). }
  - apply (clause_tags_from_linearization c M Hil); rewrite Hm.
    + eapply all_later_impl; [apply pair_ok_weaken | exact Hal].
    + eapply all_later_subseq; [|exact Hal].
      change M with ([] ++ M) at 1. apply subseq_app; [apply subseq_nil|].
      rewrite <- (app_nil_r M) at 1. apply subseq_app; [apply subseq_refl | apply subseq_nil].
  - unfold clause_keep. rewrite Hm.
    assert (Lj : length (justified c) = length (c_probes c)).
    { apply justified_length. unfold probe_ops in Lb. rewrite map_length in Lb. congruence. }
    assert (HK : forall r, keeps (orc_img o) (orc_idx o) (repo_of s1 r) (repo_of s3 r)).
    { intros r. unfold s3, s2. rewrite <- final_app.
      apply (history_keeps (hash14 o) (orc_vd o) (orc_vr o) (orc_vt o) (orc_img o) (orc_idx o)
               {| immutable_tags := true |} eq_refl (hash14_inj o Hwf)). exact HI1. }
    apply keep3_intro.
    + rewrite map_length, combine_length, Lj, Nat.min_id. unfold probe_ops in Lb. now rewrite map_length in Lb.
    + congruence.
    + intros i s b a Hs Hb Ha ->. rewrite nth_error_map in Hs.
      destruct (nth_error (combine (c_probes c) (justified c)) i) as [[p j]|] eqn:Ec; [|discriminate].
      cbn in Hs. injection Hs as Hs. apply nth_error_combine in Ec as [Ep Ej].
      assert (Hop : nth_error (probe_ops c) i = Some (p_op p)).
      { unfold probe_ops. now rewrite nth_error_map, Ep. }
      destruct (agrees_all_nth _ _ _ _ Hbefore Hb) as [mb [Hmb Hagb]].
      destruct (agrees_all_nth _ _ _ _ Hafter Ha) as [ma [Hma Haga]].
      rewrite (run_reads_nth o true _ s1 i _ Hreads Hop) in Hmb. injection Hmb as <-.
      rewrite (run_reads_nth o true _ s3 i _ Hreads Hop) in Hma. injection Hma as <-.
      destruct (is_tag_probe (p_op p)) eqn:Etp.
      * eapply (pair_same_content o MImmTags true s1); eauto.
        eapply all_later_pick; [exact Hal | |].
        -- unfold prefix_events. rewrite Hm. apply in_or_app. right. apply in_or_app. left.
           eapply nth_error_combine_In; eauto.
        -- apply in_or_app. right. eapply nth_error_combine_In; eauto.
      * cbn in Hs. subst j.
        assert (Hjf : jfact o s1 (p_op p)).
        { apply (justified_sound o s1 (c_probes c) (c_before c) []) with (i := i); auto.
          - intros j flag po ob Hn. destruct j; discriminate.
          - intros i' p' b' Hp' Hb'.
            assert (Hop' : nth_error (probe_ops c) i' = Some (p_op p')).
            { unfold probe_ops. now rewrite nth_error_map, Hp'. }
            destruct (agrees_all_nth _ _ _ _ Hbefore Hb') as [m' [Hm' Hag']].
            rewrite (run_reads_nth o true _ s1 i' _ Hreads Hop') in Hm'. now injection Hm' as <-. }
        unfold mem14 in Hagb, Haga.
        destruct (p_op p); try discriminate; cbn [jfact] in Hjf; try contradiction.
        -- (* GetBlob *)
           rewrite get_blob_res in Hagb, Haga. rewrite iblob_repo_of in Hagb, Haga.
           destruct (alookup d (blobs (repo_of s1 r))) as [bl|] eqn:E; [|eapply same_content_err; eauto].
           destruct (k_blob _ _ _ _ (HK r) d bl Hjf E) as [bl' [E' Hd]]. rewrite E' in Haga.
           eapply same_content_read; eauto.
        -- (* GetManifest *)
           rewrite get_manifest_res in Hagb, Haga. rewrite iman_repo_of in Hagb, Haga.
           destruct (alookup d (manifests (repo_of s1 r))) as [bl|] eqn:E; [|eapply same_content_err; eauto].
           destruct (k_man _ _ _ _ (HK r) d bl (walk_treach _ _ _ _ Hjf) E) as [bl' [E' [Hd _]]].
           rewrite E' in Haga. eapply same_content_read; eauto.
Qed.

Lemma corr_sound c : model_agrees c = true -> obs_ok c = true.
Proof.
  unfold model_agrees, obs_ok. destruct (c_mech c) eqn:Hm; intros H.
  - now apply corr_readonly.
  - now apply corr_immutable.
  - now apply corr_immtags.
Qed.
