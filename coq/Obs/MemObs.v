(* Shared observation vocabulary for the properties whose harness runs operation
   histories against a registry stack (C01, C02, C03, C04, C14, ...): the finite oracle
   tables the harness hands over, observed results, and the comparison of an observed
   result with a model result on projected observables (success / failure, OCI code,
   descriptor, bytes, listing). *)
From Coq Require Import String.
From OCI Require Export Base.Outcome Model.Iface Model.Mem.

Record oracles := {
  o_hash : alist bytes;                 (* content -> sha256 digest, as computed by the real code *)
  o_digests : list bytes;               (* digest strings for which Validate() succeeds *)
  o_repos : list bytes;                 (* names for which IsValidRepository holds *)
  o_tags : list bytes;                  (* names for which IsValidTag holds *)
  o_images : alist image_manifest;      (* contents that json-decode as an image manifest *)
  o_indexes : alist index_manifest      (* contents that json-decode as an index *)
}.

(* a content the table does not know hashes to a value no digest equals *)
Definition orc_hash (o : oracles) (c : bytes) : bytes :=
  match alookup c (o_hash o) with Some d => d | None => s "?unknown-content" end.
Definition orc_vd (o : oracles) (d : bytes) : bool := mem_bytes d (o_digests o).
Definition orc_vr (o : oracles) (d : bytes) : bool := mem_bytes d (o_repos o).
Definition orc_vt (o : oracles) (d : bytes) : bool := mem_bytes d (o_tags o).
Definition orc_img (o : oracles) (c : bytes) : option image_manifest := alookup c (o_images o).
Definition orc_idx (o : oracles) (c : bytes) : option index_manifest := alookup c (o_indexes o).

Definition mem_step (o : oracles) (imm : bool) : registry state :=
  step (orc_hash o) (orc_vd o) (orc_vr o) (orc_vt o) (orc_img o) (orc_idx o) {| immutable_tags := imm |}.

Inductive oresult :=
  | OOk (r : res)
  | OList (l : list bytes) (e : option ecode)
  | ODescs (l : list desc) (e : option ecode)
  | OErr (c : ecode)
  | OPanic.

Definition res_eqb (a b : res) : bool :=
  match a, b with
  | RDesc x, RDesc y => desc_eqb x y
  | RRead x dx, RRead y dy => desc_eqb x y && beqb dx dy
  | RWriter x, RWriter y => N.eqb x y
  | RN x, RN y => Z.eqb x y
  | RStr x, RStr y => beqb x y
  | RUnit, RUnit => true
  | _, _ => false
  end.

Definition opt_code (e : option err) : option ecode := option_map e_code e.

(* observed result vs. model result *)
Definition agrees (obs : oresult) (m : result) : bool :=
  match obs, m with
  | OOk r, Ok r' => res_eqb r r'
  | OList l e, Ok (RList l' e') => list_eqb beqb l l' && option_eqb ecode_eqb e (opt_code e')
  | ODescs l e, Ok (RDescs l' e') => list_eqb desc_eqb l l' && option_eqb ecode_eqb e (opt_code e')
  | OErr c, Err e => ecode_eqb c (e_code e)
  | OPanic, Panic => true
  | _, _ => false
  end.

Fixpoint agrees_all (obs : list oresult) (ms : list result) : bool :=
  match obs, ms with
  | [], [] => true
  | o :: obs', m :: ms' => agrees o m && agrees_all obs' ms'
  | _, _ => false
  end.

(* index of the first disagreement, for diagnostics *)
Fixpoint first_bad (i : N) (obs : list oresult) (ms : list result) : option N :=
  match obs, ms with
  | [], [] => None
  | o :: obs', m :: ms' => if agrees o m then first_bad (N.succ i) obs' ms' else Some i
  | _, _ => Some i
  end.
