(* Shared by Obs/C10.v and Obs/C11.v: the shape of an observed conversation between the real
   ociauth transport and the scripted fake network, the environment it induces for the model
   (responses and time stamps are replayed from the observation), and model agreement. *)
From Coq Require Import String ZArith Bool.
From OCI Require Export Base.Outcome Model.Auth Model.AuthRedirect Model.AuthSpec.

Record run_case := {
  c_cfg : list (bytes * option config_entry);      (* Config: hosts not listed have the empty entry *)
  c_purl : list (bytes * option (bytes * values));  (* url.Parse of every realm in play *)
  c_sched : list sched;                             (* the schedule the harness played *)
  c_times : list Z;                                 (* time stamp (us) of every observed event *)
  c_trace : list event;                             (* everything observed, in order *)
  c_untouched : bool;                               (* no caller request differed after RoundTrip *)
  c_reqs : list (nat * (sexp * sexp));              (* how the harness built each call's scopes *)
  (* token requests that a token server answered with a Location header: index of the exchange in
     [c_trace] (whose ESend shows the request and what http.Client.Do returned for it) and the
     requests that reached the network one by one, the token request itself first *)
  c_hops : list (nat * list hop)
}.

Inductive case :=
  | CRun (c : run_case)
  | CParse (hdr : bytes) (panicked : bool) (o : option (bytes * list (bytes * bytes))).

Fixpoint alookup {V} (k : bytes) (m : list (bytes * V)) : option V :=
  match m with
  | [] => None
  | (k', v) :: rest => if beqb k k' then Some v else alookup k rest
  end.

Definition cfg_of (c : run_case) (host : bytes) : option config_entry :=
  match alookup host (c_cfg c) with Some e => e | None => Some zero_entry end.

Definition purl_of (c : run_case) (realm : bytes) : option (bytes * values) :=
  match alookup realm (c_purl c) with Some e => e | None => None end.

(* the response the fake gave to the message that became event number [length h] *)
Definition net_of (tr : list event) (h : hist) (m : msg) : resp :=
  match nth_error tr (List.length h) with
  | Some (ESend _ _ r) => r
  | _ => RFail
  end.

(* the time stamp of the newest event *)
Definition clock_of (times : list Z) (h : hist) : Z :=
  nth (List.length h - 1) times 0%Z.

Definition env_of (c : run_case) : env :=
  {| e_cfg := cfg_of c; e_net := net_of (c_trace c); e_clock := clock_of (c_times c); e_purl := purl_of c |}.

(* ---------- equality of observables ---------- *)

Definition pair_eqb (a b : bytes * bytes) : bool := beqb (fst a) (fst b) && beqb (snd a) (snd b).
Definition kv_eqb (a b : bytes * list bytes) : bool := beqb (fst a) (fst b) && list_eqb beqb (snd a) (snd b).

Definition msg_eqb (a b : msg) : bool :=
  match a, b with
  | MReg h x, MReg h' x' => beqb h h' && authz_eqb x x'
  | MPost r f x, MPost r' f' x' => beqb r r' && list_eqb pair_eqb f f' && authz_eqb x x'
  | MGet u q x, MGet u' q' x' => beqb u u' && list_eqb kv_eqb q q' && authz_eqb x x'
  | _, _ => false
  end.

Definition wt_eqb (a b : wire_token) : bool :=
  beqb (wt_token a) (wt_token b) && beqb (wt_access a) (wt_access b)
  && beqb (wt_refresh a) (wt_refresh b) && (wt_expires a =? wt_expires b)%Z.

Definition tbody_eqb (a b : tbody) : bool :=
  match a, b with
  | TBReadErr, TBReadErr => true
  | TBBadJSON, TBBadJSON => true
  | TBJSON w, TBJSON w' => wt_eqb w w'
  | _, _ => false
  end.

Definition resp_eqb (a b : resp) : bool :=
  match a, b with
  | RFail, RFail => true
  | RHttp s w t, RHttp s' w' t' => N.eqb s s' && list_eqb beqb w w' && tbody_eqb t t'
  | _, _ => false
  end.

Definition result_eqb (a b : result) : bool :=
  match a, b with
  | RetResp s d, RetResp s' d' => N.eqb s s' && Bool.eqb d d'
  | RetErr o, RetErr o' => option_eqb N.eqb o o'
  | _, _ => false
  end.

Definition body_eqb (a b : body) : bool :=
  match a, b with
  | BNone, BNone | BPlain, BPlain | BGet, BGet | BGetFail, BGetFail => true
  | _, _ => false
  end.

(* the observed EStart repeats the request of the schedule *)
Definition rscope_eqb (a b : rscope) : bool :=
  beqb (rtype a) (rtype b) && beqb (rres a) (rres b) && beqb (ract a) (ract b).

(* the very same Scope value, text included *)
Definition scope_eqb (a b : scope) : bool :=
  beqb (original a) (original b) && Bool.eqb (unlimited a) (unlimited b)
  && list_eqb beqb (repositories a) (repositories b) && list_eqb N.eqb (actions a) (actions b)
  && list_eqb rscope_eqb (others a) (others b).

Definition request_eqb (a b : request) : bool :=
  beqb (q_host a) (q_host b) && body_eqb (q_body a) (q_body b) && authz_eqb (q_auth a) (q_auth b)
  && scope_eqb (q_required a) (q_required b) && scope_eqb (q_want a) (q_want b).

Definition event_eqb (a b : event) : bool :=
  match a, b with
  | EStart i q, EStart i' q' => Nat.eqb i i' && request_eqb q q'
  | EResume i, EResume i' => Nat.eqb i i'
  | ESend i m r, ESend i' m' r' => Nat.eqb i i' && msg_eqb m m' && resp_eqb r r'
  | ESelfClose i, ESelfClose i' => Nat.eqb i i'
  | ERespClose i, ERespClose i' => Nat.eqb i i'
  | EGetBody i, EGetBody i' => Nat.eqb i i'
  | EReturn i r, EReturn i' r' => Nat.eqb i i' && result_eqb r r'
  | _, _ => false
  end.

(* params of a parsed challenge, compared as maps *)
Definition params_agree (obs model : list (bytes * bytes)) : bool :=
  (List.length obs =? List.length model)%nat
  && forallb (fun kv => beqb (pget (fst kv) model) (snd kv) && nonempty (snd kv)) obs.

Definition parse_agrees (hdr : bytes) (panicked : bool) (o : option (bytes * list (bytes * bytes))) : bool :=
  match parseWWWAuthenticate hdr with
  | Ok None => negb panicked && match o with None => true | Some _ => false end
  | Ok (Some h) =>
      negb panicked
      && match o with
         | Some (sch, ps) => beqb sch (ah_scheme h) && params_agree ps (ah_params h)
         | None => false
         end
  | Panic => panicked
  | _ => false
  end.

Definition run_agrees (c : run_case) : bool :=
  list_eqb event_eqb (trace (env_of c) (c_sched c)) (c_trace c) && c_untouched c.

(* the redirect hops: the model of http.Client (Model/AuthRedirect.v), run against a network that
   answers as the observed chain was answered, sends exactly the observed requests, and returns
   what the exchange shows as its answer *)
Definition wire_eqb (a b : wire) : bool :=
  msg_eqb (w_msg a) (w_msg b) && beqb (w_host a) (w_host b) && beqb (w_hostport a) (w_hostport b).

Definition chain_agrees (m : msg) (rsp : resp) (chain : list hop) : bool :=
  match chain with
  | [] => false
  | h0 :: _ =>
      msg_eqb (hp_msg h0) m
      && (let (r, sent) := client_do (replay chain) m (hp_host h0) (hp_hostport h0) in
          resp_eqb r rsp && list_eqb wire_eqb (rev sent) (map wire_of chain))
  end.

Definition hops_agree (c : run_case) : bool :=
  forallb (fun ic => match nth_error (c_trace c) (fst ic) with
                     | Some (ESend _ m rsp) => is_tok_msg m && chain_agrees m rsp (snd ic)
                     | _ => false
                     end) (c_hops c).

Definition model_agrees (c : case) : bool :=
  match c with
  | CRun r => run_agrees r && hops_agree r
  | CParse hdr pk o => parse_agrees hdr pk o
  end.

(* ---------- the comparisons decide equality ---------- *)

Lemma beqb_true a b : beqb a b = true -> a = b.
Proof. apply beqb_eq. Qed.

Lemma list_eqb_true {A} (f : A -> A -> bool) :
  (forall a b, f a b = true -> a = b) -> forall l1 l2, list_eqb f l1 l2 = true -> l1 = l2.
Proof.
  intros Hf. induction l1 as [|a l1 IH]; intros [|b l2]; cbn; try discriminate; auto.
  intros H. apply andb_true_iff in H as [H1 H2]. f_equal; auto.
Qed.

Ltac eqs0 :=
  repeat match goal with
         | H : (_ && _) = true |- _ => apply andb_true_iff in H as [? ?]
         | H : beqb _ _ = true |- _ => apply beqb_true in H
         | H : (_ =? _)%Z = true |- _ => apply Z.eqb_eq in H
         | H : (_ =? _)%N = true |- _ => apply N.eqb_eq in H
         | H : Nat.eqb _ _ = true |- _ => apply Nat.eqb_eq in H
         | H : Bool.eqb _ _ = true |- _ => apply Bool.eqb_prop in H
         | H : list_eqb beqb _ _ = true |- _ => apply (list_eqb_true beqb beqb_true) in H
         | H : list_eqb N.eqb _ _ = true |- _ => apply (list_eqb_true N.eqb (fun a b => proj1 (N.eqb_eq a b))) in H
         end.

Lemma authz_eqb_true a b : authz_eqb a b = true -> a = b.
Proof. destruct a, b; cbn; try discriminate; auto; intros H; eqs0; now subst. Qed.

Lemma pair_eqb_true a b : pair_eqb a b = true -> a = b.
Proof. destruct a, b. unfold pair_eqb. cbn. intros H. eqs0. now subst. Qed.

Lemma kv_eqb_true a b : kv_eqb a b = true -> a = b.
Proof. destruct a, b. unfold kv_eqb. cbn. intros H. eqs0. now subst. Qed.

Lemma msg_eqb_true a b : msg_eqb a b = true -> a = b.
Proof.
  destruct a, b; cbn; try discriminate; intros H; eqs0;
    repeat match goal with
           | H : authz_eqb _ _ = true |- _ => apply authz_eqb_true in H
           | H : list_eqb pair_eqb _ _ = true |- _ => apply (list_eqb_true pair_eqb pair_eqb_true) in H
           | H : list_eqb kv_eqb _ _ = true |- _ => apply (list_eqb_true kv_eqb kv_eqb_true) in H
           end; now subst.
Qed.

Lemma wt_eqb_true a b : wt_eqb a b = true -> a = b.
Proof. destruct a, b. unfold wt_eqb. cbn. intros H. eqs0. now subst. Qed.

Lemma tbody_eqb_true a b : tbody_eqb a b = true -> a = b.
Proof. destruct a, b; cbn; try discriminate; auto. intros H. apply wt_eqb_true in H. now subst. Qed.

Lemma resp_eqb_true a b : resp_eqb a b = true -> a = b.
Proof.
  destruct a, b; cbn; try discriminate; auto. intros H. eqs0.
  match goal with H : tbody_eqb _ _ = true |- _ => apply tbody_eqb_true in H end. now subst.
Qed.

Lemma result_eqb_true a b : result_eqb a b = true -> a = b.
Proof.
  destruct a as [s d|o], b as [s' d'|o']; cbn; try discriminate; intros H.
  - eqs0. now subst.
  - destruct o, o'; cbn in H; try discriminate; auto. eqs0. now subst.
Qed.

Lemma body_eqb_true a b : body_eqb a b = true -> a = b.
Proof. destruct a, b; cbn; try discriminate; auto. Qed.

Lemma rscope_eqb_true a b : rscope_eqb a b = true -> a = b.
Proof. destruct a, b. unfold rscope_eqb. cbn. intros H. eqs0. now subst. Qed.

Lemma scope_eqb_true a b : scope_eqb a b = true -> a = b.
Proof.
  destruct a, b. unfold scope_eqb. cbn. intros H. eqs0.
  match goal with H : list_eqb rscope_eqb _ _ = true |- _ => apply (list_eqb_true rscope_eqb rscope_eqb_true) in H end.
  now subst.
Qed.

Lemma request_eqb_true a b : request_eqb a b = true -> a = b.
Proof.
  destruct a, b. unfold request_eqb. cbn. intros H. eqs0.
  repeat match goal with
         | H : body_eqb _ _ = true |- _ => apply body_eqb_true in H
         | H : authz_eqb _ _ = true |- _ => apply authz_eqb_true in H
         | H : scope_eqb _ _ = true |- _ => apply scope_eqb_true in H
         end. now subst.
Qed.

Lemma event_eqb_true a b : event_eqb a b = true -> a = b.
Proof.
  destruct a, b; cbn; try discriminate; intros H; eqs0;
    repeat match goal with
           | H : request_eqb _ _ = true |- _ => apply request_eqb_true in H
           | H : msg_eqb _ _ = true |- _ => apply msg_eqb_true in H
           | H : resp_eqb _ _ = true |- _ => apply resp_eqb_true in H
           | H : result_eqb _ _ = true |- _ => apply result_eqb_true in H
           end; now subst.
Qed.

(* agreement means: the observed trace is the model's trace under the replayed environment *)
Lemma run_agrees_history c :
  run_agrees c = true -> rev (c_trace c) = history (run (env_of c) (c_sched c)) /\ c_untouched c = true.
Proof.
  unfold run_agrees. intros H. apply andb_true_iff in H as [H1 H2]. split; [|exact H2].
  apply (list_eqb_true event_eqb event_eqb_true) in H1. rewrite <- H1. unfold trace. apply rev_involutive.
Qed.

Lemma wire_eqb_true a b : wire_eqb a b = true -> a = b.
Proof.
  destruct a as [[m1 h1] p1], b as [[m2 h2] p2]. unfold wire_eqb, w_msg, w_host, w_hostport. cbn. intros H.
  apply andb_true_iff in H as [H H3]. apply andb_true_iff in H as [H1 H2].
  apply msg_eqb_true in H1. apply beqb_true in H2, H3. now subst.
Qed.

(* agreement on a chain: the observed requests are the ones the model of http.Client sends when
   it is answered as they were *)
Lemma chain_agrees_sent m rsp chain :
  chain_agrees m rsp chain = true ->
  exists h0 rest sent, chain = h0 :: rest /\ hp_msg h0 = m
    /\ client_do (replay chain) m (hp_host h0) (hp_hostport h0) = (rsp, sent) /\ rev sent = map wire_of chain.
Proof.
  unfold chain_agrees. destruct chain as [|h0 rest]; [discriminate|]. intros H.
  apply andb_true_iff in H as [H1 H2]. apply msg_eqb_true in H1.
  destruct (client_do (replay (h0 :: rest)) m (hp_host h0) (hp_hostport h0)) as [r sent] eqn:Ed.
  apply andb_true_iff in H2 as [H2 H3]. apply resp_eqb_true in H2.
  apply (list_eqb_true wire_eqb wire_eqb_true) in H3. subst r.
  exists h0, rest, sent. now repeat split.
Qed.

Definition mismatches_of (ma ok : case -> bool) (cs : list case) : list (N * bool) :=
  bad_from 0 (fun c => if ma c then None else Some (ok c)) cs.
Definition bad_obs_of (ma ok : case -> bool) (cs : list case) : list (N * bool) :=
  bad_from 0 (fun c => if ok c then None else Some (ma c)) cs.
