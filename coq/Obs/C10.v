(* Correspondence for C10: conversations between the real ociauth transport and a scripted
   fake network (every token request, every token presented, with time stamps) versus the
   model (Model/Auth.v) and versus the property's specification (Model/AuthSpec.v, S1..S3). *)
From Coq Require Import String ZArith.
From OCI Require Import Proofs.Scope Proofs.ScopeAlg Proofs.ScopeOps Proofs.ScopeEval.
From OCI Require Export Base.Outcome Obs.AuthObs.
From Coq Require Import Lia.
From OCI Require Import Proofs.Challenge Proofs.AuthInv Proofs.AuthC11 Proofs.AuthC10 Proofs.AuthC10b Proofs.AuthParse.

(* side conditions of the C10 theorems, decided on the case: the scopes of every started call
   are the ones the harness built through the exported API (hence well formed), and every
   scope the model asked a token for reads back from its text as itself *)
Fixpoint req_lookup (id : nat) (l : list (nat * (sexp * sexp))) : option (sexp * sexp) :=
  match l with
  | [] => None
  | (i, v) :: rest => if Nat.eqb i id then Some v else req_lookup id rest
  end.

Definition start_built (tbl : list (nat * (sexp * sexp))) (e : event) : bool :=
  match e with
  | EStart id q =>
      match req_lookup id tbl with
      | Some (e1, e2) => scope_eqb (q_required q) (eval e1) && scope_eqb (q_want q) (eval e2)
      | None => false
      end
  | _ => true
  end.

Definition rt_b (sc : scope) : bool := Equal (ParseScope (String sc)) sc.

(* the time stamps never decrease, one per observed event.  The stamp of a phase marker is the
   model's clock for that phase (the sweep of expired tokens in setAuthorization), so it has to
   lie inside the phase: between taking and releasing the host's lock.  For a call the harness
   launched while another call sat in a slow token request (holding that lock) the marker is
   therefore recorded and stamped at the call's first observable action, after the held phase -
   not at its launch, when it had not got the lock yet (harness/authsim: Step.Hold, Ev.W). *)
Fixpoint sortedb (l : list Z) : bool :=
  match l with
  | a :: (b :: _) as t => (a <=? b)%Z && sortedb t
  | _ => true
  end.

Definition side_b (r : run_case) : bool :=
  forallb (start_built (c_reqs r)) (c_trace r)
  && forallb (fun hr => forallb rt_b (r_asked (snd hr))) (regs (run (env_of r) (c_sched r)))
  && sortedb (c_times r) && (List.length (c_times r) =? List.length (c_trace r))%nat.

Definition model_agrees (c : case) : bool :=
  match c with
  | CRun r => run_agrees r && side_b r && hops_agree r
  | CParse hdr pk o => parse_agrees hdr pk o
  end.

(* the specification, evaluated on what was observed *)
Definition obs_ok (c : case) : bool :=
  match c with
  | CRun r =>
      let E := env_of r in
      let h := rev (c_trace r) in
      all_ok (evS1 E) h && all_ok (evS2 E) h && all_ok evS3 h
  (* the parser called directly: it does not panic, and it hands out scheme and parameter names
     in lower case whatever the header's spelling (they are case-insensitive, and the transport
     looks up realm / service / scope in lower case) *)
  | CParse _ panicked o => negb panicked && parsed_lower o
  end.

(* a conversation exercises the property when a bearer token was presented or a token asked for *)
Definition nontrivial (c : case) : bool :=
  match c with
  | CRun r =>
      existsb (fun e => match e with
                        | ESend _ (MReg _ (ABearer _)) _ => true
                        | ESend _ m _ => is_tok_msg m
                        | _ => false
                        end) (c_trace r)
  | CParse _ _ _ => false
  end.

Lemma reg_get_In host r (m : list (bytes * registry)) : reg_get host m = Some r -> exists k, In (k, r) m.
Proof.
  induction m as [|[k r'] m IH]; cbn; [discriminate|].
  destruct (beqb host k); [intros [= ->]; exists k; now left|]. intros H. destruct (IH H) as [k' Hk]. exists k'. now right.
Qed.

Lemma sorted_nth l : sortedb l = true -> forall i j, (i <= j < List.length l)%nat -> (nth i l 0 <= nth j l 0)%Z.
Proof.
  induction l as [|a l IH]; intros Hs i j Hij; [cbn in Hij; lia|].
  assert (Hl : sortedb l = true). { destruct l as [|b l]; [reflexivity|]. cbn in Hs. now apply andb_true_iff in Hs as [_ Hs]. }
  assert (Hhd : forall k, (k < List.length l)%nat -> (a <= nth k l 0)%Z).
  { intros k Hk. destruct l as [|b l]; [cbn in Hk; lia|]. cbn [sortedb] in Hs. apply andb_true_iff in Hs as [Hab _].
    apply Z.leb_le in Hab. specialize (IH Hl 0%nat k). change (nth 0 (b :: l) 0%Z) with b in IH. lia. }
  destruct i as [|i], j as [|j]; cbn [nth]; cbn [List.length] in Hij.
  - lia.
  - apply Hhd. lia.
  - lia.
  - apply IH; [exact Hl | lia].
Qed.

Lemma side_b_sides r :
  run_agrees r = true -> side_b r = true ->
  side (run (env_of r) (c_sched r)) /\ side2 (env_of r) (run (env_of r) (c_sched r)).
Proof.
  intros Hr Hs. apply run_agrees_history in Hr as [Hh _]. unfold side_b in Hs.
  apply andb_true_iff in Hs as [Hs Hlen]. apply andb_true_iff in Hs as [Hs Hsort].
  apply andb_true_iff in Hs as [Hb Hrt]. apply Nat.eqb_eq in Hlen.
  assert (Hrtok : rt_ok (run (env_of r) (c_sched r))).
  { intros host rg sc Hg Hin. apply reg_get_In in Hg as [k Hk].
    rewrite forallb_forall in Hrt. specialize (Hrt _ Hk). cbn in Hrt.
    rewrite forallb_forall in Hrt. specialize (Hrt _ Hin). unfold rt_b in Hrt.
    now apply Equal_same in Hrt. }
  split; split; auto.
  - intros id q Hin. rewrite <- Hh in Hin. apply in_rev in Hin.
    rewrite forallb_forall in Hb. specialize (Hb _ Hin). cbn in Hb.
    destruct (req_lookup id (c_reqs r)) as [[e1 e2]|]; [|discriminate].
    apply andb_true_iff in Hb as [H1 H2]. apply scope_eqb_true in H1, H2. rewrite H1, H2.
    split; apply wf_eval.
  - intros p1 p2 h0 Hp Hn. cbn [e_clock env_of]. unfold clock_of.
    assert (Hl : List.length (history (run (env_of r) (c_sched r))) = List.length (c_times r)).
    { rewrite <- Hh, rev_length. now symmetry. }
    rewrite Hp, !app_length in Hl. rewrite app_length.
    destruct h0 as [|e0 h0]; [congruence|]. cbn [List.length] in *.
    apply sorted_nth; [exact Hsort | lia].
Qed.

Lemma corr_sound c : model_agrees c = true -> obs_ok c = true.
Proof.
  unfold model_agrees, obs_ok. destruct c as [r|hdr pk o].
  - intros H. apply andb_true_iff in H as [H _]. apply andb_true_iff in H as [Hr Hs].
    destruct (side_b_sides r Hr Hs) as [Hside Hside2].
    apply run_agrees_history in Hr as [Hh Hu]. cbn zeta. rewrite Hh.
    rewrite (S1_holds _ _ Hside), (S2_holds _ _ Hside2), (S3_holds _ _ Hside). reflexivity.
  - unfold parse_agrees. destruct (parse_total hdr) as [res Hres]. rewrite Hres. destruct res as [h|].
    + intros H. apply andb_true_iff in H as [H1 H2]. rewrite H1. cbn [andb].
      destruct o as [[sch ps]|]; [|discriminate]. apply andb_true_iff in H2 as [Hs Hp].
      unfold params_agree in Hp. apply andb_true_iff in Hp as [_ Hp]. eapply agree_parsed_lower; eauto.
    + intros H. apply andb_true_iff in H as [H1 H2]. rewrite H1. destruct o; [discriminate | reflexivity].
Qed.

Definition mismatches (cs : list case) : list (N * bool) := mismatches_of model_agrees obs_ok cs.
Definition bad_obs (cs : list case) : list (N * bool) := bad_obs_of model_agrees obs_ok cs.
