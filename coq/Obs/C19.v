(* Correspondence for C19: what the harness observed on ociauth.LoadWithEnv +
   ConfigFile.EntryForRegistry versus the model (Model/AuthFile.v) and versus the property's
   specification.  A case is one generated config document, one helper-runner table, and for
   every looked-up host every DISTINCT observation made over 20 loads of the document (to vary
   Go's map iteration order) and several lookup orders.
   The helper runner is either injected by the harness (a table of results, [c_path] = None) or
   the real one (nil HelperRunner: ExecHelperWithEnv runs docker-credential-NAME from PATH); then
   [c_path] lists the directories the harness put on PATH and what it put into them. *)
From Coq Require Import String.
From OCI Require Export Base.Outcome Model.AuthFile Model.AuthExec.
From OCI Require Import Proofs.AuthFile Proofs.AuthExec.

(* one member of "auths" as written to the file.  [e_plain] is the generator's annotation:
   the (user, password) it encoded into [e_auth]; it is believed only after re-encoding. *)
Record centry := {
  e_key : bytes; e_user : bytes; e_pass : bytes; e_auth : bytes; e_idtok : bytes; e_regtok : bytes;
  e_plain : option (bytes * bytes)
}.

Definition EN := Build_centry.

Definition CE (r a u p : bytes) : config_entry :=
  {| ce_refresh := r; ce_access := a; ce_user := u; ce_pass := p |}.

Inductive load_obs := LoadOk | LoadFailed | LoadPanic.
Inductive lobs :=
  | LO (e : config_entry) (cls : eclass) (calls : list (bytes * bytes))
  | LPanic.

Definition PE := Build_pend.

Record case := {
  c_auths : list centry;
  c_store : bytes;
  c_helpers : list (bytes * bytes);
  c_runner : list (bytes * bytes * (config_entry * herr));   (* (helper, host) -> result *)
  c_rdefault : config_entry * herr;                          (* result for pairs not listed *)
  c_path : option (list dir_t);          (* Some: the real exec runner, PATH directories in order *)
  c_calls_seen : bool;                   (* true: every runner call was recorded (the harness wraps
                                            the runner); false: only the calls that reached a helper
                                            program which logs its standard input *)
  c_load : load_obs;
  c_lookups : list (bytes * lobs)                            (* host, observation *)
}.

(* ---------- equality tests ---------- *)

Definition ce_eqb (a b : config_entry) : bool :=
  beqb (ce_refresh a) (ce_refresh b) && beqb (ce_access a) (ce_access b)
  && beqb (ce_user a) (ce_user b) && beqb (ce_pass a) (ce_pass b).

Lemma ce_eqb_eq a b : ce_eqb a b = true <-> a = b.
Proof.
  unfold ce_eqb. destruct a, b; cbn. rewrite !andb_true_iff, !beqb_eq. split.
  - intros [[[-> ->] ->] ->]. reflexivity.
  - intros H. injection H as -> -> -> ->. auto.
Qed.

Definition pair_eqb (a b : bytes * bytes) : bool := beqb (fst a) (fst b) && beqb (snd a) (snd b).

Lemma pair_eqb_eq a b : pair_eqb a b = true <-> a = b.
Proof.
  destruct a, b; unfold pair_eqb; cbn. rewrite andb_true_iff, !beqb_eq. split.
  - intros [-> ->]. reflexivity.
  - intros H. injection H as -> ->. auto.
Qed.

Lemma eclass_eqb_eq a b : eclass_eqb a b = true <-> a = b.
Proof. destruct a, b; cbn; split; congruence. Qed.

Fixpoint nodupb (l : list bytes) : bool :=
  match l with
  | [] => true
  | a :: l' => negb (mem_bytes a l') && nodupb l'
  end.

Lemma nodupb_NoDup l : nodupb l = true -> NoDup l.
Proof.
  induction l as [|a l IH]; cbn; intros H; constructor.
  - apply andb_true_iff in H as [H _]. apply negb_true_iff in H.
    intros Hi. apply mem_bytes_In in Hi. congruence.
  - apply IH. now apply andb_true_iff in H as [_ H].
Qed.

(* ---------- the case as model input ---------- *)

Definition ac_of (e : centry) : auth_config :=
  {| ac_derived := []; ac_user := e_user e; ac_pass := e_pass e; ac_auth := e_auth e;
     ac_idtok := e_idtok e; ac_regtok := e_regtok e |}.

Definition auths_of (c : case) : amap := map (fun e => (e_key e, ac_of e)) (c_auths c).

Definition doc_of (c : case) : config_data :=
  {| cd_auths := auths_of c; cd_store := c_store c; cd_helpers := c_helpers c |}.

Fixpoint runner_find (l : list (bytes * bytes * (config_entry * herr))) (helper host : bytes)
  : option (config_entry * herr) :=
  match l with
  | [] => None
  | (hp, h, r) :: l' => if beqb hp helper && beqb h host then Some r else runner_find l' helper host
  end.

(* encoding/json on what the harness's helper programs print when they answer with credentials:
   exactly {"ServerURL":"registry","Username":"U","Secret":"S"} and an optional line feed, U and S
   printable ASCII without quote and backslash (nothing to unescape).  Oracle: json.Unmarshal
   delivers U and S for such a text. *)
Definition json_pre : bytes := s "{""ServerURL"":""registry"",""Username"":""".
Definition json_mid : bytes := s ",""Secret"":""".
Definition json_end : bytes := s "}".
Definition safe_char (b : N) : bool := (32 <=? b) && (b <? 127) && negb (b =? 34) && negb (b =? 92).

Definition creds_json (out : bytes) : option (bytes * bytes) :=
  if has_prefix json_pre out then
    match cut_byte 34 (trim_prefix json_pre out) with
    | Some (u, r1) =>
        if has_prefix json_mid r1 then
          match cut_byte 34 (trim_prefix json_mid r1) with
          | Some (p, r2) =>
              if (beqb r2 json_end || beqb r2 (json_end ++ [10])) && forallb safe_char u && forallb safe_char p
              then Some (u, p) else None
          | None => None
          end
        else None
    | None => None
    end
  else None.

(* certainly rejected by json.Unmarshal into a struct: empty, or a text whose first byte after
   white space starts neither an object nor null *)
Definition not_json (out : bytes) : bool :=
  match trim_left_space out with
  | [] => true
  | b :: _ => negb (b =? 123) && negb (b =? 110)
  end.

Definition runner_of (c : case) : runner_t :=
  match c_path c with
  | Some path => exec_helper creds_json (cmd_run path)
  | None =>
      fun helper host => match runner_find (c_runner c) helper host with
                         | Some r => r
                         | None => c_rdefault c
                         end
  end.

Definition calls_eqb (a b : list (bytes * bytes)) : bool := list_eqb pair_eqb a b.

(* recorded calls against the calls that have to be made: equal when all calls are seen, else
   nothing recorded that should not have been made *)
Definition calls_ok (seen : bool) (calls expected : list (bytes * bytes)) : bool :=
  if seen then calls_eqb calls expected
  else forallb (fun c => existsb (pair_eqb c) expected) calls.

(* what the exec model covers: helper names without a slash (LookPath searches PATH), ASCII
   output (TrimSpace), and exit-0 output that is either the credentials text or certainly not JSON *)
Definition ascii (l : bytes) : bool := forallb (fun b => b <? 128) l.
Definition no_slash (l : bytes) : bool := negb (existsb (N.eqb 47) l).
Definition pend_ok (e : pend) : bool :=
  ascii (pe_out e) &&
  (negb (pe_exit0 e) || match creds_json (pe_out e) with Some _ => true | None => not_json (pe_out e) end).
Definition pfile_ok (f : pfile) : bool :=
  match f with
  | FProg ans dflt => forallb (fun a => pend_ok (snd a)) ans && pend_ok dflt
  | _ => true
  end.
Definition wf_exec (c : case) : bool :=
  match c_path c with
  | None => true
  | Some path =>
      no_slash (c_store c) && forallb (fun kv => no_slash (snd kv)) (c_helpers c)
      && forallb (forallb (fun nf => pfile_ok (snd nf))) path
  end.

(* the document satisfies what the JSON decoder guarantees (unique keys) *)
Definition wf_case (c : case) : bool :=
  nodupb (map e_key (c_auths c)) && nodupb (keys (c_helpers c)) && wf_exec c.

(* The model is run with the schedule "keys in document order, derived keys never produced";
   by C19_order_independent every other schedule Go may choose predicts the same observations. *)
Definition lookup_agrees (seen : bool) (cfg : config_data) (run : runner_t) (hl : bytes * lobs) : bool :=
  let '(h, o) := hl in
  match o with
  | LPanic => false
  | LO e cls calls =>
      let r := entry_for_registry cfg run h in
      ce_eqb e (fst r) && eclass_eqb cls (class_of (snd r)) && calls_ok seen calls (runner_calls cfg h)
  end.

Definition model_agrees (c : case) : bool :=
  wf_case c &&
  match decode_config_file (keys (auths_of c)) (doc_of c), c_load c with
  | Err _, LoadFailed => true
  | Ok cfg, LoadOk => forallb (lookup_agrees (c_calls_seen c) cfg (runner_of c)) (c_lookups c)
  | _, _ => false
  end.

(* ---------- the specification, read directly off the property ---------- *)

Definition all_bytes (l : bytes) : bool := forallb (fun b => b <? 256) l.
Definition mem_byte (c : N) (l : bytes) : bool := existsb (N.eqb c) l.
Definition last_is (c : N) (l : bytes) : bool :=
  match rev l with d :: _ => d =? c | [] => false end.

(* The auth field is "base64 of user:password, user without ':' (and non-empty), password without
   trailing NUL": then the property says it decodes to exactly that user and password. *)
Definition valid_plain (e : centry) : option (bytes * bytes) :=
  match e_plain e with
  | Some (u, p) =>
      if beqb (e_auth e) (b64_encode (u ++ 58 :: p)) && all_bytes (u ++ 58 :: p)
         && nonempty u && negb (mem_byte 58 u) && negb (last_is 0 p)
      then Some (u, p) else None
  | None => None
  end.

Inductive creds := CUP (u p : bytes) | CUnknown.

(* an auth field takes the place of username/password *)
Definition spec_creds (e : centry) : creds :=
  if nonempty (e_auth e) then
    match valid_plain e with Some (u, p) => CUP u p | None => CUnknown end
  else CUP (e_user e) (e_pass e).

Inductive expect :=
  | XExact (e : config_entry) (cls : eclass)
  | XFail                 (* the lookup must fail *)
  | XAny.                 (* outside the property: an auth field of another shape *)

Definition spec_entry (e : centry) : expect :=
  match spec_creds e with
  | CUnknown => XAny
  | CUP u p =>
      if nonempty (e_idtok e) && nonempty u then XFail     (* identity token and user name at once *)
      else XExact (CE (e_idtok e) (e_regtok e) u p) ENone
  end.

Definition is_url_for (h k : bytes) : bool := contains slashslash k && beqb (url_host k) h.

(* auths table: an entry whose key is the host itself; else the URL-form keys naming the host:
   none = no information, one = that entry, several = failure *)
Definition spec_table (c : case) (h : bytes) : expect :=
  match find (fun e => beqb (e_key e) h) (c_auths c) with
  | Some e => spec_entry e
  | None =>
      match filter (fun e => is_url_for h (e_key e)) (c_auths c) with
      | [] => XExact zero_entry ENone
      | [e] => spec_entry e
      | _ :: _ :: _ => XFail
      end
  end.

Fixpoint assoc (k : bytes) (l : list (bytes * bytes)) : option bytes :=
  match l with
  | [] => None
  | (k', v) :: l' => if beqb k' k then Some v else assoc k l'
  end.

(* The helper protocol with the real runner, from the property's list of helper behaviours
   (credentials, token, not found, missing binary, other error).  The binary is MISSING when no
   directory of PATH holds an executable regular file docker-credential-NAME; the first such file
   is the helper.  A helper that cannot be started, exits non-zero with anything but the
   "credentials not found" message, or exits zero without printing credentials is an OTHER
   ERROR; the message (white space around it ignored) with a non-zero exit is NOT FOUND = no
   information and no error; user name <token> makes the secret a refresh token. *)
Definition executables_named (path : list dir_t) (file : bytes) : list pfile :=
  filter (fun f => match f with FBroken | FProg _ _ => true | _ => false end)
    (flat_map (fun d : dir_t => match map_get file d with Some f => [f] | None => [] end) path).

Definition spec_answer (e : pend) : config_entry * herr :=
  if pe_exit0 e then
    match creds_json (pe_out e) with
    | Some (u, p) => if beqb u (s "<token>") then (CE p [] [] [], HNil) else (CE [] [] u p, HNil)
    | None => (zero_entry, HOther)
    end
  else if beqb (trim_space (pe_out e)) (s "credentials not found in native keychain")
       then (zero_entry, HNil) else (zero_entry, HOther).

Definition spec_helper (path : list dir_t) (helper host : bytes) : config_entry * herr :=
  match executables_named path (s "docker-credential-" ++ helper) with
  | [] => (zero_entry, HMissing)
  | FProg ans dflt :: _ =>
      spec_answer (match find (fun a => beqb (fst a) host) ans with Some a => snd a | None => dflt end)
  | _ :: _ => (zero_entry, HOther)
  end.

Definition spec_runner (c : case) (helper host : bytes) : config_entry * herr :=
  match c_path c with
  | Some path => spec_helper path helper host
  | None => match runner_find (c_runner c) helper host with Some r => r | None => c_rdefault c end
  end.

(* per-host helper > default store > table; a default store whose binary is missing falls back to
   the table; whatever else a consulted helper answers (including "no credentials") is the answer *)
Definition spec_lookup (c : case) (h : bytes) : expect * list (bytes * bytes) :=
  match assoc h (c_helpers c) with
  | Some hp =>
      if nonempty hp then
        let r := spec_runner c hp h in (XExact (fst r) (class_of_herr (snd r)), [(hp, h)])
      else (spec_table c h, [])
  | None =>
      if nonempty (c_store c) then
        let r := spec_runner c (c_store c) h in
        match snd r with
        | HMissing => (spec_table c h, [(c_store c, h)])
        | e => (XExact (fst r) (class_of_herr e), [(c_store c, h)])
        end
      else (spec_table c h, [])
  end.

Definition satisfies (x : expect) (e : config_entry) (cls : eclass) : bool :=
  match x with
  | XExact e' cls' => ce_eqb e e' && eclass_eqb cls cls'
  | XFail => negb (eclass_eqb cls ENone)
  | XAny => true
  end.

Definition lookup_ok (c : case) (hl : bytes * lobs) : bool :=
  let '(h, o) := hl in
  match o with
  | LPanic => false
  | LO e cls calls =>
      let '(x, xcalls) := spec_lookup c h in
      satisfies x e cls && calls_ok (c_calls_seen c) calls xcalls
  end.

Definition obs_ok (c : case) : bool :=
  match c_load c with
  | LoadPanic => false
  | LoadFailed =>
      (* loading may only fail on an auth field that is not of the property's shape *)
      existsb (fun e => nonempty (e_auth e) && match valid_plain e with None => true | Some _ => false end)
              (c_auths c)
  | LoadOk => forallb (lookup_ok c) (c_lookups c)
  end.

(* known finding: the password encoded in an auth field starts with NUL (it is trimmed too) *)
Definition known_case (c : case) : bool :=
  existsb (fun e => match valid_plain e with Some (_, 0 :: _) => true | _ => false end) (c_auths c).

(* a case is non-trivial when something other than "no information" was observed or predicted:
   loading failed, or some lookup produced credentials, a token, a helper call or a failure *)
Definition nontrivial (c : case) : bool :=
  match c_load c with
  | LoadOk =>
      existsb (fun hl => match snd hl with
                         | LO e cls calls => negb (ce_eqb e zero_entry) || negb (eclass_eqb cls ENone)
                                             || match calls with [] => false | _ => true end
                         | LPanic => true
                         end) (c_lookups c)
  | _ => true
  end.

(* ---------- corr_sound: agreement with the model implies the specification ---------- *)

Lemma keys_auths_of c : keys (auths_of c) = map e_key (c_auths c).
Proof. unfold keys, auths_of. rewrite map_map. reflexivity. Qed.

Lemma wf_case_wf c : wf_case c = true -> wf_auths (auths_of c).
Proof.
  unfold wf_case. intros H. apply andb_true_iff in H as [H _]. apply andb_true_iff in H as [H _]. split.
  - rewrite keys_auths_of. now apply nodupb_NoDup.
  - unfold auths_of. apply Forall_forall. intros kv Hin. apply in_map_iff in Hin as (e & <- & _). reflexivity.
Qed.

Lemma assoc_map_get k l : assoc k l = map_get k l.
Proof.
  induction l as [|[k' v] l IH]; cbn; [reflexivity|]. rewrite (beqb_sym k' k), IH. reflexivity.
Qed.

Lemma find_map_get c h :
  map_get h (auths_of c) = option_map ac_of (find (fun e => beqb (e_key e) h) (c_auths c)).
Proof.
  unfold auths_of. induction (c_auths c) as [|e l IH]; cbn; [reflexivity|].
  rewrite (beqb_sym h (e_key e)). destruct (beqb (e_key e) h); [reflexivity | exact IH].
Qed.

Lemma url_entries_auths_of c h :
  url_entries (auths_of c) h
  = map (fun e => (e_key e, ac_of e)) (filter (fun e => is_url_for h (e_key e)) (c_auths c)).
Proof.
  unfold url_entries, auths_of. induction (c_auths c) as [|e l IH]; cbn; [reflexivity|].
  change (is_src h (e_key e)) with (is_url_for h (e_key e)).
  destruct (is_url_for h (e_key e)); cbn; now rewrite IH.
Qed.

Lemma all_bytes_is_bytes l : all_bytes l = true -> is_bytes l.
Proof.
  unfold all_bytes, is_bytes. rewrite forallb_forall, Forall_forall. intros H b Hb.
  apply N.ltb_lt. auto.
Qed.

Lemma mem_byte_false c l : mem_byte c l = false -> ~ In c l.
Proof.
  unfold mem_byte. intros H Hin. assert (existsb (N.eqb c) l = true); [|congruence].
  apply existsb_exists. exists c. split; [assumption | apply N.eqb_refl].
Qed.

Lemma last_is_false c l : last_is c l = false -> hd_error (rev l) <> Some c.
Proof.
  unfold last_is. destruct (rev l) as [|d r]; cbn; [discriminate|].
  intros H E. injection E as ->. now rewrite N.eqb_refl in H.
Qed.

(* what the model's decoder makes of an auth field of the property's shape *)
Lemma valid_plain_decodes e u pw :
  valid_plain e = Some (u, pw) ->
  decode_auth (e_auth e) = Ok (u, trim_left_byte 0 pw) /\ e_auth e <> [].
Proof.
  unfold valid_plain. destruct (e_plain e) as [[u' p']|]; [|discriminate].
  destruct (_ && _) eqn:E; [|discriminate]. intros H. injection H as -> ->.
  repeat (apply andb_true_iff in E as [E ?]).
  apply beqb_eq in E. apply all_bytes_is_bytes in H2.
  apply Forall_app in H2 as [Hu Hp]. inversion Hp as [|? ? _ Hp']; subst.
  assert (u <> []) by (destruct u; [discriminate | congruence]).
  apply negb_true_iff in H0, H. apply mem_byte_false in H0. apply last_is_false in H.
  split.
  - rewrite E. rewrite decode_auth_encoded by assumption. unfold trim_byte.
    now rewrite trim_right_byte_id.
  - rewrite E. intros Hn. assert (forall l, b64_encode l = [] -> l = []) as Hb.
    { intros [|a [|b [|c r]]]; cbn; [reflexivity | discriminate ..]. }
    apply Hb in Hn. now destruct u.
Qed.

Lemma satisfies_auth_result (a : auth_config) :
  ac_derived a = [] ->
  satisfies (if nonempty (ac_idtok a) && nonempty (ac_user a) then XFail
             else XExact (CE (ac_idtok a) (ac_regtok a) (ac_user a) (ac_pass a)) ENone)
            (fst (observe (auth_result a))) (snd (observe (auth_result a))) = true.
Proof.
  intros Hd. unfold auth_result. rewrite Hd.
  destruct (nonempty (ac_idtok a) && nonempty (ac_user a)); cbn; [reflexivity|].
  rewrite andb_true_r. now apply ce_eqb_eq.
Qed.

Lemma entry_sound e :
  (match valid_plain e with Some (_, 0 :: _) => true | _ => false end) = false ->
  (exists a', decoded (ac_of e) = Some a') ->
  satisfies (spec_entry e) (fst (ref_entry (ac_of e))) (snd (ref_entry (ac_of e))) = true.
Proof.
  intros Hk [a' Ha]. unfold spec_entry, spec_creds, ref_entry. rewrite Ha.
  destruct (nonempty (e_auth e)) eqn:En.
  - destruct (valid_plain e) as [[u pw]|] eqn:Ev; [|reflexivity].
    destruct (valid_plain_decodes _ _ _ Ev) as [Hdec Hne].
    assert (trim_left_byte 0 pw = pw) as Ht.
    { apply trim_left_byte_id. destruct pw as [|b pw]; cbn; [discriminate|].
      intros E. injection E as ->. discriminate. }
    rewrite Ht in Hdec.
    rewrite decoded_auth in Ha by exact Hne. cbn [ac_of ac_auth] in Ha. rewrite Hdec in Ha.
    injection Ha as <-.
    exact (satisfies_auth_result (set_userpass (ac_of e) u pw) eq_refl).
  - assert (e_auth e = []) as E0 by (destruct (e_auth e); [reflexivity | discriminate]).
    rewrite decoded_noauth in Ha by exact E0. injection Ha as <-.
    exact (satisfies_auth_result (ac_of e) eq_refl).
Qed.

(* the protocol as specified is the protocol as modelled *)
Lemma find_answer_for ans dflt host :
  (match find (fun a : bytes * pend => beqb (fst a) host) ans with Some a => snd a | None => dflt end)
  = answer_for ans dflt host.
Proof.
  unfold answer_for. induction ans as [|[k e] l IH]; cbn; [reflexivity|].
  rewrite (beqb_sym host k). destruct (beqb k host); [reflexivity | exact IH].
Qed.

Lemma spec_answer_eq e : spec_answer e = answer_result creds_json e.
Proof.
  unfold spec_answer, answer_result. destruct (pe_exit0 e); [|reflexivity].
  destruct (creds_json (pe_out e)) as [[u p]|]; reflexivity.
Qed.

Lemma spec_runner_eq c hp h : spec_runner c hp h = runner_of c hp h.
Proof.
  unfold spec_runner, runner_of. destruct (c_path c) as [path|]; [|reflexivity].
  unfold spec_helper. change (s "docker-credential-") with helper_prefix.
  change (executables_named path (helper_prefix ++ hp)) with (programs_named path (helper_prefix ++ hp)).
  pose proof (look_path_first path (helper_prefix ++ hp)) as L.
  destruct (programs_named path (helper_prefix ++ hp)) as [|f l] eqn:E; cbn [hd_error] in L.
  - symmetry. now apply exec_no_program.
  - pose proof (look_path_program _ _ _ L) as P.
    destruct f; try discriminate P.
    + symmetry. now apply exec_unstartable.
    + rewrite find_answer_for, spec_answer_eq. symmetry. now apply exec_program.
Qed.

Section Sound.
  Variable c : case.
  Hypothesis Hnk : known_case c = false.
  Hypothesis Hwf : wf_auths (auths_of c).
  Hypothesis Hdec : forall k a, map_get k (auths_of c) = Some a -> exists a', decoded a = Some a'.

  Lemma member_ok e : In e (c_auths c) ->
    (match valid_plain e with Some (_, 0 :: _) => true | _ => false end) = false
    /\ exists a', decoded (ac_of e) = Some a'.
  Proof.
    intros Hin. split.
    - unfold known_case in Hnk.
      destruct (match valid_plain e with Some (_, 0 :: _) => true | _ => false end) eqn:E; [|reflexivity].
      assert (existsb (fun e => match valid_plain e with Some (_, 0 :: _) => true | _ => false end) (c_auths c) = true);
        [|congruence].
      apply existsb_exists. eauto.
    - assert (Hin' : In (e_key e, ac_of e) (auths_of c)).
      { unfold auths_of. apply in_map_iff. eauto. }
      destruct Hwf as [Hnd _]. apply (Hdec (e_key e)). now apply In_map_get.
  Qed.

  Lemma table_sound h :
    satisfies (spec_table c h) (fst (ref_table (auths_of c) h)) (snd (ref_table (auths_of c) h)) = true.
  Proof.
    unfold spec_table, ref_table. rewrite find_map_get.
    destruct (find (fun e => beqb (e_key e) h) (c_auths c)) as [e|] eqn:Ef; cbn [option_map].
    - apply find_some in Ef as [Hin _]. destruct (member_ok e Hin). now apply entry_sound.
    - rewrite url_entries_auths_of.
      destruct (filter (fun e => is_url_for h (e_key e)) (c_auths c)) as [|e [|e2 l]] eqn:Ef'; cbn [map].
      + reflexivity.
      + assert (In e (c_auths c)) as Hin.
        { assert (In e (filter (fun e => is_url_for h (e_key e)) (c_auths c))) as H by (rewrite Ef'; now left).
          now apply filter_In in H as [H _]. }
        destruct (member_ok e Hin). now apply entry_sound.
      + reflexivity.
  Qed.

  Lemma lookup_sound h :
    let r := ref_lookup (doc_of c) (runner_of c) h in
    satisfies (fst (spec_lookup c h)) (fst r) (snd r) = true
    /\ snd (spec_lookup c h) = runner_calls (doc_of c) h.
  Proof.
    cbv zeta. unfold spec_lookup, ref_lookup, runner_calls, helper_for. cbn [doc_of cd_helpers cd_store cd_auths].
    rewrite assoc_map_get.
    destruct (map_get h (c_helpers c)) as [hp|].
    - destruct (nonempty hp).
      + rewrite !spec_runner_eq. destruct (runner_of c hp h) as [e err]. rewrite orb_true_r. cbn [orb fst snd satisfies].
        split; [|reflexivity]. apply andb_true_iff. split; [now apply ce_eqb_eq | now apply eclass_eqb_eq].
      + cbn [fst snd]. split; [apply table_sound | reflexivity].
    - destruct (nonempty (c_store c)).
      + rewrite !spec_runner_eq. destruct (runner_of c (c_store c) h) as [e err]. cbn [fst snd].
        destruct err; cbn [herr_eqb orb negb fst snd satisfies].
        * split; [|reflexivity]. apply andb_true_iff. split; [now apply ce_eqb_eq | reflexivity].
        * split; [apply table_sound | reflexivity].
        * split; [|reflexivity]. apply andb_true_iff. split; [now apply ce_eqb_eq | reflexivity].
      + cbn [fst snd]. split; [apply table_sound | reflexivity].
  Qed.
End Sound.

Lemma calls_eqb_eq a b : calls_eqb a b = true <-> a = b.
Proof. apply list_eqb_eq. apply pair_eqb_eq. Qed.

Lemma corr_sound c : model_agrees c = true -> obs_ok c = true \/ known_case c = true.
Proof.
  intros H. destruct (known_case c) eqn:Hnk; [now right | left].
  unfold model_agrees in H. apply andb_true_iff in H as [Hw H].
  pose proof (wf_case_wf c Hw) as Hwf.
  pose proof (doc_order_valid (auths_of c)) as Hv.
  change (auths_of c) with (cd_auths (doc_of c)) in Hwf, Hv.
  pose proof (decode_fails_iff _ _ Hwf Hv) as Hf.
  destruct (decode_config_file (keys (auths_of c)) (doc_of c)) as [cfg|e| |] eqn:Ed;
    destruct (c_load c) eqn:El; try discriminate; unfold obs_ok; rewrite El.
  - (* loaded *)
    rewrite forallb_forall in H. apply forallb_forall. intros [h o] Hin. specialize (H _ Hin).
    unfold lookup_agrees in H. unfold lookup_ok. destruct o as [e cls calls|]; [|discriminate].
    apply andb_true_iff in H as [H H3]. apply andb_true_iff in H as [H1 H2].
    apply ce_eqb_eq in H1. apply eclass_eqb_eq in H2.
    destruct (lookup_ref _ _ _ (runner_of c) Hwf Hv Ed h) as [A B].
    assert (Hdec : forall k a, map_get k (auths_of c) = Some a -> exists a', decoded a = Some a').
    { intros k a Hk. eapply (loaded_all_decoded _ _ _ Hwf Hv Ed); eauto. }
    destruct (lookup_sound c Hnk Hwf Hdec h) as [S1 S2]. cbv zeta in S1.
    destruct (spec_lookup c h) as [x xcalls]. cbn [fst snd] in S1, S2.
    rewrite <- A in S1. unfold observe in S1. cbn [fst snd] in S1.
    subst e cls. rewrite S1. cbn [andb]. rewrite S2.
    destruct (lookup_ref _ _ _ (runner_of c) Hwf Hv Ed h) as [_ B']. now rewrite <- B'.
  - (* loading failed *)
    destruct Hf as [Hf _]. destruct (Hf (ex_intro _ e Ed)) as (k & a & Hk & Hd).
    apply map_get_In in Hk. unfold doc_of, auths_of in Hk. cbn [cd_auths] in Hk.
    apply in_map_iff in Hk as (m & Hm & Hin). injection Hm as <- <-.
    apply existsb_exists. exists m. split; [assumption|].
    destruct (nonempty (e_auth m)) eqn:En.
    + cbn [andb]. destruct (valid_plain m) as [[u pw]|] eqn:Ev; [|reflexivity].
      destruct (valid_plain_decodes _ _ _ Ev) as [Hdec Hne].
      rewrite decoded_auth in Hd by exact Hne. cbn [ac_of ac_auth] in Hd. rewrite Hdec in Hd. discriminate.
    + rewrite decoded_noauth in Hd; [discriminate|].
      cbn [ac_of ac_auth]. destruct (e_auth m); [reflexivity | discriminate].
Qed.

Definition mismatches (cs : list case) : list (N * bool) :=
  bad_from 0 (fun c => if model_agrees c then None else Some (obs_ok c)) cs.
Definition bad_obs (cs : list case) : list (N * bool) :=
  bad_from 0 (fun c => if obs_ok c then None else Some (model_agrees c)) cs.
