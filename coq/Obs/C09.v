(* Correspondence for C09: what the harness observed on ociauth.Scope (exported API only)
   versus the model (Model/Scope.v) and versus the property's specification, which is
   written here with plain lists as sets (append, existsb, a quadratic duplicate filter) and
   knows nothing of bitmasks, sentinels, sorted slices or merge loops.
   The model's scopes are immutable values; that the Go values are too is observed: every
   value a case produces is kept in a pool, further operations run on the same values
   (c_ops), and pool values are looked at again later (c_again) under the same specification. *)
From Coq Require Import String.
From OCI Require Export Base.Outcome Model.Scope.
From OCI Require Import Proofs.Scope Proofs.ScopeAlg Proofs.ScopeOps Proofs.ScopeEval Proofs.ScopeText Proofs.ScopeLaws.

(* One walk of an iterator value.  At the start of the observation of a Scope value s the
   harness takes ONE iterator value  it := s.Iter()  and keeps it.  A walk calls either that
   shared value (w_fresh = false) or a brand new s.Iter() (w_fresh = true) with a consumer
   that never declines (w_lim = None) or declines its (n+1)-th item (w_lim = Some n).
   w_nest = Some (p, same, q): while it handles item number p (counted from 0, before it
   answers) the consumer itself walks an iterator to the end or up to limit q: the very
   function value it is being called from (same = true) or a new s.Iter() (same = false). *)
Record wspec := { w_fresh : bool; w_lim : option nat; w_nest : option (nat * bool * option nat) }.

(* what a walk delivered, written against the first full walk o_iter: the outer consumer got
   firstn wo_n o_iter ++ wo_rest, the nested one firstn wo_in o_iter ++ wo_irest (the harness
   only factors out the longest common prefix; nothing is lost, nothing is judged there) *)
Record wobs := { wo_n : nat; wo_rest : list rscope; wo_in : nat; wo_irest : list rscope }.

(* everything observed on one Scope value *)
Record sobs := {
  o_unl : bool;            (* IsUnlimited *)
  o_empty : bool;          (* IsEmpty *)
  o_len : option N;        (* Len; None = it panicked *)
  o_iter : list rscope;    (* Iter, consumer never declines *)
  o_stop : list rscope;    (* Iter, every item handed to a consumer that declines item c_stop+1 *)
  o_str : bytes;           (* String *)
  o_cstr : bytes;          (* Canonical().String() *)
  o_holds : N;             (* bit i = Holds(probe i) *)
  o_rt : bool;             (* ParseScope(s.String()).Equal(s) *)
  o_crt : bool;            (* ParseScope(s.Canonical().String()).Equal(s) *)
  o_ceq : bool;            (* s.Canonical().Equal(s) && s.Equal(s.Canonical()) *)
  o_walks : list wobs      (* the walks of c_sched, in order: the first half before String, Holds,
                              Canonical and the round trips are called on s, the second half after *)
}.

(* A Scope is a value: what it denotes is fixed when it is produced.  In Go the value holds
   three slices, so whether that is true depends on nobody writing to a backing array that two
   values share (spare capacity handed to append, the receiver returned as the result, the
   argument slice of NewScope kept).  The harness therefore keeps EVERY Scope value it
   produces in a pool - a, b, a.Union(b) are numbers 0, 1, 2 - and goes on working with the
   very same Go values: each further operation takes its operands from the pool (by number)
   and adds its result to it. *)
Inductive pop :=
  | PNew (l : list rscope)           (* NewScope(l...) *)
  | PParse (t : bytes)               (* ParseScope(t) *)
  | PUnl                             (* UnlimitedScope() *)
  | PUnion (i k : nat)               (* pool[i].Union(pool[k]) *)
  | PCanon (i : nat).                (* pool[i].Canonical() *)

(* A later observation of pool value number r_idx, made after further operations (on it, on
   its operands, on other results derived from the same operands) were run: everything
   observe sees (no walk schedule), and r_snap = the value still is Equal to, and Contains and
   is contained in, both ways round, an independent scope that was built with NewScope from
   the elements its first complete walk delivered at the moment it was produced
   (UnlimitedScope() when it said it was unlimited then). *)
Record robs := { r_idx : nat; r_obs : sobs; r_snap : bool }.

Record case := {
  c_a : sexp; c_b : sexp;            (* how the two scopes were built *)
  c_probes : list rscope; c_stop : nat;
  c_sched : list wspec;              (* the walk schedule, the same for a, b and a.Union(b) *)
  c_oa : sobs; c_ob : sobs;
  c_ou : sobs;                       (* a.Union(b) *)
  c_ab : bool; c_ba : bool;          (* a.Contains(b), b.Contains(a) *)
  c_eq : bool; c_qe : bool;          (* a.Equal(b), b.Equal(a) *)
  c_ua : bool;                       (* a.Union(b).Equal(a) *)
  c_panic : bool;                    (* some call other than Len panicked *)
  c_ops : list pop;                  (* further operations on the pool, in order *)
  c_pprobes : list rscope;           (* Holds probes of the later observations *)
  c_again : list robs                (* later observations of pool values, in the order made *)
}.

(* case files write long strings as a concatenation of dictionary words *)
Definition j (l : list bytes) : bytes := concat l.

(* ---------- the model's prediction ---------- *)

Fixpoint holds_mask (sc : scope) (probes : list rscope) : option N :=
  match probes with
  | [] => Some 0
  | r :: rest =>
      match Holds sc r, holds_mask sc rest with
      | Ok b, Some m => Some (2 * m + (if b then 1 else 0))
      | _, _ => None
      end
  end.

Definition len_obs (sc : scope) : option (option N) :=
  match Len sc with
  | Ok n => Some (Some (N.of_nat n))
  | Panic => Some None
  | _ => None
  end.

Definition rs_list_eqb := list_eqb rs_eqb.

Definition opt_eqb {A} (eqb : A -> A -> bool) (a b : option A) : bool :=
  match a, b with
  | Some u, Some v => eqb u v
  | None, None => true
  | _, _ => false
  end.

(* one walk of the iterator s.Iter() returns: the function literal of Iter is closed over s
   alone (its cursor into others is a local of the literal), so every call of every iterator
   value of s is the same function of the consumer *)
Definition IterW (lim : option nat) (sc : scope) : list rscope :=
  match lim with None => IterList sc | Some n => IterStop n sc end.

Definition wout (it : list rscope) (w : wobs) : list rscope := firstn (wo_n w) it ++ wo_rest w.
Definition win (it : list rscope) (w : wobs) : list rscope := firstn (wo_in w) it ++ wo_irest w.

Definition walk_agrees (sc : scope) (it : list rscope) (ws : wspec) (w : wobs) : bool :=
  let outs := IterW (w_lim ws) sc in
  rs_list_eqb (wout it w) outs
  && rs_list_eqb (win it w)
       match w_nest ws with
       | Some (p, _, q) => if (p <? List.length outs)%nat then IterW q sc else []
       | None => []
       end.

Fixpoint walks_agree (sc : scope) (it : list rscope) (sched : list wspec) (ws : list wobs) : bool :=
  match sched, ws with
  | [], [] => true
  | s0 :: sched', w :: ws' => walk_agrees sc it s0 w && walks_agree sc it sched' ws'
  | _, _ => false
  end.

Definition sobs_agrees (sc : scope) (probes : list rscope) (stop : nat) (sched : list wspec) (o : sobs) : bool :=
  Bool.eqb (o_unl o) (IsUnlimited sc)
  && Bool.eqb (o_empty o) (IsEmpty sc)
  && opt_eqb (opt_eqb N.eqb) (Some (o_len o)) (len_obs sc)
  && rs_list_eqb (o_iter o) (IterList sc)
  && rs_list_eqb (o_stop o) (IterStop stop sc)
  && beqb (o_str o) (String sc)
  && beqb (o_cstr o) (String (Canonical sc))
  && opt_eqb N.eqb (Some (o_holds o)) (holds_mask sc probes)
  && Bool.eqb (o_rt o) (Equal (ParseScope (String sc)) sc)
  && Bool.eqb (o_crt o) (Equal (ParseScope (String (Canonical sc))) sc)
  && Bool.eqb (o_ceq o) (Equal (Canonical sc) sc && Equal sc (Canonical sc))
  && walks_agree sc (o_iter o) sched (o_walks o).

(* how pool value number n was built, as an expression over the API *)
Definition pool_step (pool : list sexp) (o : pop) : option sexp :=
  match o with
  | PNew l => Some (ENew l)
  | PParse t => Some (EParse t)
  | PUnl => Some EUnlimited
  | PUnion i k => match nth_error pool i, nth_error pool k with
                  | Some x, Some y => Some (EUnion x y)
                  | _, _ => None
                  end
  | PCanon i => match nth_error pool i with Some x => Some (ECanonical x) | None => None end
  end.

Fixpoint pool_exprs (pool : list sexp) (ops : list pop) : option (list sexp) :=
  match ops with
  | [] => Some pool
  | o :: rest => match pool_step pool o with
                 | Some e => pool_exprs (pool ++ [e]) rest
                 | None => None          (* an operand that does not exist: not a case *)
                 end
  end.

Definition pool_of (c : case) : option (list sexp) :=
  pool_exprs [c_a c; c_b c; EUnion (c_a c) (c_b c)] (c_ops c).

(* the independent copy the harness compares a value with *)
Definition snapshot (sc : scope) : scope :=
  if IsUnlimited sc then UnlimitedScope else NewScope (IterList sc).

(* the model has no notion of "later": a value is what its expression evaluates to *)
Definition robs_agrees (pool : list sexp) (probes : list rscope) (stop : nat) (r : robs) : bool :=
  match nth_error pool (r_idx r) with
  | None => false
  | Some e =>
      let sc := eval e in
      sobs_agrees sc probes stop [] (r_obs r)
      && Bool.eqb (r_snap r) (Equal sc (snapshot sc) && Equal (snapshot sc) sc
                              && Contains sc (snapshot sc) && Contains (snapshot sc) sc)
  end.

Definition again_agrees (c : case) : bool :=
  match pool_of c with
  | None => false
  | Some pool => forallb (robs_agrees pool (c_pprobes c) (c_stop c)) (c_again c)
  end.

Definition model_agrees (c : case) : bool :=
  let a := eval (c_a c) in
  let b := eval (c_b c) in
  let u := Union a b in
  negb (c_panic c)
  && sobs_agrees a (c_probes c) (c_stop c) (c_sched c) (c_oa c)
  && sobs_agrees b (c_probes c) (c_stop c) (c_sched c) (c_ob c)
  && sobs_agrees u (c_probes c) (c_stop c) (c_sched c) (c_ou c)
  && Bool.eqb (c_ab c) (Contains a b) && Bool.eqb (c_ba c) (Contains b a)
  && Bool.eqb (c_eq c) (Equal a b) && Bool.eqb (c_qe c) (Equal b a)
  && Bool.eqb (c_ua c) (Equal u a)
  && again_agrees c.

(* ---------- the specification: finite sets of triples as plain lists ---------- *)

Definition memb (r : rscope) (l : list rscope) : bool := existsb (rs_eqb r) l.
Definition subsetb (l1 l2 : list rscope) : bool := forallb (fun r => memb r l2) l1.

Fixpoint distinct (l : list rscope) : list rscope :=
  match l with
  | [] => []
  | r :: l' => if memb r l' then distinct l' else r :: distinct l'
  end.

Fixpoint ascending (l : list rscope) : bool :=
  match l with
  | [] => true
  | a :: l' => match l' with
               | [] => true
               | b :: _ => match rs_cmp a b with Lt => ascending l' | _ => false end
               end
  end.

(* the Docker scope grammar: space separated  type:name:action,action ; anything else is
   an opaque scope kept whole in the type *)
Definition naive_parse (t : bytes) : list rscope :=
  flat_map (fun f => match split_byte colon f with
                     | [ty; name; acts] => map (RS ty name) (split_byte comma acts)
                     | _ => [RS f [] []]
                     end) (fields t).

(* the set an expression denotes; None = everything (unlimited) *)
Fixpoint den (e : sexp) : option (list rscope) :=
  match e with
  | ENew l => Some l
  | EParse t => Some (naive_parse t)
  | EUnlimited => None
  | EUnion a b => match den a, den b with
                  | Some u, Some v => Some (u ++ v)
                  | _, _ => None
                  end
  | ECanonical a => den a
  end.

(* the text an expression is required to print as, when the property fixes it: a parsed
   scope prints as its source, and so does a union that adds nothing to it *)
Fixpoint text (e : sexp) : option bytes :=
  match e with
  | EParse t => Some t
  | EUnion a b => match den a, den b with
                  | Some u, Some v => if subsetb v u then text a else None
                  | _, _ => None
                  end
  | _ => None
  end.

Fixpoint mask_of (bs : list bool) : N :=
  match bs with
  | [] => 0
  | b :: rest => 2 * mask_of rest + (if b then 1 else 0)
  end.

(* what a consumer with limit lim is handed when the complete ascending sequence is it *)
Definition take (lim : option nat) (it : list rscope) : list rscope :=
  match lim with None => it | Some n => firstn (S n) it end.

(* Every walk of every iterator value of s - the first, a later one, one after walks that
   were cut short, one started from inside the consumer of another - hands over the same
   sequence: a Scope is an immutable set and its iterator a plain function over it. *)
Definition walk_ok (it : list rscope) (ws : wspec) (w : wobs) : bool :=
  let outs := firstn (wo_n w) it ++ wo_rest w in
  let ins := firstn (wo_in w) it ++ wo_irest w in
  rs_list_eqb outs (take (w_lim ws) it)
  && rs_list_eqb ins
       match w_nest ws with
       | Some (p, _, q) => if (p <? List.length outs)%nat then take q it else []
       | None => []
       end.

Fixpoint walks_ok (it : list rscope) (sched : list wspec) (ws : list wobs) : bool :=
  match sched, ws with
  | [], [] => true
  | s0 :: sched', w :: ws' => walk_ok it s0 w && walks_ok it sched' ws'
  | _, _ => false
  end.

Definition spec_sobs (D : option (list rscope)) (txt : option bytes)
                     (probes : list rscope) (stop : nat) (sched : list wspec) (o : sobs) : bool :=
  match D with
  | None =>
      o_unl o && negb (o_empty o)
      && match o_len o with None => true | Some _ => false end      (* Len panics, as documented *)
      && match o_iter o with [] => true | _ => false end
      && match o_stop o with [] => true | _ => false end
      && N.eqb (o_holds o) (mask_of (map (fun _ => true) probes))   (* contains everything *)
      && o_ceq o
      && walks_ok (o_iter o) sched (o_walks o)
  | Some l =>
      negb (o_unl o)
      && Bool.eqb (o_empty o) (match l with [] => true | _ => false end)
      && opt_eqb N.eqb (o_len o) (Some (N.of_nat (List.length (distinct l))))
      && ascending (o_iter o) && subsetb (o_iter o) l && subsetb l (o_iter o)
      && rs_list_eqb (o_stop o) (firstn (S stop) (o_iter o))
      && N.eqb (o_holds o) (mask_of (map (fun r => memb r l) probes))
      && match txt with Some t => beqb (o_str o) t | None => true end
      && (if forallb clean_rs l then o_crt o else true)
      && (if forallb clean_rs l || (match txt with Some _ => true | None => false end) then o_rt o else true)
      && o_ceq o
      && walks_ok (o_iter o) sched (o_walks o)
  end.

Definition containsb (Da Db : option (list rscope)) : bool :=
  match Da, Db with
  | None, _ => true
  | Some _, None => false
  | Some u, Some v => subsetb v u
  end.

Definition equalb (Da Db : option (list rscope)) : bool :=
  match Da, Db with
  | None, None => true
  | Some u, Some v => subsetb u v && subsetb v u
  | _, _ => false
  end.

(* A later observation is held to exactly what a first one is held to: the set the value's
   expression denotes (and the text the property fixes for it) - whatever was done in between
   with the value, its operands, or other values made from them - and the value still equals
   the copy taken when it was produced. *)
Definition robs_ok (pool : list sexp) (probes : list rscope) (stop : nat) (r : robs) : bool :=
  match nth_error pool (r_idx r) with
  | None => false
  | Some e => spec_sobs (den e) (text e) probes stop [] (r_obs r) && r_snap r
  end.

Definition again_ok (c : case) : bool :=
  match pool_of c with
  | None => false
  | Some pool => forallb (robs_ok pool (c_pprobes c) (c_stop c)) (c_again c)
  end.

Definition obs_ok (c : case) : bool :=
  let Da := den (c_a c) in
  let Db := den (c_b c) in
  let eu := EUnion (c_a c) (c_b c) in
  negb (c_panic c)
  && spec_sobs Da (text (c_a c)) (c_probes c) (c_stop c) (c_sched c) (c_oa c)
  && spec_sobs Db (text (c_b c)) (c_probes c) (c_stop c) (c_sched c) (c_ob c)
  && spec_sobs (den eu) (text eu) (c_probes c) (c_stop c) (c_sched c) (c_ou c)
  && Bool.eqb (c_ab c) (containsb Da Db) && Bool.eqb (c_ba c) (containsb Db Da)
  && Bool.eqb (c_eq c) (equalb Da Db) && Bool.eqb (c_qe c) (equalb Da Db)
  && Bool.eqb (c_ua c) (containsb Da Db)
  (* a union that adds nothing prints exactly as its receiver *)
  && (if containsb Da Db && negb (o_unl (c_oa c)) then beqb (o_str (c_ou c)) (o_str (c_oa c)) else true)
  && again_ok c.

(* a case is non-trivial when at least two distinct triples are involved (so sorting,
   de-duplication, bitmask merging or the interleaving of known and other scopes has
   something to do), or when the unlimited scope meets a non-empty one *)
Definition nontrivial (c : case) : bool :=
  match den (c_a c), den (c_b c) with
  | Some u, Some v => (2 <=? List.length (distinct (u ++ v)))%nat
  | None, Some v => negb (match v with [] => true | _ => false end)
  | Some u, None => negb (match u with [] => true | _ => false end)
  | None, None => false
  end.

(* ---------- corr_sound: the model's prediction satisfies the specification ---------- *)

Lemma memb_In r l : memb r l = true <-> In r l.
Proof.
  unfold memb. rewrite existsb_exists. split.
  - intros (x & Hx & E). apply rs_eqb_eq in E. now subst.
  - intros H. exists r. split; auto. apply rs_eqb_refl.
Qed.

Lemma subsetb_incl l1 l2 : subsetb l1 l2 = true <-> incl l1 l2.
Proof.
  unfold subsetb. rewrite forallb_forall. split; intros H x Hx; [apply memb_In | apply memb_In]; auto.
Qed.

Lemma distinct_In v l : In v (distinct l) <-> In v l.
Proof.
  induction l as [|r l IH]; cbn; [tauto|]. destruct (memb r l) eqn:E.
  - rewrite IH. apply memb_In in E. split; auto. intros [<-|H]; auto.
  - cbn. rewrite IH. tauto.
Qed.

Lemma distinct_NoDup l : NoDup (distinct l).
Proof.
  induction l as [|r l IH]; cbn; [constructor|]. destruct (memb r l) eqn:E; auto.
  constructor; auto. rewrite distinct_In. intros H. apply memb_In in H. congruence.
Qed.

Lemma length_same_set (l1 l2 : list rscope) :
  NoDup l1 -> NoDup l2 -> (forall v, In v l1 <-> In v l2) -> List.length l1 = List.length l2.
Proof.
  intros N1 N2 H. apply Nat.le_antisymm; apply NoDup_incl_length; auto; intros v; apply H.
Qed.

Lemma ascending_sorted l : StronglySorted rs_lt l -> ascending l = true.
Proof.
  induction 1 as [|a l Hs IH Hf]; [reflexivity|]. destruct l as [|b l]; [reflexivity|].
  change (ascending (a :: b :: l)) with (match rs_cmp a b with Lt => ascending (b :: l) | _ => false end).
  inversion Hf as [|? ? Hab _]; subst. unfold rs_lt in Hab. now rewrite Hab.
Qed.

Lemma bool_eq_iff (a b : bool) : (a = true <-> b = true) -> a = b.
Proof. destruct a, b; intros [H1 H2]; auto; symmetry; auto. Qed.

Lemma opt_eqb_eq {A} (eqb : A -> A -> bool) :
  (forall a b, eqb a b = true <-> a = b) -> forall a b, opt_eqb eqb a b = true <-> a = b.
Proof.
  intros H [a|] [b|]; cbn; split; intros E; try discriminate; auto.
  - f_equal. now apply H.
  - injection E as ->. now apply H.
Qed.

Lemma rs_list_eqb_eq l1 l2 : rs_list_eqb l1 l2 = true <-> l1 = l2.
Proof. apply (list_eqb_eq rs_eqb rs_eqb_eq). Qed.

(* what an expression denotes is what its value denotes *)
Lemma den_eval e :
  match den e with
  | None => unlimited (eval e) = true
  | Some l => unlimited (eval e) = false /\ forall v, In v (abs (eval e)) <-> In v l
  end.
Proof.
  induction e as [l|t| |a IHa b IHb|a IHa]; cbn [den eval].
  - split; [apply unlimited_new | intros v; apply abs_new].
  - split; [apply unlimited_parse | intros v; apply abs_parse].
  - reflexivity.
  - destruct (union_spec (eval a) (eval b) (wf_eval a) (wf_eval b)) as (_ & Hu & Hi).
    destruct (den a) as [u|], (den b) as [v|].
    + destruct IHa as [Ua Ia], IHb as [Ub Ib]. split; [now rewrite Hu, Ua, Ub|].
      intros w. rewrite Hi, Ia, Ib, in_app_iff by auto. tauto.
    + destruct IHa as [Ua _]. now rewrite Hu, IHb, orb_true_r.
    + now rewrite Hu, IHa.
    + now rewrite Hu, IHa.
  - destruct (den a) as [u|].
    + destruct IHa as [Ua Ia]. split; auto.
    + exact IHa.
Qed.

Lemma contains_den a b : Contains (eval a) (eval b) = containsb (den a) (den b).
Proof.
  apply bool_eq_iff. rewrite contains_spec by apply wf_eval.
  pose proof (den_eval a) as Ha. pose proof (den_eval b) as Hb.
  destruct (den a) as [u|], (den b) as [v|]; cbn [containsb].
  - destruct Ha as [Ua Ia], Hb as [Ub Ib]. rewrite subsetb_incl. split.
    + intros [H|[_ H]]; [congruence|]. intros w Hw. apply Ia, H, Ib, Hw.
    + intros H. right. split; auto. intros w Hw. apply Ia, H, Ib, Hw.
  - destruct Ha as [Ua _]. split; [intros [H|[H _]]; congruence | discriminate].
  - split; auto.
  - split; auto.
Qed.

Lemma equal_den a b : Equal (eval a) (eval b) = equalb (den a) (den b).
Proof.
  apply bool_eq_iff. rewrite equal_spec_in by apply wf_eval.
  pose proof (den_eval a) as Ha. pose proof (den_eval b) as Hb.
  destruct (den a) as [u|], (den b) as [v|]; cbn [equalb].
  - destruct Ha as [Ua Ia], Hb as [Ub Ib]. rewrite andb_true_iff, !subsetb_incl. split.
    + intros [_ H]. split; intros w Hw; [apply Ib, H, Ia, Hw | apply Ia, H, Ib, Hw].
    + intros [H1 H2]. split; [congruence|]. intros w. rewrite Ia, Ib. split; auto.
  - destruct Ha as [Ua _]. split; [intros [H _]; congruence | discriminate].
  - destruct Hb as [Ub _]. split; [intros [H _]; congruence | discriminate].
  - split; auto. intros _. split; [congruence|].
    rewrite (wf_unl _ (wf_eval a) Ha), (wf_unl _ (wf_eval b) Hb). tauto.
Qed.

Lemma equalb_sym Da Db : equalb Da Db = equalb Db Da.
Proof. destruct Da, Db; cbn; auto. apply andb_comm. Qed.

(* the text the property fixes is the text the value carries *)
Lemma text_eval e t :
  text e = Some t -> original (eval e) = t /\ same_fields (eval e) (NewScope (parse_rscopes t)).
Proof.
  revert t. induction e as [l|t0| |a IHa b IHb|a IHa]; cbn [text eval]; intros t H; try discriminate.
  - injection H as <-. split; [reflexivity | apply same_fields_with_original].
  - pose proof (contains_den a b) as Hc.
    destruct (den a) as [u|]; [|discriminate]. destruct (den b) as [v|]; [|discriminate].
    cbn [containsb] in Hc. destruct (subsetb v u); [|discriminate].
    rewrite (union_noop _ _ (wf_eval a) Hc). now apply IHa.
Qed.

Lemma holds_mask_spec sc (f : rscope -> bool) probes :
  wf sc -> (forall r, f r = true <-> unlimited sc = true \/ In r (abs sc)) ->
  holds_mask sc probes = Some (mask_of (map f probes)).
Proof.
  intros W Hf. induction probes as [|r rest IH]; [reflexivity|].
  cbn [holds_mask map mask_of]. rewrite IH. destruct (holds_spec sc r W) as (b & Hb & Hi). rewrite Hb.
  assert (b = f r) as -> by (apply bool_eq_iff; now rewrite Hi, Hf). reflexivity.
Qed.

Lemma canonical_equal sc : Equal (Canonical sc) sc && Equal sc (Canonical sc) = true.
Proof.
  apply andb_true_iff. split; apply Equal_same;
    [apply same_fields_with_original | apply same_fields_sym, same_fields_with_original].
Qed.

Lemma forallb_incl {A} (p : A -> bool) l1 l2 : incl l1 l2 -> forallb p l2 = true -> forallb p l1 = true.
Proof. rewrite !forallb_forall. auto. Qed.

Lemma iterw_take lim sc : wf sc -> IterW lim sc = take lim (abs sc).
Proof. intros W. destruct lim as [n|]; cbn [IterW take]; [now apply iter_stop | now apply iter_list]. Qed.

(* the model's walks are the specification's walks once the first full walk is the set itself *)
Lemma walks_sound sc sched ws :
  wf sc -> walks_agree sc (abs sc) sched ws = true -> walks_ok (abs sc) sched ws = true.
Proof.
  intros W. revert ws. induction sched as [|s0 sched IH]; intros [|w ws]; cbn [walks_agree walks_ok]; auto.
  rewrite !andb_true_iff. intros [H1 H2]. split; [|now apply IH].
  unfold walk_agrees in H1. unfold walk_ok. cbv zeta in *. rewrite !iterw_take in H1 by auto.
  apply andb_true_iff in H1 as [Ha Hb]. unfold wout in Ha. unfold win in Hb. apply andb_true_iff. split; [exact Ha|].
  apply rs_list_eqb_eq in Ha. rewrite Ha. destruct (w_nest s0) as [[[p same] q]|]; [|exact Hb].
  now rewrite iterw_take in Hb by auto.
Qed.

Lemma sobs_sound e probes stop sched o :
  sobs_agrees (eval e) probes stop sched o = true -> spec_sobs (den e) (text e) probes stop sched o = true.
Proof.
  set (sc := eval e). assert (W : wf sc) by apply wf_eval.
  unfold sobs_agrees. rewrite !andb_true_iff.
  intros (((((((((((H1 & H2) & H3) & H4) & H5) & H6) & H7) & H8) & H9) & H10) & H11) & H12).
  apply Bool.eqb_prop in H1, H2, H9, H10, H11. apply (opt_eqb_eq _ (opt_eqb_eq _ N.eqb_eq)) in H3.
  apply rs_list_eqb_eq in H4, H5. apply beqb_eq in H6, H7. apply (opt_eqb_eq _ N.eqb_eq) in H8.
  rewrite (iter_list sc W) in H4. rewrite (iter_stop stop sc W) in H5.
  rewrite H4 in H12. apply (walks_sound sc sched _ W) in H12. rewrite <- H4 in H12.
  unfold len_obs in H3. rewrite (len_spec sc W) in H3. unfold IsUnlimited in H1.
  pose proof (den_eval e) as Hd. fold sc in Hd. unfold spec_sobs.
  destruct (den e) as [l|].
  - destruct Hd as [Hu Hin]. rewrite Hu in *.
    assert (Hincl1 : incl (abs sc) l) by (intros v; apply Hin).
    assert (Hincl2 : incl l (abs sc)) by (intros v; apply Hin).
    rewrite H1. cbn [negb andb].
    (* IsEmpty *)
    assert (E2 : Bool.eqb (o_empty o) (match l with [] => true | _ => false end) = true).
    { rewrite H2. apply Bool.eqb_true_iff, bool_eq_iff. rewrite (isempty_spec sc W). split.
      - intros [_ Ha]. destruct l as [|x l]; auto. exfalso. assert (In x (abs sc)) by (apply Hin; now left).
        now rewrite Ha in H.
      - destruct l; [|discriminate]. intros _. split; auto. destruct (abs sc) as [|x a] eqn:Ea; auto.
        exfalso. apply (Hin x). now left. }
    rewrite E2. cbn [andb].
    (* Len *)
    injection H3 as H3. rewrite H3.
    rewrite (length_same_set (abs sc) (distinct l)); [|apply (sorted_lt_NoDup rs_cmp rs_cmp_total), abs_sorted
                                                       |apply distinct_NoDup | intros v; now rewrite distinct_In].
    cbn [opt_eqb]. rewrite N.eqb_refl. cbn [andb].
    (* Iter *)
    rewrite H4, (ascending_sorted _ (abs_sorted sc)).
    rewrite (proj2 (subsetb_incl _ _) Hincl1), (proj2 (subsetb_incl _ _) Hincl2). cbn [andb].
    rewrite H5. rewrite (proj2 (rs_list_eqb_eq _ _) eq_refl). cbn [andb].
    (* Holds *)
    rewrite (holds_mask_spec sc (fun r => memb r l) probes W) in H8.
    2:{ intros r. rewrite memb_In, <- Hin. split; auto. intros [H|H]; [congruence | auto]. }
    injection H8 as ->. rewrite N.eqb_refl. cbn [andb].
    (* text *)
    assert (Et : match text e with Some t => beqb (o_str o) t | None => true end = true).
    { destruct (text e) as [t|] eqn:Etx; auto. destruct (text_eval e t Etx) as [Ho Hs]. fold sc in Ho, Hs.
      rewrite H6. apply beqb_eq. destruct t as [|c t].
      - unfold String, IsUnlimited. rewrite Hu, Ho. cbn [beqb negb orb].
        assert (IsEmpty sc = true) as ->; auto.
        destruct Hs as (_ & Hr & _ & Hoth). unfold IsEmpty. now rewrite Hr, Hoth, Hu.
      - rewrite string_original; auto. rewrite Ho. discriminate. }
    rewrite Et. cbn [andb].
    (* round trips *)
    assert (Hclean : forallb clean_rs l = true -> clean sc).
    { intros Hc. unfold clean. eapply forallb_incl; eauto. }
    assert (E10 : (if forallb clean_rs l then o_crt o else true) = true).
    { destruct (forallb clean_rs l) eqn:Ec; auto. rewrite H10. apply print_parse; auto. }
    assert (E9 : (if forallb clean_rs l || match text e with Some _ => true | None => false end then o_rt o else true) = true).
    { destruct (forallb clean_rs l) eqn:Ec; cbn [orb].
      - rewrite H9. apply reparse; auto.
      - destruct (text e) as [t|] eqn:Etx; auto. rewrite H9. destruct (text_eval e t Etx) as [Ho Hs]. fold sc in Ho, Hs.
        apply reparse; auto. destruct t as [|c t]; [left | right; rewrite Ho; discriminate].
        unfold clean. replace (abs sc) with (@nil rscope); [reflexivity|]. symmetry.
        apply (isempty_spec sc W). destruct Hs as (_ & Hr & _ & Hoth). unfold IsEmpty. now rewrite Hr, Hoth, Hu. }
    rewrite E10, E9, H11, <- H4, H12, andb_true_r. apply canonical_equal.
  - rewrite Hd in *. rewrite H1. cbn [andb]. rewrite H2. unfold IsEmpty. rewrite Hd. cbn [negb].
    rewrite !andb_false_r. cbn [negb andb]. injection H3 as H3. rewrite H3.
    rewrite (abs_unlimited sc Hd) in H4, H5. rewrite H4, H5. cbn [firstn andb].
    rewrite (holds_mask_spec sc (fun _ => true) probes W) in H8 by (intros r; split; auto).
    injection H8 as ->. rewrite N.eqb_refl, H11, <- H4, H12, andb_true_r. apply canonical_equal.
Qed.

Lemma sobs_agrees_str sc probes stop sched o : sobs_agrees sc probes stop sched o = true -> o_str o = String sc.
Proof.
  unfold sobs_agrees. rewrite !andb_true_iff.
  intros (((((((((((H1 & H2) & H3) & H4) & H5) & H6) & H7) & H8) & H9) & H10) & H11) & H12). now apply beqb_eq.
Qed.

(* a well-formed scope equals, contains and is contained in the copy made from its elements *)
Lemma snapshot_same sc : wf sc ->
  Equal sc (snapshot sc) && Equal (snapshot sc) sc
  && Contains sc (snapshot sc) && Contains (snapshot sc) sc = true.
Proof.
  intros W. unfold snapshot, IsUnlimited. destruct (unlimited sc) eqn:U.
  - rewrite (wf_unl _ W U). reflexivity.
  - rewrite (iter_list sc W). set (n := NewScope (abs sc)).
    assert (Wn : wf n) by apply wf_new.
    assert (Un : unlimited n = false) by apply unlimited_new.
    assert (Hin : forall v, In v (abs sc) <-> In v (abs n)) by (intros v; symmetry; apply abs_new).
    rewrite !andb_true_iff. repeat split.
    + apply equal_spec_in; auto. split; [congruence | exact Hin].
    + apply equal_spec_in; auto. split; [congruence | intros v; symmetry; apply Hin].
    + apply contains_spec; auto. right. split; auto. intros v Hv. now apply Hin.
    + apply contains_spec; auto. right. split; auto. intros v Hv. now apply Hin.
Qed.

Lemma again_sound c : again_agrees c = true -> again_ok c = true.
Proof.
  unfold again_agrees, again_ok. destruct (pool_of c) as [pool|]; [|discriminate].
  rewrite !forallb_forall. intros H r Hr. specialize (H r Hr). unfold robs_agrees in H. unfold robs_ok.
  destruct (nth_error pool (r_idx r)) as [e|]; [|discriminate].
  cbv zeta in H. apply andb_true_iff in H as [H1 H2]. rewrite (sobs_sound _ _ _ _ _ H1). cbn [andb].
  apply Bool.eqb_prop in H2. rewrite H2. apply snapshot_same, wf_eval.
Qed.

Lemma corr_sound c : model_agrees c = true -> obs_ok c = true.
Proof.
  intros H. unfold model_agrees in H. rewrite !andb_true_iff in H.
  destruct H as (((((((((Hp & Ha) & Hb) & Hu) & H1) & H2) & H3) & H4) & H5) & Hag). unfold obs_ok.
  rewrite (again_sound c Hag), andb_true_r.
  apply Bool.eqb_prop in H1, H2, H3, H4, H5.
  change (Union (eval (c_a c)) (eval (c_b c))) with (eval (EUnion (c_a c) (c_b c))) in Hu.
  pose proof (sobs_agrees_str _ _ _ _ _ Ha) as Hastr. pose proof (sobs_agrees_str _ _ _ _ _ Hu) as Hustr.
  rewrite Hp, (sobs_sound _ _ _ _ _ Ha), (sobs_sound _ _ _ _ _ Hb), (sobs_sound _ _ _ _ _ Hu). cbn [andb].
  rewrite H1, H2, H3, H4, H5, !contains_den, !equal_den, (equalb_sym (den (c_b c))), !Bool.eqb_reflx. cbn [andb].
  assert (Hua : Equal (Union (eval (c_a c)) (eval (c_b c))) (eval (c_a c)) = containsb (den (c_a c)) (den (c_b c))).
  { rewrite <- contains_den. apply bool_eq_iff. split.
    - intros He. pose proof (wf_eval (c_a c)) as Wa. pose proof (wf_eval (c_b c)) as Wb.
      destruct (union_spec _ _ Wa Wb) as (Wu & Uu & Iu).
      apply equal_spec_in in He as [He1 He2]; auto. apply contains_spec; auto.
      destruct (unlimited (eval (c_a c))) eqn:Ua; auto. right.
      rewrite Uu in He1. cbn in He1. split; auto. intros v Hv. apply He2, Iu; auto.
    - intros Hc. rewrite (union_noop _ _ (wf_eval _) Hc). apply Equal_same, same_fields_refl. }
  rewrite Hua, Bool.eqb_reflx. cbn [andb].
  destruct (containsb (den (c_a c)) (den (c_b c))) eqn:Ec; cbn [andb]; auto.
  destruct (negb (o_unl (c_oa c))); auto. apply beqb_eq. rewrite Hustr, Hastr.
  rewrite <- contains_den in Ec. cbn [eval]. now rewrite (union_noop _ _ (wf_eval _) Ec).
Qed.

Definition mismatches (cs : list case) : list (N * bool) :=
  bad_from 0 (fun c => if model_agrees c then None else Some (obs_ok c)) cs.
Definition bad_obs (cs : list case) : list (N * bool) :=
  bad_from 0 (fun c => if obs_ok c then None else Some (model_agrees c)) cs.
