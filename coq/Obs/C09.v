(* Correspondence for C09: what the harness observed on ociauth.Scope (exported API only)
   versus the model (Model/Scope.v) and versus the property's specification, which is
   written here with plain lists as sets (append, existsb, a quadratic duplicate filter) and
   knows nothing of bitmasks, sentinels, sorted slices or merge loops. *)
From Coq Require Import String.
From OCI Require Export Base.Outcome Model.Scope.
From OCI Require Import Proofs.Scope.

(* everything observed on one Scope value *)
Record sobs := {
  o_unl : bool;            (* IsUnlimited *)
  o_empty : bool;          (* IsEmpty *)
  o_len : option N;        (* Len; None = it panicked *)
  o_iter : list rscope;    (* Iter, consumer never declines *)
  o_stop : list rscope;    (* Iter, every item handed to a consumer that declines item c_stop+1 *)
  o_str : bytes;           (* String *)
  o_cstr : bytes;          (* Canonical().String() *)
  o_holds : N;             (* bit i = Holds(probe i) *)
  o_rt : bool;             (* ParseScope(s.String()).Equal(s) *)
  o_crt : bool;            (* ParseScope(s.Canonical().String()).Equal(s) *)
  o_ceq : bool             (* s.Canonical().Equal(s) && s.Equal(s.Canonical()) *)
}.

Record case := {
  c_a : sexp; c_b : sexp;            (* how the two scopes were built *)
  c_probes : list rscope; c_stop : nat;
  c_oa : sobs; c_ob : sobs;
  c_ou : sobs;                       (* a.Union(b) *)
  c_ab : bool; c_ba : bool;          (* a.Contains(b), b.Contains(a) *)
  c_eq : bool; c_qe : bool;          (* a.Equal(b), b.Equal(a) *)
  c_ua : bool;                       (* a.Union(b).Equal(a) *)
  c_panic : bool                     (* some call other than Len panicked *)
}.

(* case files write long strings as a concatenation of dictionary words *)
Definition j (l : list bytes) : bytes := concat l.

(* ---------- the model's prediction ---------- *)

Fixpoint holds_mask (sc : scope) (probes : list rscope) : option N :=
  match probes with
  | [] => Some 0
  | r :: rest =>
      match Holds sc r, holds_mask sc rest with
      | Ok b, Some m => Some (2 * m + (if b then 1 else 0))
      | _, _ => None
      end
  end.

Definition len_obs (sc : scope) : option (option N) :=
  match Len sc with
  | Ok n => Some (Some (N.of_nat n))
  | Panic => Some None
  | _ => None
  end.

Definition rs_list_eqb := list_eqb rs_eqb.

Definition opt_eqb {A} (eqb : A -> A -> bool) (a b : option A) : bool :=
  match a, b with
  | Some u, Some v => eqb u v
  | None, None => true
  | _, _ => false
  end.

Definition sobs_agrees (sc : scope) (probes : list rscope) (stop : nat) (o : sobs) : bool :=
  Bool.eqb (o_unl o) (IsUnlimited sc)
  && Bool.eqb (o_empty o) (IsEmpty sc)
  && opt_eqb (opt_eqb N.eqb) (Some (o_len o)) (len_obs sc)
  && rs_list_eqb (o_iter o) (IterList sc)
  && rs_list_eqb (o_stop o) (IterStop stop sc)
  && beqb (o_str o) (String sc)
  && beqb (o_cstr o) (String (Canonical sc))
  && opt_eqb N.eqb (Some (o_holds o)) (holds_mask sc probes)
  && Bool.eqb (o_rt o) (Equal (ParseScope (String sc)) sc)
  && Bool.eqb (o_crt o) (Equal (ParseScope (String (Canonical sc))) sc)
  && Bool.eqb (o_ceq o) (Equal (Canonical sc) sc && Equal sc (Canonical sc)).

Definition model_agrees (c : case) : bool :=
  let a := eval (c_a c) in
  let b := eval (c_b c) in
  let u := Union a b in
  negb (c_panic c)
  && sobs_agrees a (c_probes c) (c_stop c) (c_oa c)
  && sobs_agrees b (c_probes c) (c_stop c) (c_ob c)
  && sobs_agrees u (c_probes c) (c_stop c) (c_ou c)
  && Bool.eqb (c_ab c) (Contains a b) && Bool.eqb (c_ba c) (Contains b a)
  && Bool.eqb (c_eq c) (Equal a b) && Bool.eqb (c_qe c) (Equal b a)
  && Bool.eqb (c_ua c) (Equal u a).

(* ---------- the specification: finite sets of triples as plain lists ---------- *)

Definition memb (r : rscope) (l : list rscope) : bool := existsb (rs_eqb r) l.
Definition subsetb (l1 l2 : list rscope) : bool := forallb (fun r => memb r l2) l1.

Fixpoint distinct (l : list rscope) : list rscope :=
  match l with
  | [] => []
  | r :: l' => if memb r l' then distinct l' else r :: distinct l'
  end.

Fixpoint ascending (l : list rscope) : bool :=
  match l with
  | [] => true
  | a :: l' => match l' with
               | [] => true
               | b :: _ => match rs_cmp a b with Lt => ascending l' | _ => false end
               end
  end.

(* the Docker scope grammar: space separated  type:name:action,action ; anything else is
   an opaque scope kept whole in the type *)
Definition naive_parse (t : bytes) : list rscope :=
  flat_map (fun f => match split_byte colon f with
                     | [ty; name; acts] => map (RS ty name) (split_byte comma acts)
                     | _ => [RS f [] []]
                     end) (fields t).

(* the set an expression denotes; None = everything (unlimited) *)
Fixpoint den (e : sexp) : option (list rscope) :=
  match e with
  | ENew l => Some l
  | EParse t => Some (naive_parse t)
  | EUnlimited => None
  | EUnion a b => match den a, den b with
                  | Some u, Some v => Some (u ++ v)
                  | _, _ => None
                  end
  | ECanonical a => den a
  end.

(* the text an expression is required to print as, when the property fixes it: a parsed
   scope prints as its source, and so does a union that adds nothing to it *)
Fixpoint text (e : sexp) : option bytes :=
  match e with
  | EParse t => Some t
  | EUnion a b => match den a, den b with
                  | Some u, Some v => if subsetb v u then text a else None
                  | _, _ => None
                  end
  | _ => None
  end.

Fixpoint mask_of (bs : list bool) : N :=
  match bs with
  | [] => 0
  | b :: rest => 2 * mask_of rest + (if b then 1 else 0)
  end.

Definition spec_sobs (D : option (list rscope)) (txt : option bytes)
                     (probes : list rscope) (stop : nat) (o : sobs) : bool :=
  match D with
  | None =>
      o_unl o && negb (o_empty o)
      && match o_len o with None => true | Some _ => false end      (* Len panics, as documented *)
      && match o_iter o with [] => true | _ => false end
      && match o_stop o with [] => true | _ => false end
      && N.eqb (o_holds o) (mask_of (map (fun _ => true) probes))   (* contains everything *)
      && o_ceq o
  | Some l =>
      negb (o_unl o)
      && Bool.eqb (o_empty o) (match l with [] => true | _ => false end)
      && opt_eqb N.eqb (o_len o) (Some (N.of_nat (List.length (distinct l))))
      && ascending (o_iter o) && subsetb (o_iter o) l && subsetb l (o_iter o)
      && rs_list_eqb (o_stop o) (firstn (S stop) (o_iter o))
      && N.eqb (o_holds o) (mask_of (map (fun r => memb r l) probes))
      && match txt with Some t => beqb (o_str o) t | None => true end
      && (if forallb clean_rs l then o_crt o else true)
      && (if forallb clean_rs l || (match txt with Some _ => true | None => false end) then o_rt o else true)
      && o_ceq o
  end.

Definition containsb (Da Db : option (list rscope)) : bool :=
  match Da, Db with
  | None, _ => true
  | Some _, None => false
  | Some u, Some v => subsetb v u
  end.

Definition equalb (Da Db : option (list rscope)) : bool :=
  match Da, Db with
  | None, None => true
  | Some u, Some v => subsetb u v && subsetb v u
  | _, _ => false
  end.

Definition obs_ok (c : case) : bool :=
  let Da := den (c_a c) in
  let Db := den (c_b c) in
  let eu := EUnion (c_a c) (c_b c) in
  negb (c_panic c)
  && spec_sobs Da (text (c_a c)) (c_probes c) (c_stop c) (c_oa c)
  && spec_sobs Db (text (c_b c)) (c_probes c) (c_stop c) (c_ob c)
  && spec_sobs (den eu) (text eu) (c_probes c) (c_stop c) (c_ou c)
  && Bool.eqb (c_ab c) (containsb Da Db) && Bool.eqb (c_ba c) (containsb Db Da)
  && Bool.eqb (c_eq c) (equalb Da Db) && Bool.eqb (c_qe c) (equalb Da Db)
  && Bool.eqb (c_ua c) (containsb Da Db)
  (* a union that adds nothing prints exactly as its receiver *)
  && (if containsb Da Db && negb (o_unl (c_oa c)) then beqb (o_str (c_ou c)) (o_str (c_oa c)) else true).

(* a case is non-trivial when at least two distinct triples are involved (so sorting,
   de-duplication, bitmask merging or the interleaving of known and other scopes has
   something to do), or when the unlimited scope meets a non-empty one *)
Definition nontrivial (c : case) : bool :=
  match den (c_a c), den (c_b c) with
  | Some u, Some v => (2 <=? List.length (distinct (u ++ v)))%nat
  | None, Some v => negb (match v with [] => true | _ => false end)
  | Some u, None => negb (match u with [] => true | _ => false end)
  | None, None => false
  end.

Definition mismatches (cs : list case) : list (N * bool) :=
  bad_from 0 (fun c => if model_agrees c then None else Some (obs_ok c)) cs.
Definition bad_obs (cs : list case) : list (N * bool) :=
  bad_from 0 (fun c => if obs_ok c then None else Some (model_agrees c)) cs.
