(* Executable runner over the composed model of Model/Stack.v, for histories in the op
   vocabulary of Model/Iface.v (the one Model/Mem.v's [step] uses):

     stack_step so o cc bstep : registry (sstate St)      one client -> server hop in front of [bstep]

   [so] are the primitive oracles of the stack; [soracles_of] builds them from the tables of
   an Obs/MemObs.v [oracles] record.  The JSON oracle is instantiated by a concrete encoding
   ([enc0] and its decoders, round trips proved in Proofs/StackJson.v): the bytes of listing and error
   documents are not observable through the client API (only their length is, through the 8 KiB limit
   on error bodies).  The construction nests: [stack_backend] is a backend again.

   A smoke test at the end runs a history through one hop and two hops over Model/Mem.v and
   compares with the direct run. *)
From Coq Require Import String.
From OCI Require Export Base.Outcome Model.Iface Model.Mem Obs.MemObs.
From OCI Require Export Model.Stack.

Local Open Scope N_scope.

(* ================================================================ a concrete JSON *)

(* a byte string, self-delimiting: every byte plus one, then 0 *)
Definition eb (l : bytes) : bytes := map N.succ l ++ [0].

Fixpoint db (l : bytes) : option (bytes * bytes) :=
  match l with
  | [] => None
  | c :: r =>
      if c =? 0 then Some ([], r)
      else match db r with
           | Some (v, rest) => Some (N.pred c :: v, rest)
           | None => None
           end
  end.

(* an integer: sign, magnitude (one element each) *)
Definition ez (z : Z) : bytes := [if (z <? 0)%Z then 1 else 0; Z.abs_N z].
Definition dz (l : bytes) : option (Z * bytes) :=
  match l with
  | sg :: m :: r => Some ((if sg =? 0 then Z.of_N m else (- Z.of_N m)%Z), r)
  | _ => None
  end.

(* a list: each element behind a 1, then 0 *)
Section Lists.
  Context {A : Type}.
  Variable ea : A -> bytes.
  Variable da : bytes -> option (A * bytes).

  Definition el (l : list A) : bytes := flat_map (fun a => 1 :: ea a) l ++ [0].

  Fixpoint dl (fuel : nat) (l : bytes) : option (list A * bytes) :=
    match fuel with
    | O => None
    | S f =>
        match l with
        | [] => None
        | c :: r =>
            if c =? 0 then Some ([], r)
            else match da r with
                 | Some (a, r') => match dl f r' with
                                   | Some (v, rest) => Some (a :: v, rest)
                                   | None => None
                                   end
                 | None => None
                 end
        end
    end.
End Lists.

Definition edesc (d : desc) : bytes :=
  eb (d_media d) ++ eb (d_digest d) ++ ez (d_size d) ++ eb (d_artifact d).
Definition ddesc (l : bytes) : option (desc * bytes) :=
  match db l with
  | Some (m, r1) =>
      match db r1 with
      | Some (dg, r2) =>
          match dz r2 with
          | Some (sz, r3) =>
              match db r3 with
              | Some (a, r4) => Some ({| d_media := m; d_digest := dg; d_size := sz; d_artifact := a |}, r4)
              | None => None
              end
          | None => None
          end
      | None => None
      end
  | None => None
  end.

Definition ewerr (w : werr) : bytes :=
  eb (w_code w) ++ eb (w_msg w) ++ match w_detail w with None => [0] | Some d => 1 :: eb d end.
Definition dwerr (l : bytes) : option (werr * bytes) :=
  match db l with
  | Some (c, r1) =>
      match db r1 with
      | Some (m, r2) =>
          match r2 with
          | t :: r3 =>
              if t =? 0 then Some (W c m None, r3)
              else match db r3 with
                   | Some (d, r4) => Some (W c m (Some d), r4)
                   | None => None
                   end
          | [] => None
          end
      | None => None
      end
  | None => None
  end.

(* the four documents, tagged *)
Definition enc0 (j : jval) : bytes :=
  match j with
  | JTags name tags => 1 :: eb name ++ el eb tags
  | JCatalog repos => 2 :: el eb repos
  | JIndex ms => 3 :: el edesc ms
  | JErr w => 4 :: ewerr w
  end.

Definition dec_errors0 (data : bytes) : option (list werr) :=
  match data with
  | 4 :: r => match dwerr r with Some (w, []) => Some [w] | _ => None end
  | _ => None
  end.

Definition dec_names0 (tags : bool) (data : bytes) : option (list bytes) :=
  match data with
  | 1 :: r => if tags then
                match db r with
                | Some (_, r1) => match dl db (length r1) r1 with Some (l, []) => Some l | _ => None end
                | None => None
                end
              else Some []         (* the field "repositories" is absent *)
  | 2 :: r => if tags then Some []
              else match dl db (length r) r with Some (l, []) => Some l | _ => None end
  | _ => None
  end.

Definition dec_index0 (data : bytes) : option (list desc) :=
  match data with
  | 3 :: r => match dl ddesc (length r) r with Some (l, []) => Some l | _ => None end
  | _ => None
  end.

(* mime.ParseMediaType on a well-formed value: the type before the first ";", without the
   surrounding blanks, in lower case *)
Definition lower_ascii (c : N) : N := if (65 <=? c) && (c <=? 90) then c + 32 else c.
Definition media0 (v : bytes) : bytes :=
  map lower_ascii (trim_string (fst (cut_or_all 59 v))).

(* http.Redirect(w, r, url, 307) for a URL with a scheme: Location is the URL, the body a
   short HTML note for GET (not looked at by the client).  A location without a scheme would
   be made absolute against the request path; such locations are outside the class
   [interp_url] models in any case. *)
Definition redirect0 (path url : bytes) : bytes * bytes := (url, []).

(* ================================================================ the oracles of a stack *)

Record soracles := mksoracles {
  so_linked : alg -> bool;
  so_hash : bytes -> bytes -> bytes;                  (* algorithm name, data: hex *)
  so_subject : bytes -> option (option bytes)         (* manifest -> its subject's digest *)
}.

Definition stack_backend (so : soracles) (o : opts) (cc : ccfg) {St} (bstep : backend St)
  : backend (sstate St) :=
  stack_bstep (so_linked so) (so_hash so) (so_subject so) media0 enc0 dec_errors0 dec_names0 dec_index0
              redirect0 bstep o cc.

(* one hop in front of [bstep], as a registry over the op vocabulary of Model/Iface.v *)
Definition stack_step (so : soracles) (o : opts) (cc : ccfg) {St} (bstep : backend St)
  : registry (sstate St) :=
  registry_of_backend (stack_backend so o cc bstep).

(* ---- from the tables of Obs/MemObs.v ---- *)

Fixpoint hash_lookup (alg data : bytes) (t : list (bytes * bytes * bytes)) : option bytes :=
  match t with
  | [] => None
  | (a, d, h) :: r => if beqb a alg && beqb d data then Some h else hash_lookup alg data r
  end.

(* [o_hash] holds content -> "sha256:<hex>"; [more] holds (algorithm, content, hex) for the other
   algorithms a history uses.  A content the tables do not know hashes to "?" *)
Definition orc_hashhex (o : oracles) (more : list (bytes * bytes * bytes)) (alg data : bytes) : bytes :=
  match hash_lookup alg data more with
  | Some h => h
  | None =>
      if beqb alg sha256_name then
        match alookup data (o_hash o) with
        | Some d => skipn 7 d
        | None => [63]
        end
      else [63]
  end.

(* json.Unmarshal of the "subject" field: what the decode tables know about the content *)
Definition orc_subject (o : oracles) (data : bytes) : option (option bytes) :=
  match orc_img o data with
  | Some im => Some (option_map d_digest (im_subject im))
  | None => match orc_idx o data with
            | Some ix => Some (option_map d_digest (ix_subject ix))
            | None => None
            end
  end.

Definition soracles_of (o : oracles) (more : list (bytes * bytes * bytes)) : soracles :=
  mksoracles (fun _ => true) (orc_hashhex o more) (orc_subject o).

Definition default_opts : opts := mkopts false false 0 false false None.
Definition default_ccfg : ccfg := mkccfg 0 512 1000.

(* the registry of Obs/MemObs.v behind one hop and behind two *)
Definition one_hop (o : oracles) (more : list (bytes * bytes * bytes)) (imm : bool) (sv : opts) (cc : ccfg)
  : registry (sstate state) :=
  stack_step (soracles_of o more) sv cc (backend_of_registry (mem_step o imm)).

Definition two_hops_step (o : oracles) (more : list (bytes * bytes * bytes)) (imm : bool)
           (sv1 sv2 : opts) (cc1 cc2 : ccfg) : registry (sstate (sstate state)) :=
  stack_step (soracles_of o more) sv2 cc2
             (stack_backend (soracles_of o more) sv1 cc1 (backend_of_registry (mem_step o imm))).

(* ================================================================ smoke test *)

Module Smoke.
  Definition hexd (v : N) : N := if v <? 10 then 48 + v else 87 + v.
  Fixpoint hexn (k : nat) (n : N) (acc : bytes) : bytes :=
    match k with O => acc | S k' => hexn k' (n / 16) (hexd (n mod 16) :: acc) end.
  (* not a hash: a checksum rendered as 64 hex digits *)
  Definition fake_hex (data : bytes) : bytes :=
    hexn 64 (fold_left (fun a b => (a * 31 + b + 1) mod 4294967296) data 7) [].
  Definition dg (data : bytes) : bytes := s "sha256:" ++ fake_hex data.

  Definition blob1 : bytes := rep 100 97.
  Definition blob2 : bytes := rep 100 98.
  Definition man1 : bytes := s "{""test manifest"": 1, ""padding"": """ ++ rep 60 120 ++ s """}".
  Definition mt : bytes := s "application/vnd.test.thing+json".
  Definition repo1 : bytes := s "foo/blobs/uploads".
  Definition repo2 : bytes := s "other/manifests".
  Definition tag1 : bytes := s "latest".

  Definition orc : oracles :=
    {| o_hash := [(blob1, dg blob1); (blob2, dg blob2); (man1, dg man1)];
       o_digests := [dg blob1; dg blob2; dg man1];
       o_repos := [repo1; repo2]; o_tags := [tag1]; o_images := []; o_indexes := [] |}.

  Definition bdesc (c : bytes) : desc :=
    {| d_media := s "application/octet-stream"; d_digest := dg c; d_size := blen c; d_artifact := [] |}.

  Definition hist : list op :=
    [ PushBlob repo1 (bdesc blob1) blob1;
      ResolveBlob repo1 (dg blob1);
      GetBlob repo1 (dg blob1);
      PushManifest repo1 tag1 man1 mt;
      GetTag repo1 tag1;
      ResolveTag repo1 tag1;
      Tags repo1 [];
      MountBlob repo1 repo2 (dg blob1);
      Repositories [];
      DeleteTag repo1 tag1;
      GetTag repo1 tag1;
      DeleteBlob repo2 (dg blob1);
      ResolveBlob repo2 (dg blob1) ].

  (* what is compared: success / failure, the code, the value *)
  Definition proj (r : result) : R ecode res :=
    match r with
    | Ok (RList l e) => Ok (RList l (option_map (fun x => E (e_code x) []) e))
    | Ok (RDescs l e) => Ok (RDescs l (option_map (fun x => E (e_code x) []) e))
    | Ok v => Ok v
    | Err e => Err (e_code e)
    | Panic => Panic
    | OutOfFuel => OutOfFuel
    end.

  Definition direct := map proj (snd (run (mem_step orc false) init hist)).
  Definition via1 := map proj (snd (run (one_hop orc [] false default_opts default_ccfg) (sstate0 init) hist)).
  Definition via2 := map proj (snd (run (two_hops_step orc [] false default_opts default_opts default_ccfg default_ccfg)
                                        (sstate0 (sstate0 init)) hist)).
End Smoke.

Module SmokeCheck.
  Import Smoke.

  Definition hist2 : list op :=
    [ PushBlobChunked repo1 0;
      WWrite 0 blob2;
      WSize 0;
      WCommit 0 (dg blob2);
      GetBlob repo1 (dg blob2);
      GetBlobRange repo1 (dg blob2) 10 20;
      GetBlobRange repo1 (dg blob2) 90 (-1);
      PushBlobChunked repo2 40;
      WWrite 1 (firstn 30 blob1);
      WWrite 1 (firstn 30 (skipn 30 blob1));
      WWrite 1 (skipn 60 blob1);
      WClose 1;
      WCommit 1 (dg blob1);
      ResolveBlob repo2 (dg blob1);
      PushManifest repo2 [] man1 mt;
      GetManifest repo2 (dg man1);
      ResolveManifest repo2 (dg man1);
      Referrers repo2 (dg man1) [];
      DeleteManifest repo2 (dg man1);
      GetManifest repo2 (dg man1);
      Tags (s "nosuch") [] ].

  (* the identifications of the property: MountBlob's descriptor carries no size over HTTP
     (recorded finding); the HEAD-based resolves compare the status class, i.e. NAME_UNKNOWN
     stands for every 404 *)
  Definition same (o : op) (a b : R ecode res) : bool :=
    match o, a, b with
    | MountBlob _ _ _, Ok (RDesc x), Ok (RDesc y) => beqb (d_digest x) (d_digest y) && beqb (d_media x) (d_media y)
    | (ResolveBlob _ _ | ResolveManifest _ _ | ResolveTag _ _), Err _, Err c => ecode_eqb c NAME_UNKNOWN
    | _, Ok (RList l e), Ok (RList l' e') => list_eqb beqb l l' && option_eqb err_eqb e e'
    | _, Ok (RDescs l e), Ok (RDescs l' e') => list_eqb desc_eqb l l' && option_eqb err_eqb e e'
    | _, Ok x, Ok y => res_eqb x y
    | _, Err c, Err c' => ecode_eqb c c'
    | _, _, _ => false
    end.

  Fixpoint same_all (h : list op) (a b : list (R ecode res)) : bool :=
    match h, a, b with
    | [], [], [] => true
    | o :: h', x :: a', y :: b' => same o x y && same_all h' a' b'
    | _, _, _ => false
    end.

  Definition direct_of (h : list op) := map proj (snd (run (mem_step orc false) init h)).
  Definition via1_of (sv : opts) (cc : ccfg) (h : list op) :=
    map proj (snd (run (one_hop orc [] false sv cc) (sstate0 init) h)).
  Definition via2_of (sv1 sv2 : opts) (cc : ccfg) (h : list op) :=
    map proj (snd (run (two_hops_step orc [] false sv1 sv2 cc cc) (sstate0 (sstate0 init)) h)).

  (* MaxListPageSize 2: a client that asks for larger pages is refused (UNSUPPORTED), so the
     client in front of this server uses pages of 1 *)
  Definition omit_opts : opts := mkopts false true 2 true true None.
  Definition small_pages : ccfg := mkccfg 1 7 1000.

  Definition smoke_ok : bool :=
    same_all hist (direct_of hist) (via1_of default_opts default_ccfg hist)
    && same_all hist (direct_of hist) (via2_of default_opts default_opts default_ccfg hist)
    && same_all hist (direct_of hist) (via1_of omit_opts small_pages hist)
    && same_all hist (direct_of hist) (via2_of omit_opts default_opts small_pages hist)
    && same_all (hist ++ hist2) (direct_of (hist ++ hist2)) (via1_of default_opts default_ccfg (hist ++ hist2))
    && same_all (hist ++ hist2) (direct_of (hist ++ hist2)) (via2_of default_opts omit_opts small_pages (hist ++ hist2))
    && same_all (hist ++ hist2) (direct_of (hist ++ hist2)) (via1_of omit_opts small_pages (hist ++ hist2)).
End SmokeCheck.

(* 13 + 21 operations with 100-byte contents, one hop and two hops, four option sets *)
Time Example smoke : SmokeCheck.smoke_ok = true.
Proof. vm_compute. reflexivity. Qed.
