(* Correspondence for C18: what the harness observed when it ran a method of the real
   ociclient against a scripted http.RoundTripper, versus the model (Model/Client.v over the
   scripted server of the same answers) and versus the property's specification.

   The oracles of the model (net/url, ocirequest.Construct, digest validation and hashing, mime,
   encoding/json) are instantiated per case by tables the harness filled by calling the real
   Go functions on exactly the strings that occur in the case. *)
From Coq Require Import String.
From OCI Require Export Base.Outcome Model.Http Model.Client.
From OCI Require Import Model.Iface Model.Errors Proofs.Client.

Local Open Scope Z_scope.

(* [repu n u]: the first n bytes of u repeated over and over (long bodies made of one
   multi-byte unit, in case files) *)
Definition repu (n : N) (u : bytes) : bytes :=
  firstn (N.to_nat n) (concat (repeat u (N.to_nat n))).

(* ---------------------------------------------------------------- what is observed *)

(* the result of a call, flattened: errors are seen through errors.As only
   (HTTPError.StatusCode, Error.Code) *)
Inductive tok :=
  | TPanic | THang | TOk | TEOF
  | TErr (http : option Z) (code : option bytes)
  | TDesc (d : desc)
  | TBytes (b : bytes)
  | TInt (z : Z).

Definition tok_eqb (a b : tok) : bool :=
  match a, b with
  | TPanic, TPanic | THang, THang | TOk, TOk | TEOF, TEOF => true
  | TErr h c, TErr h' c' => option_eqb Z.eqb h h' && option_eqb beqb c c'
  | TDesc d, TDesc d' => desc_eqb d d'
  | TBytes x, TBytes y => beqb x y
  | TInt x, TInt y => Z.eqb x y
  | _, _ => false
  end.

Lemma tok_eqb_eq a b : tok_eqb a b = true -> a = b.
Proof.
  destruct a, b; cbn; try discriminate; auto; intros H.
  - apply andb_true_iff in H as [H1 H2].
    destruct http, http0; cbn in H1; try discriminate;
    destruct code, code0; cbn in H2; try discriminate;
    try (apply Z.eqb_eq in H1; subst); try (apply beqb_eq in H2; subst); reflexivity.
  - apply desc_eqb_eq in H. now subst.
  - apply beqb_eq in H. now subst.
  - apply Z.eqb_eq in H. now subst.
Qed.

Lemma toks_eqb_eq a b : list_eqb tok_eqb a b = true -> a = b.
Proof.
  revert b; induction a as [|x a IH]; intros [|y b]; cbn; try discriminate; auto.
  intros H. apply andb_true_iff in H as [H1 H2]. apply tok_eqb_eq in H1. apply IH in H2. now subst.
Qed.

(* one request as the transport saw it: method, Content-Range (or else Range) header,
   Request.ContentLength *)
Definition reqobs := (meth * bytes * Z)%type.

Definition reqobs_eqb (a b : reqobs) : bool :=
  let '(m, h, l) := a in let '(m', h', l') := b in meth_eqb m m' && beqb h h' && Z.eqb l l'.

Record observed := {
  o_toks : list tok;
  o_reqs : list reqobs;
  o_reads : list Z          (* bytes read of each response body, per request *)
}.

(* one scripted answer with the oracle values that belong to it *)
Record sresp := {
  sr_resp : option hresp;                 (* None = the transport fails *)
  sr_media : bytes;                       (* mime.ParseMediaType(Content-Type) *)
  sr_jerrors : option (list werr);        (* json.Unmarshal(body, WireErrors) *)
  sr_jnames : option (list bytes);        (* the listing document the call expects *)
  sr_jindex : option (list desc)          (* ocispec.Index *)
}.

(* When the harness iterates the sequence value of a listing again, every later pass arrives
   here as a case of its own: the same call (with the budget of that pass) against the answers
   the transport had not given yet, observed = what that pass yielded, sent and read.  For
   Referrers, whose sequence holds what the one request of the call gave, a later pass is the same
   call against the same answers, observed = what the pass yielded and every request so far. *)
Record case := {
  c_page : Z;                             (* Options.ListPageSize *)
  c_call : call;
  c_script : list sresp;
  c_args_ok : bool;                       (* Request.Construct accepts the arguments *)
  c_bad_urls : list bytes;                (* url.Parse fails on these *)
  c_unrooted : list bytes;                (* parsed Path does not start with "/" *)
  c_valid_digests : list bytes;           (* ociref.IsValidDigest holds for these *)
  c_hashes : list (bytes * bytes * bytes);  (* algorithm, data, hex digest *)
  c_obs : observed
}.

(* constructors for the case files *)
Definition mkresp (st : Z) (h : header) (cl : Z) (data : bytes) (f : bool) : hresp :=
  {| rs_status := st; rs_header := h; rs_clen := cl; rs_body := {| b_data := data; b_fail := f |} |}.
Definition mkd (media dig : bytes) (size : Z) (art : bytes) : desc :=
  {| d_media := media; d_digest := dig; d_size := size; d_artifact := art |}.
Definition mkw (code msg : bytes) : werr := W code msg None.

(* ---------------------------------------------------------------- the oracles of a case *)

Definition body_is (data : bytes) (sr : sresp) : bool :=
  match sr_resp sr with
  | Some r => beqb (b_data (rs_body r)) data
  | None => false
  end.

Definition ctype_is (ct : bytes) (sr : sresp) : bool :=
  match sr_resp sr with
  | Some r => beqb (hget h_content_type (rs_header r)) ct
  | None => false
  end.

Fixpoint hash_lookup (alg data : bytes) (t : list (bytes * bytes * bytes)) : bytes :=
  match t with
  | [] => []
  | (a, d, h) :: r => if beqb a alg && beqb d data then h else hash_lookup alg data r
  end.

Definition algorithms : list bytes := [s "sha256"; s "sha384"; s "sha512"].

(* go-digest accepts only "algorithm:encoded" with an available algorithm, and Construct
   refuses a blob request without a digest; the tables are read through these two facts so
   that they hold for every case term, not only for the ones the harness writes *)
Definition usable_b (d : bytes) : bool :=
  match cut_byte 58%N d with
  | Some (a, _) => mem_bytes a algorithms
  | None => false
  end.

Definition construct_sane_b (q : rreq) : bool :=
  match q_kind q with
  | ReqBlobGet => negb (is_empty (q_digest q))
  | _ => true
  end.

Definition env_of (c : case) : env :=
  {| e_construct_ok := fun q => c_args_ok c && construct_sane_b q;
     e_url_ok := fun u => negb (mem_bytes u (c_bad_urls c));
     e_url_rooted := fun u => negb (mem_bytes u (c_unrooted c));
     e_valid_digest := fun d => mem_bytes d (c_valid_digests c) && usable_b d;
     e_available := fun a => mem_bytes a algorithms;
     e_hashhex := fun a d => hash_lookup a d (c_hashes c);
     e_media := fun ct => match find (ctype_is ct) (c_script c) with Some sr => sr_media sr | None => [] end;
     e_json_errors := fun d => match find (body_is d) (c_script c) with Some sr => sr_jerrors sr | None => None end;
     e_json_names := fun _ d => match find (body_is d) (c_script c) with Some sr => sr_jnames sr | None => None end;
     e_json_index := fun d => match find (body_is d) (c_script c) with Some sr => sr_jindex sr | None => None end |}.

(* ---------------------------------------------------------------- projection of the model *)

Definition classify (e : gerr) : tok :=
  TErr (as_http e) (option_map w_code (as_err e)).

Definition r_toks {A} (f : A -> list tok) (r : R gerr A) : list tok :=
  match r with
  | Ok a => f a
  | Err e => [classify e]
  | Panic => [TPanic]
  | OutOfFuel => [THang]
  end.

Definition rend_tok (e : rend) : tok :=
  match e with
  | RdMore => TOk
  | RdEOF => TEOF
  | RdErr e => classify e
  end.

Definition pend_tok (e : pend) : tok :=
  match e with PDone => TOk | PPanic => TPanic | PFuel => THang end.

Definition wres_toks (r : wres) : list tok :=
  match r with
  | WrInt r => r_toks (fun n => [TInt n]) r
  | WrDesc r => r_toks (fun d => [TDesc d]) r
  end.

Definition outcome_toks (o : outcome) : list tok :=
  match o with
  | ODesc r => r_toks (fun d => [TDesc d]) r
  | ORead r => r_toks (fun x => let '(d, data, e) := x in [TDesc d; TBytes data; rend_tok e]) r
  | OUnit r => r_toks (fun _ => [TOk]) r
  | ONames ys e => map (fun y => match y with inl b => TBytes b | inr er => classify er end) ys ++ [pend_tok e]
  | ODescs ys e => map (fun y => match y with inl d => TDesc d | inr er => classify er end) ys ++ [pend_tok e]
  | OWriter r => r_toks (fun x => let '(rs, size, cs) := x in flat_map wres_toks rs ++ [TInt size; TInt cs]) r
  end.

Definition req_obs (r : hreq) : reqobs :=
  let cr := hget h_content_range (rq_header r) in
  (rq_method r, match cr with [] => hget h_range (rq_header r) | _ => cr end, rq_clen r).

Definition script_of (c : case) : script := map sr_resp (c_script c).

(* enough for any script: every iteration of a loop takes an answer or stops *)
Definition fuel_of (c : case) : nat := S (S (length (c_script c))).

Definition model_run (c : case) : world script * outcome :=
  Client.run script script_serve (env_of c) current (new_client current (c_page c))
      (fuel_of c) (c_call c) (init_world (script_of c)).

Definition model_agrees (c : case) : bool :=
  let '(w, o) := model_run c in
  list_eqb tok_eqb (outcome_toks o) (o_toks (c_obs c))
  && list_eqb reqobs_eqb (map (fun e => req_obs (en_req e)) (w_log w)) (o_reqs (c_obs c))
  && list_eqb Z.eqb (map en_read (w_log w)) (o_reads (c_obs c)).

(* ---------------------------------------------------------------- the specification *)

(* Written without the model.  A call on a scripted server:
     1. gives values and errors: no panic, no hang;
     2. sends at most as many requests as the server has answers plus one per operation the
        caller performs (the call itself, and each operation on the BlobWriter it returned);
     3. sends at most 10 requests (net/http's redirect limit) per HTTP exchange the operation
        is made of, and a listing asks for a further page only after a full page of results:
        exchanges <= 1 + yielded / page size;
     4. never reads more than 8 KiB + 1 of the body of a response that is not a 2xx. *)

Definition tok_bad (t : tok) : bool := match t with TPanic | THang => true | _ => false end.

Definition effective_page (p : Z) : Z := if p <=? 0 then 1000 else p.

Definition count_items (ts : list tok) : Z :=
  Z.of_nat (length (filter (fun t => match t with TBytes _ => true | _ => false end) ts)).

Definition exchanges (c : case) : Z :=
  match c_call c with
  | CGetBlob _ _ _ | CGetBlobRange _ _ _ _ _ | CGetManifest _ _ _ | CGetTag _ _ _ => 2
  | CPushBlob _ _ _ _ _ => 2
  | CPushBlobChunked _ _ ops | CPushBlobChunkedResume _ _ _ _ ops => 1 + Z.of_nat (length ops)
  | CRepositories _ _ | CTags _ _ _ =>
      1 + count_items (o_toks (c_obs c)) / effective_page (c_page c)
  | _ => 1
  end.

Definition caller_ops (c : case) : nat :=
  match c_call c with
  | CPushBlobChunked _ _ ops | CPushBlobChunkedResume _ _ _ _ ops => S (length ops)
  | _ => 1
  end.

Fixpoint reads_ok (sc : list sresp) (reads : list Z) : bool :=
  match reads with
  | [] => true
  | n :: reads' =>
      match sc with
      | [] => (n =? 0) && reads_ok [] reads'
      | sr :: sc' =>
          (match sr_resp sr with
           | Some r => is_ok_status (rs_status r) || (n <=? 8193)
           | None => n =? 0
           end) && reads_ok sc' reads'
      end
  end.

(* the caller reads the blob with a buffer that is not empty (a loop over Read with an empty
   buffer never ends, whatever the reader) *)
Definition call_wf (cl : call) : bool :=
  match cl with
  | CGetBlob _ _ k | CGetBlobRange _ _ _ _ k | CGetManifest _ _ k | CGetTag _ _ k => (1 <=? k)%nat
  | _ => true
  end.

Definition obs_ok (c : case) : bool :=
  let o := c_obs c in
  negb (call_wf (c_call c))
  || (negb (existsb tok_bad (o_toks o))
      && (length (o_reqs o) <=? length (c_script c) + caller_ops c)%nat
      && (Z.of_nat (length (o_reqs o)) <=? 10 * exchanges c)
      && (length (o_reads o) =? length (o_reqs o))%nat
      && reads_ok (c_script c) (o_reads o)).

(* a case is non-trivial when the server misbehaves somewhere: an answer that is a transport
   failure, not the 2xx the method wants, a redirect, a failing body, or a header in a form the
   method has to refuse; or when the operation needs more than one exchange *)
Definition nontrivial (c : case) : bool :=
  existsb (fun sr => match sr_resp sr with
                     | None => true
                     | Some r => negb (is_ok_status (rs_status r)) || b_fail (rs_body r)
                                 || (rs_clen r <? 0)
                     end) (c_script c)
  || (1 <? length (o_reqs (c_obs c)))%nat
  || existsb (fun t => match t with TErr _ _ => true | _ => false end) (o_toks (c_obs c)).

(* ---------------------------------------------------------------- soundness of the check *)

Lemma env_of_ok c : env_ok (env_of c).
Proof.
  split; [split|].
  - intros d H. cbn in H. apply andb_true_iff in H as [_ H]. unfold usable_b in H. unfold usable.
    destruct (cut_byte 58%N d) as [[a r]|]; [|discriminate]. exists a, r. split; [reflexivity|exact H].
  - reflexivity.
  - intros q H Hk. cbn in H. apply andb_true_iff in H as [_ H]. unfold construct_sane_b in H. rewrite Hk in H.
    destruct (q_digest q); [discriminate|congruence].
Qed.

Lemma reqobs_eqb_eq a b : reqobs_eqb a b = true -> a = b.
Proof.
  destruct a as [[m h] l], b as [[m' h'] l']. cbn. intros H.
  apply andb_true_iff in H as [H H3]. apply andb_true_iff in H as [H1 H2].
  apply meth_eqb_eq in H1. apply beqb_eq in H2. apply Z.eqb_eq in H3. now subst.
Qed.

Lemma list_eqb_imp {A} (f : A -> A -> bool) (Hf : forall a b, f a b = true -> a = b) l1 l2 :
  list_eqb f l1 l2 = true -> l1 = l2.
Proof.
  revert l2; induction l1 as [|x l1 IH]; intros [|y l2]; cbn; try discriminate; auto.
  intros H. apply andb_true_iff in H as [H1 H2]. apply Hf in H1. apply IH in H2. now subst.
Qed.

Lemma classify_not_bad e : tok_bad (classify e) = false.
Proof. reflexivity. Qed.

Lemma r_toks_bad {A} (f : A -> list tok) (r : R gerr A) :
  (forall a, r = Ok a -> existsb tok_bad (f a) = false) ->
  is_panic r = false -> r <> OutOfFuel -> existsb tok_bad (r_toks f r) = false.
Proof. destruct r; cbn; intros Hf Hp Hn; auto; congruence. Qed.

Lemma wres_toks_bad r : wres_panics r = false -> wres_out_of_fuel r = false -> existsb tok_bad (wres_toks r) = false.
Proof. destruct r as [[| | |]|[| | |]]; cbn; congruence. Qed.

Lemma outcome_toks_clean o :
  outcome_panics o = false -> outcome_out_of_fuel o = false -> existsb tok_bad (outcome_toks o) = false.
Proof.
  destruct o as [r|r|r|ys e|ys e|r]; cbn [outcome_panics outcome_out_of_fuel outcome_toks]; intros Hp Hf.
  - apply r_toks_bad; [intros; reflexivity | exact Hp | destruct r; congruence].
  - apply r_toks_bad; [|exact Hp | destruct r; congruence]. intros [[d data] e] _. cbn. destruct e; reflexivity.
  - apply r_toks_bad; [intros; reflexivity | exact Hp | destruct r; congruence].
  - rewrite existsb_app. apply orb_false_iff. split.
    + induction ys as [|[b|er] ys IH]; cbn; auto.
    + destruct e; cbn in *; congruence.
  - rewrite existsb_app. apply orb_false_iff. split.
    + induction ys as [|[b|er] ys IH]; cbn; auto.
    + destruct e; cbn in *; congruence.
  - destruct r as [[[rs a] b]|er| |]; cbn; try congruence; try reflexivity.
    rewrite existsb_app. apply orb_false_iff. split; [|reflexivity].
    induction rs as [|r rs IH]; cbn in *; [reflexivity|].
    apply orb_false_iff in Hp as [Hp1 Hp2]. apply orb_false_iff in Hf as [Hf1 Hf2].
    rewrite existsb_app. apply orb_false_iff. split; [now apply wres_toks_bad | now apply IH].
Qed.

Lemma count_items_names ys e : count_items (outcome_toks (ONames ys e)) = cnt ys.
Proof.
  unfold count_items, cnt. cbn [outcome_toks]. rewrite filter_app, app_length.
  replace (length (filter _ [pend_tok e])) with 0%nat by (destruct e; reflexivity).
  rewrite Nat.add_0_r. f_equal.
  induction ys as [|[b|er] ys IH]; cbn; [reflexivity | now rewrite IH | exact IH].
Qed.

Lemma names_yielded_le o : names_yielded o <= count_items (outcome_toks o).
Proof.
  destruct o; cbn [names_yielded]; try (unfold count_items; lia).
  rewrite count_items_names. lia.
Qed.

Lemma reads_ok_of_log sc log :
  log_matches (map sr_resp sc) log -> Forall entry_ok log -> reads_ok sc (map en_read log) = true.
Proof.
  revert sc; induction log as [|e log IH]; intros sc Hm Hf; cbn; [reflexivity|].
  inversion Hf as [|? ? He Hf']; subst. destruct sc as [|sr sc]; cbn in Hm; destruct Hm as [Hs Hm].
  - unfold entry_ok in He. rewrite Hs in He. rewrite He. cbn. apply (IH [] Hm Hf').
  - apply andb_true_iff. split; [|apply IH; auto].
    unfold entry_ok in He. rewrite Hs in He. destruct (sr_resp sr) as [r|]; cbn in He.
    + destruct (is_ok_status (rs_status r)) eqn:E; [reflexivity|]. cbn. apply Z.leb_le. auto.
    + apply Z.eqb_eq. exact He.
Qed.

Lemma page_size_effective p : c_page_size (new_client current p) = effective_page p.
Proof. reflexivity. Qed.

Lemma call_wf_bufsz cl : call_wf cl = true -> bufsz_ok cl.
Proof. destruct cl; cbn [call_wf bufsz_ok]; auto; intros H; now apply Nat.leb_le in H. Qed.

Lemma corr_sound c : model_agrees c = true -> obs_ok c = true.
Proof.
  unfold model_agrees, obs_ok, model_run. intros H.
  destruct (call_wf (c_call c)) eqn:Hwf; [cbn [negb orb]|reflexivity].
  pose proof (script_run (script_of c) (env_of c) (c_page c) (env_of_ok c) (fuel_of c) (c_call c)) as S.
  cbv zeta in S.
  destruct (Client.run script script_serve (env_of c) current (new_client current (c_page c)) (fuel_of c)
              (c_call c) (init_world (script_of c))) as [w o].
  cbn [fst snd] in S. destruct S as (Hp & Hfuel & Hreq & (j & Hj0 & Hj1 & Hj2) & Hent & Hlog).
  apply andb_true_iff in H as [H H3]. apply andb_true_iff in H as [H1 H2].
  apply toks_eqb_eq in H1. apply (list_eqb_imp _ reqobs_eqb_eq) in H2.
  apply (list_eqb_imp Z.eqb (fun a b => proj1 (Z.eqb_eq a b))) in H3.
  rewrite <- H1, <- H2, <- H3. rewrite !map_length.
  assert (Hlen : length (script_of c) = length (c_script c)) by (unfold script_of; apply map_length).
  assert (Hnf : outcome_out_of_fuel o = false).
  { apply Hfuel; [unfold fuel_of; lia | now apply call_wf_bufsz]. }
  repeat (apply andb_true_iff; split).
  - rewrite outcome_toks_clean; auto.
  - apply Nat.leb_le. unfold nreq in Hreq. rewrite Hlen in Hreq.
    replace (caller_ops c) with (caller_ops_of (c_call c)) by (unfold caller_ops; destruct (c_call c); reflexivity).
    exact Hreq.
  - apply Z.leb_le. unfold nreq in Hj1.
    destruct (is_paged (c_call c)) eqn:Hpg.
    + rewrite page_size_effective in Hj2.
      assert (Hpos : 0 < effective_page (c_page c)) by (unfold effective_page; destruct (c_page c <=? 0) eqn:E; [lia|apply Z.leb_gt in E; lia]).
      assert (Hex : exchanges c = 1 + count_items (outcome_toks o) / effective_page (c_page c)).
      { unfold exchanges. rewrite <- H1. destruct (c_call c); cbn in Hpg; try discriminate; reflexivity. }
      pose proof (names_yielded_le o) as Hny.
      rewrite Hex.
      assert (j - 1 <= count_items (outcome_toks o) / effective_page (c_page c)).
      { apply Z.div_le_lower_bound; lia. }
      lia.
    + assert (Hex : Z.of_nat (exchanges_of (c_call c)) <= exchanges c).
      { unfold exchanges. destruct (c_call c); cbn [is_paged exchanges_of] in *; try discriminate; lia. }
      lia.
  - apply Nat.eqb_eq. reflexivity.
  - apply reads_ok_of_log; auto.
Qed.

Definition mismatches (cs : list case) : list (N * bool) :=
  bad_from 0 (fun c => if model_agrees c then None else Some (obs_ok c)) cs.
Definition bad_obs (cs : list case) : list (N * bool) :=
  bad_from 0 (fun c => if obs_ok c then None else Some (model_agrees c)) cs.
