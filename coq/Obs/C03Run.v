(* C03: the composed model (Model/Stack.v = Model/Client.v o wire o Model/Server.v, run by
   Obs/StackRun.v) evaluated on a history of a C03 case, in the form Obs/C03.v compares with
   what the real ociclient -> ociserver [-> ociclient -> ociserver] stack did:

     per operation   the answer of the composed model (with the HTTP status of the error as its tag)
                     and the calls the registry behind the last server received, as [bcall]s;
     at the end      the state of the registry behind (Model/Mem.v).

   The registry behind is the ocimem model wrapped in [rec_backend], which logs every call it
   receives (for one hop this is the [sv_tr] trace of [serve_stack] without the results; for two
   hops [sv_tr] of the inner stack is started afresh by every call of the outer server, so the
   log is kept next to the registry instead).

   A history names upload SESSIONS (the writer index of the registry called directly, where a
   resumed upload is the same writer again, and the canonical upload id "#k").  On the stack
   side every PushBlobChunked / PushBlobChunkedResume makes a new client-side writer: [sess]
   keeps, per session, the ID the client-side writer reports (the upload location) and the
   latest handle, exactly as harness/cmd/c03/run.go does ([cur], [sessionOf]).

   ocidebug is not modelled: it is specified to forward every call untouched, so a stack with
   ocidebug (on top of the client, or between the last server and the registry) is run as the
   same stack without it; a debug wrapper that changed anything would show as a disagreement. *)
From Coq Require Import String.
From OCI Require Import Model.Transparent.
From OCI Require Import Obs.StackRun.

(* ---------------------------------------------------------------- configuration *)

Definition opts_of (so : sopts) : opts :=
  mkopts false (so_no_single_post so) (so_max_page so) (so_omit_digest so) (so_omit_link so) None.

(* pages of one listing: more than any history of the harness needs *)
Definition list_fuel : nat := 400.

Definition ccfg_of (page : Z) (bufsz : nat) : ccfg := mkccfg page bufsz list_fuel.

(* ---------------------------------------------------------------- the registry behind, with its log *)

Definition mlog := list (op * bres).     (* newest first *)

Definition rec_backend {St} (b : backend St) : backend (St * mlog)%type :=
  fun st c => let '(s', r) := b (fst st) c in ((s', (c, r) :: snd st), r).

Definition behind (o : oracles) : backend (state * mlog)%type :=
  rec_backend (backend_of_registry (mem_step o false)).

Definition hop1 (o : oracles) (more : list (bytes * bytes * bytes)) (sv : opts) (cc : ccfg)
  : registry (sstate (state * mlog)%type) :=
  stack_step (soracles_of o more) sv cc (behind o).

(* The iterators of Repositories / Tags are lazy: ociclient's pager sends a request when its
   consumer asks for an item beyond the pages it has.  [stack_backend] (Model/Stack.v) drains the
   iterator, which is what a caller of the stack does; an ociserver in front of the client does
   not (lister.go nextListResults): it pulls n+1 items for a request with n > 0 and stops, and
   pulls nothing at all when it refuses the request because of MaxListPageSize.  So the inner
   hop of a two-hop stack is [stack_backend] with the listing calls consumed as the server in
   front consumes them:  None = never started, Some b = the budget of Model/Client.v's
   [yield_items] (Some n: the (n+1)-th yield returns false). *)
Definition lazy_backend (so : soracles) (o : opts) (cc : ccfg) (cons : option (option nat))
           {St} (bstep : backend St) : backend (sstate St) :=
  let serve := serve_stack (so_linked so) (so_hash so) (so_subject so) enc0 redirect0 bstep o in
  let env := stack_env (so_linked so) (so_hash so) media0 dec_errors0 dec_names0 dec_index0 in
  let finish (st : sstate St) (w : world (srv St)) (x : list (bytes + gerr) * pend) : sstate St * bres :=
    let st' := with_srv St st w in
    if sv_outside (st_srv st')
    then (mksstate (clear_outside St (st_srv st')) (st_writers st'), OutOfFuel)
    else (st', names_res x) in
  fun st c =>
    match c, cons with
    | (Repositories _ | Tags _ _), None => (st, Ok (VList [] None))
    | Repositories start_, Some budget =>
        let '(w, x) := repositories (srv St) serve env (stack_client cc) (cc_fuel cc) start_ budget (start St st) in
        finish st w x
    | Tags r start_, Some budget =>
        let '(w, x) := tags (srv St) serve env (stack_client cc) (cc_fuel cc) r start_ budget (start St st) in
        finish st w x
    | _, _ => stack_backend so o cc bstep st c
    end.

(* how ociserver with options [sv] consumes a listing iterator for a client that asks for pages of [page] *)
Definition consumption (sv : sopts) (page : Z) : option (option nat) :=
  if hop_refuses sv page then None else Some (Some (Z.to_nat (page_eff page))).

(* caller -> client cc_out -> server sv_out -> client cc_in -> server sv_in -> registry *)
Definition hop2 (o : oracles) (more : list (bytes * bytes * bytes)) (sv_out sv_in : opts) (cc_out cc_in : ccfg)
           (cons : option (option nat))
  : registry (sstate (sstate (state * mlog)%type)) :=
  stack_step (soracles_of o more) sv_out cc_out
             (lazy_backend (soracles_of o more) sv_in cc_in cons (behind o)).

(* A pass over a listing iterator that the caller stops: its yield function returns false at the
   k-th call (k >= 1).  The caller's client is [lazy_backend] with that budget - the same pager,
   consumed as far as the caller consumes it. *)
Definition stop_budget (k : nat) : option (option nat) := Some (Some (Nat.pred k)).

Definition hop1_stop (o : oracles) (more : list (bytes * bytes * bytes)) (sv : opts) (cc : ccfg) (k : nat)
  : registry (sstate (state * mlog)%type) :=
  registry_of_backend (lazy_backend (soracles_of o more) sv cc (stop_budget k) (behind o)).

Definition hop2_stop (o : oracles) (more : list (bytes * bytes * bytes)) (sv_out sv_in : opts) (cc_out cc_in : ccfg)
           (cons : option (option nat)) (k : nat)
  : registry (sstate (sstate (state * mlog)%type)) :=
  registry_of_backend (lazy_backend (soracles_of o more) sv_out cc_out (stop_budget k)
                                    (lazy_backend (soracles_of o more) sv_in cc_in cons (behind o))).

Definition back1 (st : sstate (state * mlog)%type) : state * mlog := sv_b (st_srv st).
Definition back2 (st : sstate (sstate (state * mlog)%type)) : state * mlog := sv_b (st_srv (sv_b (st_srv st))).

(* ---------------------------------------------------------------- calls as the recorder sees them *)

Definition buf_id (m : state) (w : wid) : bytes :=
  match nth_error (bufs m) (N.to_nat w) with Some b => u_id b | None => [] end.

(* harness/cmd/c03/rec.go: the 18 methods with their arguments, Write / Close / Commit / Cancel of
   the writers by upload id; Size, ChunkSize and ID are accessors and are not recorded *)
Definition bcall_of (m : state) (c : op * bres) : list bcall :=
  match fst c with
  | WWrite w d => [BWrite (buf_id m w) d]
  | WClose w => [BClose (buf_id m w)]
  | WCommit w d => [BCommit (buf_id m w) d]
  | WCancel w => [BCancel (buf_id m w)]
  | WSize _ | WChunkSize _ | WID _ => []
  | o => [BOp o]
  end.

(* ---------------------------------------------------------------- the runner *)

Record sess := mksess { ss_id : bytes; ss_cur : wid }.

Definition no_handle : wid := 4294967295%N.

Fixpoint find_sess (p : N -> sess -> bool) (k : N) (ss : list sess) : option (N * sess) :=
  match ss with
  | [] => None
  | x :: r => if p k x then Some (k, x) else find_sess p (N.succ k) r
  end.

Definition handle_of (ss : list sess) (w : wid) : wid :=
  match nth_error ss (N.to_nat w) with Some x => ss_cur x | None => no_handle end.

Fixpoint set_sess (i : nat) (a : sess) (l : list sess) : list sess :=
  match l, i with
  | [], _ => []
  | _ :: r, O => a :: r
  | b :: r, S i' => b :: set_sess i' a r
  end.

(* the operation as the harness applies it to the stack: the canonical upload id "#k" stands for
   the ID of session k's writer, a writer operation goes to the latest writer of its session *)
Definition xlate_op (ss : list sess) (o : op) : op :=
  match o with
  | PushBlobChunkedResume r id off hint =>
      PushBlobChunkedResume r (match find_sess (fun k _ => beqb id (fresh_id k)) 0%N ss with
                               | Some (_, x) => ss_id x
                               | None => id
                               end) off hint
  | WWrite w d => WWrite (handle_of ss w) d
  | WClose w => WClose (handle_of ss w)
  | WSize w => WSize (handle_of ss w)
  | WChunkSize w => WChunkSize (handle_of ss w)
  | WID w => WID (handle_of ss w)
  | WCommit w d => WCommit (handle_of ss w) d
  | WCancel w => WCancel (handle_of ss w)
  | _ => o
  end.

(* what a consumer that stops at its k-th yield has seen of an iterator that would yield [l] and
   then maybe an error *)
Definition cut_list {A} (k : nat) (l : list A) (e : option err) : list A * option err :=
  if (k <=? length l)%nat then (firstn k l, None) else (l, e).

Definition cut_result (k : nat) (r : result) : result :=
  match r with
  | Ok (RList l e) => let '(l', e') := cut_list k l e in Ok (RList l' e')
  | Ok (RDescs l e) => let '(l', e') := cut_list k l e in Ok (RDescs l' e')
  | _ => r
  end.

Section Run.
  Variable St : Type.
  Variable step : registry St.
  Variable stop : nat -> registry St.      (* [step] for a listing the caller stops at its k-th yield *)
  Variable back : St -> state * mlog.

  Definition id_of_handle (st : St) (h : wid) : bytes :=
    match snd (step st (WID h)) with Ok (RStr i) => i | _ => [] end.

  (* the answer as the harness reports it: a writer is reported by its session, an ID in
     canonical form *)
  Definition xlate_res (st' : St) (ss : list sess) (o : op) (r : result) : list sess * result :=
    match o, r with
    | (PushBlobChunked _ _ | PushBlobChunkedResume _ _ _ _), Ok (RWriter h) =>
        let id := id_of_handle st' h in
        match find_sess (fun _ x => beqb (ss_id x) id) 0%N ss with
        | Some (k, _) => (set_sess (N.to_nat k) (mksess id h) ss, Ok (RWriter k))
        | None => (ss ++ [mksess id h], Ok (RWriter (N.of_nat (length ss))))
        end
    | WID _, Ok (RStr id) =>
        (ss, Ok (RStr (match find_sess (fun _ x => beqb (ss_id x) id) 0%N ss with
                       | Some (k, _) => fresh_id k
                       | None => id
                       end)))
    | _, _ => (ss, r)
    end.

  (* one call with the calls the registry behind received for it *)
  Definition traced (f : registry St) (st : St) (o : op) : St * result * list bcall :=
    let n0 := length (snd (back st)) in
    let '(st', r) := f st o in
    let '(m', lg) := back st' in
    (st', r, flat_map (bcall_of m') (rev (firstn (length lg - n0) lg))).

  (* the passes the caller stopped early, made over the iterator of a Repositories / Tags call
     before the complete pass: ociclient's pager sends its requests while it is iterated, every
     pass starts from the caller's start point *)
  Fixpoint pre_passes (st : St) (o : op) (ks : list nat) : St * list (result * list bcall) :=
    match ks with
    | [] => (st, [])
    | k :: ks' =>
        let '(st1, r, tr) := traced (stop k) st o in
        let '(st2, rest) := pre_passes st1 o ks' in
        (st2, (r, tr) :: rest)
    end.

  (* per operation: the answer, the calls behind, and the same for every stopped pass *)
  Fixpoint srun (st : St) (ss : list sess) (ops : list op) (pres : list (list nat))
    : St * list (result * list bcall * list (result * list bcall)) :=
    match ops with
    | [] => (st, [])
    | o :: ops' =>
        let ks := match pres with k :: _ => k | [] => [] end in
        let '(st0, pp) := match o with
                          | Repositories _ | Tags _ _ => pre_passes st o ks
                          | _ => (st, [])
                          end in
        let '(st', r, calls) := traced step st0 (xlate_op ss o) in
        let '(ss', r') := xlate_res st' ss o r in
        (* client.Referrers sends its request when it is called and returns a slice iterator:
           a stopped pass sees the beginning of the slice, the registry behind sees nothing more *)
        let pp' := match o with
                   | Referrers _ _ _ => map (fun k => (cut_result k r', [])) ks
                   | _ => pp
                   end in
        let '(stf, rest) := srun st' ss' ops' (tl pres) in
        (stf, (r', calls, pp') :: rest)
    end.
End Run.

Arguments srun {St}.

(* what the composed model says about a history: per operation the answer and the calls the
   registry behind received; the registry behind at the end *)
Definition stack_run (cfg : scfg) (orc : oracles) (more : list (bytes * bytes * bytes)) (bufsz : nat)
           (ops : list op) (pres : list (list nat))
  : state * list (result * list bcall * list (result * list bcall)) :=
  if two_hops cfg then
    let '(st, l) := srun (hop2 orc more (opts_of (k_opts1 cfg)) (opts_of (k_opts2 cfg))
                               (ccfg_of (k_page cfg) bufsz) (ccfg_of (k_page2 cfg) bufsz)
                               (consumption (k_opts1 cfg) (k_page cfg)))
                         (hop2_stop orc more (opts_of (k_opts1 cfg)) (opts_of (k_opts2 cfg))
                                    (ccfg_of (k_page cfg) bufsz) (ccfg_of (k_page2 cfg) bufsz)
                                    (consumption (k_opts1 cfg) (k_page cfg)))
                         back2 (sstate0 (sstate0 (Mem.init, []))) [] ops pres in
    (fst (back2 st), l)
  else
    let '(st, l) := srun (hop1 orc more (opts_of (k_opts1 cfg)) (ccfg_of (k_page cfg) bufsz))
                         (hop1_stop orc more (opts_of (k_opts1 cfg)) (ccfg_of (k_page cfg) bufsz))
                         back1 (sstate0 (Mem.init, [])) [] ops pres in
    (fst (back1 st), l).

(* ---------------------------------------------------------------- comparison with the observation *)

(* the harness prints descriptors without artifactType *)
Definition desc_eqb_na (a b : desc) : bool :=
  beqb (d_media a) (d_media b) && beqb (d_digest a) (d_digest b) && Z.eqb (d_size a) (d_size b).

Definition res_eqb_na (a b : res) : bool :=
  match a, b with
  | RDesc x, RDesc y => desc_eqb_na x y
  | RRead x dx, RRead y dy => desc_eqb_na x y && beqb dx dy
  | _, _ => res_eqb a b
  end.

(* the status of the HTTPError errors.As finds in the error (0 = none) against the tag of the
   model's error *)
Definition status_tag (st : Z) : bytes := if (st =? 0)%Z then [] else dec_Z st.

Definition err_agrees (c : ecode) (st : Z) (e : err) : bool :=
  ecode_eqb c (e_code e) && beqb (status_tag st) (e_tag e).

Definition opt_err_agrees (c : option ecode) (st : Z) (e : option err) : bool :=
  match c, e with
  | None, None => true
  | Some c, Some e => err_agrees c st e
  | _, _ => false
  end.

Definition via_agrees (v : oresult) (st : Z) (m : result) : bool :=
  match v, m with
  | OOk r, Ok r' => res_eqb_na r r'
  | OList l e, Ok (RList l' e') => list_eqb beqb l l' && opt_err_agrees e st e'
  | MemObs.ODescs l e, Ok (RDescs l' e') => list_eqb desc_eqb_na l l' && opt_err_agrees e st e'
  | OErr c, Err e => err_agrees c st e
  | OPanic, Panic => true
  | _, _ => false
  end.

(* exact equality of calls, hints included *)
Definition op_eqb_exact (a b : op) : bool :=
  match a, b with
  | PushBlobChunked r h, PushBlobChunked r' h' => beqb r r' && (h =? h')%Z
  | PushBlobChunkedResume r i off h, PushBlobChunkedResume r' i' off' h' =>
      beqb r r' && beqb i i' && (off =? off')%Z && (h =? h')%Z
  | PushBlob r de c, PushBlob r' de' c' => beqb r r' && desc_eqb_na de de' && beqb c c'
  | _, _ => op_eqb_nohint a b
  end.

Definition bcall_eqb_exact (a b : bcall) : bool :=
  match a, b with
  | BOp x, BOp y => op_eqb_exact x y
  | _, _ => bcall_eqb a b
  end.

(* consecutive Writes to one upload are one Write of the concatenation (io.Copy cuts the body
   where the network did, the model writes it at once), an empty Write is no Write: [norm_trace] *)
Definition strace_eqb (obs model : list bcall) : bool :=
  list_eqb bcall_eqb_exact (norm_trace obs) (norm_trace model).

(* the registry behind at the end, read as the harness reads instance B *)
Definition final_agrees (orc : oracles) (m : state) (snap : list (op * oresult * oresult)) : bool :=
  agrees_all (map (fun e => snd e) snap)
             (snd (run (mem_step orc false) m (map (fun e => fst (fst e)) snap))).

(* a pass over the iterator of a listing call that the caller stopped at its k-th yield, made
   before the complete pass the operation records: what it yielded on both sides, the status of
   the error the stack's iterator yielded (0 = none), the calls the recording backend received *)
Record prepass := { pp_k : nat; pp_direct : oresult; pp_via : oresult; pp_vstat : Z; pp_trace : list bcall }.

Fixpoint pres_agree (ps : list prepass) (ms : list (result * list bcall)) : bool :=
  match ps, ms with
  | [], [] => true
  | p :: ps', m :: ms' =>
      via_agrees (pp_via p) (pp_vstat p) (fst m) && strace_eqb (pp_trace p) (snd m) && pres_agree ps' ms'
  | _, _ => false
  end.

(* per operation: covered?, observed answer, status, observed trace, stopped passes, model *)
Fixpoint steps_agree (cov : list bool) (vs : list oresult) (sts : list Z) (trs : list (list bcall))
         (pres : list (list prepass)) (ms : list (result * list bcall * list (result * list bcall))) : bool :=
  match cov, vs, sts, trs, pres, ms with
  | [], [], [], [], [], [] => true
  | c :: cov', v :: vs', st :: sts', tr :: trs', ps :: pres', m :: ms' =>
      (negb c || (via_agrees v st (fst (fst m)) && strace_eqb tr (snd (fst m)) && pres_agree ps (snd m)))
      && steps_agree cov' vs' sts' trs' pres' ms'
  | _, _, _, _, _, _ => false
  end.

(* diagnostics: index, answer agrees, trace agrees, stopped passes agree *)
Fixpoint steps_bad (i : N) (cov : list bool) (vs : list oresult) (sts : list Z) (trs : list (list bcall))
         (pres : list (list prepass)) (ms : list (result * list bcall * list (result * list bcall)))
  : list (N * bool * bool * bool) :=
  match cov, vs, sts, trs, pres, ms with
  | c :: cov', v :: vs', st :: sts', tr :: trs', ps :: pres', m :: ms' =>
      let a := via_agrees v st (fst (fst m)) in
      let b := strace_eqb tr (snd (fst m)) in
      let p := pres_agree ps (snd m) in
      (if c && negb (a && b && p) then [(i, a, b, p)] else []) ++ steps_bad (N.succ i) cov' vs' sts' trs' pres' ms'
  | [], [], [], [], [], [] => []
  | _, _, _, _, _, _ => [(i, false, false, false)]
  end.
