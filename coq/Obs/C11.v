(* Correspondence for C11: conversations between the real ociauth transport and a scripted
   fake network (every message that reached the network, every body close, every result)
   versus the model (Model/Auth.v, Model/Challenge.v) and versus the property's specification
   (Model/AuthSpec.v, clauses P1..P5), plus the challenge parser called directly. *)
From Coq Require Import String ZArith.
From OCI Require Export Base.Outcome Obs.AuthObs.
From OCI Require Import Proofs.Challenge Proofs.AuthC11 Proofs.AuthBody Proofs.AuthParse Proofs.AuthRedirect.

Definition model_agrees (c : case) : bool := AuthObs.model_agrees c.

(* the specification, evaluated on what was observed (no reference to the model's run) *)
Definition obs_ok (c : case) : bool :=
  match c with
  | CRun r =>
      let E := env_of r in
      let h := rev (c_trace r) in
      all_ok (evP1 E) h && all_ok (evP2 E) h && all_ok (evP3 E) h && all_ok evP4 h && all_ok evP5 h && c_untouched r
      (* every chain of requests by which http.Client followed a token server's redirects *)
      && forallb (fun ic => evP6 (snd ic)) (c_hops r)
  (* the parser called directly: it does not panic, and it hands out scheme and parameter names
     in lower case whatever the header's spelling (they are case-insensitive, and the transport
     looks up realm / service / scope in lower case) *)
  | CParse _ panicked o => negb panicked && parsed_lower o
  end.

Definition carries_secret (e : event) : bool :=
  match e with
  | ESend _ (MReg _ a) _ | ESend _ (MGet _ _ a) _ => match a with ANone => false | _ => true end
  | ESend _ (MPost _ _ _) _ => true
  | _ => false
  end.

Definition in_bytes (c : N) (a : bytes) : bool := existsb (N.eqb c) a.

(* a conversation exercises the property when a secret travelled or a call ended in an error /
   a rewritten response; a header exercises the parser when it has a quoted string or an escape *)
Definition nontrivial (c : case) : bool :=
  match c with
  | CRun r =>
      existsb carries_secret (c_trace r)
      || existsb (fun e => match e with EReturn _ (RetErr _) | EReturn _ (RetResp _ true) => true | _ => false end) (c_trace r)
  | CParse hdr _ _ => in_bytes 34 hdr || in_bytes 92 hdr || in_bytes 61 hdr
  end.

Lemma list_eqb_refl {A} (f : A -> A -> bool) : (forall a, f a a = true) -> forall l, list_eqb f l l = true.
Proof. intros Hf. induction l as [|a l IH]; cbn; [reflexivity|]. now rewrite Hf, IH. Qed.

Lemma authz_eqb_refl a : authz_eqb a a = true.
Proof. destruct a; cbn; rewrite ?beqb_refl; reflexivity. Qed.

Lemma pair_eqb_refl a : pair_eqb a a = true.
Proof. unfold pair_eqb. now rewrite !beqb_refl. Qed.

(* a chain that agrees with the model of http.Client (under doTokenRequest's redirect hook) satisfies P6 *)
Lemma chain_P6 m rsp chain :
  is_tok_msg m = true -> chain_agrees m rsp chain = true -> evP6 chain = true.
Proof.
  intros Hm H. apply chain_agrees_sent in H as [h0 [rest [sent [-> [Hm0 [Hd Hrev]]]]]].
  apply client_do_facts in Hd as [Hlen [Hconf [Hform _]]]; [|exact Hm].
  assert (Hin : forall h, In h rest -> In (wire_of h) sent).
  { intros h Hh. apply in_rev. rewrite Hrev. cbn [map]. right. now apply in_map. }
  assert (Hl : List.length (h0 :: rest) = List.length sent).
  { rewrite <- (map_length wire_of), <- Hrev. apply rev_length. }
  unfold evP6. rewrite Hl. replace (List.length sent <=? 10)%nat with true by (symmetry; apply Nat.leb_le; lia).
  rewrite andb_true_r. rewrite Forall_forall in Hconf, Hform.
  apply forallb_forall. intros h Hh. specialize (Hconf _ (Hin h Hh)). specialize (Hform _ (Hin h Hh)).
  apply andb_true_iff. split.
  - unfold conf, wire_of, w_msg, w_host in Hconf. cbn [fst snd] in Hconf.
    unfold p6a_hop. destruct Hconf as [->|[-> Hd]]; [reflexivity|].
    rewrite Hm0, authz_eqb_refl, (dom_or_sub_in_site _ _ Hd). apply orb_true_r.
  - unfold form_ok, wire_of, w_msg, w_hostport in Hform. cbn [fst snd] in Hform.
    unfold p6b_hop. destruct (hp_msg h) as [hh a|u f a|u q a]; [contradiction| |reflexivity].
    destruct Hform as [_ ->]. rewrite beqb_refl. apply orb_true_r.
Qed.

Lemma hops_P6 r : hops_agree r = true -> forallb (fun ic => evP6 (snd ic)) (c_hops r) = true.
Proof.
  unfold hops_agree. induction (c_hops r) as [|[i chain] l IH]; [reflexivity|]. cbn [forallb fst snd].
  intros H. apply andb_true_iff in H as [H1 H2]. rewrite (IH H2), andb_true_r.
  destruct (nth_error (c_trace r) i) as [[| |id m rsp| | | |]|]; try discriminate.
  apply andb_true_iff in H1 as [Hm Hc]. exact (chain_P6 _ _ _ Hm Hc).
Qed.

Lemma corr_sound c : model_agrees c = true -> obs_ok c = true.
Proof.
  unfold model_agrees, AuthObs.model_agrees, obs_ok. destruct c as [r|hdr pk o].
  - intros H. apply andb_true_iff in H as [H Hh6]. apply run_agrees_history in H as [Hh Hu]. cbn zeta. rewrite Hh, Hu.
    rewrite P1_holds, P2_holds, P3_holds, P4_holds, P5_holds. cbn [andb].
    exact (hops_P6 r Hh6).
  - unfold parse_agrees. destruct (parse_total hdr) as [res Hres]. rewrite Hres. destruct res as [h|].
    + intros H. apply andb_true_iff in H as [H1 H2]. rewrite H1. cbn [andb].
      destruct o as [[sch ps]|]; [|discriminate]. apply andb_true_iff in H2 as [Hs Hp].
      unfold params_agree in Hp. apply andb_true_iff in Hp as [_ Hp]. eapply agree_parsed_lower; eauto.
    + intros H. apply andb_true_iff in H as [H1 H2]. rewrite H1. destruct o; [discriminate | reflexivity].
Qed.

Definition mismatches (cs : list case) : list (N * bool) := mismatches_of model_agrees obs_ok cs.
Definition bad_obs (cs : list case) : list (N * bool) := bad_obs_of model_agrees obs_ok cs.
