(* Correspondence for C11: conversations between the real ociauth transport and a scripted
   fake network (every message that reached the network, every body close, every result)
   versus the model (Model/Auth.v, Model/Challenge.v) and versus the property's specification
   (Model/AuthSpec.v, clauses P1..P5), plus the challenge parser called directly. *)
From Coq Require Import String ZArith.
From OCI Require Export Base.Outcome Obs.AuthObs.
From OCI Require Import Proofs.Challenge Proofs.AuthC11 Proofs.AuthBody Proofs.AuthParse.

Definition model_agrees (c : case) : bool := AuthObs.model_agrees c.

(* the specification, evaluated on what was observed (no reference to the model's run) *)
Definition obs_ok (c : case) : bool :=
  match c with
  | CRun r =>
      let E := env_of r in
      let h := rev (c_trace r) in
      all_ok (evP1 E) h && all_ok (evP2 E) h && all_ok (evP3 E) h && all_ok evP4 h && all_ok evP5 h && c_untouched r
  (* the parser called directly: it does not panic, and it hands out scheme and parameter names
     in lower case whatever the header's spelling (they are case-insensitive, and the transport
     looks up realm / service / scope in lower case) *)
  | CParse _ panicked o => negb panicked && parsed_lower o
  end.

Definition carries_secret (e : event) : bool :=
  match e with
  | ESend _ (MReg _ a) _ | ESend _ (MGet _ _ a) _ => match a with ANone => false | _ => true end
  | ESend _ (MPost _ _ _) _ => true
  | _ => false
  end.

Definition in_bytes (c : N) (a : bytes) : bool := existsb (N.eqb c) a.

(* a conversation exercises the property when a secret travelled or a call ended in an error /
   a rewritten response; a header exercises the parser when it has a quoted string or an escape *)
Definition nontrivial (c : case) : bool :=
  match c with
  | CRun r =>
      existsb carries_secret (c_trace r)
      || existsb (fun e => match e with EReturn _ (RetErr _) | EReturn _ (RetResp _ true) => true | _ => false end) (c_trace r)
  | CParse hdr _ _ => in_bytes 34 hdr || in_bytes 92 hdr || in_bytes 61 hdr
  end.

Lemma corr_sound c : model_agrees c = true -> obs_ok c = true.
Proof.
  unfold model_agrees, AuthObs.model_agrees, obs_ok. destruct c as [r|hdr pk o].
  - intros H. apply run_agrees_history in H as [Hh Hu]. cbn zeta. rewrite Hh, Hu.
    rewrite P1_holds, P2_holds, P3_holds, P4_holds, P5_holds. reflexivity.
  - unfold parse_agrees. destruct (parse_total hdr) as [res Hres]. rewrite Hres. destruct res as [h|].
    + intros H. apply andb_true_iff in H as [H1 H2]. rewrite H1. cbn [andb].
      destruct o as [[sch ps]|]; [|discriminate]. apply andb_true_iff in H2 as [Hs Hp].
      unfold params_agree in Hp. apply andb_true_iff in Hp as [_ Hp]. eapply agree_parsed_lower; eauto.
    + intros H. apply andb_true_iff in H as [H1 H2]. rewrite H1. destruct o; [discriminate | reflexivity].
Qed.

Definition mismatches (cs : list case) : list (N * bool) := mismatches_of model_agrees obs_ok cs.
Definition bad_obs (cs : list case) : list (N * bool) := bad_obs_of model_agrees obs_ok cs.
