(* Correspondence for C02: histories run on *ocimem.Registry versus the implementation
   model (Model/Mem.v, [model_agrees]) and versus the reference registry
   (Model/MemSpec.v, [obs_ok]). *)
From Coq Require Import String.
From OCI Require Export Obs.MemObs Model.MemSpec Model.MemRel Model.NameSpec.
From OCI Require Import Proofs.MemInv Proofs.MemRefine Proofs.MemHistory.

(* Which names are valid is NOT taken from the harness: the implementation model and the
   reference registry are both run with the grammars of the specifications evaluated here, in
   Coq (Model/NameSpec.v: [spec_valid_repo], [spec_valid_tag], [spec_valid_digest]).  A
   validator of the library that refuses a legal name, or takes an illegal one, therefore
   shows as a difference between what the registry did and what both models predict.  The
   tables [o_repos], [o_tags], [o_digests] of [c_orc] (package memsim computes them from its
   own, Go, statement of the same grammars - the other properties that run histories use
   them) are only compared with the grammars, for every string the history mentions
   ([c_cand]: every string the harness asked the question for): [tables_ok].  Hash and JSON
   decoding remain tables computed by the real code. *)
Record cands := { k_repos : list bytes; k_tags : list bytes; k_digests : list bytes }.

Record case := { c_imm : bool; c_orc : oracles; c_cand : cands; c_ops : list op; c_obs : list oresult }.

Definition mem_step_spec (o : oracles) (imm : bool) : registry state :=
  step (orc_hash o) spec_valid_digest spec_valid_repo spec_valid_tag (orc_img o) (orc_idx o) {| immutable_tags := imm |}.

Definition spec_step (o : oracles) (imm : bool) : sstate -> op -> sstate * result :=
  sstep (orc_hash o) spec_valid_digest spec_valid_repo spec_valid_tag (orc_img o) (orc_idx o) {| immutable_tags := imm |}.

(* a table lists exactly the candidates the grammar accepts *)
Definition table_ok (valid : bytes -> bool) (cand tbl : list bytes) : bool :=
  forallb (fun w => Bool.eqb (valid w) (mem_bytes w tbl)) cand && forallb (fun w => mem_bytes w cand) tbl.

Definition tables_ok (c : case) : bool :=
  table_ok spec_valid_repo (k_repos (c_cand c)) (o_repos (c_orc c))
  && table_ok spec_valid_tag (k_tags (c_cand c)) (o_tags (c_orc c))
  && table_ok spec_valid_digest (k_digests (c_cand c)) (o_digests (c_orc c)).

Definition model_results (c : case) : list result := snd (run (mem_step_spec (c_orc c) (c_imm c)) init (c_ops c)).
Definition model_agrees (c : case) : bool := tables_ok c && agrees_all (c_obs c) (model_results c).

(* an observed result as a model-level result (error tag dropped) *)
Definition to_result (o : oresult) : result :=
  match o with
  | OOk r => Ok r
  | OList l e => Ok (RList l (option_map (fun c => E c []) e))
  | ODescs l e => Ok (RDescs l (option_map (fun c => E c []) e))
  | OErr c => Err (E c [])
  | OPanic => Panic
  end.

(* observed result vs. the reference registry's answer: equal on projected observables,
   where the reference registry leaves the code of a rejection unspecified ([ENone]) any
   error is accepted *)
Definition agrees_spec (obs : oresult) (sp : result) : bool :=
  match obs, sp with
  | OErr _, Err e => match e_code e with ENone => true | _ => agrees obs sp end
  | _, _ => agrees obs sp
  end.

Definition ok_vs_spec (l : list event) (o : op) (obs : oresult) (sp : result) : bool :=
  match o, obs, sp with
  | Repositories _, OList lo None, Ok (RList ls None) =>
      ssortedb lo && list_eqb beqb (filter (has_content l) lo) ls
  | _, _, _ =>
      agrees_spec obs sp
      || match op_repo o with
         | Some r => negb (has_content l r) && empty_answer o (to_result obs)
         | None => false
         end
  end.

(* The reference registry gives no prediction from the point where its own reachability
   search runs out of fuel (stored manifests forming a digest cycle, i.e. a hash collision):
   the rest of such a history is not judged. *)
Fixpoint spec_ok (o : oracles) (imm : bool) (st : sstate) (ops : list op) (obs : list oresult) : bool :=
  match ops, obs with
  | [], [] => true
  | op :: ops', ob :: obs' =>
      let '(st', r) := spec_step o imm st op in
      match r with
      | OutOfFuel => true
      | _ => ok_vs_spec (slog st) op ob r && spec_ok o imm st' ops' obs'
      end
  | _, _ => false
  end.

Definition obs_ok (c : case) : bool := spec_ok (c_orc c) (c_imm c) sinit (c_ops c) (c_obs c).

Fixpoint spec_first_bad (i : N) (o : oracles) (imm : bool) (st : sstate) (ops : list op) (obs : list oresult) : option (N * result) :=
  match ops, obs with
  | op :: ops', ob :: obs' =>
      let '(st', r) := spec_step o imm st op in
      match r with
      | OutOfFuel => None
      | _ => if ok_vs_spec (slog st) op ob r then spec_first_bad (N.succ i) o imm st' ops' obs' else Some (i, r)
      end
  | _, _ => None
  end.

(* A history is non-trivial when some read, resolve or listing follows a successful delete,
   a re-tag (a successful tagged push onto an existing tag), a successful mount or a
   rejected push: the situations the existing tests do not reach. *)
Definition is_read (o : op) : bool :=
  match o with
  | GetBlob _ _ | GetBlobRange _ _ _ _ | GetManifest _ _ | GetTag _ _ | ResolveBlob _ _
  | ResolveManifest _ _ | ResolveTag _ _ | Repositories _ | Tags _ _ | Referrers _ _ _ => true
  | _ => false
  end.
Definition obs_ok_result (ob : oresult) : bool := match ob with OOk _ => true | _ => false end.
Definition is_change (o : op) (ob : oresult) : bool :=
  match o with
  | DeleteBlob _ _ | DeleteManifest _ _ | DeleteTag _ _ | MountBlob _ _ _ => obs_ok_result ob
  | PushBlob _ _ _ | WCommit _ _ => negb (obs_ok_result ob)
  | PushManifest _ t _ _ => negb (obs_ok_result ob) || negb (beqb t [])
  | _ => false
  end.
Fixpoint read_after_change (seen : bool) (ops : list op) (obs : list oresult) : bool :=
  match ops, obs with
  | o :: ops', ob :: obs' =>
      (seen && is_read o) || read_after_change (seen || is_change o ob) ops' obs'
  | _, _ => false
  end.
Definition nontrivial (c : case) : bool := read_after_change false (c_ops c) (c_obs c).

(* ---- soundness of the correspondence: what agrees with the implementation model is
   accepted by the reference registry (from the refinement theorem) ---- *)
Lemma res_eqb_eq a b : res_eqb a b = true -> a = b.
Proof.
  destruct a, b; cbn; try discriminate; intros H.
  - apply desc_eqb_eq in H. now subst.
  - apply andb_true_iff in H as [H1 H2]. apply desc_eqb_eq in H1. apply beqb_eq in H2. now subst.
  - apply N.eqb_eq in H. now subst.
  - apply Z.eqb_eq in H. now subst.
  - apply beqb_eq in H. now subst.
  - reflexivity.
Qed.

Lemma res_eqb_same a b : res_eqb a a = true -> res_same a b = res_eqb a b.
Proof. destruct a, b; cbn; try reflexivity; discriminate. Qed.

Lemma opt_code_match (e : option ecode) (e' e'' : option err) :
  option_eqb ecode_eqb e (opt_code e') = true -> opt_code_eqb e' e'' = true ->
  option_eqb ecode_eqb e (opt_code e'') = true.
Proof.
  unfold opt_code_eqb, opt_code. destruct e, e', e''; cbn; try discriminate; auto.
  intros H1 H2. apply ecode_eqb_eq in H1, H2. apply ecode_eqb_eq. congruence.
Qed.

Lemma agrees_match ob r q : agrees ob r = true -> result_match r q = true -> agrees_spec ob q = true.
Proof.
  destruct ob as [x|l e|l e|c|]; destruct r as [x'|e'| |]; cbn [agrees]; try discriminate.
  - intros H. pose proof H as H0. apply res_eqb_eq in H. subst x'.
    destruct q as [y| | |]; cbn [result_match]; try discriminate. intros Hq.
    unfold agrees_spec. cbn [agrees]. now rewrite <- (res_eqb_same x y H0).
  - destruct x' as [ | |l' e'| | | | |]; try discriminate. intros H. apply andb_true_iff in H as [H1 H2].
    destruct q as [[ | |l'' e''| | | | |]| | |]; cbn [result_match res_same]; try discriminate.
    intros Hq. apply andb_true_iff in Hq as [Q1 Q2].
    apply (list_eqb_eq beqb beqb_eq) in H1, Q1. subst.
    unfold agrees_spec. cbn [agrees]. apply andb_true_iff. split.
    + now apply (list_eqb_eq beqb beqb_eq).
    + eapply opt_code_match; eauto.
  - destruct x' as [ | | |l' e'| | | |]; try discriminate. intros H. apply andb_true_iff in H as [H1 H2].
    destruct q as [[ | | |l'' e''| | | |]| | |]; cbn [result_match res_same]; try discriminate.
    intros Hq. apply andb_true_iff in Hq as [Q1 Q2].
    apply (list_eqb_eq desc_eqb desc_eqb_eq) in H1, Q1. subst.
    unfold agrees_spec. cbn [agrees]. apply andb_true_iff. split.
    + now apply (list_eqb_eq desc_eqb desc_eqb_eq).
    + eapply opt_code_match; eauto.
  - intros H. apply ecode_eqb_eq in H. subst c.
    destruct q as [|e''| |]; cbn [result_match]; try discriminate. unfold code_ok, agrees_spec. cbn [agrees].
    destruct (e_code e''); auto.
  - intros _. destruct q; cbn [result_match]; try discriminate. reflexivity.
Qed.

Lemma agrees_empty_answer o ob r : agrees ob r = true -> empty_answer o (to_result ob) = empty_answer o r.
Proof.
  destruct ob as [x|l e|l e|c|]; destruct r as [x'|e'| |]; cbn [agrees]; try discriminate.
  - intros H. apply res_eqb_eq in H. now subst.
  - destruct x' as [ | |l' e'| | | | |]; try discriminate. intros H. apply andb_true_iff in H as [H1 H2].
    apply (list_eqb_eq beqb beqb_eq) in H1. subst l'. cbn [to_result].
    destruct o; try reflexivity. cbn [empty_answer]. destruct l; [|reflexivity].
    unfold opt_code in H2. destruct e, e'; cbn in *; try discriminate; try reflexivity.
    apply ecode_eqb_eq in H2. now subst.
  - destruct x' as [ | | |l' e'| | | |]; try discriminate. intros H. apply andb_true_iff in H as [H1 H2].
    apply (list_eqb_eq desc_eqb desc_eqb_eq) in H1. subst l'. cbn [to_result].
    destruct o; try reflexivity. cbn [empty_answer]. destruct l; [|reflexivity].
    unfold opt_code in H2. destruct e, e'; cbn in *; try discriminate; try reflexivity.
    apply ecode_eqb_eq in H2. now subst.
  - intros H. apply ecode_eqb_eq in H. subst c. cbn [to_result]. destruct o; reflexivity.
  - intros _. destruct o; reflexivity.
Qed.

Lemma ok_default l o ob r q :
  agrees ob r = true -> result_match r q || slack l o r = true ->
  agrees_spec ob q
  || match op_repo o with
     | Some rn => negb (has_content l rn) && empty_answer o (to_result ob)
     | None => false
     end = true.
Proof.
  intros Ha H. apply orb_true_iff in H as [H|H]; apply orb_true_iff.
  - left. eapply agrees_match; eauto.
  - right. unfold slack in H. now rewrite (agrees_empty_answer o ob r Ha).
Qed.

Lemma ok_vs_spec_sound l o ob r q :
  agrees ob r = true -> res_ok l o r q = true -> ok_vs_spec l o ob q = true.
Proof.
  intros Ha H.
  destruct o; try exact (ok_default l _ ob r q Ha H).
  (* Repositories *)
  pose proof Ha as Ha0.
  destruct ob as [x|lo e|lo e|c|]; destruct r as [x'|e'| |]; cbn [agrees] in Ha; try discriminate.
  - destruct x'; try (destruct x; discriminate);
      exact (ok_default l _ (OOk x) (Ok _) q Ha0 H).
  - destruct x' as [ | |l' e'| | | | |]; try discriminate.
    apply andb_true_iff in Ha as [H1 H2].
    apply (list_eqb_eq beqb beqb_eq) in H1. subst l'.
    destruct e' as [e'|]; destruct e as [e|]; try discriminate.
    + exact (ok_default l _ (OList lo (Some e)) (Ok (RList lo (Some e'))) q Ha0 H).
    + destruct q as [[ | |ls [e''|]| | | | |]| | |];
        try exact (ok_default l _ (OList lo None) (Ok (RList lo None)) _ Ha0 H).
      exact H.
  - destruct x'; try discriminate.
    exact (ok_default l _ (ODescs lo e) (Ok (RDescs _ _)) q Ha0 H).
  - exact (ok_default l _ (OErr c) (Err e') q Ha0 H).
  - exact (ok_default l _ OPanic Panic q Ha0 H).
Qed.

Section Sound.
  Variable orc : oracles.
  Variable imm : bool.
  Local Notation mstep := (mem_step_spec orc imm).
  Local Notation sstep' := (spec_step orc imm).
  Local Notation Inv' := (Inv (orc_hash orc) (orc_img orc) (orc_idx orc)).

  Lemma run_cons_snd {St} (step : registry St) s o h :
    snd (run step s (o :: h)) = snd (step s o) :: snd (run step (fst (step s o)) h).
  Proof. cbn. destruct (step s o) as [s1 r]. cbn. destruct (run step s1 h). reflexivity. Qed.

  Lemma agrees_definite ob r : agrees ob r = true -> r <> OutOfFuel.
  Proof. intros H ->. destruct ob; discriminate. Qed.

  Lemma spec_ok_sound ops : forall obs st sp,
    Rel st sp -> Inv' st ->
    agrees_all obs (snd (run mstep st ops)) = true -> spec_ok orc imm sp ops obs = true.
  Proof.
    induction ops as [|o ops IH]; intros obs st sp HR HI Ha.
    - destruct obs; [reflexivity | discriminate].
    - rewrite run_cons_snd in Ha. destruct obs as [|ob obs]; [discriminate|].
      cbn [agrees_all] in Ha. apply andb_true_iff in Ha as [Ha1 Ha2].
      cbn [spec_ok]. destruct (sstep' sp o) as [sp' q] eqn:ES.
      destruct (result_eq_fuel_dec q) as [->|Dq]; [reflexivity|].
      pose proof (agrees_definite _ _ Ha1) as Dr.
      destruct (sim_step (orc_hash orc) spec_valid_digest spec_valid_repo spec_valid_tag (orc_img orc) (orc_idx orc)
                {| immutable_tags := imm |} st sp o HR HI) as [HR' Hres].
      { intros _. unfold spec_step in ES. rewrite ES. split; assumption. }
      unfold spec_step in ES. rewrite ES in HR', Hres. cbn [fst snd] in HR', Hres.
      assert (Hok : ok_vs_spec (slog sp) o ob q && spec_ok orc imm sp' ops obs = true).
      { apply andb_true_iff. split.
        - eapply ok_vs_spec_sound; eauto.
        - eapply IH; [exact HR' | apply inv_step; exact HI | exact Ha2]. }
      destruct q; try exact Hok. now elim Dq.
  Qed.
End Sound.

Lemma corr_sound c : model_agrees c = true -> obs_ok c = true.
Proof.
  unfold model_agrees, obs_ok, model_results. intros H. apply andb_true_iff in H as [_ H].
  eapply spec_ok_sound; [apply rel_init | apply inv_init | exact H].
Qed.

Definition mismatches (cs : list case) : list (N * bool) :=
  bad_from 0 (fun c => if model_agrees c then None else Some (obs_ok c)) cs.
Definition bad_obs (cs : list case) : list (N * bool) :=
  bad_from 0 (fun c => if obs_ok c then None else Some (model_agrees c)) cs.
Definition where_bad (c : case) : option N := first_bad 0 (c_obs c) (model_results c).
Definition where_bad_spec (c : case) := spec_first_bad 0 (c_orc c) (c_imm c) sinit (c_ops c) (c_obs c).
