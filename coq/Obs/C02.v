(* Correspondence for C02: histories run on *ocimem.Registry versus the implementation
   model (Model/Mem.v, [model_agrees]) and versus the reference registry
   (Model/MemSpec.v, [obs_ok]). *)
From Coq Require Import String.
From OCI Require Export Obs.MemObs Model.MemSpec.

Record case := { c_imm : bool; c_orc : oracles; c_ops : list op; c_obs : list oresult }.

Definition spec_step (o : oracles) (imm : bool) : sstate -> op -> sstate * result :=
  sstep (orc_hash o) (orc_vd o) (orc_vr o) (orc_vt o) (orc_img o) (orc_idx o) {| immutable_tags := imm |}.

Definition model_results (c : case) : list result := snd (run (mem_step (c_orc c) (c_imm c)) init (c_ops c)).
Definition model_agrees (c : case) : bool := agrees_all (c_obs c) (model_results c).

(* an observed result as a model-level result (error tag dropped) *)
Definition to_result (o : oresult) : result :=
  match o with
  | OOk r => Ok r
  | OList l e => Ok (RList l (option_map (fun c => E c []) e))
  | ODescs l e => Ok (RDescs l (option_map (fun c => E c []) e))
  | OErr c => Err (E c [])
  | OPanic => Panic
  end.

(* observed result vs. the reference registry's answer: equal on projected observables,
   where the reference registry leaves the code of a rejection unspecified ([ENone]) any
   error is accepted *)
Definition agrees_spec (obs : oresult) (sp : result) : bool :=
  match obs, sp with
  | OErr _, Err e => match e_code e with ENone => true | _ => agrees obs sp end
  | _, _ => agrees obs sp
  end.

Definition ok_vs_spec (l : list event) (o : op) (obs : oresult) (sp : result) : bool :=
  match o, obs, sp with
  | Repositories _, OList lo None, Ok (RList ls None) =>
      ssortedb lo && list_eqb beqb (filter (has_content l) lo) ls
  | _, _, _ =>
      agrees_spec obs sp
      || match op_repo o with
         | Some r => negb (has_content l r) && empty_answer o (to_result obs)
         | None => false
         end
  end.

Fixpoint spec_ok (o : oracles) (imm : bool) (st : sstate) (ops : list op) (obs : list oresult) : bool :=
  match ops, obs with
  | [], [] => true
  | op :: ops', ob :: obs' =>
      let '(st', r) := spec_step o imm st op in
      ok_vs_spec (slog st) op ob r && spec_ok o imm st' ops' obs'
  | _, _ => false
  end.

Definition obs_ok (c : case) : bool := spec_ok (c_orc c) (c_imm c) sinit (c_ops c) (c_obs c).

Fixpoint spec_first_bad (i : N) (o : oracles) (imm : bool) (st : sstate) (ops : list op) (obs : list oresult) : option (N * result) :=
  match ops, obs with
  | op :: ops', ob :: obs' =>
      let '(st', r) := spec_step o imm st op in
      if ok_vs_spec (slog st) op ob r then spec_first_bad (N.succ i) o imm st' ops' obs' else Some (i, r)
  | _, _ => None
  end.

Definition nontrivial (c : case) : bool := true.
Definition mismatches (cs : list case) : list (N * bool) :=
  bad_from 0 (fun c => if model_agrees c then None else Some (obs_ok c)) cs.
Definition bad_obs (cs : list case) : list (N * bool) :=
  bad_from 0 (fun c => if obs_ok c then None else Some (model_agrees c)) cs.
Definition where_bad (c : case) : option N := first_bad 0 (c_obs c) (model_results c).
Definition where_bad_spec (c : case) := spec_first_bad 0 (c_orc c) (c_imm c) sinit (c_ops c) (c_obs c).
