(* Correspondence for C04: upload scripts run on the real stacks (ocimem directly, one hop,
   two hops, ociunify over two registries) versus the model (Model/Upload.v, UploadMem.v:
   [model_agrees]) and versus the property's specification ([obs_ok], the checker [check]
   below, which knows nothing about Content-Range, chunks or buffers: it only tracks the
   bytes the script has legitimately written). *)
From Coq Require Import String.
From OCI Require Export Base.Outcome Model.UploadMem.
From OCI Require Export Model.UploadSpec.
From OCI Require Import Proofs.UploadLaw Proofs.Upload Proofs.UploadMem.

Local Open Scope Z_scope.

Inductive stack := SMem | SHop1 | SHop2 | SUnifyMem | SUnifyHop1.

(* run-length rendering of contents in case files: [(n, b); ...] = n copies of byte b, ... *)
Fixpoint rl (l : list (N * N)) : bytes :=
  match l with
  | [] => []
  | (n, b) :: l' => rep n b ++ rl l'
  end.

Record case := {
  c_stack : stack;
  c_repo : bytes;
  c_hash : alist bytes;                           (* content -> sha256 digest, from the real code *)
  c_ops : list uop;
  c_obs : list uobs;                              (* observed, one per op *)
  c_stored : list (bytes * list (option bytes))   (* digest -> what each underlying registry holds for it *)
}.

Definition tbl_hash (t : alist bytes) (c : bytes) : bytes :=
  match alookup c t with Some d => d | None => s "?unknown-content" end.

(* io.Copy is modelled as one Write per non-empty body (the result does not depend on it:
   Proofs/Upload.v quantifies over the cut) *)
Definition one_piece (b : bytes) : list bytes := match b with [] => [] | _ => [b] end.

Section Run.
  Variable c : case.
  Let hash := tbl_hash (c_hash c).
  Let mb := mem_backend hash (fun _ => true) (fun _ => true) (fun _ => true) (fun _ => None) (fun _ => None)
                        {| immutable_tags := false |}.
  Let h1 := hop1 hash (fun _ => true) (fun _ => true) (fun _ => true) (fun _ => None) (fun _ => None)
                 {| immutable_tags := false |} one_piece.
  Let h2 := hop2 hash (fun _ => true) (fun _ => true) (fun _ => true) (fun _ => None) (fun _ => None)
                 {| immutable_tags := false |} one_piece.

  Definition digests : list bytes := map fst (c_stored c).
  Definition look1 (st : state) : list (bytes * list (option bytes)) :=
    map (fun d => (d, [mem_blob st (c_repo c) d])) digests.
  Definition look2 (st : state * state) : list (bytes * list (option bytes)) :=
    map (fun d => (d, [mem_blob (fst st) (c_repo c) d; mem_blob (snd st) (c_repo c) d])) digests.

  Definition model_run : list uobs * list (bytes * list (option bytes)) :=
    match c_stack c with
    | SMem => let '(st, _, obs) := run_script mb (c_repo c) init None (c_ops c) in (obs, look1 st)
    | SHop1 => let '(st, _, obs) := run_script h1 (c_repo c) init None (c_ops c) in (obs, look1 st)
    | SHop2 => let '(st, _, obs) := run_script h2 (c_repo c) init None (c_ops c) in (obs, look1 st)
    | SUnifyMem =>
        let '(st, _, obs) := run_script (unify_backend mb mb) (c_repo c) (init, init) None (c_ops c) in (obs, look2 st)
    | SUnifyHop1 =>
        let '(st, _, obs) := run_script (unify_backend h1 h1) (c_repo c) (init, init) None (c_ops c) in (obs, look2 st)
    end.
End Run.

Definition ures_eqb (a b : ures) : bool :=
  match a, b with
  | UOk n, UOk m => n =? m
  | UErr c st, UErr c' st' => ecode_eqb c c' && (st =? st')
  | UBroken, UBroken => true
  | _, _ => false
  end.
(* observed result vs. predicted result.  ociclient reads at most 8 KiB of an error body and
   ocimem quotes the whole upload in its digest-mismatch message, so over HTTP the code of
   that one error is lost when the upload is large ("error body too large").  The length of
   error prose is not modelled: the harness reports such an error under the marker code
   below and it is compared with a predicted DIGEST_INVALID on the status only. *)
Definition TOO_LARGE : ecode := ECustom (s "error-body-too-large").
Definition ures_agree (o m : ures) : bool :=
  ures_eqb o m
  || match o, m with
     | UErr co st, UErr DIGEST_INVALID st' => ecode_eqb co TOO_LARGE && (st =? st')
     | _, _ => false
     end.
Definition uobs_eqb (a b : uobs) : bool :=
  ures_agree (uo_res a) (uo_res b) && (uo_size a =? uo_size b) && (uo_chunk a =? uo_chunk b).
Definition obytes_eqb := option_eqb beqb.
Definition stored_eqb (a b : bytes * list (option bytes)) : bool :=
  beqb (fst a) (fst b) && list_eqb obytes_eqb (snd a) (snd b).

Definition model_agrees (c : case) : bool :=
  let '(obs, stored) := model_run c in
  list_eqb uobs_eqb (c_obs c) obs && list_eqb stored_eqb (c_stored c) stored.

Definition is_http (k : stack) : bool :=
  match k with SMem | SUnifyMem => false | _ => true end.

(* the property's specification, applied to what was observed (scripts whose offsets and
   sizes do not fit int64 are outside it) *)
Definition obs_ok (c : case) : bool :=
  negb (fits (c_ops c))
  || check (tbl_hash (c_hash c)) (is_http (c_stack c)) (c_ops c) (c_obs c) (c_stored c).

(* a case is non-trivial when the upload is resumed at least once or a Write crosses the
   chunk size in force (so that the client has to flush in the middle of the upload) *)
Definition is_resume (o : uop) : bool := match o with UResume _ _ => true | _ => false end.
Fixpoint crosses (ops : list uop) (obs : list uobs) (pending : Z) : bool :=
  match ops, obs with
  | UWrite d :: ops', o :: obs' =>
      if pending + blen d >? uo_chunk o then true else crosses ops' obs' (pending + blen d)
  | _ :: ops', _ :: obs' => crosses ops' obs' 0
  | _, _ => false
  end.
Definition nontrivial (c : case) : bool :=
  existsb is_resume (c_ops c) || crosses (c_ops c) (c_obs c) 0.

(* ------------------------------------------------------------------ corr_sound *)

Lemma ures_eqb_eq a b : ures_eqb a b = true -> a = b.
Proof.
  destruct a as [n|c st|], b as [m|c' st'|]; cbn; try discriminate; intros H.
  - apply Z.eqb_eq in H. now subst.
  - apply andb_true_iff in H as [H1 H2]. apply ecode_eqb_eq in H1. apply Z.eqb_eq in H2. now subst.
  - reflexivity.
Qed.

(* the checker looks at a result only through these three tests *)
Lemma ures_agree_tests h o m : ures_agree o m = true ->
  (forall n, is_uok n o = is_uok n m) /\ is_uerr o = is_uerr m /\ is_range_refusal h o = is_range_refusal h m.
Proof.
  unfold ures_agree. intros H. apply orb_true_iff in H as [H|H].
  - apply ures_eqb_eq in H. subst. auto.
  - destruct o as [n|co st|]; try discriminate. destruct m as [n'|cm st'|]; try discriminate.
    destruct cm; try discriminate. apply andb_true_iff in H as [H1 H2].
    apply ecode_eqb_eq in H1. subst co. repeat split; reflexivity.
Qed.

Lemma check_step_agree h http cs o ob ob' :
  uobs_eqb ob ob' = true -> check_step h http cs o ob = check_step h http cs o ob'.
Proof.
  unfold uobs_eqb. intros H. apply andb_true_iff in H as [H _]. apply andb_true_iff in H as [Hr Hs].
  apply Z.eqb_eq in Hs. destruct (ures_agree_tests http _ _ Hr) as (Hok & Herr & Hrr).
  unfold check_step. rewrite Hs.
  destruct cs as [|g|g|g seen sent|g|cm|], o as [hint|[| |off] hint|d| |[|d0 d]]; try reflexivity;
    rewrite ?Hok, ?Herr, ?Hrr; try reflexivity.
Qed.

Lemma check_ops_agree h http ops : forall cs obs obs',
  list_eqb uobs_eqb obs obs' = true -> check_ops h http cs ops obs = check_ops h http cs ops obs'.
Proof.
  induction ops as [|o ops IH]; intros cs [|ob obs] [|ob' obs'] H; cbn in H; try discriminate; try reflexivity.
  apply andb_true_iff in H as [H1 H2]. cbn [check_ops]. rewrite (check_step_agree _ _ _ _ _ _ H1).
  destruct (check_step h http cs o ob') as [cs1 ok]. destruct ok; [apply IH, H2|reflexivity].
Qed.

Lemma obytes_eqb_eq a b : obytes_eqb a b = true <-> a = b.
Proof.
  destruct a, b; cbn; split; try discriminate; try reflexivity; intros H.
  - apply beqb_eq in H. now subst.
  - injection H as ->. apply beqb_refl.
Qed.

Lemma stored_eqb_eq a b : stored_eqb a b = true <-> a = b.
Proof.
  destruct a as [d l], b as [d' l']. unfold stored_eqb. cbn [fst snd].
  rewrite andb_true_iff, beqb_eq, (list_eqb_eq _ obytes_eqb_eq). split; [intros [-> ->]; reflexivity|].
  intros H; injection H; auto.
Qed.

Lemma check_agree h http ops obs obs' sto sto' :
  list_eqb uobs_eqb obs obs' = true -> list_eqb stored_eqb sto sto' = true ->
  check h http ops obs sto = check h http ops obs' sto'.
Proof.
  intros H1 H2. apply (list_eqb_eq _ stored_eqb_eq) in H2. subst sto'.
  unfold check. now rewrite (check_ops_agree _ _ _ _ _ _ H1).
Qed.

Lemma one_piece_concat b : concat (one_piece b) = b.
Proof. destruct b; cbn; [reflexivity|]. now rewrite app_nil_r. Qed.

Lemma corr_sound c : model_agrees c = true -> obs_ok c = true.
Proof.
  unfold model_agrees, obs_ok. destruct (fits (c_ops c)) eqn:Hfit; [|reflexivity]. cbn [negb orb].
  unfold fits in Hfit. apply Z.leb_le in Hfit.
  destruct (model_run c) as [obs stored] eqn:Em. intros H. apply andb_true_iff in H as [H1 H2].
  rewrite (check_agree _ _ _ _ _ _ _ H1 H2). clear H1 H2.
  unfold model_run in Em.
  destruct (c_stack c); cbn [is_http].
  - destruct (run_script _ _ init None (c_ops c)) as [[st cur] obs'] eqn:Er. injection Em as <- <-.
    eapply (mem_check _ _ (fun _ => true)); eauto.
  - destruct (run_script _ _ init None (c_ops c)) as [[st cur] obs'] eqn:Er. injection Em as <- <-.
    eapply (hop1_check _ _ (fun _ => true) _ _ _ _ _ eq_refl one_piece one_piece_concat); eauto.
  - destruct (run_script _ _ init None (c_ops c)) as [[st cur] obs'] eqn:Er. injection Em as <- <-.
    eapply (hop2_check _ _ (fun _ => true) _ _ _ _ _ eq_refl one_piece one_piece_concat); eauto.
  - destruct (run_script _ _ (init, init) None (c_ops c)) as [[st cur] obs'] eqn:Er. injection Em as <- <-.
    eapply (unify_mem_check _ _ (fun _ => true)); eauto.
  - destruct (run_script _ _ (init, init) None (c_ops c)) as [[st cur] obs'] eqn:Er. injection Em as <- <-.
    eapply (unify_hop1_check _ _ (fun _ => true) _ _ _ _ _ eq_refl one_piece one_piece_concat); eauto.
Qed.

Definition mismatches (cs : list case) : list (N * bool) :=
  bad_from 0 (fun c => if model_agrees c then None else Some (obs_ok c)) cs.
Definition bad_obs (cs : list case) : list (N * bool) :=
  bad_from 0 (fun c => if obs_ok c then None else Some (model_agrees c)) cs.

(* diagnostics *)
Definition where_bad (c : case) :=
  let '(obs, stored) := model_run c in
  (bad_from 0 (fun p => if uobs_eqb (fst p) (snd p) then None else Some p) (combine (c_obs c) obs), stored).
