(* Correspondence for C04: upload scripts run on the real stacks (ocimem directly, one hop,
   two hops, ociunify over two registries) versus the model (Model/Upload.v, UploadMem.v:
   [model_agrees]) and versus the property's specification ([obs_ok], the checker [check]
   below, which knows nothing about Content-Range, chunks or buffers: it only tracks the
   bytes the script has legitimately written). *)
From Coq Require Import String.
From OCI Require Export Base.Outcome Model.UploadMem.
From OCI Require Export Model.UploadSpec Model.UploadXSpec.
From OCI Require Import Proofs.RangeCodec Proofs.UploadLaw Proofs.Upload Proofs.UploadMem.

Local Open Scope Z_scope.

Inductive stack := SMem | SHop1 | SHop2 | SUnifyMem | SUnifyHop1.

(* run-length rendering of contents in case files: [(n, b); ...] = n copies of byte b, ... *)
Fixpoint rl (l : list (N * N)) : bytes :=
  match l with
  | [] => []
  | (n, b) :: l' => rep n b ++ rl l'
  end.

Record scase := {
  c_stack : stack;
  c_repo : bytes;
  c_hash : alist bytes;                           (* content -> sha256 digest, from the real code *)
  c_ops : list uop;
  c_obs : list uobs;                              (* observed, one per op *)
  c_stored : list (bytes * list (option bytes))   (* digest -> what each underlying registry holds for it *)
}.

Definition tbl_hash (t : alist bytes) (c : bytes) : bytes :=
  match alookup c t with Some d => d | None => s "?unknown-content" end.

(* io.Copy is modelled as one Write per non-empty body (the result does not depend on it:
   Proofs/Upload.v quantifies over the cut) *)
Definition one_piece (b : bytes) : list bytes := match b with [] => [] | _ => [b] end.

Section Run.
  Variable c : scase.
  Let hash := tbl_hash (c_hash c).
  Let mb := mem_backend hash (fun _ => true) (fun _ => true) (fun _ => true) (fun _ => None) (fun _ => None)
                        {| immutable_tags := false |}.
  Let h1 := hop1 hash (fun _ => true) (fun _ => true) (fun _ => true) (fun _ => None) (fun _ => None)
                 {| immutable_tags := false |} one_piece.
  Let h2 := hop2 hash (fun _ => true) (fun _ => true) (fun _ => true) (fun _ => None) (fun _ => None)
                 {| immutable_tags := false |} one_piece.

  Definition digests : list bytes := map fst (c_stored c).
  Definition look1 (st : state) : list (bytes * list (option bytes)) :=
    map (fun d => (d, [mem_blob st (c_repo c) d])) digests.
  Definition look2 (st : state * state) : list (bytes * list (option bytes)) :=
    map (fun d => (d, [mem_blob (fst st) (c_repo c) d; mem_blob (snd st) (c_repo c) d])) digests.

  Definition model_run : list uobs * list (bytes * list (option bytes)) :=
    match c_stack c with
    | SMem => let '(st, _, obs) := run_script mb (c_repo c) init None (c_ops c) in (obs, look1 st)
    | SHop1 => let '(st, _, obs) := run_script h1 (c_repo c) init None (c_ops c) in (obs, look1 st)
    | SHop2 => let '(st, _, obs) := run_script h2 (c_repo c) init None (c_ops c) in (obs, look1 st)
    | SUnifyMem =>
        let '(st, _, obs) := run_script (unify_backend mb mb) (c_repo c) (init, init) None (c_ops c) in (obs, look2 st)
    | SUnifyHop1 =>
        let '(st, _, obs) := run_script (unify_backend h1 h1) (c_repo c) (init, init) None (c_ops c) in (obs, look2 st)
    end.
End Run.

Definition ures_eqb (a b : ures) : bool :=
  match a, b with
  | UOk n, UOk m => n =? m
  | UErr c st, UErr c' st' => ecode_eqb c c' && (st =? st')
  | UBroken, UBroken => true
  | _, _ => false
  end.
(* observed result vs. predicted result.  ociclient reads at most 8 KiB of an error body and
   ocimem quotes the whole upload in its digest-mismatch message, so over HTTP the code of
   that one error is lost when the upload is large ("error body too large").  The length of
   error prose is not modelled: the harness reports such an error under the marker code
   below and it is compared with a predicted DIGEST_INVALID on the status only. *)
Definition TOO_LARGE : ecode := ECustom (s "error-body-too-large").
Definition ures_agree (o m : ures) : bool :=
  ures_eqb o m
  || match o, m with
     | UErr co st, UErr DIGEST_INVALID st' => ecode_eqb co TOO_LARGE && (st =? st')
     | _, _ => false
     end.
Definition uobs_eqb (a b : uobs) : bool :=
  ures_agree (uo_res a) (uo_res b) && (uo_size a =? uo_size b) && (uo_chunk a =? uo_chunk b).
Definition obytes_eqb := option_eqb beqb.
Definition stored_eqb (a b : bytes * list (option bytes)) : bool :=
  beqb (fst a) (fst b) && list_eqb obytes_eqb (snd a) (snd b).

Definition s_model_agrees (c : scase) : bool :=
  let '(obs, stored) := model_run c in
  list_eqb uobs_eqb (c_obs c) obs && list_eqb stored_eqb (c_stored c) stored.

Definition is_http (k : stack) : bool :=
  match k with SMem | SUnifyMem => false | _ => true end.

(* the property's specification, applied to what was observed (scripts whose offsets and
   sizes do not fit int64 are outside it) *)
Definition s_obs_ok (c : scase) : bool :=
  negb (fits (c_ops c))
  || check (tbl_hash (c_hash c)) (is_http (c_stack c)) (c_ops c) (c_obs c) (c_stored c).

(* a case is non-trivial when the upload is resumed at least once or a Write crosses the
   chunk size in force (so that the client has to flush in the middle of the upload) *)
Definition is_resume (o : uop) : bool := match o with UResume _ _ => true | _ => false end.
Fixpoint crosses (ops : list uop) (obs : list uobs) (pending : Z) : bool :=
  match ops, obs with
  | UWrite d :: ops', o :: obs' =>
      if pending + blen d >? uo_chunk o then true else crosses ops' obs' (pending + blen d)
  | _ :: ops', _ :: obs' => crosses ops' obs' 0
  | _, _ => false
  end.
Definition s_nontrivial (c : scase) : bool :=
  existsb is_resume (c_ops c) || crosses (c_ops c) (c_obs c) 0.

(* ------------------------------------------------------------------ corr_sound *)

Lemma ures_eqb_eq a b : ures_eqb a b = true -> a = b.
Proof.
  destruct a as [n|c st|], b as [m|c' st'|]; cbn; try discriminate; intros H.
  - apply Z.eqb_eq in H. now subst.
  - apply andb_true_iff in H as [H1 H2]. apply ecode_eqb_eq in H1. apply Z.eqb_eq in H2. now subst.
  - reflexivity.
Qed.

(* the checker looks at a result only through these three tests *)
Lemma ures_agree_tests h o m : ures_agree o m = true ->
  (forall n, is_uok n o = is_uok n m) /\ is_uerr o = is_uerr m /\ is_range_refusal h o = is_range_refusal h m.
Proof.
  unfold ures_agree. intros H. apply orb_true_iff in H as [H|H].
  - apply ures_eqb_eq in H. subst. auto.
  - destruct o as [n|co st|]; try discriminate. destruct m as [n'|cm st'|]; try discriminate.
    destruct cm; try discriminate. apply andb_true_iff in H as [H1 H2].
    apply ecode_eqb_eq in H1. subst co. repeat split; reflexivity.
Qed.

Lemma check_step_agree h http cs o ob ob' :
  uobs_eqb ob ob' = true -> check_step h http cs o ob = check_step h http cs o ob'.
Proof.
  unfold uobs_eqb. intros H. apply andb_true_iff in H as [H _]. apply andb_true_iff in H as [Hr Hs].
  apply Z.eqb_eq in Hs. destruct (ures_agree_tests http _ _ Hr) as (Hok & Herr & Hrr).
  unfold check_step. rewrite Hs.
  destruct cs as [|g|g|g seen sent|g|cm|], o as [hint|[| |off] hint|d| |[|d0 d]]; try reflexivity;
    rewrite ?Hok, ?Herr, ?Hrr; try reflexivity.
Qed.

Lemma check_ops_agree h http ops : forall cs obs obs',
  list_eqb uobs_eqb obs obs' = true -> check_ops h http cs ops obs = check_ops h http cs ops obs'.
Proof.
  induction ops as [|o ops IH]; intros cs [|ob obs] [|ob' obs'] H; cbn in H; try discriminate; try reflexivity.
  apply andb_true_iff in H as [H1 H2]. cbn [check_ops]. rewrite (check_step_agree _ _ _ _ _ _ H1).
  destruct (check_step h http cs o ob') as [cs1 ok]. destruct ok; [apply IH, H2|reflexivity].
Qed.

Lemma obytes_eqb_eq a b : obytes_eqb a b = true <-> a = b.
Proof.
  destruct a, b; cbn; split; try discriminate; try reflexivity; intros H.
  - apply beqb_eq in H. now subst.
  - injection H as ->. apply beqb_refl.
Qed.

Lemma stored_eqb_eq a b : stored_eqb a b = true <-> a = b.
Proof.
  destruct a as [d l], b as [d' l']. unfold stored_eqb. cbn [fst snd].
  rewrite andb_true_iff, beqb_eq, (list_eqb_eq _ obytes_eqb_eq). split; [intros [-> ->]; reflexivity|].
  intros H; injection H; auto.
Qed.

Lemma check_agree h http ops obs obs' sto sto' :
  list_eqb uobs_eqb obs obs' = true -> list_eqb stored_eqb sto sto' = true ->
  check h http ops obs sto = check h http ops obs' sto'.
Proof.
  intros H1 H2. apply (list_eqb_eq _ stored_eqb_eq) in H2. subst sto'.
  unfold check. now rewrite (check_ops_agree _ _ _ _ _ _ H1).
Qed.

Lemma one_piece_concat b : concat (one_piece b) = b.
Proof. destruct b; cbn; [reflexivity|]. now rewrite app_nil_r. Qed.

Lemma s_corr_sound c : s_model_agrees c = true -> s_obs_ok c = true.
Proof.
  unfold s_model_agrees, s_obs_ok. destruct (fits (c_ops c)) eqn:Hfit; [|reflexivity]. cbn [negb orb].
  unfold fits in Hfit. apply Z.leb_le in Hfit.
  destruct (model_run c) as [obs stored] eqn:Em. intros H. apply andb_true_iff in H as [H1 H2].
  rewrite (check_agree _ _ _ _ _ _ _ H1 H2). clear H1 H2.
  unfold model_run in Em.
  destruct (c_stack c); cbn [is_http].
  - destruct (run_script _ _ init None (c_ops c)) as [[st cur] obs'] eqn:Er. injection Em as <- <-.
    eapply (mem_check _ _ (fun _ => true)); eauto.
  - destruct (run_script _ _ init None (c_ops c)) as [[st cur] obs'] eqn:Er. injection Em as <- <-.
    eapply (hop1_check _ _ (fun _ => true) _ _ _ _ _ eq_refl one_piece one_piece_concat); eauto.
  - destruct (run_script _ _ init None (c_ops c)) as [[st cur] obs'] eqn:Er. injection Em as <- <-.
    eapply (hop2_check _ _ (fun _ => true) _ _ _ _ _ eq_refl one_piece one_piece_concat); eauto.
  - destruct (run_script _ _ (init, init) None (c_ops c)) as [[st cur] obs'] eqn:Er. injection Em as <- <-.
    eapply (unify_mem_check _ _ (fun _ => true)); eauto.
  - destruct (run_script _ _ (init, init) None (c_ops c)) as [[st cur] obs'] eqn:Er. injection Em as <- <-.
    eapply (unify_hop1_check _ _ (fun _ => true) _ _ _ _ _ eq_refl one_piece one_piece_concat); eauto.
Qed.

(* ------------------------------------------------------------------ extended scripts *)

(* Scripts with transient faults and remembered upload ids (Model/UploadX.v).  The clauses
   of Model/UploadXSpec.v are not (yet) backed by a theorem over all scripts: [x_model_agrees]
   evaluates the checker on the MODEL's prediction of every case as well, so a case agrees
   only if the model itself meets the specification on that input; [x_corr_sound] then
   carries it over to the observation (the checker cannot tell agreeing observations apart). *)
Record xcase := {
  xc_stack : stack;
  xc_repo : bytes;
  xc_hash : alist bytes;
  xc_ops : list xop;
  xc_obs : list uobs;
  xc_stored : list (bytes * list (option bytes))
}.

Section XRun.
  Variable c : xcase.
  Let hash := tbl_hash (xc_hash c).
  Let mb := mem_backend hash (fun _ => true) (fun _ => true) (fun _ => true) (fun _ => None) (fun _ => None)
                        {| immutable_tags := false |}.
  Let h1 := hop1 hash (fun _ => true) (fun _ => true) (fun _ => true) (fun _ => None) (fun _ => None)
                 {| immutable_tags := false |} one_piece.
  Let xh1 := xhop1 hash (fun _ => true) (fun _ => true) (fun _ => true) (fun _ => None) (fun _ => None)
                   {| immutable_tags := false |} one_piece.
  Let xh2 := xhop2 hash (fun _ => true) (fun _ => true) (fun _ => true) (fun _ => None) (fun _ => None)
                   {| immutable_tags := false |} one_piece.

  Definition xdigests : list bytes := map fst (xc_stored c).
  Definition xlook1 (st : state) : list (bytes * list (option bytes)) :=
    map (fun d => (d, [mem_blob st (xc_repo c) d])) xdigests.
  Definition xlook2 (st : state * state) : list (bytes * list (option bytes)) :=
    map (fun d => (d, [mem_blob (fst st) (xc_repo c) d; mem_blob (snd st) (xc_repo c) d])) xdigests.

  Definition x_model_run : list uobs * list (bytes * list (option bytes)) :=
    match xc_stack c with
    | SMem => let '(st, obs) := run_x mb (fun st _ => st) (fun _ => init) (xc_repo c) init None None (xc_ops c) in (obs, xlook1 st)
    | SHop1 => let '(st, obs) := run_x xh1 set_plan (fun _ => (init, [])) (xc_repo c) (init, []) None None (xc_ops c) in (obs, xlook1 (fst st))
    | SHop2 => let '(st, obs) := run_x xh2 set_plan (fun _ => (init, [])) (xc_repo c) (init, []) None None (xc_ops c) in (obs, xlook1 (fst st))
    | SUnifyMem =>
        let '(st, obs) := run_x (unify_backend mb mb) (fun st _ => st) (fun _ => (init, init)) (xc_repo c) (init, init) None None (xc_ops c) in
        (obs, xlook2 st)
    | SUnifyHop1 =>
        let '(st, obs) := run_x (unify_backend h1 h1) (fun st _ => st) (fun _ => (init, init)) (xc_repo c) (init, init) None None (xc_ops c) in
        (obs, xlook2 st)
    end.
End XRun.

Definition x_model_agrees (c : xcase) : bool :=
  let '(obs, stored) := x_model_run c in
  list_eqb uobs_eqb (xc_obs c) obs && list_eqb stored_eqb (xc_stored c) stored
  && xcheck (tbl_hash (xc_hash c)) (is_http (xc_stack c)) (xc_ops c) (map norm obs) stored.

Definition x_obs_ok (c : xcase) : bool :=
  xcheck (tbl_hash (xc_hash c)) (is_http (xc_stack c)) (xc_ops c) (map norm (xc_obs c)) (xc_stored c).

Definition is_commit (o : xop) : bool := match o with XU (UCommit _) => true | _ => false end.
Definition is_xfault (o : xop) : bool := match o with XFault _ => true | _ => false end.
Definition is_xforget (o : xop) : bool := match o with XForget => true | _ => false end.
Definition x_nontrivial (c : xcase) : bool :=
  existsb is_xfault (xc_ops c) || existsb is_xforget (xc_ops c) || (2 <=? Z.of_nat (List.length (filter is_commit (xc_ops c)))).

Lemma norm_agree a b : uobs_eqb a b = true -> norm a = norm b.
Proof.
  unfold uobs_eqb, norm. intros H. apply andb_true_iff in H as [H Hc]. apply andb_true_iff in H as [Hr Hs].
  apply Z.eqb_eq in Hs, Hc. rewrite Hs, Hc. f_equal.
  unfold ures_agree in Hr. apply orb_true_iff in Hr as [Hr|Hr].
  - apply ures_eqb_eq in Hr. now rewrite Hr.
  - destruct (uo_res a) as [n|co st|]; try discriminate. destruct (uo_res b) as [n'|cm st'|]; try discriminate.
    destruct cm; try discriminate. apply andb_true_iff in Hr as [_ H2]. apply Z.eqb_eq in H2. now subst.
Qed.

Lemma map_norm_agree : forall obs obs', list_eqb uobs_eqb obs obs' = true -> map norm obs = map norm obs'.
Proof.
  induction obs as [|a obs IH]; intros [|b obs'] H; cbn in H; try discriminate; [reflexivity|].
  apply andb_true_iff in H as [H1 H2]. cbn [map]. now rewrite (norm_agree _ _ H1), (IH _ H2).
Qed.

Lemma x_corr_sound c : x_model_agrees c = true -> x_obs_ok c = true.
Proof.
  unfold x_model_agrees, x_obs_ok. destruct (x_model_run c) as [obs stored]. intros H.
  apply andb_true_iff in H as [H H3]. apply andb_true_iff in H as [H1 H2].
  apply (list_eqb_eq _ stored_eqb_eq) in H2. rewrite H2, (map_norm_agree _ _ H1). exact H3.
Qed.

(* ------------------------------------------------------------------ codec cases *)

(* what the harness saw chunkRange / parseRange return *)
Inductive cr_obs := OCROk (a b : Z) | OCRErr (c : ecode).
Inductive hr_obs := OHROk (l : list (Z * Z)) | OHRErr.

Inductive case :=
  | KScript (sc : scase)
  | KRange (a b : Z) (str : bytes) (parsed : option (Z * Z))
      (* RangeString(a, b) = str and ParseRange(str) = parsed *)
  | KParse (str : bytes) (parsed : option (Z * Z))            (* ParseRange on any string *)
  | KChunk (a b cl : Z) (res : cr_obs)
      (* chunkRange on Content-Range: RangeString(a, b), Content-Length: cl *)
  | KChunkRaw (cr : bytes) (cl : Z) (res : cr_obs)            (* chunkRange on any header *)
  | KHttpRange (str : bytes) (res : hr_obs)                   (* ociserver.parseRange *)
  | KX (xc : xcase).                                          (* extended script: faults, remembered ids *)

Definition zz_eqb (x y : Z * Z) : bool := (fst x =? fst y) && (snd x =? snd y).
Definition ozz_eqb := option_eqb zz_eqb.

Definition cr_agree (o : cr_obs) (m : chunk_range_result) : bool :=
  match o, m with
  | OCROk a b, CROk a' b' => (a =? a') && (b =? b')
  | OCRErr UNSUPPORTED, CRBadRange | OCRErr UNSUPPORTED, CRBadLength _ => true
  | _, _ => false
  end.
Definition hr_agree (o : hr_obs) (m : http_range_result) : bool :=
  match o, m with
  | OHROk l, HROk l' => list_eqb zz_eqb l (map (fun r => (hr_start r, hr_end r)) l')
  | OHRErr, HRInvalid | OHRErr, HREndRelative => true
  | _, _ => false
  end.

Definition model_agrees (c : case) : bool :=
  match c with
  | KScript sc => s_model_agrees sc
  | KRange a b str parsed => beqb str (range_string a b) && ozz_eqb parsed (parse_range str)
  | KParse str parsed => ozz_eqb parsed (parse_range str)
  | KChunk a b cl res => cr_agree res (chunk_range (range_string a b) cl)
  | KChunkRaw cr cl res => cr_agree res (chunk_range cr cl)
  | KHttpRange str res => hr_agree res (parse_http_range str)
  | KX xc => x_model_agrees xc
  end.

(* the codec part of the specification: ParseRange inverts RangeString on every range
   0 <= a <= b except (0, 1); chunkRange recovers every such range when the Content-Length
   is b - a and refuses any other Content-Length (except where "0-0" reads both ways) *)
Definition valid_range (a b : Z) : bool := (0 <=? a) && (a <=? b) && (b <=? MAX64).
Definition obs_ok (c : case) : bool :=
  match c with
  | KScript sc => s_obs_ok sc
  | KRange a b str parsed =>
      if valid_range a b && negb ((a =? 0) && (b =? 1)) then ozz_eqb parsed (Some (a, b)) else true
  | KChunk a b cl res =>
      if valid_range a b then
        if cl =? b - a then match res with OCROk a' b' => (a' =? a) && (b' =? b) | _ => false end
        else if (0 <=? cl) && negb ((a =? 0) && (b =? 0) && (cl =? 1)) && negb ((a =? 0) && (b =? 1) && (cl =? 0))
             then match res with OCRErr _ => true | _ => false end
             else true
      else true
  | KX xc => x_obs_ok xc
  | _ => true
  end.

Definition nontrivial (c : case) : bool :=
  match c with
  | KScript sc => s_nontrivial sc
  | KX xc => x_nontrivial xc
  | _ => true
  end.

Lemma zz_eqb_refl x : zz_eqb x x = true.
Proof. unfold zz_eqb. now rewrite !Z.eqb_refl. Qed.
Lemma zz_eqb_eq x y : zz_eqb x y = true -> x = y.
Proof.
  destruct x, y. unfold zz_eqb. cbn. intros H. apply andb_true_iff in H as [H1 H2].
  apply Z.eqb_eq in H1. apply Z.eqb_eq in H2. now subst.
Qed.
Lemma ozz_eqb_eq x y : ozz_eqb x y = true -> x = y.
Proof. destruct x, y; cbn; try discriminate; auto. intros H. apply zz_eqb_eq in H. now subst. Qed.

Lemma corr_sound c : model_agrees c = true -> obs_ok c = true.
Proof.
  destruct c as [sc|a b str parsed|str parsed|a b cl res|cr cl res|str res|xc]; cbn [model_agrees obs_ok];
    try reflexivity; [| | |apply x_corr_sound].
  - apply s_corr_sound.
  - intros H. apply andb_true_iff in H as [H1 H2]. apply beqb_eq in H1. subst str.
    apply ozz_eqb_eq in H2. subst parsed.
    destruct (valid_range a b && negb ((a =? 0) && (b =? 1))) eqn:E; [|reflexivity].
    apply andb_true_iff in E as [Ev En]. unfold valid_range in Ev.
    apply andb_true_iff in Ev as [Ev Hb]. apply andb_true_iff in Ev as [Ha Hab].
    apply Z.leb_le in Ha, Hab, Hb.
    rewrite parse_range_range_string; [cbn; apply zz_eqb_refl|lia|lia|].
    intros Hx. injection Hx as -> ->. discriminate.
  - intros H. destruct (valid_range a b) eqn:Ev; [|reflexivity]. unfold valid_range in Ev.
    apply andb_true_iff in Ev as [Ev Hb]. apply andb_true_iff in Ev as [Ha Hab].
    apply Z.leb_le in Ha, Hab, Hb.
    destruct (Z.eqb_spec cl (b - a)) as [->|Hne].
    + rewrite chunk_range_range_string in H by lia. destruct res as [a' b'|e]; [|destruct e; discriminate].
      cbn in H. apply andb_true_iff in H as [H1 H2]. apply Z.eqb_eq in H1, H2. subst.
      now rewrite !Z.eqb_refl.
    + destruct ((0 <=? cl) && negb ((a =? 0) && (b =? 0) && (cl =? 1)) && negb ((a =? 0) && (b =? 1) && (cl =? 0))) eqn:E;
        [|reflexivity].
      apply andb_true_iff in E as [E E3]. apply andb_true_iff in E as [Hcl E2]. apply Z.leb_le in Hcl.
      destruct (chunk_range_length_mismatch a b cl) as [n Hn]; try lia.
      * intros Hx. injection Hx as -> -> ->. discriminate.
      * intros Hx. injection Hx as -> -> ->. discriminate.
      * rewrite Hn in H. destruct res; [cbn in H; discriminate|reflexivity].
Qed.

Definition mismatches (cs : list case) : list (N * bool) :=
  bad_from 0 (fun c => if model_agrees c then None else Some (obs_ok c)) cs.
Definition bad_obs (cs : list case) : list (N * bool) :=
  bad_from 0 (fun c => if obs_ok c then None else Some (model_agrees c)) cs.

(* diagnostics *)
Definition where_bad (c : scase) :=
  let '(obs, stored) := model_run c in
  (bad_from 0 (fun p => if uobs_eqb (fst p) (snd p) then None else Some p) (combine (c_obs c) obs), stored).
