(* Correspondence for C05: the yield-call logs the harness recorded on real registries
   (ocimem, ociclient over ociserver, ocifilter.Select / Sub, ociunify, ocidebug, in
   combinations) versus the model (Model/Listing.v) and versus the property's
   specification. *)
From Coq Require Import String.
From OCI Require Export Base.Outcome Model.Listing Model.ListingSpec Model.ListingCtx.
From OCI Require Import Proofs.Seq Proofs.Listing Proofs.ListingStack Proofs.ListingFast Proofs.ListingCtx.

(* one yield call as the harness saw it *)
Inductive entry :=
  | EItem (item : bytes) (answer : bool)      (* yield(item, nil) and what the consumer answered *)
  | EErr (code : ecode) (answer : bool)       (* yield("", err): the error's OCI code *)
  | EBad (what : bytes).                      (* anything else, e.g. an item together with an error *)

(* one listing configuration, run against the consumers stop_at k for several k, and against
   consumers that accept everything while the context given to the listing call is cancelled
   (or its deadline passes) during their j-th call *)
Record case := {
  c_stack : stack;
  c_query : query;
  c_start : bytes;
  c_runs : list (N * list entry);    (* k, the log of yield calls *)
  c_cruns : list (N * list entry)    (* j, the log of yield calls; the context is done from the j-th call on *)
}.

(* ---------------- vocabulary of the case files for long listings ----------------

   The server's built-in page cap (10000) and client page sizes above it only show with more
   than ten thousand names.  A case file does not spell such a listing out (twice: in the
   registry contents and in every log); it names a FAMILY of names

     fam pre w lo cnt  =  pre ++ the decimal numeral of i padded to w digits,  i = lo .. lo+cnt-1

   (the harness fills the real registry with fmt.Sprintf("%s%0*d", pre, w, i)), and the log of
   yield calls as runs "these members of the family, each accepted" ([took_fam]) between
   literally written entries.  These are plain functions producing plain lists: the case
   is the value they compute, and model_agrees / obs_ok see nothing but that value. *)

(* a decimal counter, least significant digit first *)
Fixpoint dinc (d : list N) : list N :=
  match d with
  | [] => []
  | c :: d' => if (c =? 57)%N then 48%N :: dinc d' else N.succ c :: d'
  end.

Fixpoint digits_lsd (w : nat) (i : N) : list N :=
  match w with
  | O => []
  | S w' => (48 + i mod 10)%N :: digits_lsd w' (i / 10)%N
  end.

Fixpoint fam_from (pre : bytes) (d : list N) (cnt : nat) : list bytes :=
  match cnt with
  | O => []
  | S c => (pre ++ rev_append d []) :: fam_from pre (dinc d) c
  end.

Definition fam (pre : bytes) (w : nat) (lo cnt : N) : list bytes :=
  fam_from pre (digits_lsd w lo) (N.to_nat cnt).

Definition tookE (x : bytes) : entry := EItem x true.

(* the members lo .. lo+cnt-1 of a family, each handed over and accepted *)
Definition took_fam (pre : bytes) (w : nat) (lo cnt : N) : list entry := map tookE (fam pre w lo cnt).

(* repositories that all look the same *)
Definition repos_of (names : list bytes) (r : mrepo) : memreg := map (fun n => (n, r)) names.

Definition entry_eqb (a b : entry) : bool :=
  match a, b with
  | EItem u p, EItem v q => beqb u v && Bool.eqb p q
  | EErr c p, EErr d q => ecode_eqb c d && Bool.eqb p q
  | _, _ => false
  end.

Definition entry_of (c : call err bytes) : entry :=
  match fst c with
  | inl item => EItem item (snd c)
  | inr e => EErr (e_code e) (snd c)
  end.

Definition model_log (k : stack) (q : query) (start : bytes) (n : N) : list entry :=
  map entry_of (calls (listing k q start) (stop_at n) 0).

(* ---------------- the specification, on one log ---------------- *)

Definition log_items (l : list entry) : list bytes :=
  flat_map (fun e => match e with EItem x _ => [x] | _ => [] end) l.

(* every call but the last carried an item and was answered true; no junk *)
Fixpoint log_protocol (l : list entry) : bool :=
  match l with
  | [] => true
  | e :: rest =>
      match rest with
      | [] => match e with EBad _ => false | _ => true end
      | _ :: _ => match e with EItem _ true => log_protocol rest | _ => false end
      end
  end.

(* the i-th answer (from 1) is the one stop_at k gives *)
Fixpoint log_answers (k : N) (i : N) (l : list entry) : bool :=
  match l with
  | [] => true
  | e :: rest =>
      let want := negb (N.eqb i k) in
      match e with
      | EItem _ a | EErr _ a => Bool.eqb a want && log_answers k (N.succ i) rest
      | EBad _ => false
      end
  end.

Definition last_entry (l : list entry) : option entry := last_opt l.

Definition run_ok (k : stack) (q : query) (start : bytes) (run : N * list entry) : bool :=
  let (n, log) := run in
  let items := log_items log in
  let want := filter (after q start) (names k q) in
  log_protocol log && log_answers n 1 log
  && ascending items
  && forallb (fun x => mem_bytes x want) items
  && match fails k q with
     | FNo =>
         match last_entry log with
         | None => forallb (fun x => mem_bytes x items) want                  (* nothing to list *)
         | Some (EItem x false) =>                                           (* declined at x: the items up to x *)
             forallb (fun w => negb (bleb w x) || mem_bytes w items) want
         | Some (EItem _ true) => forallb (fun x => mem_bytes x items) want   (* complete *)
         | Some _ => false                                                   (* no error allowed *)
         end
     | f =>
         match last_entry log with
         | Some (EErr c _) =>
             match f with
             | FNotFound => ecode_eqb c NAME_UNKNOWN && match items with [] => true | _ => false end
             | _ => true
             end
         | Some (EItem _ false) => true                                      (* declined before the error *)
         | _ => false                                                        (* a failing listing must end with an error *)
         end
     end.

Definition log_eqb (a b : list entry) : bool := list_eqb entry_eqb a b.

(* ---------------- the specification, on one log of a cancelled listing ----------------

   The consumer never declines; the context handed to Repositories / Tags / Referrers becomes
   done (cancelled, or its deadline passes) during the consumer's j-th call.  The property:
   "An iteration either delivers the complete sequence or ends with an error, never a silently
   shortened list."  So, whatever layer looks at the context or ignores it:
     - the calls obey the protocol, every one was accepted, the items are ascending names of
       the listing after the start point (as in any run);
     - the log ends with an error call (the stack's own failure, or the context's error, which
       has no OCI code), OR it holds every name of the listing and the stack is not one that
       must fail.
   A log that just stops after some of the names is a violation. *)
Definition model_log_c (k : stack) (q : query) (start : bytes) (j : N) : list entry :=
  map entry_of (calls_c (listing_c k q start) j).

Definition run_ok_c (k : stack) (q : query) (start : bytes) (run : N * list entry) : bool :=
  let (j, log) := run in
  let items := log_items log in
  let want := filter (after q start) (names k q) in
  log_protocol log && log_answers 0 1 log                      (* every call accepted *)
  && ascending items
  && forallb (fun x => mem_bytes x want) items
  && match last_entry log with
     | Some (EErr _ _) => true                                   (* ended with an error *)
     | Some (EItem _ true) | None =>                             (* ended without one: complete, and nothing fails *)
         match fails k q with
         | FNo => forallb (fun x => mem_bytes x items) want
         | _ => false
         end
     | Some _ => false
     end.

(* the two judgements, as they read *)
Definition model_agrees_lit (c : case) : bool :=
  stack_wfb (c_stack c)
  && forallb (fun run => log_eqb (model_log (c_stack c) (c_query c) (c_start c) (fst run)) (snd run))
             (c_runs c)
  && forallb (fun run => log_eqb (model_log_c (c_stack c) (c_query c) (c_start c) (fst run)) (snd run))
             (c_cruns c).

Definition obs_ok_lit (c : case) : bool :=
  stack_wfb (c_stack c)
  && forallb (run_ok (c_stack c) (c_query c) (c_start c)) (c_runs c)
  && forallb (run_ok_c (c_stack c) (c_query c) (c_start c)) (c_cruns c).

(* a case is non-trivial when there is something to list and to cut: the listing holds at
   least two names, or it must fail *)
Definition nontrivial (c : case) : bool :=
  match fails (c_stack c) (c_query c) with
  | FNo => (2 <=? length (filter (after (c_query c) (c_start c)) (names (c_stack c) (c_query c))))%nat
  | _ => true
  end.

(* ---------------- the same two judgements, computed so that long listings are affordable ----------------

   [model_agrees] and [obs_ok] below are what the case files evaluate.  They have the same
   value as the literal definitions above on EVERY case (model_agrees_eq, obs_ok_eq); the
   difference is the cost: well-formedness by sorting, inclusions by one pass over sorted lists
   (Proofs/ListingFast.v), and - for a well-formed stack that must not fail and lists more than
   [long_listing] names - the model's log from its closed form (listing_closed) instead of by
   running the model, whose literal len / append bookkeeping is quadratic. *)

Definition long_listing : nat := 500.

(* is the model's log taken from the closed form? *)
Definition closed_form (k : stack) (q : query) (start : bytes) : bool :=
  match fails k q with
  | FNo => (long_listing <? length (filter (after q start) (names k q)))%nat
  | _ => false
  end.

(* ex: the names the closed form lists (computed once per case) *)
Definition model_log_fast (closed : bool) (ex : list bytes) (k : stack) (q : query) (start : bytes) (n : N) : list entry :=
  if closed then map entry_of (trace_of ex None (stop_at n) 0) else model_log k q start n.

(* run_ok with the inclusions by one pass over sorted lists ([walk]); fc and want - the names
   after the start point, sorted - are computed once per case *)
Definition run_ok_with (fc : fclass) (want : list bytes) (run : N * list entry) : bool :=
  let (n, log) := run in
  let items := log_items log in
  log_protocol log && log_answers n 1 log
  && (if ascending items then
        walk items want
        && match fc with
           | FNo =>
               match last_entry log with
               | None => walk want items
               | Some (EItem x false) => walk (filter (fun w => bleb w x) want) items
               | Some (EItem _ true) => walk want items
               | Some _ => false
               end
           | f =>
               match last_entry log with
               | Some (EErr c _) =>
                   match f with
                   | FNotFound => ecode_eqb c NAME_UNKNOWN && match items with [] => true | _ => false end
                   | _ => true
                   end
               | Some (EItem _ false) => true
               | _ => false
               end
           end
      else false).

Definition model_agrees (c : case) : bool :=
  let k := c_stack c in
  let q := c_query c in
  let start := c_start c in
  let closed := closed_form k q start in
  let ex := if closed then expected k q start else [] in
  stack_wfb_fast k
  && forallb (fun run => log_eqb (model_log_fast closed ex k q start (fst run)) (snd run)) (c_runs c)
  && forallb (fun run => log_eqb (model_log_c k q start (fst run)) (snd run)) (c_cruns c).

Definition obs_ok (c : case) : bool :=
  let k := c_stack c in
  let q := c_query c in
  let fc := fails k q in
  let want := norm (filter (after q (c_start c)) (names k q)) in     (* sorted once *)
  stack_wfb_fast k && forallb (run_ok_with fc want) (c_runs c)
  && forallb (run_ok_c k q (c_start c)) (c_cruns c).

Lemma model_log_fast_eq k q start n :
  stack_wfb k = true ->
  model_log_fast (closed_form k q start) (if closed_form k q start then expected k q start else []) k q start n
  = model_log k q start n.
Proof.
  intros Hw. unfold model_log_fast, closed_form. destruct (fails k q) eqn:Hf; try reflexivity.
  destruct (long_listing <? _)%nat; [|reflexivity].
  unfold model_log. now rewrite (listing_closed k q start N (stop_at n) 0%N Hw Hf).
Qed.

Lemma forallb_ext_in {A} (f g : A -> bool) l : (forall a, In a l -> f a = g a) -> forallb f l = forallb g l.
Proof.
  induction l as [|a l IH]; intros H; cbn; [reflexivity|].
  rewrite (H a (or_introl eq_refl)), IH; auto. intros b Hb. apply H. now right.
Qed.

Lemma forallb_same_members {A} (f : A -> bool) l1 l2 :
  (forall x, In x l1 <-> In x l2) -> forallb f l1 = forallb f l2.
Proof.
  intros H. destruct (forallb f l2) eqn:E.
  - rewrite forallb_forall in *. intros x Hx. apply E. now apply H.
  - destruct (forallb f l1) eqn:E1; [|reflexivity].
    assert (forallb f l2 = true); [|congruence].
    rewrite forallb_forall in *. intros x Hx. apply E1. now apply H.
Qed.

Lemma mem_bytes_same x l1 l2 : (forall y, In y l1 <-> In y l2) -> mem_bytes x l1 = mem_bytes x l2.
Proof.
  intros H. destruct (mem_bytes x l2) eqn:E.
  - apply mem_bytes_In. apply H. now apply mem_bytes_In.
  - destruct (mem_bytes x l1) eqn:E1; [|reflexivity].
    apply mem_bytes_In in E1. apply H in E1. apply mem_bytes_In in E1. congruence.
Qed.

Lemma filter_same_members {A} (p : A -> bool) l1 l2 :
  (forall x, In x l1 <-> In x l2) -> forall x, In x (filter p l1) <-> In x (filter p l2).
Proof. intros H x. rewrite !filter_In, H. tauto. Qed.

Lemma run_ok_with_eq k q start run :
  run_ok_with (fails k q) (norm (filter (after q start) (names k q))) run = run_ok k q start run.
Proof.
  destruct run as [n log]. unfold run_ok_with, run_ok.
  set (W := filter (after q start) (names k q)). set (items := log_items log).
  assert (HW : forall x, In x (norm W) <-> In x W) by (intros x; apply norm_In).
  rewrite <- !andb_assoc. f_equal. f_equal.
  destruct (ascending items) eqn:A; [|reflexivity]. cbn [andb].
  assert (Hi : norm items = items) by (apply norm_id; now apply ascending_spec).
  assert (walk items (norm W) = forallb (fun x => mem_bytes x W) items) as ->.
  { rewrite <- Hi at 1. rewrite <- (norm_norm W). fold (incl_b items (norm W)). rewrite incl_b_eq.
    apply forallb_ext_in. intros x _. now apply mem_bytes_same. }
  f_equal.
  assert (Hall : walk (norm W) items = forallb (fun x => mem_bytes x items) W).
  { rewrite <- Hi at 1. rewrite <- (norm_norm W). fold (incl_b (norm W) items). rewrite incl_b_eq.
    now apply forallb_same_members. }
  destruct (fails k q); try reflexivity.
  destruct (last_entry log) as [[x [|]|c a|w]|]; try reflexivity; try exact Hall.
  rewrite forallb_impl_filter.
  rewrite <- Hi at 1.
  rewrite <- (norm_id (filter (fun w => bleb w x) (norm W))) by (apply ssorted_filter, norm_ssorted).
  fold (incl_b (filter (fun w => bleb w x) (norm W)) items). rewrite incl_b_eq.
  apply forallb_same_members. now apply filter_same_members.
Qed.

Theorem model_agrees_eq c : model_agrees c = model_agrees_lit c.
Proof.
  unfold model_agrees, model_agrees_lit. cbv zeta. rewrite stack_wfb_fast_eq.
  destruct (stack_wfb (c_stack c)) eqn:Hw; [|reflexivity]. cbn [andb]. f_equal.
  apply forallb_ext_in. intros run _. now rewrite model_log_fast_eq.
Qed.

Theorem obs_ok_eq c : obs_ok c = obs_ok_lit c.
Proof.
  unfold obs_ok, obs_ok_lit. cbv zeta. rewrite stack_wfb_fast_eq. f_equal. f_equal.
  apply forallb_ext_in. intros run _. apply run_ok_with_eq.
Qed.

(* ---------------- corr_sound ---------------- *)

Lemma entry_eqb_eq a b : entry_eqb a b = true -> a = b.
Proof.
  destruct a as [u p|c p|w], b as [v q|d q|w']; cbn; try discriminate; intros H.
  - apply andb_true_iff in H as [H1 H2]. apply beqb_eq in H1. apply Bool.eqb_prop in H2. now subst.
  - apply andb_true_iff in H as [H1 H2]. apply ecode_eqb_eq in H1. apply Bool.eqb_prop in H2. now subst.
Qed.

Lemma log_eqb_eq a b : log_eqb a b = true -> a = b.
Proof.
  unfold log_eqb. revert b; induction a as [|x a IH]; intros [|y b]; cbn; try discriminate; auto.
  intros H. apply andb_true_iff in H as [H1 H2]. apply entry_eqb_eq in H1. apply IH in H2. now subst.
Qed.

(* the two shapes a trace of the canonical iterator can have: everything was handed over
   (then the error, if any), or the consumer declined some item x *)
Definition took (x : bytes) : call err bytes := (inl x, true).

Lemma trace_shape {S} (xs : list bytes) (oe : option err) (y : consumer err bytes S) s :
  (exists tl, trace_of xs oe y s = map took xs ++ tl /\
              match oe with None => tl = [] | Some e => exists b, tl = [(inr e, b)] end)
  \/ (exists pre x post, xs = pre ++ x :: post /\ trace_of xs oe y s = map took pre ++ [(inl x, false)]).
Proof.
  revert s; induction xs as [|x xs IH]; intros s.
  - left. cbn. destruct oe as [e|]; eauto.
  - cbn [trace_of]. destruct (y (inl x) s) as [s1 ok]. destruct ok.
    + destruct (IH s1) as [(tl & Ht & Htl) | (pre & z & post & Hx & Ht)].
      * left. exists tl. rewrite Ht. auto.
      * right. exists (x :: pre), z, post. rewrite Ht, Hx. auto.
    + right. exists [], x, xs. auto.
Qed.

Lemma log_answers_trace xs oe k c :
  log_answers k (N.succ c) (map entry_of (trace_of xs oe (stop_at k) c)) = true.
Proof.
  revert c; induction xs as [|x xs IH]; intros c.
  - cbn. destruct oe as [e|]; cbn; [|reflexivity]. rewrite andb_true_r. apply Bool.eqb_true_iff. reflexivity.
  - cbn [trace_of stop_at]. destruct (negb (N.succ c =? k)%N) eqn:E; cbn; rewrite E; cbn.
    + apply IH.
    + reflexivity.
Qed.

Lemma map_entry_took l : map entry_of (map took l) = map tookE l.
Proof. rewrite map_map. reflexivity. Qed.

Lemma log_protocol_took pre tl :
  match tl with
  | [] => True
  | [EBad _] => False
  | [_] => True
  | _ => False
  end -> log_protocol (map tookE pre ++ tl) = true.
Proof.
  intros Htl. induction pre as [|a pre IH].
  - cbn. destruct tl as [|e [|? ?]]; try tauto; destruct e; tauto.
  - cbn [map app log_protocol]. destruct (map tookE pre ++ tl) eqn:E; [reflexivity | exact IH].
Qed.

Lemma log_items_took pre tl : log_items (map tookE pre ++ tl) = pre ++ log_items tl.
Proof. induction pre as [|a pre IH]; cbn; [reflexivity|]. unfold log_items in IH. now rewrite IH. Qed.

Lemma last_entry_app l e : last_entry (l ++ [e]) = Some e.
Proof. apply last_opt_app. Qed.

Lemma last_entry_took pre :
  last_entry (map tookE pre) = match last_opt pre with Some x => Some (EItem x true) | None => None end.
Proof.
  unfold last_entry. induction pre as [|a pre IH]; [reflexivity|].
  cbn [map last_opt]. destruct pre as [|b pre]; [reflexivity|]. exact IH.
Qed.

Lemma forallb_mem_incl l want : (forall x, In x l -> In x want) -> forallb (fun x => mem_bytes x want) l = true.
Proof. intros H. apply forallb_forall. intros x Hx. apply mem_bytes_In. auto. Qed.

Lemma blt_not_bleb a b : blt a b -> bleb b a = false.
Proof.
  intros H. destruct (bleb b a) eqn:E; [|reflexivity]. apply bleb_le in E.
  exfalso. pose proof (ble_blt_trans _ _ _ E H) as Hbb. apply bltb_lt in Hbb. now rewrite bltb_irrefl in Hbb.
Qed.

Lemma ssorted_prefix pre x post : ssorted (pre ++ x :: post) -> ssorted (pre ++ [x]).
Proof.
  intros H. replace (pre ++ x :: post) with ((pre ++ [x]) ++ post) in H by now rewrite <- app_assoc.
  now apply ssorted_app_inv in H.
Qed.

(* the log of a listing that satisfies [lgood] passes the specification *)
Lemma run_ok_lgood k q start it n :
  lgood (names k q) (fails k q) (after q start) it ->
  run_ok k q start (n, map entry_of (calls it (stop_at n) 0)) = true.
Proof.
  intros (xs & oe & Hrep & Hs & Hin & Hfc).
  rewrite (calls_represents _ _ _ (stop_at n) 0%N Hrep).
  unfold run_ok. set (want := filter (after q start) (names k q)).
  assert (Hwant : forall x, In x xs -> In x want).
  { intros x Hx. apply filter_In. now apply Hin. }
  pose proof (log_answers_trace xs oe n 0) as Hans. change (N.succ 0) with 1%N in Hans. rewrite Hans.
  rewrite andb_true_r.
  destruct (trace_shape xs oe (stop_at n) 0%N) as [(tl & Ht & Htl) | (pre & x & post & Hx & Ht)];
    rewrite Ht, map_app, map_entry_took.
  - (* everything was handed over *)
    assert (Hitems : log_items (map tookE xs ++ map entry_of tl) = xs).
    { rewrite log_items_took. destruct oe as [e|]; [destruct Htl as [b ->] | subst tl]; cbn; apply app_nil_r. }
    rewrite Hitems.
    assert (log_protocol (map tookE xs ++ map entry_of tl) = true) as ->.
    { apply log_protocol_took. destruct oe as [e|]; [destruct Htl as [b ->] | subst tl]; cbn; exact I. }
    assert (ascending xs = true) as -> by now apply ascending_spec.
    rewrite (forallb_mem_incl xs want Hwant). cbn [andb].
    destruct (fails k q).
    + destruct Hfc as [-> Hc]. subst tl. cbn [map]. rewrite app_nil_r, last_entry_took.
      assert (Hall : forallb (fun x => mem_bytes x xs) want = true).
      { apply forallb_mem_incl. intros x Hx. apply filter_In in Hx as [H1 H2]. auto. }
      destruct (last_opt xs); exact Hall.
    + destruct Hfc as (Hnm & e & -> & He). destruct Htl as [b ->].
      assert (xs = []) as ->.
      { destruct xs as [|x xs]; auto. destruct (Hin x (or_introl eq_refl)) as [H _]. rewrite Hnm in H. destruct H. }
      cbn. cbn in He. now rewrite He.
    + destruct Hfc as (e & -> & He). destruct Htl as [b ->]. cbn [map]. now rewrite last_entry_app.
  - (* declined at x *)
    assert (Hitems : log_items (map tookE pre ++ map entry_of [(inl x, false)]) = pre ++ [x]).
    { now rewrite log_items_took. }
    rewrite Hitems.
    assert (log_protocol (map tookE pre ++ map entry_of [(inl x, false)]) = true) as ->.
    { apply log_protocol_took. exact I. }
    assert (Hs' : ssorted (pre ++ [x])) by (apply (ssorted_prefix pre x post); now rewrite <- Hx).
    assert (ascending (pre ++ [x]) = true) as -> by now apply ascending_spec.
    assert (Hpre : forall w, In w (pre ++ [x]) -> In w xs).
    { intros w Hw. rewrite Hx. apply in_app_or in Hw as [Hw|[<-|[]]]; apply in_or_app; [now left | right; now left]. }
    rewrite (forallb_mem_incl (pre ++ [x]) want) by auto. cbn [andb].
    cbn [map]. rewrite last_entry_app. change (entry_of (inl x, false)) with (EItem x false).
    destruct (fails k q); auto.
    destruct Hfc as [-> Hc]. apply forallb_forall. intros w Hw. apply filter_In in Hw as [H1 H2].
    specialize (Hc w H1 H2). rewrite Hx in Hc. apply in_app_or in Hc as [Hc|[<-|Hc]].
    + apply orb_true_iff. right. apply mem_bytes_In. apply in_or_app. now left.
    + apply orb_true_iff. right. apply mem_bytes_In. apply in_or_app. right. now left.
    + apply orb_true_iff. left. apply negb_true_iff. apply blt_not_bleb.
      rewrite Hx in Hs. apply ssorted_app_inv in Hs as (_ & Hs & _).
      apply ssorted_cons_inv in Hs as [_ Hf]. rewrite Forall_forall in Hf. auto.
Qed.

(* model_agrees c -> obs_ok c: what the model predicts for a well-formed stack satisfies the
   specification (by the stack theorem), and the observation equals the prediction *)
(* the log of a cancelled listing: what the cancelling consumer sees of a canonical iterator *)
Lemma log_answers_accepted l tl c :
  match tl with
  | [] => True
  | [EErr _ true] => True
  | _ => False
  end -> log_answers 0 (N.succ c) (map tookE l ++ tl) = true.
Proof.
  intros Htl. revert c; induction l as [|a l IH]; intros c.
  - cbn [map app]. destruct tl as [|e0 tl']; [reflexivity|].
    destruct e0 as [x a|e a|w]; try tauto. destruct tl'; [|destruct a; tauto]. destruct a; [|tauto].
    cbn [log_answers]. assert ((N.succ c =? 0)%N = false) as -> by apply N.eqb_neq, N.neq_succ_0. reflexivity.
  - cbn [map app log_answers tookE]. rewrite IH.
    assert ((N.succ c =? 0)%N = false) as -> by apply N.eqb_neq, N.neq_succ_0. reflexivity.
Qed.

Lemma run_ok_c_trace k q start j xs oe :
  ssorted xs -> (forall x, In x xs -> In x (filter (after q start) (names k q))) ->
  match oe with
  | Some _ => True
  | None => fails k q = FNo /\ forall x, In x (filter (after q start) (names k q)) -> In x xs
  end ->
  run_ok_c k q start (j, map entry_of (trace_of xs oe (cancel_at j) 0)) = true.
Proof.
  intros Hs Hin Hend. rewrite trace_cancel, map_app, map_map.
  change (map (fun x => entry_of (inl x, true)) xs) with (map tookE xs).
  unfold run_ok_c. cbv beta iota zeta.
  assert (Ha : ascending xs = true) by now apply ascending_spec.
  destruct oe as [e|]; cbn [map].
  - change (entry_of (inr e, true)) with (EErr (e_code e) true).
    rewrite (log_protocol_took xs [EErr (e_code e) true] I).
    pose proof (log_answers_accepted xs [EErr (e_code e) true] 0 I) as Hans.
    change (N.succ 0) with 1%N in Hans. rewrite Hans.
    rewrite log_items_took. cbn [log_items flat_map app]. rewrite app_nil_r, Ha.
    rewrite (forallb_mem_incl xs _ Hin). cbn [andb]. now rewrite last_entry_app.
  - rewrite app_nil_r.
    rewrite <- (app_nil_r (map tookE xs)) at 1 2.
    rewrite (log_protocol_took xs [] I).
    pose proof (log_answers_accepted xs [] 0 I) as Hans.
    change (N.succ 0) with 1%N in Hans. rewrite Hans.
    pose proof (log_items_took xs []) as Hi. change (log_items []) with (@nil bytes) in Hi.
    rewrite !app_nil_r in Hi. rewrite !Hi, Ha.
    rewrite (forallb_mem_incl xs _ Hin). cbn [andb]. rewrite last_entry_took. destruct Hend as [-> Hall].
    assert (forallb (fun x => mem_bytes x xs) (filter (after q start) (names k q)) = true) as Hc
      by now apply forallb_mem_incl.
    destruct (last_opt xs); exact Hc.
Qed.

(* what the model predicts for a cancelled listing of a well-formed stack satisfies the
   specification: by listing_c_calls it is the complete listing or a prefix with the context
   error, and by the stack theorem the complete listing is the right one *)
Lemma run_ok_c_model k q start j :
  stack_wfb k = true -> run_ok_c k q start (j, model_log_c k q start j) = true.
Proof.
  intros Hw. unfold model_log_c.
  destruct (stack_listing k q start Hw) as (xs & oe & Hrep & Hs & Hin & Hfc).
  destruct (listing_c_calls k q start j) as (xs' & oe' & Hrep' & Hc).
  destruct (represents_unique _ _ _ _ _ Hrep Hrep') as [<- <-].
  assert (Hwant : forall x, In x xs -> In x (filter (after q start) (names k q))).
  { intros x Hx. apply filter_In. now apply Hin. }
  destruct Hc as [-> | (pre & post & Hx & ->)].
  - apply run_ok_c_trace; auto. destruct oe as [e|]; [exact I|].
    destruct (fails k q).
    + split; [reflexivity|]. destruct Hfc as [_ Hall]. intros x Hx. apply filter_In in Hx as [H1 H2]. auto.
    + destruct Hfc as (_ & e & He & _). discriminate.
    + destruct Hfc as (e & He & _). discriminate.
  - apply run_ok_c_trace.
    + rewrite Hx in Hs. now apply ssorted_app_inv in Hs.
    + intros x Hp. apply Hwant. rewrite Hx. apply in_or_app. now left.
    + exact I.
Qed.

Lemma corr_sound_lit c : model_agrees_lit c = true -> obs_ok_lit c = true.
Proof.
  unfold model_agrees_lit, obs_ok_lit. intros H. apply andb_true_iff in H as [H Hcruns].
  apply andb_true_iff in H as [Hw Hruns].
  rewrite Hw. cbn [andb]. apply andb_true_iff. split.
  - apply forallb_forall. intros [n log] Hrun.
    rewrite forallb_forall in Hruns. specialize (Hruns _ Hrun). cbn [fst snd] in Hruns.
    apply log_eqb_eq in Hruns. subst log.
    unfold model_log. apply run_ok_lgood. now apply stack_listing.
  - apply forallb_forall. intros [j log] Hrun.
    rewrite forallb_forall in Hcruns. specialize (Hcruns _ Hrun). cbn [fst snd] in Hcruns.
    apply log_eqb_eq in Hcruns. subst log. now apply run_ok_c_model.
Qed.

Lemma corr_sound c : model_agrees c = true -> obs_ok c = true.
Proof. rewrite model_agrees_eq, obs_ok_eq. apply corr_sound_lit. Qed.

Definition mismatches (cs : list case) : list (N * bool) :=
  bad_from 0 (fun c => if model_agrees c then None else Some (obs_ok c)) cs.
Definition bad_obs (cs : list case) : list (N * bool) :=
  bad_from 0 (fun c => if obs_ok c then None else Some (model_agrees c)) cs.
