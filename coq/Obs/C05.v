(* Correspondence for C05: the yield-call logs the harness recorded on real registries
   (ocimem, ociclient over ociserver, ocifilter.Select / Sub, ociunify, ocidebug, in
   combinations) versus the model (Model/Listing.v) and versus the property's
   specification. *)
From Coq Require Import String.
From OCI Require Export Base.Outcome Model.Listing Model.ListingSpec.
From OCI Require Import Proofs.Seq Proofs.Listing.

(* one yield call as the harness saw it *)
Inductive entry :=
  | EItem (item : bytes) (answer : bool)      (* yield(item, nil) and what the consumer answered *)
  | EErr (code : ecode) (answer : bool)       (* yield("", err): the error's OCI code *)
  | EBad (what : bytes).                      (* anything else, e.g. an item together with an error *)

(* one listing configuration, run against the consumers stop_at k for several k *)
Record case := {
  c_stack : stack;
  c_query : query;
  c_start : bytes;
  c_runs : list (N * list entry)     (* k, the log of yield calls *)
}.

Definition entry_eqb (a b : entry) : bool :=
  match a, b with
  | EItem u p, EItem v q => beqb u v && Bool.eqb p q
  | EErr c p, EErr d q => ecode_eqb c d && Bool.eqb p q
  | _, _ => false
  end.

Definition entry_of (c : call err bytes) : entry :=
  match fst c with
  | inl item => EItem item (snd c)
  | inr e => EErr (e_code e) (snd c)
  end.

Definition model_log (k : stack) (q : query) (start : bytes) (n : N) : list entry :=
  map entry_of (calls (listing k q start) (stop_at n) 0).

(* ---------------- the specification, on one log ---------------- *)

Definition log_items (l : list entry) : list bytes :=
  flat_map (fun e => match e with EItem x _ => [x] | _ => [] end) l.

(* every call but the last carried an item and was answered true; no junk *)
Fixpoint log_protocol (l : list entry) : bool :=
  match l with
  | [] => true
  | e :: rest =>
      match rest with
      | [] => match e with EBad _ => false | _ => true end
      | _ :: _ => match e with EItem _ true => log_protocol rest | _ => false end
      end
  end.

(* the i-th answer (from 1) is the one stop_at k gives *)
Fixpoint log_answers (k : N) (i : N) (l : list entry) : bool :=
  match l with
  | [] => true
  | e :: rest =>
      let want := negb (N.eqb i k) in
      match e with
      | EItem _ a | EErr _ a => Bool.eqb a want && log_answers k (N.succ i) rest
      | EBad _ => false
      end
  end.

Definition last_entry (l : list entry) : option entry := last_opt l.

Definition run_ok (k : stack) (q : query) (start : bytes) (run : N * list entry) : bool :=
  let (n, log) := run in
  let items := log_items log in
  let want := filter (after q start) (names k q) in
  log_protocol log && log_answers n 1 log
  && ascending items
  && forallb (fun x => mem_bytes x want) items
  && match fails k q with
     | FNo =>
         match last_entry log with
         | None => forallb (fun x => mem_bytes x items) want                  (* nothing to list *)
         | Some (EItem x false) =>                                           (* declined at x: the items up to x *)
             forallb (fun w => negb (bleb w x) || mem_bytes w items) want
         | Some (EItem _ true) => forallb (fun x => mem_bytes x items) want   (* complete *)
         | Some _ => false                                                   (* no error allowed *)
         end
     | f =>
         match last_entry log with
         | Some (EErr c _) =>
             match f with
             | FNotFound => ecode_eqb c NAME_UNKNOWN && match items with [] => true | _ => false end
             | _ => true
             end
         | Some (EItem _ false) => true                                      (* declined before the error *)
         | _ => false                                                        (* a failing listing must end with an error *)
         end
     end.

Definition log_eqb (a b : list entry) : bool := list_eqb entry_eqb a b.

Definition model_agrees (c : case) : bool :=
  stack_wfb (c_stack c)
  && forallb (fun run => log_eqb (model_log (c_stack c) (c_query c) (c_start c) (fst run)) (snd run))
             (c_runs c).

Definition obs_ok (c : case) : bool :=
  stack_wfb (c_stack c)
  && forallb (run_ok (c_stack c) (c_query c) (c_start c)) (c_runs c).

(* a case is non-trivial when there is something to list and to cut: the listing holds at
   least two names, or it must fail *)
Definition nontrivial (c : case) : bool :=
  match fails (c_stack c) (c_query c) with
  | FNo => (2 <=? length (filter (after (c_query c) (c_start c)) (names (c_stack c) (c_query c))))%nat
  | _ => true
  end.

Definition mismatches (cs : list case) : list (N * bool) :=
  bad_from 0 (fun c => if model_agrees c then None else Some (obs_ok c)) cs.
Definition bad_obs (cs : list case) : list (N * bool) :=
  bad_from 0 (fun c => if obs_ok c then None else Some (model_agrees c)) cs.
