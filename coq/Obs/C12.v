(* Correspondence for C12: what the harness observed on ocifilter.AccessChecker and
   ocifilter.Select over a recording backend, versus the model (Model/Filter.v) and versus
   the property's specification. *)
From Coq Require Import String.
From OCI Require Export Base.Outcome Model.Filter.
From OCI Require Import Proofs.Funcs Proofs.FilterSelect.

(* ---------- the policy, as data ---------- *)

Fixpoint rule_lookup (rules : list (bytes * akind * option err)) (r : bytes) (k : akind) : option (option err) :=
  match rules with
  | [] => None
  | (r', k', v) :: rules' => if beqb r r' && akind_eqb k k' then Some v else rule_lookup rules' r k
  end.

Fixpoint name_lookup (names : list (bytes * bool)) (r : bytes) : option bool :=
  match names with
  | [] => None
  | (r', v) :: names' => if beqb r r' then Some v else name_lookup names' r
  end.

Inductive policy :=
  (* AccessChecker(r, check): check answers by the first matching rule, else the default *)
  | PCheck (rules : list (bytes * akind * option err)) (default : option err)
  (* Select(r, allow) *)
  | PAllow (names : list (bytes * bool)) (default : bool).

Definition check_of rules default : checker :=
  fun r k => match rule_lookup rules r k with Some v => v | None => default end.
Definition allow_of names default : bytes -> bool :=
  fun r => match name_lookup names r with Some v => v | None => default end.

(* ---------- the recording backend, as the script of its answers ---------- *)

Definition script := list (op * result).
Definition script_mismatch : result := Err (E (ECustom (s "script")) (s "backend call not in the script")).

(* the model's backend: answers the calls the real backend answered, in the same order *)
Definition script_step : registry script := fun sc o =>
  match sc with
  | (o', r) :: rest => if op_eqb o o' then (rest, r) else (sc, script_mismatch)
  | [] => (sc, script_mismatch)
  end.

Inductive case :=
  (* a history through a wrapper: per operation the result the caller saw and the backend
     calls made during it with the backend's answers. ctx_done: every call of the history
     was made with a context that is already cancelled. Neither the model nor the
     specification looks at it: the property makes the outcome a matter of the policy and
     of the wrapped registry alone (the recording backend answers a cancelled context like
     any other), so a wrapper that answers a cancelled context itself disagrees with both *)
  | CHist (ctx_done : bool) (p : policy) (hist : list op) (obs : list (result * list (op * result)))
  (* Repositories yield by yield: the backend's raw yields, the index of the yield at which
     the consumer says stop, the yields the consumer received, the number of backend yields
     that were delivered *)
  | CSeq (p : policy) (start : bytes) (evs : list yld) (stop : option N)
         (ys : list yld) (delivered : N)
  (* a method promoted from the embedded Funcs field: is that field nil, what the call
     returned, how many calls reached the policy and the backend *)
  | CPromoted (p : policy) (m : method) (embedded_nil : bool) (r : result) (ncalls : N).

Definition model_step (p : policy) : tstep script op :=
  with_embedded_funcs declared_all
    match p with
    | PCheck rules d => access_checker (check_of rules d) script_step
    | PAllow names d => select (allow_of names d) script_step
    end.

Definition model_keep (p : policy) : bytes -> option bytes :=
  match p with
  | PCheck rules d => ac_keep (check_of rules d)
  | PAllow names d => ac_keep (select_check (allow_of names d))
  end.

Definition stop_fn (stop : option N) : nat -> bool :=
  fun i => match stop with Some k => negb (Nat.eqb i (N.to_nat k)) | None => true end.

Definition yld_eqb : yld -> yld -> bool := pair_eqb beqb (option_eqb err_eqb).
Definition obs_eqb : result * list op -> result * list op -> bool :=
  pair_eqb result_eqb (list_eqb op_eqb).

Definition model_agrees (c : case) : bool :=
  match c with
  | CHist _ p hist obs =>
      list_eqb obs_eqb (map (fun x => (fst x, map fst (snd x))) obs)
               (snd (trun (model_step p) (concat (map snd obs)) hist))
  | CSeq p start evs stop ys delivered =>
      let '(ys', n) := repos_drive (model_keep p) (stop_fn stop) 0 evs in
      list_eqb yld_eqb ys ys' && N.eqb delivered (N.of_nat n)
  | CPromoted p m embedded_nil r ncalls =>
      embedded_nil && result_eqb r (promoted_result m) && N.eqb ncalls 0
  end.

(* ---------- the specification, read off the property ---------- *)

(* does the policy reject (name, kind), and with which error; for Select: name-unknown for
   read, list and delete, denied for write *)
Definition rejects (p : policy) (r : bytes) (k : akind) : option err :=
  match p with
  | PCheck rules d => check_of rules d r k
  | PAllow names d =>
      if allow_of names d r then None
      else Some match k with AccessWrite => ErrDenied | _ => ErrNameUnknown end
  end.

(* the kind of access a method needs *)
Definition method_kind (m : method) : akind :=
  match m with
  | MGetBlob | MGetBlobRange | MGetManifest | MGetTag
  | MResolveBlob | MResolveManifest | MResolveTag => AccessRead
  | MPushBlob | MPushBlobChunked | MPushBlobChunkedResume | MMountBlob | MPushManifest => AccessWrite
  | MDeleteBlob | MDeleteManifest | MDeleteTag => AccessDelete
  | MRepositories | MTags | MReferrers => AccessList
  end.

(* the repositories an operation involves, each with the access needed on it: the source
   of a mount is read, everything else is accessed in the method's own way *)
Definition involved (m : method) (o : op) : list (bytes * akind) :=
  match o with
  | MountBlob f t _ => [(f, AccessRead); (t, AccessWrite)]
  | _ => map (fun r => (r, method_kind m)) (op_repos o)
  end.

Fixpoint first_rejection (p : policy) (l : list (bytes * akind)) : option err :=
  match l with
  | [] => None
  | (r, k) :: l' => match rejects p r k with Some e => Some e | None => first_rejection p l' end
  end.

(* the error reaches the caller: as the error result, or as an iterator of exactly one
   yield carrying it; a Select rejection is identified by its code *)
Definition same_rejection (p : policy) (e e' : err) : bool :=
  match p with
  | PCheck _ _ => err_eqb e e'
  | PAllow _ _ => ecode_eqb (e_code e) (e_code e')
  end.

Definition rejection_delivered (p : policy) (m : method) (e : err) (r : result) : bool :=
  match m, r with
  | MRepositories, Ok (RList [] (Some e')) | MTags, Ok (RList [] (Some e')) => same_rejection p e e'
  | MReferrers, Ok (RDescs [] (Some e')) => same_rejection p e e'
  | MRepositories, _ | MTags, _ | MReferrers, _ => false
  | _, Err e' => same_rejection p e e'
  | _, _ => false
  end.

Definition listable (p : policy) (r : bytes) : bool :=
  match rejects p r AccessRead with None => true | Some _ => false end.

Definition spec_op (p : policy) (o : op) (r : result) (calls : list (op * result)) : bool :=
  match op_method o with
  | None =>
      (* use of a writer obtained earlier: the backend's writer *)
      match calls with [(o', br)] => op_eqb o' o && result_eqb r br | _ => false end
  | Some MRepositories =>
      match (match p with PCheck _ _ => rejects p star AccessList | PAllow _ _ => None end) with
      | Some e => match calls with [] => rejection_delivered p MRepositories e r | _ => false end
      | None =>
          match calls with
          | [(o', Ok (RList l e))] =>
              op_eqb o' o && result_eqb r (Ok (RList (filter (listable p) l) e))
          | [(o', br)] => op_eqb o' o && result_eqb r br
          | _ => false
          end
      end
  | Some m =>
      match first_rejection p (involved m o) with
      | Some e => match calls with [] => rejection_delivered p m e r | _ => false end
      | None => match calls with [(o', br)] => op_eqb o' o && result_eqb r br | _ => false end
      end
  end.

Fixpoint spec_hist (p : policy) (hist : list op) (obs : list (result * list (op * result))) : bool :=
  match hist, obs with
  | [], [] => true
  | o :: hist', (r, calls) :: obs' => spec_op p o r calls && spec_hist p hist' obs'
  | _, _ => false
  end.

Fixpoint first_error (evs : list yld) : list yld :=
  match evs with
  | [] => []
  | (_, Some e) :: _ => [([], Some e)]
  | (_, None) :: evs' => first_error evs'
  end.

(* everything a consumer that never stops is owed: the listable names that the backend
   yields before its first error, in the backend's order, then that error *)
Definition owed (p : policy) (evs : list yld) : list yld :=
  map (fun r => (r, None)) (filter (listable p) (items_before_error evs)) ++ first_error evs.

Definition obs_ok (c : case) : bool :=
  match c with
  | CHist _ p hist obs => spec_hist p hist obs
  | CSeq p start evs stop ys delivered =>
      list_eqb yld_eqb ys
        match stop with
        | None => owed p evs
        | Some k => firstn (S (N.to_nat k)) (owed p evs)
        end
  | CPromoted p m embedded_nil r ncalls =>
      (* fails closed: an unsupported-operation error and nothing called *)
      match result_error r with
      | Some e => ecode_eqb (e_code e) UNSUPPORTED && N.eqb ncalls 0
      | None => false
      end
  end.

(* non-trivial: the case involves a repository and the policy is not constant (it can tell
   a wrapper that checks the wrong name or kind from one that checks the right one), or it
   is a listing with something to filter, or a promoted method *)
Definition policy_mixed (p : policy) : bool :=
  match p with
  | PCheck rules d =>
      existsb (fun x => match snd x, d with Some _, None | None, Some _ => true | _, _ => false end) rules
  | PAllow names d => existsb (fun x => negb (Bool.eqb (snd x) d)) names
  end.

Definition nontrivial (c : case) : bool :=
  match c with
  | CHist _ p hist obs => policy_mixed p && existsb (fun o => match op_repos o with [] => false | _ => true end) hist
  | CSeq p start evs stop ys delivered =>
      existsb (fun y => match snd y with None => negb (listable p (fst y)) | Some _ => true end) evs
  | CPromoted _ _ _ _ _ => true
  end.

(* ---------- corr_sound ---------- *)

Lemma rejects_check rules d r k : rejects (PCheck rules d) r k = check_of rules d r k.
Proof. reflexivity. Qed.

Lemma rejects_select names d r k :
  rejects (PAllow names d) r k = select_check (allow_of names d) r k.
Proof.
  cbn. unfold select_check. destruct (allow_of names d r); [reflexivity|]. destruct k; reflexivity.
Qed.

Definition policy_checker (p : policy) : checker :=
  match p with
  | PCheck rules d => check_of rules d
  | PAllow names d => select_check (allow_of names d)
  end.
Definition policy_listAll (p : policy) : bool :=
  match p with PCheck _ _ => false | PAllow _ _ => true end.

Lemma rejects_policy p r k : rejects p r k = policy_checker p r k.
Proof. destruct p; [reflexivity | apply rejects_select]. Qed.

Lemma model_step_ac p st o :
  model_step p st o = ac_step (policy_checker p) (policy_listAll p) script_step st o.
Proof. unfold model_step. rewrite declared_all_is_step. destruct p; reflexivity. Qed.

Lemma first_rejection_denial p l : first_rejection p l = first_denial (policy_checker p) l.
Proof.
  induction l as [|[r k] l IH]; cbn; [reflexivity|]. rewrite rejects_policy, IH. reflexivity.
Qed.

Lemma involved_checks o m : op_method o = Some m -> m <> MRepositories -> involved m o = pre_checks (policy_listAll (PCheck [] None)) o /\ forall la, pre_checks la o = involved m o.
Proof.
  intros Hm Hn. destruct o; cbn in Hm; try discriminate; injection Hm as <-; cbn; split; try reflexivity;
    try (intros la; reflexivity); congruence.
Qed.

Lemma same_rejection_refl p e : same_rejection p e e = true.
Proof. destruct p; cbn; [apply err_eqb_refl | now apply ecode_eqb_eq]. Qed.

Lemma result_eqb_refl r : result_eqb r r = true.
Proof. now apply result_eqb_eq. Qed.

Lemma listable_visible p l : filter (listable p) l = filter (visible (policy_checker p)) l.
Proof.
  apply filter_ext. intros a. unfold listable, visible. now rewrite rejects_policy.
Qed.

Lemma script_step_head o r rest : script_step ((o, r) :: rest) o = (rest, r).
Proof. cbn. now rewrite op_eqb_refl. Qed.

Lemma spec_hist_sound p hist : forall obs,
  list_eqb obs_eqb (map (fun x => (fst x, map fst (snd x))) obs)
           (snd (trun (model_step p) (concat (map snd obs)) hist)) = true ->
  spec_hist p hist obs = true.
Proof.
  induction hist as [|o hist IH]; intros obs H.
  - destruct obs; [reflexivity | discriminate].
  - destruct obs as [|[r calls] obs]; cbn [trun] in H.
    + destruct (model_step p (concat (map snd [])) o) as [[s1 r1] t1].
      destruct (trun (model_step p) s1 hist). discriminate.
    + cbn [map concat snd fst] in H. rewrite model_step_ac, ac_step_spec in H.
      cbn [spec_hist].
      set (chk := policy_checker p) in *. set (la := policy_listAll p) in *.
      destruct (first_denial chk (pre_checks la o)) as [e|] eqn:Ed.
      * (* rejected: no call, the error delivered *)
        destruct (trun (model_step p) (calls ++ concat (map snd obs)) hist) as [s2 rs] eqn:Et.
        cbn [snd list_eqb] in H. apply andb_true_iff in H as [H1 H2].
        apply (pair_eqb_eq _ _ result_eqb_eq (list_eqb_eq op_eqb op_eqb_eq)) in H1.
        injection H1 as Hr Hc. destruct calls; [|discriminate]. cbn [app] in Et.
        apply andb_true_iff. split.
        -- subst r. unfold spec_op, deliver.
           destruct (op_method o) as [m|] eqn:Em.
           2:{ destruct o; cbn in Em; try discriminate; cbn in Ed; discriminate. }
           assert (Hrej : forall m', m' = m -> m <> MRepositories ->
                     first_rejection p (involved m o) = Some e).
           { intros m' _ Hn. rewrite first_rejection_denial.
             destruct (involved_checks o m Em Hn) as [_ Hi]. now rewrite <- (Hi la). }
           destruct m; try (rewrite (Hrej _ eq_refl) by discriminate; cbn;
                            apply same_rejection_refl).
           (* Repositories *)
           destruct o; cbn in Em; try discriminate. subst chk la.
           destruct p as [rules d|names d]; cbn -[star] in Ed |- *; [|discriminate].
           destruct (check_of rules d star AccessList) as [e'|]; [|discriminate].
           injection Ed as ->. cbn. apply err_eqb_refl.
        -- apply IH. rewrite Et. exact H2.
      * (* allowed: one call, the backend's own answer *)
        destruct calls as [|[o' br] calls].
        { cbn [app] in H.
          destruct (trun (model_step p) (fst (script_step (concat (map snd obs)) o)) hist).
          cbn in H. apply andb_true_iff in H as [H1 _].
          apply andb_true_iff in H1 as [_ H1]. discriminate. }
        cbn [app map fst snd] in H.
        destruct (trun (model_step p) (fst (script_step ((o', br) :: calls ++ concat (map snd obs)) o)) hist)
          as [s2 rs] eqn:Et.
        cbn [snd list_eqb] in H. apply andb_true_iff in H as [H1 H2].
        apply (pair_eqb_eq _ _ result_eqb_eq (list_eqb_eq op_eqb op_eqb_eq)) in H1.
        injection H1 as Hr Ho Hc. subst o'. destruct calls; [|discriminate].
        cbn [app] in *. rewrite script_step_head in *. rewrite ?op_eqb_refl in Hr. cbn [fst snd] in *.
        apply andb_true_iff. split.
        -- unfold spec_op. destruct (op_method o) as [m|] eqn:Em.
           2:{ rewrite op_eqb_refl. subst r. destruct o; cbn in Em; try discriminate; apply result_eqb_refl. }
           assert (Hrej : m <> MRepositories -> first_rejection p (involved m o) = None).
           { intros Hn. rewrite first_rejection_denial.
             destruct (involved_checks o m Em Hn) as [_ Hi]. now rewrite <- (Hi la). }
           destruct m; try (rewrite Hrej by discriminate; rewrite op_eqb_refl; subst r;
                            destruct o; cbn in Em; try discriminate; apply result_eqb_refl).
           (* Repositories *)
           destruct o; cbn in Em; try discriminate. subst chk la.
           assert (Hs : match p with PCheck _ _ => rejects p star AccessList | PAllow _ _ => None end = None).
           { destruct p as [rules d|names d]; [|reflexivity]. cbn -[star] in Ed |- *.
             destruct (check_of rules d star AccessList); [discriminate | reflexivity]. }
           rewrite Hs. subst r. cbn [post repos_result].
           destruct br as [[]| | |]; rewrite ?op_eqb_refl, ?result_eqb_refl; try reflexivity.
           cbn [andb repos_result]. rewrite ac_keep_filter, listable_visible. apply result_eqb_refl.
        -- apply IH. rewrite Et. exact H2.
Qed.

(* --- listings yield by yield --- *)

Fixpoint kept_yields (keep : bytes -> option bytes) (evs : list yld) : list yld :=
  match evs with
  | [] => []
  | (_, Some e) :: _ => [([], Some e)]
  | (repo, None) :: evs' =>
      match keep repo with
      | Some p => (p, None) :: kept_yields keep evs'
      | None => kept_yields keep evs'
      end
  end.

Lemma drive_always keep evs i : fst (repos_drive keep always i evs) = kept_yields keep evs.
Proof.
  revert i; induction evs as [|[repo [e|]] evs IH]; intros i; cbn; try reflexivity.
  destruct (keep repo); cbn.
  - specialize (IH (S i)). destruct (repos_drive keep always (S i) evs). cbn in *. now rewrite IH.
  - specialize (IH i). destruct (repos_drive keep always i evs). exact IH.
Qed.

Lemma drive_firstn keep k evs : forall i, (i <= k)%nat ->
  fst (repos_drive keep (fun j => negb (Nat.eqb j k)) i evs) = firstn (S k - i) (kept_yields keep evs).
Proof.
  induction evs as [|[repo [e|]] evs IH]; intros i Hi; cbn [repos_drive kept_yields fst].
  - now rewrite firstn_nil.
  - replace (S k - i)%nat with (S (k - i)) by lia. cbn. now rewrite firstn_nil.
  - destruct (keep repo) as [q|].
    + destruct (Nat.eqb_spec i k); cbn [negb].
      * subst. replace (S k - k)%nat with 1%nat by lia. cbn. reflexivity.
      * specialize (IH (S i) ltac:(lia)).
        destruct (repos_drive keep (fun j => negb (Nat.eqb j k)) (S i) evs). cbn [fst] in *.
        replace (S k - i)%nat with (S (S k - S i)) by lia. cbn [firstn]. now rewrite IH.
    + specialize (IH i Hi). destruct (repos_drive keep (fun j => negb (Nat.eqb j k)) i evs). exact IH.
Qed.

Lemma kept_yields_owed p evs : kept_yields (model_keep p) evs = owed p evs.
Proof.
  unfold owed. induction evs as [|[repo [e|]] evs IH]; cbn; try reflexivity.
  assert (Hk : model_keep p repo = if listable p repo then Some repo else None).
  { unfold listable. rewrite rejects_policy. destruct p; cbn; unfold ac_keep;
      match goal with |- context [match ?c with _ => _ end] => destruct c end; reflexivity. }
  rewrite Hk. destruct (listable p repo); cbn; now rewrite IH.
Qed.

Lemma corr_sound c : model_agrees c = true -> obs_ok c = true.
Proof.
  destruct c as [cd p hist obs | p start evs stop ys delivered | p m en r ncalls]; cbn [model_agrees obs_ok].
  - apply spec_hist_sound.
  - destruct (repos_drive (model_keep p) (stop_fn stop) 0 evs) as [ys' n] eqn:E.
    intros H. apply andb_true_iff in H as [H _].
    apply (list_eqb_eq yld_eqb (pair_eqb_eq _ _ beqb_eq (option_eqb_eq err_eqb err_eqb_eq))) in H.
    subst ys'. apply (list_eqb_eq yld_eqb (pair_eqb_eq _ _ beqb_eq (option_eqb_eq err_eqb err_eqb_eq))).
    rewrite <- kept_yields_owed. destruct stop as [k|]; unfold stop_fn in E.
    + pose proof (drive_firstn (model_keep p) (N.to_nat k) evs 0%nat ltac:(lia)) as Hd.
      rewrite E in Hd. cbn [fst] in Hd. now rewrite Nat.sub_0_r in Hd.
    + pose proof (drive_always (model_keep p) evs 0%nat) as Hd. unfold always in Hd.
      rewrite E in Hd. exact Hd.
  - intros H. apply andb_true_iff in H as [H Hn]. apply andb_true_iff in H as [_ H].
    apply result_eqb_eq in H. subst r.
    destruct (promoted_fail_closed (B:=unit) (C:=unit) (fun _ => false) (fun s _ => (s, Panic, [])) tt
                (match m with
                 | MGetBlob => GetBlob [] [] | MGetBlobRange => GetBlobRange [] [] 0 0
                 | MGetManifest => GetManifest [] [] | MGetTag => GetTag [] []
                 | MResolveBlob => ResolveBlob [] [] | MResolveManifest => ResolveManifest [] []
                 | MResolveTag => ResolveTag [] [] | MPushBlob => PushBlob [] zero_desc []
                 | MPushBlobChunked => PushBlobChunked [] 0
                 | MPushBlobChunkedResume => PushBlobChunkedResume [] [] 0 0
                 | MMountBlob => MountBlob [] [] [] | MPushManifest => PushManifest [] [] [] []
                 | MDeleteBlob => DeleteBlob [] [] | MDeleteManifest => DeleteManifest [] []
                 | MDeleteTag => DeleteTag [] [] | MRepositories => Repositories []
                 | MTags => Tags [] [] | MReferrers => Referrers [] [] []
                 end) m ltac:(destruct m; reflexivity) eq_refl) as [_ He].
    rewrite He. cbn. exact Hn.
Qed.

Definition mismatches (cs : list case) : list (N * bool) :=
  bad_from 0 (fun c => if model_agrees c then None else Some (obs_ok c)) cs.
Definition bad_obs (cs : list case) : list (N * bool) :=
  bad_from 0 (fun c => if obs_ok c then None else Some (model_agrees c)) cs.
