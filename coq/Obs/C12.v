(* Correspondence for C12: what the harness observed on ocifilter.AccessChecker and
   ocifilter.Select -- one wrapper or several applied to each other -- over a recording
   backend, versus the model (Model/Filter.v, Model/FilterStack.v) and versus the property's
   specification. *)
From Coq Require Import String.
From OCI Require Export Base.Outcome Model.Filter Model.FilterStack Model.FilterIter.
From OCI Require Import Proofs.Funcs Proofs.FilterSelect Proofs.FilterStack Proofs.FilterIter.

(* ---------- the policy, as data ---------- *)

Fixpoint rule_lookup (rules : list (bytes * akind * option err)) (r : bytes) (k : akind) : option (option err) :=
  match rules with
  | [] => None
  | (r', k', v) :: rules' => if beqb r r' && akind_eqb k k' then Some v else rule_lookup rules' r k
  end.

Fixpoint name_lookup (names : list (bytes * bool)) (r : bytes) : option bool :=
  match names with
  | [] => None
  | (r', v) :: names' => if beqb r r' then Some v else name_lookup names' r
  end.

Inductive policy :=
  (* AccessChecker(r, check): check answers by the first matching rule, else the default *)
  | PCheck (rules : list (bytes * akind * option err)) (default : option err)
  (* Select(r, allow) *)
  | PAllow (names : list (bytes * bool)) (default : bool).

Definition check_of rules default : checker :=
  fun r k => match rule_lookup rules r k with Some v => v | None => default end.
Definition allow_of names default : bytes -> bool :=
  fun r => match name_lookup names r with Some v => v | None => default end.

(* ---------- the recording backend, as the script of its answers ---------- *)

Definition script := list (op * result).
Definition script_mismatch : result := Err (E (ECustom (s "script")) (s "backend call not in the script")).

(* the model's backend: answers the calls the real backend answered, in the same order *)
Definition script_step : registry script := fun sc o =>
  match sc with
  | (o', r) :: rest => if op_eqb o o' then (rest, r) else (sc, script_mismatch)
  | [] => (sc, script_mismatch)
  end.

(* The dynamic type of the registry value a constructor is handed: the value as it is (the
   recording *ociregistry.Funcs at the bottom, the *accessCheckerRegistry of the wrapper
   underneath elsewhere), the value inside a struct that embeds the Interface, or behind a
   named type that declares the eighteen methods itself.  Neither the model nor the
   specification looks at it: AccessChecker and Select take an ociregistry.Interface and
   the property is about its methods alone, so a constructor that treats some dynamic type
   specially (unwraps it, merges with it) disagrees with both. *)
Inductive dyn := DPlain | DEmbed | DNamed.

(* one wrapper of the configuration: its policy, and how the registry it wraps is presented *)
Definition lay := (policy * dyn)%type.

Inductive case :=
  (* a history through a wrapper [top] applied to the wrappers [under] (outermost first)
     applied to the recording backend: per operation the result the caller saw and the calls
     made on the recording backend during it with the backend's answers. ctx_done: every call
     of the history was made with a context that is already cancelled. Neither the model nor
     the specification looks at it: the property makes the outcome a matter of the policies and
     of the wrapped registry alone (the recording backend answers a cancelled context like
     any other), so a wrapper that answers a cancelled context itself disagrees with both *)
  | CHist (ctx_done : bool) (top : lay) (under : list lay) (hist : list op)
          (obs : list (result * list (op * result)))
  (* Repositories yield by yield: the backend's raw yields, the index of the yield at which
     the consumer says stop, the yields the consumer received, the number of backend yields
     that were delivered *)
  | CSeq (top : lay) (under : list lay) (start : bytes) (evs : list yld) (stop : option N)
         (ys : list yld) (delivered : N)
  (* a method promoted from the embedded Funcs field of the outermost wrapper: is that field
     nil, what the call returned, how many calls reached the policies and the backend *)
  | CPromoted (top : lay) (under : list lay) (m : method) (embedded_nil : bool) (r : result) (ncalls : N)
  (* an iterator method (Repositories, Tags, Referrers) as Go evaluates it: the method is
     called once with the arguments of [o]; the Seq it returns is then iterated once per
     caller of [cs], in order (never, once, again and again), each caller answering its
     yields as it pleases - stop anywhere, stop on the error, carry on after the error.
     [evs]: what the recording backend's iterator hands to its callback, every time it is
     iterated, for as long as the callback answers true.  Observed: [pre], the calls made on
     the recording backend while the method call ran; per iteration, the yields the caller
     received, the number of yields the recording backend's iterator made, and the calls
     made on the recording backend during that iteration *)
  | CIter (top : lay) (under : list lay) (o : op) (evs : list yld) (cs : list cons)
          (pre : list op) (its : list (list yld * N * list op)).

(* the policies of a configuration, outermost first *)
Definition pols (top : lay) (under : list lay) : list policy := fst top :: map fst under.

Definition policy_checker (p : policy) : checker :=
  match p with
  | PCheck rules d => check_of rules d
  | PAllow names d => select_check (allow_of names d)
  end.
Definition policy_listAll (p : policy) : bool :=
  match p with PCheck _ _ => false | PAllow _ _ => true end.

(* AccessChecker(_, check_of rules d) / Select(_, allow_of names d) as a level of a stack *)
Definition layer_of (p : policy) : layer := L (policy_checker p) (policy_listAll p).

Definition model_step (ps : list policy) : tstep script op :=
  stack_step (map layer_of ps) script_step.

Definition stop_fn (stop : option N) : nat -> bool :=
  fun i => match stop with Some k => negb (Nat.eqb i (N.to_nat k)) | None => true end.

Definition yld_eqb : yld -> yld -> bool := pair_eqb beqb (option_eqb err_eqb).
Definition obs_eqb : result * list op -> result * list op -> bool :=
  pair_eqb result_eqb (list_eqb op_eqb).

Definition it_obs := (list yld * N * list op)%type.
Definition it_of (st : istate) : it_obs := (fst (fst st), N.of_nat (snd (fst st)), snd st).
Definition it_eqb : it_obs -> it_obs -> bool :=
  pair_eqb (pair_eqb (list_eqb yld_eqb) N.eqb) (list_eqb op_eqb).

Definition model_agrees (c : case) : bool :=
  match c with
  | CHist _ top under hist obs =>
      list_eqb obs_eqb (map (fun x => (fst x, map fst (snd x))) obs)
               (snd (trun (model_step (pols top under)) (concat (map snd obs)) hist))
  | CSeq top under start evs stop ys delivered =>
      let '(ys', n) := stack_drive (map layer_of (pols top under)) (stop_fn stop) evs in
      list_eqb yld_eqb ys ys' && N.eqb delivered (N.of_nat n)
  | CPromoted top under m embedded_nil r ncalls =>
      embedded_nil && result_eqb r (promoted_result m) && N.eqb ncalls 0
  | CIter top under o evs cs pre its =>
      let run := irun (map layer_of (pols top under)) evs o cs in
      is_iter_op o && list_eqb op_eqb pre (fst run) && list_eqb it_eqb its (map it_of (snd run))
  end.

(* ---------- the specification, read off the property ---------- *)

(* does the policy reject (name, kind), and with which error; for Select: name-unknown for
   read, list and delete, denied for write *)
Definition rejects (p : policy) (r : bytes) (k : akind) : option err :=
  match p with
  | PCheck rules d => check_of rules d r k
  | PAllow names d =>
      if allow_of names d r then None
      else Some match k with AccessWrite => ErrDenied | _ => ErrNameUnknown end
  end.

(* the kind of access a method needs *)
Definition method_kind (m : method) : akind :=
  match m with
  | MGetBlob | MGetBlobRange | MGetManifest | MGetTag
  | MResolveBlob | MResolveManifest | MResolveTag => AccessRead
  | MPushBlob | MPushBlobChunked | MPushBlobChunkedResume | MMountBlob | MPushManifest => AccessWrite
  | MDeleteBlob | MDeleteManifest | MDeleteTag => AccessDelete
  | MRepositories | MTags | MReferrers => AccessList
  end.

(* the repositories an operation involves, each with the access needed on it: the source
   of a mount is read, everything else is accessed in the method's own way *)
Definition involved (m : method) (o : op) : list (bytes * akind) :=
  match o with
  | MountBlob f t _ => [(f, AccessRead); (t, AccessWrite)]
  | _ => map (fun r => (r, method_kind m)) (op_repos o)
  end.

Fixpoint first_rejection (p : policy) (l : list (bytes * akind)) : option err :=
  match l with
  | [] => None
  | (r, k) :: l' => match rejects p r k with Some e => Some e | None => first_rejection p l' end
  end.

(* the rejection a call of method m meets at ONE wrapper: of the repositories involved, or,
   for Repositories under AccessChecker, of the name "*" for listing (Select always permits
   the listing itself) *)
Definition wrapper_rejection (p : policy) (m : method) (o : op) : option err :=
  match m with
  | MRepositories => match p with PCheck _ _ => rejects p star AccessList | PAllow _ _ => None end
  | _ => first_rejection p (involved m o)
  end.

(* ... and at wrappers applied to each other: a caller talks to the outermost one, which
   asks its policy before it turns to the registry it wraps, which is the next wrapper, and
   so on.  EVERY wrapper's policy is consulted, from the outside in; the first that rejects
   stops the call there, and its error is the one the caller gets. *)
Fixpoint stack_rejection (ps : list policy) (m : method) (o : op) : option (policy * err) :=
  match ps with
  | [] => None
  | p :: ps' =>
      match wrapper_rejection p m o with
      | Some e => Some (p, e)
      | None => stack_rejection ps' m o
      end
  end.

(* the error reaches the caller: as the error result, or as an iterator of exactly one
   yield carrying it; a Select rejection is identified by its code *)
Definition same_rejection (p : policy) (e e' : err) : bool :=
  match p with
  | PCheck _ _ => err_eqb e e'
  | PAllow _ _ => ecode_eqb (e_code e) (e_code e')
  end.

Definition rejection_delivered (p : policy) (m : method) (e : err) (r : result) : bool :=
  match m, r with
  | MRepositories, Ok (RList [] (Some e')) | MTags, Ok (RList [] (Some e')) => same_rejection p e e'
  | MReferrers, Ok (RDescs [] (Some e')) => same_rejection p e e'
  | MRepositories, _ | MTags, _ | MReferrers, _ => false
  | _, Err e' => same_rejection p e e'
  | _, _ => false
  end.

Definition listable (p : policy) (r : bytes) : bool :=
  match rejects p r AccessRead with None => true | Some _ => false end.

(* a repository appears in a listing when every wrapper's policy lets it be read *)
Definition listable_all (ps : list policy) (r : bytes) : bool := forallb (fun p => listable p r) ps.

(* what the caller of an allowed call gets, given the backend's answer: the answer itself,
   a repository listing with the names not listable removed *)
Definition expected (ps : list policy) (m : method) (br : result) : result :=
  match m, br with
  | MRepositories, Ok (RList l e) => Ok (RList (filter (listable_all ps) l) e)
  | _, _ => br
  end.

Definition spec_op (ps : list policy) (o : op) (r : result) (calls : list (op * result)) : bool :=
  match op_method o with
  | None =>
      (* use of a writer obtained earlier: the backend's writer *)
      match calls with [(o', br)] => op_eqb o' o && result_eqb r br | _ => false end
  | Some m =>
      match stack_rejection ps m o with
      | Some (p, e) =>
          (* rejected by some wrapper: the backend is not invoked, that wrapper's error *)
          match calls with [] => rejection_delivered p m e r | _ => false end
      | None =>
          (* allowed by all: exactly the direct call *)
          match calls with
          | [(o', br)] => op_eqb o' o && result_eqb r (expected ps m br)
          | _ => false
          end
      end
  end.

Fixpoint spec_hist (ps : list policy) (hist : list op) (obs : list (result * list (op * result))) : bool :=
  match hist, obs with
  | [], [] => true
  | o :: hist', (r, calls) :: obs' => spec_op ps o r calls && spec_hist ps hist' obs'
  | _, _ => false
  end.

Fixpoint first_error (evs : list yld) : list yld :=
  match evs with
  | [] => []
  | (_, Some e) :: _ => [([], Some e)]
  | (_, None) :: evs' => first_error evs'
  end.

(* everything a consumer that never stops is owed: the listable names that the backend
   yields before its first error, in the backend's order, then that error *)
Definition owed (ps : list policy) (evs : list yld) : list yld :=
  map (fun r => (r, None)) (filter (listable_all ps) (items_before_error evs)) ++ first_error evs.

Definition is_nil {A} (l : list A) : bool := match l with [] => true | _ => false end.

Fixpoint forall2b {A B} (p : A -> B -> bool) (la : list A) (lb : list B) : bool :=
  match la, lb with
  | [], [] => true
  | a :: la', b :: lb' => p a b && forall2b p la' lb'
  | _, _ => false
  end.

(* one iteration of the Seq of a REJECTED call, whoever iterates and whatever it answers:
   the caller is handed the rejecting wrapper's error, once, with the zero item, and nothing
   else; the wrapped registry is not called and its iterator makes no yield *)
Definition refused_iteration (p : policy) (e : err) (it : it_obs) : bool :=
  match it with
  | ([(item, Some e')], n, []) => beqb item [] && same_rejection p e e' && N.eqb n 0
  | _ => false
  end.

(* one iteration of the Seq of an allowed Tags / Referrers call by caller [c]: exactly what
   the wrapped registry's iterator gives that caller - its yields up to and including the
   first one the caller answers "stop" to (errors, and what follows them, included) - and
   no call on the wrapped registry *)
Definition direct_iteration (evs : list yld) (c : cons) (it : it_obs) : bool :=
  let '(ys, n, calls) := it in
  list_eqb yld_eqb ys (take_more c 0 evs) && N.eqb n (N.of_nat (length ys)) && is_nil calls.

Definition obs_ok (c : case) : bool :=
  match c with
  | CHist _ top under hist obs => spec_hist (pols top under) hist obs
  | CSeq top under start evs stop ys delivered =>
      let ps := pols top under in
      match stack_rejection ps MRepositories (Repositories start) with
      | Some (p, e) =>
          (* the listing itself is refused: one yield, with the error *)
          match ys with
          | [(item, Some e')] => beqb item [] && same_rejection p e e'
          | _ => false
          end
      | None =>
          list_eqb yld_eqb ys
            match stop with
            | None => owed ps evs
            | Some k => firstn (S (N.to_nat k)) (owed ps evs)
            end
      end
  | CPromoted top under m embedded_nil r ncalls =>
      (* fails closed: an unsupported-operation error and nothing called *)
      match result_error r with
      | Some e => ecode_eqb (e_code e) UNSUPPORTED && N.eqb ncalls 0
      | None => false
      end
  | CIter top under o evs cs pre its =>
      let ps := pols top under in
      match op_method o with
      | Some m =>
          is_iter m &&
          match stack_rejection ps m o with
          | Some (p, e) =>
              (* rejected by some wrapper: the wrapped registry is not invoked - not by the
                 call, not by any iteration under any caller *)
              is_nil pre && forall2b (fun _ it => refused_iteration p e it) cs its
          | None =>
              match m with
              | MRepositories =>
                  (* nothing but this very call ever reaches the wrapped registry; every
                     caller receives what it is owed up to the first yield it stops at *)
                  forallb (op_eqb o) (pre ++ concat (map snd its)) &&
                  forall2b (fun c it => list_eqb yld_eqb (fst (fst it)) (take_more c 0 (owed ps evs))) cs its
              | _ =>
                  (* exactly the direct call, and its Seq *)
                  list_eqb op_eqb pre [o] && forall2b (direct_iteration evs) cs its
              end
          end
      | None => false
      end
  end.

(* non-trivial: the case involves a repository and some policy is not constant (it can tell
   a wrapper that checks the wrong name or kind from one that checks the right one), or it
   is a listing with something to filter or refused, or a promoted method *)
Definition policy_mixed (p : policy) : bool :=
  match p with
  | PCheck rules d =>
      existsb (fun x => match snd x, d with Some _, None | None, Some _ => true | _, _ => false end) rules
  | PAllow names d => existsb (fun x => negb (Bool.eqb (snd x) d)) names
  end.

Definition nontrivial (c : case) : bool :=
  match c with
  | CHist _ top under hist obs =>
      existsb policy_mixed (pols top under) &&
      existsb (fun o => match op_repos o with [] => false | _ => true end) hist
  | CSeq top under start evs stop ys delivered =>
      let ps := pols top under in
      match stack_rejection ps MRepositories (Repositories start) with
      | Some _ => true
      | None => existsb (fun y => match snd y with None => negb (listable_all ps (fst y)) | Some _ => true end) evs
      end
  | CPromoted _ _ _ _ _ _ => true
  | CIter top under o evs cs pre its =>
      let ps := pols top under in
      match op_method o with
      | Some m =>
          match stack_rejection ps m o with
          | Some _ => negb (is_nil cs)
          | None =>
              negb (is_nil cs) &&
              existsb (fun y => match snd y with None => negb (listable_all ps (fst y)) | Some _ => true end) evs
          end
      | None => false
      end
  end.

(* ---------- corr_sound ---------- *)

Lemma rejects_select names d r k :
  rejects (PAllow names d) r k = select_check (allow_of names d) r k.
Proof.
  cbn. unfold select_check. destruct (allow_of names d r); [reflexivity|]. destruct k; reflexivity.
Qed.

Lemma rejects_policy p r k : rejects p r k = policy_checker p r k.
Proof. destruct p; [reflexivity | apply rejects_select]. Qed.

Lemma first_rejection_denial p l : first_rejection p l = first_denial (policy_checker p) l.
Proof.
  induction l as [|[r k] l IH]; cbn; [reflexivity|]. rewrite rejects_policy, IH. reflexivity.
Qed.

(* the specification's table of pairs is the wrapper's list of checks *)
Lemma wrapper_rejection_denial p m o :
  op_method o = Some m ->
  wrapper_rejection p m o = first_denial (policy_checker p) (pre_checks (policy_listAll p) o).
Proof.
  intros Hm. destruct o; cbn in Hm; try discriminate; injection Hm as <-;
    cbn [wrapper_rejection]; try (rewrite first_rejection_denial; reflexivity).
  destruct p as [rules d|names d]; cbn -[star]; [|reflexivity].
  destruct (check_of rules d star AccessList); reflexivity.
Qed.

Lemma stack_rejection_denial ps m o :
  op_method o = Some m ->
  option_map snd (stack_rejection ps m o) = stack_denial (map layer_of ps) o.
Proof.
  intros Hm. induction ps as [|p ps IH]; cbn [stack_rejection map stack_denial]; [reflexivity|].
  rewrite (wrapper_rejection_denial p m o Hm). cbn [layer_of l_check l_listAll].
  destruct (first_denial (policy_checker p) (pre_checks (policy_listAll p) o)); [reflexivity | exact IH].
Qed.

Lemma writer_op_not_denied ls o : op_method o = None -> stack_denial ls o = None.
Proof.
  intros Hm. induction ls as [|l ls IH]; cbn [stack_denial]; [reflexivity|].
  destruct o; cbn in Hm; try discriminate; cbn; exact IH.
Qed.

Lemma same_rejection_refl p e : same_rejection p e e = true.
Proof. destruct p; cbn; [apply err_eqb_refl | now apply ecode_eqb_eq]. Qed.

Lemma result_eqb_refl r : result_eqb r r = true.
Proof. now apply result_eqb_eq. Qed.

Lemma rejection_deliver p m o e :
  op_method o = Some m -> rejection_delivered p m e (deliver o e) = true.
Proof.
  intros Hm. destruct o; cbn in Hm; try discriminate; injection Hm as <-; cbn; apply same_rejection_refl.
Qed.

Lemma listable_visible p r : listable p r = visible (policy_checker p) r.
Proof. unfold listable, visible. now rewrite rejects_policy. Qed.

Lemma listable_all_visible ps r : listable_all ps r = stack_visible (map layer_of ps) r.
Proof.
  unfold listable_all, stack_visible. induction ps as [|p ps IH]; cbn; [reflexivity|].
  now rewrite listable_visible, IH.
Qed.

Lemma expected_post ps m o br :
  op_method o = Some m -> stack_post (map layer_of ps) o br = expected ps m br.
Proof.
  intros Hm. destruct o; cbn in Hm; try discriminate; injection Hm as <-;
    try (rewrite stack_post_other by discriminate; reflexivity).
  destruct br as [[]| | |]; try (rewrite stack_post_nonlist by discriminate; reflexivity).
  rewrite stack_post_listing. cbn. f_equal. f_equal. apply filter_ext. intros a.
  now rewrite listable_all_visible.
Qed.

Lemma script_step_head o r rest : script_step ((o, r) :: rest) o = (rest, r).
Proof. cbn. now rewrite op_eqb_refl. Qed.

(* one operation: when the model, run on the script that begins with the calls observed,
   gives the observed result and the observed calls, the observation meets the
   specification, and the model has consumed exactly those calls *)
Lemma spec_op_sound ps o r calls rest :
  obs_eqb (r, map fst calls) (snd (fst (model_step ps (calls ++ rest) o)), snd (model_step ps (calls ++ rest) o)) = true ->
  spec_op ps o r calls = true /\ fst (fst (model_step ps (calls ++ rest) o)) = rest.
Proof.
  unfold model_step. rewrite stack_step_spec. intros H.
  destruct (stack_denial (map layer_of ps) o) as [e|] eqn:Ed; cbn [fst snd] in H;
    apply (pair_eqb_eq _ _ result_eqb_eq (list_eqb_eq op_eqb op_eqb_eq)) in H; injection H as Hr Hc.
  - (* rejected: no call, the error delivered *)
    destruct calls; [|discriminate]. cbn [app fst]. split; [|reflexivity].
    unfold spec_op. destruct (op_method o) as [m|] eqn:Em.
    2:{ rewrite (writer_op_not_denied _ o Em) in Ed. discriminate. }
    pose proof (stack_rejection_denial ps m o Em) as Hs. rewrite Ed in Hs.
    destruct (stack_rejection ps m o) as [[p e']|]; [|discriminate]. cbn in Hs. injection Hs as ->.
    subst r. now apply rejection_deliver.
  - (* allowed: one call, the backend's own answer *)
    destruct calls as [|[o' br] [|? ?]]; try discriminate. cbn [map fst] in Hc. injection Hc as ->.
    cbn [app] in *. rewrite script_step_head in *. cbn [fst snd] in *. split; [|reflexivity].
    unfold spec_op. rewrite op_eqb_refl. destruct (op_method o) as [m|] eqn:Em.
    + pose proof (stack_rejection_denial ps m o Em) as Hs. rewrite Ed in Hs.
      destruct (stack_rejection ps m o) as [[p e']|]; [discriminate|].
      subst r. rewrite (expected_post ps m o br Em). apply result_eqb_refl.
    + subst r. rewrite stack_post_other; [apply result_eqb_refl|].
      intros start ->. discriminate.
Qed.

Lemma spec_hist_sound ps hist : forall obs,
  list_eqb obs_eqb (map (fun x => (fst x, map fst (snd x))) obs)
           (snd (trun (model_step ps) (concat (map snd obs)) hist)) = true ->
  spec_hist ps hist obs = true.
Proof.
  induction hist as [|o hist IH]; intros obs H.
  - destruct obs; [reflexivity | discriminate].
  - destruct obs as [|[r calls] obs]; cbn [trun] in H.
    + destruct (model_step ps (concat (map snd [])) o) as [[s1 r1] t1].
      destruct (trun (model_step ps) s1 hist). discriminate.
    + cbn [map concat snd fst] in H.
      pose proof (spec_op_sound ps o r calls (concat (map snd obs))) as Hop.
      destruct (model_step ps (calls ++ concat (map snd obs)) o) as [[s1 r1] t1].
      destruct (trun (model_step ps) s1 hist) as [s2 rs] eqn:Et.
      cbn [snd fst list_eqb] in H, Hop. apply andb_true_iff in H as [H1 H2].
      destruct (Hop H1) as [Hs ->]. cbn [spec_hist]. rewrite Hs. cbn [andb].
      apply IH. rewrite Et. exact H2.
Qed.

(* --- listings yield by yield --- *)

Fixpoint kept_yields (keep : bytes -> option bytes) (evs : list yld) : list yld :=
  match evs with
  | [] => []
  | (_, Some e) :: _ => [([], Some e)]
  | (repo, None) :: evs' =>
      match keep repo with
      | Some p => (p, None) :: kept_yields keep evs'
      | None => kept_yields keep evs'
      end
  end.

Lemma drive_always keep evs i : fst (repos_drive keep always i evs) = kept_yields keep evs.
Proof.
  revert i; induction evs as [|[repo [e|]] evs IH]; intros i; cbn; try reflexivity.
  destruct (keep repo); cbn.
  - specialize (IH (S i)). destruct (repos_drive keep always (S i) evs). cbn in *. now rewrite IH.
  - specialize (IH i). destruct (repos_drive keep always i evs). exact IH.
Qed.

Lemma drive_firstn keep k evs : forall i, (i <= k)%nat ->
  fst (repos_drive keep (fun j => negb (Nat.eqb j k)) i evs) = firstn (S k - i) (kept_yields keep evs).
Proof.
  induction evs as [|[repo [e|]] evs IH]; intros i Hi; cbn [repos_drive kept_yields fst].
  - now rewrite firstn_nil.
  - replace (S k - i)%nat with (S (k - i)) by lia. cbn. now rewrite firstn_nil.
  - destruct (keep repo) as [q|].
    + destruct (Nat.eqb_spec i k); cbn [negb].
      * subst. replace (S k - k)%nat with 1%nat by lia. cbn. reflexivity.
      * specialize (IH (S i) ltac:(lia)).
        destruct (repos_drive keep (fun j => negb (Nat.eqb j k)) (S i) evs). cbn [fst] in *.
        replace (S k - i)%nat with (S (S k - S i)) by lia. cbn [firstn]. now rewrite IH.
    + specialize (IH i Hi). destruct (repos_drive keep (fun j => negb (Nat.eqb j k)) i evs). exact IH.
Qed.

Lemma kept_yields_owed ps evs : kept_yields (stack_keep (map layer_of ps)) evs = owed ps evs.
Proof.
  unfold owed. induction evs as [|[repo [e|]] evs IH]; cbn; try reflexivity.
  unfold stack_keep at 1. rewrite <- listable_all_visible.
  destruct (listable_all ps repo); cbn; now rewrite IH.
Qed.

(* --- iterator methods under every caller --- *)

Lemma kept_upto_error_owed ps evs : kept_upto_error (stack_keep (map layer_of ps)) evs = owed ps evs.
Proof.
  exact (kept_yields_owed ps evs).   (* the two functions are the same fixpoint *)
Qed.

Lemma it_eqb_eq a b : it_eqb a b = true <-> a = b.
Proof.
  apply pair_eqb_eq; [apply pair_eqb_eq|].
  - apply list_eqb_eq. apply pair_eqb_eq; [apply beqb_eq | apply option_eqb_eq, err_eqb_eq].
  - apply N.eqb_eq.
  - apply list_eqb_eq, op_eqb_eq.
Qed.

Lemma yields_eqb_refl ys : list_eqb yld_eqb ys ys = true.
Proof.
  apply (list_eqb_eq yld_eqb (pair_eqb_eq _ _ beqb_eq (option_eqb_eq err_eqb err_eqb_eq))). reflexivity.
Qed.

Lemma forall2b_map {A B} (p : A -> B -> bool) (f : A -> B) l :
  (forall a, p a (f a) = true) -> forall2b p l (map f l) = true.
Proof. intros H. induction l as [|a l IH]; cbn; [reflexivity|]. now rewrite H, IH. Qed.

Lemma iter_sound top under o evs cs pre its :
  model_agrees (CIter top under o evs cs pre its) = true ->
  obs_ok (CIter top under o evs cs pre its) = true.
Proof.
  cbn [model_agrees obs_ok]. set (ps := pols top under).
  assert (Eps : map layer_of ps = layer_of (fst top) :: map layer_of (map fst under)) by reflexivity.
  intros H. apply andb_true_iff in H as [H Hi]. apply andb_true_iff in H as [Ho Hp].
  apply (list_eqb_eq op_eqb op_eqb_eq) in Hp. apply (list_eqb_eq it_eqb it_eqb_eq) in Hi.
  destruct (op_method o) as [m|] eqn:Em; [|destruct o; discriminate].
  assert (Hm : is_iter m = true) by (destruct o; try discriminate; injection Em as <-; reflexivity).
  rewrite Hm. cbn [andb].
  pose proof (stack_rejection_denial ps m o Em) as Hs.
  destruct (stack_rejection ps m o) as [[p e]|]; cbn [option_map snd] in Hs; symmetry in Hs.
  - (* rejected *)
    rewrite Eps in *. rewrite (irun_denied _ _ evs o e cs Ho Hs) in Hp, Hi. cbn [fst snd] in Hp, Hi.
    subst pre its. cbn [is_nil andb]. rewrite map_map. apply forall2b_map. intros _.
    cbn. rewrite same_rejection_refl. reflexivity.
  - (* allowed by every wrapper *)
    destruct o; try discriminate; injection Em as <-.
    + (* Repositories *)
      rewrite Eps in Hp, Hi, Hs. rewrite <- (star_denial_is_stack_denial _ start) in Hs.
      destruct (irun_allowed_repos _ _ evs start cs Hs) as [Hf H2]. rewrite <- Eps in *.
      rewrite Hf in Hp. subst pre its. cbn [app]. clear Hf.
      rewrite <- (kept_upto_error_owed ps evs).
      revert H2. generalize (snd (irun (map layer_of ps) evs (Repositories start) cs)). intros sts H2.
      induction H2 as [|c st cs' sts' [Hg Hc] _ IH]; [reflexivity|].
      apply andb_true_iff in IH as [IH1 IH2].
      cbn [map concat forall2b]. unfold it_of at 1 3. cbn [fst snd]. unfold i_got in Hg.
      rewrite Hc, Hg. cbn [app forallb]. rewrite op_eqb_refl, IH1, yields_eqb_refl, IH2. reflexivity.
    + (* Tags *)
      rewrite (irun_allowed_list _ evs _ cs (eq_refl : is_list_op (Tags r start) = true) Hs) in Hp, Hi.
      cbn [fst snd] in Hp, Hi. subst pre its. cbn [list_eqb]. rewrite op_eqb_refl. cbn [andb].
      rewrite map_map. apply forall2b_map. intros c. cbn.
      rewrite yields_eqb_refl, N.eqb_refl. reflexivity.
    + (* Referrers *)
      rewrite (irun_allowed_list _ evs _ cs (eq_refl : is_list_op (Referrers r d art) = true) Hs) in Hp, Hi.
      cbn [fst snd] in Hp, Hi. subst pre its. cbn [list_eqb]. rewrite op_eqb_refl. cbn [andb].
      rewrite map_map. apply forall2b_map. intros c. cbn.
      rewrite yields_eqb_refl, N.eqb_refl. reflexivity.
Qed.

Lemma corr_sound c : model_agrees c = true -> obs_ok c = true.
Proof.
  destruct c as [cd top under hist obs | top under start evs stop ys delivered | top under m en r ncalls
                 | top under o evs cs pre its];
    cbn [model_agrees obs_ok].
  - apply spec_hist_sound.
  - set (ps := pols top under).
    assert (Eps : map layer_of ps = layer_of (fst top) :: map layer_of (map fst under)) by reflexivity.
    rewrite Eps, stack_drive_spec, <- Eps. clear Eps.
    rewrite (star_denial_is_stack_denial _ start),
      <- (stack_rejection_denial ps MRepositories (Repositories start) eq_refl).
    destruct (stack_rejection ps MRepositories (Repositories start)) as [[p e]|]; cbn [option_map snd].
    + intros H. apply andb_true_iff in H as [H _].
      apply (list_eqb_eq yld_eqb (pair_eqb_eq _ _ beqb_eq (option_eqb_eq err_eqb err_eqb_eq))) in H.
      subst ys. cbn. apply same_rejection_refl.
    + destruct (repos_drive (stack_keep (map layer_of ps)) (stop_fn stop) 0 evs) as [ys' n] eqn:E.
      intros H. apply andb_true_iff in H as [H _].
      apply (list_eqb_eq yld_eqb (pair_eqb_eq _ _ beqb_eq (option_eqb_eq err_eqb err_eqb_eq))) in H.
      subst ys'. apply (list_eqb_eq yld_eqb (pair_eqb_eq _ _ beqb_eq (option_eqb_eq err_eqb err_eqb_eq))).
      rewrite <- kept_yields_owed. destruct stop as [k|]; unfold stop_fn in E.
      * pose proof (drive_firstn (stack_keep (map layer_of ps)) (N.to_nat k) evs 0%nat ltac:(lia)) as Hd.
        rewrite E in Hd. cbn [fst] in Hd. now rewrite Nat.sub_0_r in Hd.
      * pose proof (drive_always (stack_keep (map layer_of ps)) evs 0%nat) as Hd. unfold always in Hd.
        rewrite E in Hd. exact Hd.
  - intros H. apply andb_true_iff in H as [H Hn]. apply andb_true_iff in H as [_ H].
    apply result_eqb_eq in H. subst r.
    destruct (promoted_fail_closed (B:=unit) (C:=unit) (fun _ => false) (fun s _ => (s, Panic, [])) tt
                (match m with
                 | MGetBlob => GetBlob [] [] | MGetBlobRange => GetBlobRange [] [] 0 0
                 | MGetManifest => GetManifest [] [] | MGetTag => GetTag [] []
                 | MResolveBlob => ResolveBlob [] [] | MResolveManifest => ResolveManifest [] []
                 | MResolveTag => ResolveTag [] [] | MPushBlob => PushBlob [] zero_desc []
                 | MPushBlobChunked => PushBlobChunked [] 0
                 | MPushBlobChunkedResume => PushBlobChunkedResume [] [] 0 0
                 | MMountBlob => MountBlob [] [] [] | MPushManifest => PushManifest [] [] [] []
                 | MDeleteBlob => DeleteBlob [] [] | MDeleteManifest => DeleteManifest [] []
                 | MDeleteTag => DeleteTag [] [] | MRepositories => Repositories []
                 | MTags => Tags [] [] | MReferrers => Referrers [] [] []
                 end) m ltac:(destruct m; reflexivity) eq_refl) as [_ He].
    rewrite He. cbn. exact Hn.
  - apply iter_sound.
Qed.

Definition mismatches (cs : list case) : list (N * bool) :=
  bad_from 0 (fun c => if model_agrees c then None else Some (obs_ok c)) cs.
Definition bad_obs (cs : list case) : list (N * bool) :=
  bad_from 0 (fun c => if obs_ok c then None else Some (model_agrees c)) cs.
