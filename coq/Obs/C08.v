(* C08 correspondence.  Two kinds of case:

   CStruct t   the lock-structure table extracted from the tree the harness runs on.
               model_agrees: it equals the declared structure of the sectioned model;
               obs_ok: it passes the lockset / lock-order / atomic-region checks by itself.

   CRace n     the number of data-race reports of the Go race detector during the loads of this
               run (supporting test; the proved statement is the lockset discipline).

   CCold v g s n  the number of data-race reports of one COLD start: a fresh -race process whose
               very first library calls are issued by g goroutines at once (variant v: own or
               shared registry / server; directly on ocimem, raw requests to ociserver, ociclient
               in process or over a loopback server; seed s fixes each goroutine's order of
               operations).  State initialised on first use is touched unsynchronised only by the
               first calls of a process; the long-lived load process of CRace warms it
               sequentially.  v, g and s identify the input; the verdict is on n alone.

   CHist ...   a history recorded from concurrent goroutines on the real ocimem (invocation
               and response events in real-time order, results projected as in MemObs).
               obs_ok: linearisation points can be inserted that make it a valid
               linearisation w.r.t. Mem.step (found by the untrusted search of
               Model/ConcRun.v, validated by Conc.aug_ok);
               model_agrees: the sectioned model, scheduled that way, produces the history. *)
From Coq Require Import String Lia.
From OCI Require Export Base.Outcome Model.ConcRun Obs.MemObs.
From OCI Require Import Proofs.ConcStruct Proofs.Conc Proofs.ConcRun.

(* sha256 as observed: the table, and an injective default outside it *)
Definition c08_hash (o : oracles) (c : bytes) : bytes :=
  match alookup c (o_hash o) with Some d => d | None => 63 :: c end.

Definition table_ok (o : oracles) : bool :=
  forallb (fun kv => match snd kv with 63 :: _ => false | _ => true end) (o_hash o)
  && forallb (fun kv => forallb (fun kv' => beqb (fst kv) (fst kv') || negb (beqb (snd kv) (snd kv')))
                          (o_hash o)) (o_hash o).

Lemma c08_hash_inj o : table_ok o = true -> forall a b, c08_hash o a = c08_hash o b -> a = b.
Proof.
  unfold table_ok, c08_hash. rewrite andb_true_iff, !forallb_forall. intros [Hq Hp] a b.
  destruct (alookup a (o_hash o)) as [da|] eqn:Ea, (alookup b (o_hash o)) as [db|] eqn:Eb; intros E.
  - subst db. apply alookup_In in Ea, Eb. specialize (Hp _ Ea). rewrite forallb_forall in Hp.
    specialize (Hp _ Eb). cbn in Hp. rewrite beqb_refl in Hp. cbn in Hp.
    rewrite orb_false_r in Hp. now apply beqb_eq.
  - apply alookup_In in Ea. specialize (Hq _ Ea). cbn in Hq. subst da. discriminate.
  - apply alookup_In in Eb. specialize (Hq _ Eb). cbn in Hq. subst db. discriminate.
  - now injection E.
Qed.

(* Results observed through ociclient -> ociserver -> ocimem (each operation of the HTTP
   vocabulary used is exactly one backend call): the HTTP layer does not carry error identity
   or blob media types faithfully (C07 / C03 findings), so only success / failure, digest, size,
   bytes and listings are compared there. *)
Definition desc_weak (a b : desc) : bool := beqb (d_digest a) (d_digest b) && Z.eqb (d_size a) (d_size b).
Definition agrees_http (obs : oresult) (m : result) : bool :=
  match obs, m with
  | OErr _, Err _ => true
  | OOk (RDesc x), Ok (RDesc y) => desc_weak x y
  | OOk (RRead x dx), Ok (RRead y dy) => desc_weak x y && beqb dx dy
  | OList l e, Ok (RList l' e') =>
      list_eqb beqb l l' && match e, e' with None, None | Some _, Some _ => true | _, _ => false end
  | OList [] (Some _), Err _ => true     (* a listing that fails at once *)
  | _, _ => agrees obs m
  end.
Definition cmp_of (http : bool) : oresult -> result -> bool := if http then agrees_http else agrees.

Inductive case :=
  | CStruct (t : stable)
  | CHist (o : oracles) (imm : bool) (http : bool) (nthreads : nat) (h : list (hev (Resp := oresult)))
  | CRace (reports : N)
  | CCold (variant goroutines seed reports : N).

Section WithCase.
  Variables (o : oracles) (imm : bool) (http : bool).
  Let agrees := cmp_of http.
  Let H := c08_hash o.
  Let VD := orc_vd o. Let VR := orc_vr o. Let VT := orc_vt o. Let DI := orc_img o. Let DX := orc_idx o.
  Let CF := {| immutable_tags := imm |}.

  (* the search visits at most [lin_budget] nodes; when that is not enough to find a witness or
     to try every order the history is UNDECIDED: it is not judged (neither agreement nor
     violation is claimed) and it is not counted as explored *)
  Definition lin_budget : N := 40000.
  Definition lin_searched (h : list hev) : N * option (list (list nat)) :=
    match searchB H VD VR VT DI DX CF agrees false (4 * length h + 8) lin_budget init [] [] [] h with
    | (0%N, None) =>   (* undecided responder-first: try the pending operations oldest first *)
        searchB H VD VR VT DI DX CF agrees true (4 * length h + 8) (2 * lin_budget) init [] [] [] h
    | r => r
    end.
  Definition lin_witness (h : list hev) : option (list (list nat)) := snd (lin_searched h).
  Definition lin_undecided (h : list hev) : bool :=
    match lin_searched h with
    | (0%N, None) => true
    | _ => false
    end.
  Definition lin_trace (h : list hev) : option (list (aev oresult)) :=
    option_map (weave h) (lin_witness h).
  Definition lin_check (h : list hev) : bool :=
    match lin_trace h with
    | Some tr => aug_ok H VD VR VT DI DX CF agrees init [] tr
    | None => false
    end.
  Definition conc0 (n : nat) : conf := {| c_mem := init; c_threads := repeat {| t_cur := None |} n |}.
  Definition model_replays (n : nat) (h : list hev) : bool :=
    match lin_trace h with
    | Some tr => match exec H VD VR VT DI DX CF agrees (conc0 n) tr with Some _ => true | None => false end
    | None => false
    end.
End WithCase.

Definition model_agrees (c : case) : bool :=
  match c with
  | CStruct t => table_eq t Conc.structure
  | CHist o imm http n h => lin_undecided o imm http h || (table_ok o && model_replays o imm http n h)
  | CRace n => N.eqb n 0
  | CCold _ _ _ n => N.eqb n 0
  end.

(* the specification, evaluated on the observation itself *)
Definition obs_ok (c : case) : bool :=
  match c with
  | CStruct t => structure_ok t
  | CHist o imm http n h => lin_undecided o imm http h || lin_check o imm http h
  | CRace n => N.eqb n 0
  | CCold _ _ _ n => N.eqb n 0
  end.

Definition nontrivial (c : case) : bool :=
  match c with
  | CStruct _ => true
  | CHist o imm http _ h => overlaps 0 h && negb (lin_undecided o imm http h)
  | CRace _ => true
  | CCold _ g _ _ => N.leb 2 g      (* at least two first callers *)
  end.

(* what obs_ok means for a history: it is linearizable w.r.t. the sequential registry *)
Lemma lin_check_sound o imm http h :
  lin_check o imm http h = true ->
  linearizable_from (c08_hash o) (orc_vd o) (orc_vr o) (orc_vt o) (orc_img o) (orc_idx o)
    {| immutable_tags := imm |} (cmp_of http) init (map ev_of h).
Proof.
  unfold lin_check, lin_trace. destruct (lin_witness o imm http h) as [w|]; [|discriminate]. cbn.
  intros E. exists (weave h w). split; [apply weave_history | exact E].
Qed.

Lemma conc0_initial n : initial (conc0 n).
Proof. split; [reflexivity|]. apply Forall_forall. intros th Hin. apply repeat_spec in Hin. now subst. Qed.

Lemma corr_sound c : model_agrees c = true -> obs_ok c = true.
Proof.
  destruct c as [t | o imm http n h | n | v g sd n]; cbn; [| |auto|auto].
  - apply table_eq_structure_ok.
  - destruct (lin_undecided o imm http h); [reflexivity|]. cbn [orb].
    rewrite andb_true_iff. intros [Ht Hm]. unfold model_replays, lin_check in *.
    destruct (lin_trace o imm http h) as [tr|]; [|discriminate].
    destruct (exec _ _ _ _ _ _ _ _ _ tr) as [[c' mt]|] eqn:E; [|discriminate].
    destruct (exec_sound _ _ _ _ _ _ _ _ _ _ _ _ E) as [[ms Hs] Hmatch].
    pose proof (conc_linearizable _ _ _ _ _ _ _ (c08_hash_inj o Ht) result_eqb result_eqb_refl
                  _ _ _ _ (conc0_initial n) Hs) as L.
    unfold aug_ok in *. 
    destruct (aug_run _ _ _ _ _ _ _ result_eqb init [] mt) as [x|] eqn:R; [|discriminate].
    now rewrite (aug_transfer _ _ _ _ _ _ _ _ _ _ Hmatch _ _ _ R).
Qed.

Definition mismatches (cs : list case) : list (N * bool) :=
  bad_from 0 (fun c => if model_agrees c then None else Some (obs_ok c)) cs.
Definition bad_obs (cs : list case) : list (N * bool) :=
  bad_from 0 (fun c => if obs_ok c then None else Some (model_agrees c)) cs.
