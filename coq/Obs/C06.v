(* Correspondence for C06: what the harness observed on ociserver.New(backend, opts).ServeHTTP
   (status, headers, body, the backend-call / Close log, whether it panicked) versus the model
   (Model/Server.v, Model/Request.v) and versus the property's specification.

   The backend of a case is the recording backend of the harness: it answered the calls of this
   request with the results written in the observed trace, in that order.  The model runs
   against the backend that replays these results ([script_step]); the encoding/json, sha256
   and http.Redirect oracles are the values the harness computed with the real libraries. *)
From Coq Require Import String.
From OCI Require Export Base.Outcome Model.Server Model.ServerSpec Model.ServerStream Model.ServerSettled.
From OCI Require Import Proofs.Request Proofs.Server Proofs.ServerObs Proofs.ServerStream Proofs.ServerSettled.

(* ---------------------------------------------------------------- case *)

Record copts := mkcopts {
  co_disable_referrers : bool;
  co_disable_single_post : bool;
  co_max_list_page_size : Z;
  co_omit_digest : bool;
  co_omit_link : bool;
  co_locs : option (R gerr (list bytes))     (* LocationsForDescriptor answers this, whatever it is asked *)
}.

Inductive obs :=
  | OPanic (tr : list ev)
  | OResp (status : Z) (hdrs : headers) (body : bytes) (json : option jval) (tr : list ev).

(* what ocirequest.Parse returned *)
Inductive pobs :=
  | PPanic
  | PFail (class : N) (code : bytes)   (* class: 0 ErrNotFound, 1 ErrBadlyFormedDigest, 2 ErrMethodNotAllowed,
                                          3 ErrBadRequest (==), 4 any other value; code: errors.As Error, else "" *)
  | PGood (r : request).
(* what Request.Construct returned for the parsed request *)
Inductive cobs := CNone | CPanic | CFail | CGood (method url : bytes).

Inductive case :=
  | CServe (o : copts) (req : hreq)
           (dg : bytes)                    (* digest.FromBytes(body).String() *)
           (subj : option (option bytes))  (* the harness's json.Unmarshal of the body's "subject" *)
           (ob : obs)
  (* a served request whose backend handed out a reader that does not simply deliver its content:
     its Read failed part-way, or its Close failed.  The trace carries what the reader delivered
     ([VRead d data]: what io.Copy read from it); [rs] carries, reader by reader, what it had
     promised beyond that and the errors of Read and Close (Model/ServerStream.v) *)
  | CStream (o : copts) (req : hreq) (dg : bytes) (subj : option (option bytes)) (ob : obs)
            (rs : list rstream)
  | CParse (method path rawquery : bytes) (res : pobs) (cns : cobs)
  | CRange (a : bytes) (res : option (Z * Z))        (* ocirequest.ParseRange *)
  | CRangeStr (a b : Z) (res : bytes).               (* ocirequest.RangeString *)

Definition opts_of (c : copts) : opts :=
  mkopts (co_disable_referrers c) (co_disable_single_post c) (co_max_list_page_size c)
         (co_omit_digest c) (co_omit_link c)
         (match co_locs c with Some r => Some (fun _ _ => r) | None => None end).

Definition obs_trace (ob : obs) : list ev :=
  match ob with OPanic tr => tr | OResp _ _ _ _ tr => tr end.

(* all three hashes are linked into the harness binary (net/http imports crypto/tls) *)
Definition L : alg -> bool := fun _ => true.

(* the model's run of a served request *)
Definition run_case (o : copts) (req : hreq) (dg : bytes) (subj : option (option bytes)) (ob : obs)
  : list bres * list ev * R unit hresp :=
  let body := match ob with OResp _ _ b _ _ => b | _ => [] end in
  let loc := match ob with
             | OResp _ h _ _ _ => match hget H_location h with Some l => l | None => [] end
             | _ => []
             end in
  handle L (fun _ => dg) (fun _ => subj) (fun _ => body) (fun _ _ => (loc, body))
         (list bres) script_step (opts_of o) (script_of (obs_trace ob)) req.

(* ---------------------------------------------------------------- comparison *)

Definition perr_class (e : perr) : N :=
  match e with
  | PSentinel PNotFound => 0 | PSentinel PBadlyFormedDigest => 1 | PSentinel PMethodNotAllowed => 2
  | PSentinel PBadRequest => 3 | _ => 4
  end.
Definition perr_code (e : perr) : bytes :=
  match as_err (perr_gerr e) with Some w => w_code w | None => [] end.

Definition pobs_of (r : R perr request) : pobs :=
  match r with
  | Ok q => PGood q
  | Err e => PFail (perr_class e) (perr_code e)
  | _ => PPanic
  end.
Definition cobs_of (r : R unit (bytes * bytes)) : cobs :=
  match r with
  | Ok (m, u) => CGood m u
  | Err _ => CFail
  | _ => CPanic
  end.

Definition pobs_eqb (a b : pobs) : bool :=
  match a, b with
  | PPanic, PPanic => true
  | PFail k c, PFail k' c' => N.eqb k k' && beqb c c'
  | PGood r, PGood r' => request_eqb r r'
  | _, _ => false
  end.
Definition cobs_eqb (a b : cobs) : bool :=
  match a, b with
  | CNone, CNone | CPanic, CPanic | CFail, CFail => true
  | CGood m u, CGood m' u' => beqb m m' && beqb u u'
  | _, _ => false
  end.

Definition serve_agrees (o : copts) (req : hreq) (dg : bytes) (subj : option (option bytes)) (ob : obs) : bool :=
  let '(_, tr, r) := run_case o req dg subj ob in
  match r, ob with
  | Panic, OPanic tr' => trace_eqb tr tr'
  | Ok resp, OResp st hdrs body json tr' =>
      Z.eqb (p_status resp) st && headers_eqb (p_hdrs resp) hdrs && beqb (p_body resp) body
      && option_eqb jval_eqb (p_json resp) json && trace_eqb tr tr'
  | _, _ => false
  end.

Definition model_agrees (c : case) : bool :=
  match c with
  | CServe o req dg subj ob => serve_agrees o req dg subj ob
  (* the model reads a reader through what it delivered: a reader that failed after k bytes is
     to the handlers a reader of k bytes (the error of io.Copy and the error of a deferred Close
     are dropped), so the prediction is the one for the trace as it stands *)
  | CStream o req dg subj ob rs => serve_agrees o req dg subj ob && streams_fit (obs_trace ob) rs
  | CParse m p q res cns =>
      let r := parse_req L m p q in
      pobs_eqb (pobs_of r) res
      && cobs_eqb (match r with Ok rq => cobs_of (Construct L rq) | _ => CNone end) cns
  | CRange a res => option_eqb (fun x y => Z.eqb (fst x) (fst y) && Z.eqb (snd x) (snd y)) (parse_range a) res
  | CRangeStr a b res => beqb (range_string a b) res
  end.

(* ---------------------------------------------------------------- specification *)

(* The property, read off its statement for one observed exchange.  [spec_ok] is in
   Model/ServerSpec.v; it mentions only the options, the trace and the response - never the
   handlers.  A backend outside the property's quantifier (see [wb_trace]) is not judged.
   [settled_ok] (Model/ServerSettled.v) says which reports of a BlobWriter the Location and the
   Range of a 202 / 204 are built from: those made while the writer was settled (before any
   Write, or after the Close that followed the last Write), as BlobWriter.ID documents. *)
Definition obs_ok (c : case) : bool :=
  match c with
  | CServe o req dg subj ob =>
      let tr := obs_trace ob in
      negb (wb_trace tr && wb_locs (o_locs (opts_of o)) tr)
      || match ob with
         | OPanic _ => false
         | OResp st hdrs body json tr =>
             spec_ok L (opts_of o) req tr (mkresp st hdrs body json)
             && settled_ok tr (mkresp st hdrs body json)
         end
  (* a reader failed part-way (or its Close failed): everything above, on the trace that says
     what the reader delivered, and [stream_ok]: a success status that is out is not followed by an
     error document, and the body is the beginning of what the reader had promised *)
  | CStream o req dg subj ob rs =>
      let tr := obs_trace ob in
      negb (wb_trace tr && wb_locs (o_locs (opts_of o)) tr && wb_streams rs)
      || match ob with
         | OPanic _ => false
         | OResp st hdrs body json tr =>
             spec_ok L (opts_of o) req tr (mkresp st hdrs body json)
             && settled_ok tr (mkresp st hdrs body json)
             && stream_ok tr rs (mkresp st hdrs body json)
         end
  | CParse _ _ _ res cns =>
      match res with
      | PPanic => false
      | PFail _ _ => true
      | PGood r => request_fields_ok L r && match cns with CPanic => false | _ => true end
      end
  | CRange _ _ => true
  | CRangeStr _ _ _ => true
  end.

(* a served request counts when the backend behaved and the request got past the router to a
   handler that talked to the backend, or was refused by a validation step (not merely an
   unknown path); a parse case counts when the router recognised a kind or refused a name *)
Definition nontrivial (c : case) : bool :=
  match c with
  | CServe _ _ _ _ ob | CStream _ _ _ _ ob _ =>
      let tr := obs_trace ob in
      wb_trace tr &&
      (match tr with [] => false | _ => true end
       || match ob with
          | OResp st _ _ _ _ => negb (st =? 404)%Z
          | OPanic _ => true
          end)
  | CParse _ _ _ res _ => match res with PFail 0 _ => false | _ => true end
  | CRange _ res => match res with Some _ => true | None => false end
  | CRangeStr _ _ _ => true
  end.

(* what an agreeing served request says about the model's run *)
Lemma serve_agrees_sound o req dg subj ob :
  serve_agrees o req dg subj ob = true ->
  let tr := obs_trace ob in
  wb_trace tr = true -> wb_locs (o_locs (opts_of o)) tr = true ->
  match ob with
  | OPanic _ => False
  | OResp st hdrs bd js tr =>
      spec_ok L (opts_of o) req tr (mkresp st hdrs bd js) = true
      /\ settled_ok tr (mkresp st hdrs bd js) = true
      /\ forall data, last_of reader_data tr None = Some data -> (200 <= st < 300)%Z -> bd = data /\ js = None
  end.
Proof.
  unfold serve_agrees, run_case.
  set (body := match ob with OResp _ _ b _ _ => b | _ => [] end).
  set (loc := match ob with
              | OResp _ h _ _ _ => match hget H_location h with Some l => l | None => [] end
              | _ => [] end).
  pose proof (handle_conforms L (fun _ => dg) (fun _ => subj) (fun _ => body) (fun _ _ => (loc, body))
                (list bres) script_step (opts_of o) req (script_of (obs_trace ob))) as HC.
  pose proof (handle_streams L (fun _ => dg) (fun _ => subj) (fun _ => body) (fun _ _ => (loc, body))
                (list bres) script_step (opts_of o) req (script_of (obs_trace ob))) as HS.
  pose proof (handle_reports_settled L (fun _ => dg) (fun _ => subj) (fun _ => body) (fun _ _ => (loc, body))
                (list bres) script_step (opts_of o) req (script_of (obs_trace ob))) as HT.
  destruct (handle _ _ _ _ _ _ _ _ _ _) as [[b' tr] r].
  destruct r as [resp| | |]; destruct ob as [tr'|st hdrs bd js tr']; try discriminate; cbn [obs_trace].
  - intros H. apply andb_true_iff in H as [H H5]. apply andb_true_iff in H as [H H4].
    apply andb_true_iff in H as [H H3]. apply andb_true_iff in H as [H1 H2].
    apply trace_eqb_eq in H5. subst tr'. intros W1 W2.
    destruct (HC W1 W2) as (resp' & E & S). inversion E. subst resp'.
    apply Z.eqb_eq in H1. apply beqb_eq in H3. destruct resp as [rs rh rb rj].
    cbn [p_status p_hdrs p_body p_json] in *. subst.
    assert (SP : spec_ok L (opts_of o) req tr (mkresp st hdrs bd js) = true) by (eapply spec_ok_ext; eauto).
    split; [exact SP|]. split.
    + eapply settled_ok_of_spec; eauto.
    + intros data LR ST. destruct (HS _ data eq_refl LR ST) as [B1 B2]. cbn [p_body p_json] in B1, B2.
      subst. split; [reflexivity|]. destruct js; [discriminate | reflexivity].
  - intros H. apply trace_eqb_eq in H. subst tr'. intros W1 W2.
    destruct (HC W1 W2) as (resp' & E & _). discriminate.
Qed.

Lemma corr_sound c : model_agrees c = true -> obs_ok c = true.
Proof.
  destruct c as [o req dg subj ob|o req dg subj ob rs|m p q res cns|a res|a b res]; cbn [model_agrees obs_ok]; try reflexivity.
  - (* a served request *)
    intros H. pose proof (serve_agrees_sound o req dg subj ob H) as S. cbv zeta in S.
    destruct (wb_trace (obs_trace ob) && wb_locs (o_locs (opts_of o)) (obs_trace ob)) eqn:W; [|reflexivity].
    apply andb_true_iff in W as [W1 W2]. specialize (S W1 W2).
    destruct ob as [tr'|st hdrs bd js tr']; [contradiction|]. cbn [negb orb].
    destruct S as (S1 & S2 & _). now rewrite S1, S2.
  - (* a served request with a reader that failed *)
    intros H. apply andb_true_iff in H as [H _].
    pose proof (serve_agrees_sound o req dg subj ob H) as S. cbv zeta in S.
    destruct (wb_trace (obs_trace ob) && wb_locs (o_locs (opts_of o)) (obs_trace ob) && wb_streams rs) eqn:W; [|reflexivity].
    apply andb_true_iff in W as [W _]. apply andb_true_iff in W as [W1 W2]. specialize (S W1 W2).
    destruct ob as [tr'|st hdrs bd js tr']; [contradiction|]. cbn [negb orb obs_trace] in *.
    destruct S as (S1 & S2 & S3). rewrite S1, S2. cbn [andb].
    apply stream_ok_of_last. exact S3.
  - (* the router on its own *)
    intros H. apply andb_true_iff in H as [H1 H2].
    pose proof (parse_req_good L m p q) as G.
    destruct (parse_req L m p q) as [rq|e| |]; cbn [good] in G; try contradiction;
      destruct res as [|k cd|r]; cbn in H1; try discriminate; try reflexivity.
    apply request_eqb_eq in H1. subst r. rewrite G. cbn [andb].
    destruct cns; try reflexivity. exfalso.
    destruct (Construct_no_panic L rq) as [N1 N2].
    destruct (Construct L rq) as [[? ?]| | |]; cbn in H2; try discriminate; congruence.
Qed.

Definition mismatches (cs : list case) : list (N * bool) :=
  bad_from 0 (fun c => if model_agrees c then None else Some (obs_ok c)) cs.
Definition bad_obs (cs : list case) : list (N * bool) :=
  bad_from 0 (fun c => if obs_ok c then None else Some (model_agrees c)) cs.
