(* Sorting byte strings (slices.SortFunc with strings.Compare): insertion sort as the
   model (any correct sort gives the same result on duplicate-free input, by
   [ssorted_unique]). *)
From Coq Require Import Sorted Permutation.
From OCI Require Export Base.Bytes.

Fixpoint binsert (a : bytes) (l : list bytes) : list bytes :=
  match l with
  | [] => [a]
  | b :: l' => if bleb a b then a :: l else b :: binsert a l'
  end.

Fixpoint bsort (l : list bytes) : list bytes :=
  match l with
  | [] => []
  | a :: l' => binsert a (bsort l')
  end.

(* strictly ascending *)
Definition ssorted (l : list bytes) : Prop := StronglySorted blt l.

Fixpoint ssortedb (l : list bytes) : bool :=
  match l with
  | [] => true
  | a :: l' => match l' with
               | [] => true
               | b :: _ => bltb a b && ssortedb l'
               end
  end.

Lemma binsert_perm a l : Permutation (a :: l) (binsert a l).
Proof.
  induction l as [|b l IH]; cbn; [reflexivity|].
  destruct (bleb a b); [reflexivity|].
  rewrite perm_swap. now constructor.
Qed.

Lemma bsort_perm l : Permutation l (bsort l).
Proof.
  induction l as [|a l IH]; cbn; [reflexivity|].
  rewrite <- binsert_perm. now constructor.
Qed.

Lemma bsort_In a l : In a (bsort l) <-> In a l.
Proof.
  split; apply Permutation_in; [symmetry|]; apply bsort_perm.
Qed.

Lemma bsort_NoDup l : NoDup l -> NoDup (bsort l).
Proof. intros H. eapply Permutation_NoDup; [apply bsort_perm | exact H]. Qed.

Lemma bleb_false_lt a b : bleb a b = false -> blt b a.
Proof.
  unfold bleb, blt. destruct (bcmp a b) eqn:E; try discriminate. intros _.
  now apply bcmp_gt_lt.
Qed.

Lemma bleb_true a b : bleb a b = true -> blt a b \/ a = b.
Proof.
  unfold bleb, blt. destruct (bcmp a b) eqn:E; try discriminate; intros _; auto.
  right. now apply bcmp_eq.
Qed.

(* insertion keeps strict sortedness when the element is new *)
Lemma binsert_ssorted a l : ssorted l -> ~ In a l -> ssorted (binsert a l).
Proof.
  unfold ssorted. induction l as [|b l IH]; cbn; intros Hs Hn.
  - constructor; constructor.
  - inversion Hs as [|? ? Hs' Hall]; subst.
    destruct (bleb a b) eqn:E.
    + apply bleb_true in E as [E|E]; [|subst; exfalso; auto].
      constructor; [assumption|]. constructor; [exact E|].
      eapply Forall_impl; [|exact Hall]. intros c Hc. eapply blt_trans; eauto.
    + apply bleb_false_lt in E. constructor.
      * apply IH; auto.
      * apply Forall_forall. intros c Hc.
        apply (Permutation_in _ (Permutation_sym (binsert_perm a l))) in Hc.
        destruct Hc as [<-|Hc]; [exact E|]. rewrite Forall_forall in Hall. auto.
Qed.

Lemma bsort_ssorted l : NoDup l -> ssorted (bsort l).
Proof.
  induction l as [|a l IH]; cbn; intros H; [constructor|].
  inversion H; subst. apply binsert_ssorted; [auto|]. now rewrite bsort_In.
Qed.

Lemma ssorted_NoDup l : ssorted l -> NoDup l.
Proof.
  induction 1 as [|a l Hs IH Hall]; constructor; auto.
  intros Hi. rewrite Forall_forall in Hall. apply Hall in Hi. now apply blt_irrefl in Hi.
Qed.

(* a strictly sorted list is determined by its elements *)
Lemma ssorted_unique l1 l2 :
  ssorted l1 -> ssorted l2 -> (forall a, In a l1 <-> In a l2) -> l1 = l2.
Proof.
  unfold ssorted. revert l2; induction l1 as [|a l1 IH]; intros l2 H1 H2 Heq.
  - destruct l2 as [|b l2]; [reflexivity|]. exfalso. apply (Heq b). now left.
  - destruct l2 as [|b l2]; [exfalso; apply (Heq a); now left|].
    inversion H1 as [|? ? H1' A1]; inversion H2 as [|? ? H2' A2]; subst.
    rewrite Forall_forall in A1, A2.
    assert (a = b).
    { destruct (proj1 (Heq a) (or_introl eq_refl)) as [E|Hi]; [auto|].
      destruct (proj2 (Heq b) (or_introl eq_refl)) as [E|Hj]; [auto|].
      exfalso. apply (blt_asym a b); auto. }
    subst b. f_equal. apply IH; auto.
    intros c. split; intros Hc.
    + destruct (proj1 (Heq c) (or_intror Hc)) as [E|Hi]; [|exact Hi].
      subst c. apply A1 in Hc. now apply blt_irrefl in Hc.
    + destruct (proj2 (Heq c) (or_intror Hc)) as [E|Hi]; [|exact Hi].
      subst c. apply A2 in Hc. now apply blt_irrefl in Hc.
Qed.

Lemma ssortedb_spec l : ssortedb l = true <-> ssorted l.
Proof.
  unfold ssorted. induction l as [|a l IH]; cbn; [split; auto; constructor|].
  destruct l as [|b l].
  - split; auto. intros _. constructor; constructor.
  - rewrite andb_true_iff, bltb_lt, IH. split.
    + intros [Hab Hs]. constructor; [assumption|]. constructor; [assumption|].
      inversion Hs as [|? ? ? Hall]; subst. eapply Forall_impl; [|exact Hall].
      intros c Hc. eapply blt_trans; eauto.
    + intros H. inversion H as [|? ? Hs Hall]; subst. split; [|assumption].
      inversion Hall; assumption.
Qed.

(* the listing every layer computes: keys strictly after [start], ascending *)
Definition list_after (start : bytes) (keys : list bytes) : list bytes :=
  bsort (filter (fun k => bltb start k) keys).

Lemma list_after_In start keys a : In a (list_after start keys) <-> In a keys /\ blt start a.
Proof. unfold list_after. rewrite bsort_In, filter_In, bltb_lt. tauto. Qed.

Lemma list_after_ssorted start keys : NoDup keys -> ssorted (list_after start keys).
Proof. intros H. apply bsort_ssorted. now apply NoDup_filter. Qed.
