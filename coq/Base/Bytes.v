(* Byte strings: Go string / []byte are modelled as [list N] (no < 256 side
   condition unless a codec needs it).  Case files carry them hex-encoded:
   [x "666f6f"].  Comparison is bytewise lexicographic, as Go's string order. *)
From Coq Require Import String Ascii.
From Coq Require Export List NArith ZArith Bool Lia.
Export ListNotations.
Open Scope N_scope.

Definition bytes := list N.

(* ---------- decidable equality ---------- *)

Fixpoint beqb (a b : bytes) : bool :=
  match a, b with
  | [], [] => true
  | x :: a', y :: b' => N.eqb x y && beqb a' b'
  | _, _ => false
  end.

Lemma beqb_eq a b : beqb a b = true <-> a = b.
Proof.
  revert b; induction a as [|x a IH]; intros [|y b]; cbn; split; intros H;
    try reflexivity; try discriminate.
  - apply andb_true_iff in H as [H1 H2]. apply N.eqb_eq in H1. apply IH in H2. now subst.
  - injection H as -> ->. rewrite N.eqb_refl. cbn. now apply IH.
Qed.

Lemma beqb_refl a : beqb a a = true.
Proof. now apply beqb_eq. Qed.

Lemma beqb_neq a b : beqb a b = false <-> a <> b.
Proof.
  split; intros H.
  - intros E. apply beqb_eq in E. congruence.
  - destruct (beqb a b) eqn:E; [apply beqb_eq in E; contradiction | reflexivity].
Qed.

Lemma beqb_sym a b : beqb a b = beqb b a.
Proof.
  destruct (beqb a b) eqn:E.
  - apply beqb_eq in E. subst. symmetry. apply beqb_refl.
  - symmetry. apply beqb_neq. apply beqb_neq in E. congruence.
Qed.

Definition bytes_eq_dec (a b : bytes) : {a = b} + {a <> b}.
Proof. decide equality. apply N.eq_dec. Defined.

(* ---------- lexicographic order (Go's < on strings) ---------- *)

Fixpoint bcmp (a b : bytes) : comparison :=
  match a, b with
  | [], [] => Eq
  | [], _ :: _ => Lt
  | _ :: _, [] => Gt
  | x :: a', y :: b' =>
      match N.compare x y with
      | Eq => bcmp a' b'
      | c => c
      end
  end.

Definition bltb (a b : bytes) : bool := match bcmp a b with Lt => true | _ => false end.
Definition bleb (a b : bytes) : bool := match bcmp a b with Gt => false | _ => true end.
Definition blt (a b : bytes) : Prop := bcmp a b = Lt.

Lemma bcmp_eq a b : bcmp a b = Eq <-> a = b.
Proof.
  revert b; induction a as [|x a IH]; intros [|y b]; cbn; split; intros H;
    try reflexivity; try discriminate.
  - destruct (N.compare_spec x y); try discriminate. subst. f_equal. now apply IH.
  - injection H as -> ->. rewrite N.compare_refl. now apply IH.
Qed.

Lemma bcmp_refl a : bcmp a a = Eq.
Proof. now apply bcmp_eq. Qed.

Lemma bcmp_antisym a b : bcmp b a = CompOpp (bcmp a b).
Proof.
  revert b; induction a as [|x a IH]; intros [|y b]; cbn; try reflexivity.
  rewrite (N.compare_antisym x y). destruct (N.compare x y); cbn; auto.
Qed.

Lemma bcmp_lt_trans a b c : bcmp a b = Lt -> bcmp b c = Lt -> bcmp a c = Lt.
Proof.
  revert b c; induction a as [|x a IH]; intros [|y b] [|z c]; cbn; try congruence.
  destruct (N.compare_spec x y), (N.compare_spec y z); subst; try congruence; intros H1 H2.
  - rewrite N.compare_refl. eauto.
  - apply N.compare_lt_iff in H0. now rewrite H0.
  - apply N.compare_lt_iff in H. now rewrite H.
  - assert (x < z) by lia. apply N.compare_lt_iff in H3. now rewrite H3.
Qed.

Lemma blt_irrefl a : ~ blt a a.
Proof. unfold blt. rewrite bcmp_refl. discriminate. Qed.

Lemma blt_trans a b c : blt a b -> blt b c -> blt a c.
Proof. apply bcmp_lt_trans. Qed.

Lemma bcmp_gt_lt a b : bcmp a b = Gt <-> bcmp b a = Lt.
Proof. rewrite (bcmp_antisym a b). destruct (bcmp a b); cbn; split; congruence. Qed.

Lemma bltb_lt a b : bltb a b = true <-> blt a b.
Proof. unfold bltb, blt. destruct (bcmp a b); split; congruence. Qed.

Lemma blt_total a b : blt a b \/ a = b \/ blt b a.
Proof.
  unfold blt. destruct (bcmp a b) eqn:E; auto.
  - apply bcmp_eq in E. auto.
  - apply bcmp_gt_lt in E. auto.
Qed.

Lemma blt_asym a b : blt a b -> ~ blt b a.
Proof. intros H1 H2. apply (blt_irrefl a). eapply blt_trans; eauto. Qed.

(* ---------- hex literals for case files ---------- *)

Definition hexval (c : ascii) : N :=
  let n := N_of_ascii c in
  if (48 <=? n) && (n <=? 57) then n - 48
  else if (97 <=? n) && (n <=? 102) then n - 87
  else if (65 <=? n) && (n <=? 70) then n - 55
  else 0.

Fixpoint x (s : string) : bytes :=
  match s with
  | String a (String b r) => (16 * hexval a + hexval b) :: x r
  | _ => []
  end.

(* plain ASCII literal: [s "foo"] *)
Fixpoint s (t : string) : bytes :=
  match t with
  | EmptyString => []
  | String a r => N_of_ascii a :: s r
  end.

Arguments x _%string.
Arguments s _%string.

(* [rep n b]: n copies of byte b, for large contents in case files *)
Definition rep (n : N) (b : N) : bytes := repeat b (N.to_nat n).

(* ---------- small string functions used by several models ---------- *)

Fixpoint has_prefix (p a : bytes) : bool :=
  match p, a with
  | [], _ => true
  | c :: p', d :: a' => N.eqb c d && has_prefix p' a'
  | _ :: _, [] => false
  end.

Lemma has_prefix_spec p a : has_prefix p a = true <-> exists r, a = p ++ r.
Proof.
  revert a; induction p as [|c p IH]; intros a; cbn.
  - split; eauto.
  - destruct a as [|d a]; [split; [discriminate | intros [r H]; discriminate] |].
    rewrite andb_true_iff, N.eqb_eq, IH. split.
    + intros [-> [r ->]]. eauto.
    + intros [r H]. injection H as -> ->. eauto.
Qed.

(* strings.TrimPrefix *)
Definition trim_prefix (p a : bytes) : bytes :=
  if has_prefix p a then skipn (length p) a else a.

Definition has_suffix (q a : bytes) : bool := has_prefix (rev q) (rev a).

Definition blen (a : bytes) : Z := Z.of_nat (length a).

(* index of first occurrence of byte c: Some (before, after) — strings.Cut on a single byte *)
Fixpoint cut_byte (c : N) (a : bytes) : option (bytes * bytes) :=
  match a with
  | [] => None
  | d :: a' =>
      if N.eqb d c then Some ([], a')
      else match cut_byte c a' with
           | Some (l, r) => Some (d :: l, r)
           | None => None
           end
  end.

Lemma cut_byte_some c a l r : cut_byte c a = Some (l, r) -> a = l ++ c :: r /\ ~ In c l.
Proof.
  revert l r; induction a as [|d a IH]; cbn; intros l r H; [discriminate|].
  destruct (N.eqb_spec d c).
  - injection H as <- <-. subst. split; auto.
  - destruct (cut_byte c a) as [[l' r']|]; [|discriminate]. injection H as <- <-.
    destruct (IH _ _ eq_refl) as [-> Hn]. split; [reflexivity|]. intros [E|Hi]; auto.
Qed.

Lemma cut_byte_none c a : cut_byte c a = None <-> ~ In c a.
Proof.
  induction a as [|d a IH]; cbn; [tauto|].
  destruct (N.eqb_spec d c).
  - split; [discriminate | intros H; exfalso; auto].
  - destruct (cut_byte c a) as [[l r]|].
    + split; [discriminate|]. intros H. exfalso. apply H. right.
      destruct IH as [_ IH]. destruct (in_dec N.eq_dec c a); auto.
      specialize (IH n0). discriminate.
    + split; auto. intros _ [E|Hi]; [congruence|]. now apply IH.
Qed.

Fixpoint mem_bytes (a : bytes) (l : list bytes) : bool :=
  match l with
  | [] => false
  | b :: l' => beqb a b || mem_bytes a l'
  end.

Lemma mem_bytes_In a l : mem_bytes a l = true <-> In a l.
Proof.
  induction l as [|b l IH]; cbn; [split; [discriminate|tauto]|].
  rewrite orb_true_iff, beqb_eq, IH. split; intros [H|H]; auto.
Qed.
