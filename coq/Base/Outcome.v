(* Outcomes of a modelled Go call.  [Panic] is an explicit result at every
   modelled panic site, so "never panics" is a statement, not an artefact of
   Gallina totality; [OutOfFuel] is the result of a fuelled loop that ran out. *)
From OCI Require Export Base.Bytes.

Inductive R (E A : Type) : Type :=
  | Ok (a : A)
  | Err (e : E)
  | Panic
  | OutOfFuel.
Arguments Ok {E A} a.
Arguments Err {E A} e.
Arguments Panic {E A}.
Arguments OutOfFuel {E A}.

Definition rbind {E A B} (r : R E A) (f : A -> R E B) : R E B :=
  match r with
  | Ok a => f a
  | Err e => Err e
  | Panic => Panic
  | OutOfFuel => OutOfFuel
  end.

Notation "'do' a <- r ; k" := (rbind r (fun a => k)) (at level 200, a pattern, r at level 100, k at level 200).

Definition is_ok {E A} (r : R E A) : bool := match r with Ok _ => true | _ => false end.
Definition is_err {E A} (r : R E A) : bool := match r with Err _ => true | _ => false end.
Definition is_panic {E A} (r : R E A) : bool := match r with Panic => true | _ => false end.

Fixpoint list_eqb {A} (eqb : A -> A -> bool) (l1 l2 : list A) : bool :=
  match l1, l2 with
  | [], [] => true
  | a :: l1', b :: l2' => eqb a b && list_eqb eqb l1' l2'
  | _, _ => false
  end.

Lemma list_eqb_eq {A} (eqb : A -> A -> bool) :
  (forall a b, eqb a b = true <-> a = b) ->
  forall l1 l2, list_eqb eqb l1 l2 = true <-> l1 = l2.
Proof.
  intros H l1; induction l1 as [|a l1 IH]; intros [|b l2]; cbn; split; intros E;
    try reflexivity; try discriminate.
  - apply andb_true_iff in E as [E1 E2]. apply H in E1. apply IH in E2. now subst.
  - injection E as -> ->. apply andb_true_iff. split; [now apply H | now apply IH].
Qed.

Definition option_eqb {A} (eqb : A -> A -> bool) (a b : option A) : bool :=
  match a, b with
  | None, None => true
  | Some u, Some v => eqb u v
  | _, _ => false
  end.

(* count of elements satisfying p, as N, for evidence figures *)
Definition countb {A} (p : A -> bool) (l : list A) : N := N.of_nat (length (filter p l)).

(* indices (from 0) of the elements on which [f] is false, with a payload *)
Fixpoint bad_from {A B} (i : N) (f : A -> option B) (l : list A) : list (N * B) :=
  match l with
  | [] => []
  | a :: l' => match f a with
               | Some b => (i, b) :: bad_from (N.succ i) f l'
               | None => bad_from (N.succ i) f l'
               end
  end.
