(* Sorted lists under a three-way comparison: the models of Go's slices.SortFunc
   (insertion sort: under a total order whose "equal" is identity every correct sort
   returns the same list, lemma [sorted_lt_unique]), slices.Compact, and
   slices.BinarySearch / BinarySearchFunc (the loop of the Go source with explicit
   fuel and an explicit index-out-of-range outcome), with the lemmas that make them
   usable: membership, strict ascent, uniqueness of strictly ascending lists, and
   "binary search = membership" on strictly ascending lists. *)
From Coq Require Export Sorted.
From OCI Require Export Base.Outcome.

(* ---------- generic facts about StronglySorted ---------- *)

Lemma ssorted_app {A} (R : A -> A -> Prop) l1 l2 :
  StronglySorted R (l1 ++ l2) <->
  StronglySorted R l1 /\ StronglySorted R l2 /\ (forall a b, In a l1 -> In b l2 -> R a b).
Proof.
  induction l1 as [|a l1 IH]; cbn.
  - split; [intros H; split; [constructor | split; [exact H | intros a b []]] | tauto].
  - split.
    + intros H. inversion H as [|? ? Hs Hf]; subst. apply IH in Hs as (H1 & H2 & H3).
      rewrite Forall_app in Hf. destruct Hf as [Hf1 Hf2]. repeat split; auto.
      * constructor; auto.
      * intros u v [->|Hu] Hv; [rewrite Forall_forall in Hf2; auto | auto].
    + intros (H1 & H2 & H3). inversion H1 as [|? ? Hs Hf]; subst. constructor.
      * apply IH. repeat split; auto.
      * rewrite Forall_app. split; auto. apply Forall_forall. intros v Hv. apply H3; auto.
Qed.

Lemma ssorted_filter {A} (R : A -> A -> Prop) (p : A -> bool) l :
  StronglySorted R l -> StronglySorted R (filter p l).
Proof.
  induction 1 as [|a l Hs IH Hf]; cbn; [constructor|].
  destruct (p a); auto. constructor; auto.
  apply Forall_forall. intros v Hv. apply filter_In in Hv as [Hv _].
  rewrite Forall_forall in Hf. auto.
Qed.

Lemma ssorted_map {A B} (R : B -> B -> Prop) (f : A -> B) l :
  StronglySorted R (map f l) <-> StronglySorted (fun a b => R (f a) (f b)) l.
Proof.
  induction l as [|a l IH]; cbn; [split; constructor|].
  split; intros H; inversion H as [|? ? Hs Hf]; subst; constructor; try (apply IH; assumption).
  - rewrite Forall_forall in *. intros v Hv. apply Hf. now apply in_map.
  - rewrite Forall_forall in *. intros v Hv. apply in_map_iff in Hv as (u & <- & Hu). auto.
Qed.

Lemma ssorted_rev {A} (R : A -> A -> Prop) l :
  StronglySorted R (rev l) <-> StronglySorted (fun a b => R b a) l.
Proof.
  induction l as [|a l IH]; cbn; [split; constructor|].
  rewrite ssorted_app. split.
  - intros (H1 & _ & H3). constructor; [now apply IH|].
    apply Forall_forall. intros v Hv. apply H3; [now apply in_rev in Hv | now left].
  - intros H. inversion H as [|? ? Hs Hf]; subst. repeat split.
    + now apply IH.
    + repeat constructor.
    + intros u v Hu [<-|[]]. rewrite Forall_forall in Hf. apply Hf. now apply in_rev.
Qed.

Lemma ssorted_weaken {A} (R R' : A -> A -> Prop) l :
  (forall a b, In a l -> In b l -> R a b -> R' a b) -> StronglySorted R l -> StronglySorted R' l.
Proof.
  intros HR H. induction H as [|a l Hs IH Hf]; constructor.
  - apply IH. intros; apply HR; auto; now right.
  - rewrite Forall_forall in *. intros v Hv. apply HR; auto; [now left | now right].
Qed.

(* ---------- total three-way comparisons ---------- *)

Record total_cmp {A} (cmp : A -> A -> comparison) : Prop := {
  tc_eq : forall a b, cmp a b = Eq <-> a = b;
  tc_antisym : forall a b, cmp b a = CompOpp (cmp a b);
  tc_trans : forall a b c, cmp a b = Lt -> cmp b c = Lt -> cmp a c = Lt
}.

Lemma bcmp_total : total_cmp bcmp.
Proof. split; [apply bcmp_eq | apply bcmp_antisym | apply bcmp_lt_trans]. Qed.

Section Order.
  Context {A : Type} (cmp : A -> A -> comparison) (eqb : A -> A -> bool).

  Definition cmp_lt (a b : A) : Prop := cmp a b = Lt.
  Definition cmp_le (a b : A) : Prop := cmp a b <> Gt.

  (* slices.SortFunc(l, cmp) *)
  Fixpoint insert (a : A) (l : list A) : list A :=
    match l with
    | [] => [a]
    | b :: l' => match cmp a b with
                 | Gt => b :: insert a l'
                 | _ => a :: l
                 end
    end.

  Fixpoint isort (l : list A) : list A :=
    match l with
    | [] => []
    | a :: l' => insert a (isort l')
    end.

  (* slices.Compact(l): one element of every run of == elements *)
  Fixpoint compact (l : list A) : list A :=
    match l with
    | [] => []
    | a :: l' => match l' with
                 | [] => [a]
                 | b :: _ => if eqb a b then compact l' else a :: compact l'
                 end
    end.

  Lemma insert_In a v l : In v (insert a l) <-> v = a \/ In v l.
  Proof.
    induction l as [|b l IH]; cbn; [intuition congruence|].
    destruct (cmp a b); cbn; rewrite ?IH; intuition congruence.
  Qed.

  Lemma isort_In v l : In v (isort l) <-> In v l.
  Proof.
    induction l as [|a l IH]; cbn; [tauto|]. rewrite insert_In, IH. intuition congruence.
  Qed.

  Lemma isort_length l : length (isort l) = length l.
  Proof.
    induction l as [|a l IH]; cbn; auto. rewrite <- IH. generalize (isort l). intros m.
    induction m as [|b m IHm]; cbn; auto. destruct (cmp a b); cbn; auto.
  Qed.

  Hypothesis T : total_cmp cmp.
  Hypothesis eqb_eq : forall a b, eqb a b = true <-> a = b.

  Lemma cmp_refl a : cmp a a = Eq.
  Proof. now apply (tc_eq _ T). Qed.

  Lemma cmp_gt_lt a b : cmp a b = Gt <-> cmp b a = Lt.
  Proof. rewrite (tc_antisym _ T a b). destruct (cmp a b); cbn; split; congruence. Qed.

  Lemma lt_irrefl a : ~ cmp_lt a a.
  Proof. unfold cmp_lt. rewrite cmp_refl. discriminate. Qed.

  Lemma lt_trans a b c : cmp_lt a b -> cmp_lt b c -> cmp_lt a c.
  Proof. apply (tc_trans _ T). Qed.

  Lemma lt_asym a b : cmp_lt a b -> ~ cmp_lt b a.
  Proof. intros H1 H2. apply (lt_irrefl a). eapply lt_trans; eauto. Qed.

  Lemma lt_total a b : cmp_lt a b \/ a = b \/ cmp_lt b a.
  Proof.
    unfold cmp_lt. destruct (cmp a b) eqn:E; auto.
    - apply (tc_eq _ T) in E. auto.
    - apply cmp_gt_lt in E. auto.
  Qed.

  Lemma le_cases a b : cmp_le a b <-> cmp_lt a b \/ a = b.
  Proof.
    unfold cmp_le, cmp_lt. split.
    - destruct (cmp a b) eqn:E; try tauto. apply (tc_eq _ T) in E. auto.
    - intros [H| ->]; [rewrite H; discriminate | rewrite cmp_refl; discriminate].
  Qed.

  Lemma le_trans a b c : cmp_le a b -> cmp_le b c -> cmp_le a c.
  Proof.
    rewrite !le_cases. intros [H1| ->] [H2| ->]; auto. left. eapply lt_trans; eauto.
  Qed.

  Lemma lt_le_trans a b c : cmp_lt a b -> cmp_le b c -> cmp_lt a c.
  Proof. rewrite le_cases. intros H1 [H2| <-]; auto. eapply lt_trans; eauto. Qed.

  Lemma le_lt_trans a b c : cmp_le a b -> cmp_lt b c -> cmp_lt a c.
  Proof. rewrite le_cases. intros [H1| ->] H2; auto. eapply lt_trans; eauto. Qed.

  Lemma not_lt_le a b : ~ cmp_lt a b <-> cmp_le b a.
  Proof.
    rewrite le_cases. destruct (lt_total a b) as [H|[->|H]]; split; intros; auto; try tauto.
    - destruct H0 as [H0| ->]; [now apply lt_asym in H0 | now apply lt_irrefl in H].
    - apply lt_irrefl.
    - now apply lt_asym.
  Qed.

  Lemma insert_sorted a l : StronglySorted cmp_le l -> StronglySorted cmp_le (insert a l).
  Proof.
    induction 1 as [|b l Hs IH Hf]; cbn; [repeat constructor|].
    assert (Hle : cmp a b <> Gt -> StronglySorted cmp_le (a :: b :: l)).
    { intros E. constructor; [constructor; auto|]. constructor; [exact E|].
      rewrite Forall_forall in *. intros v Hv. eapply le_trans; [exact E | auto]. }
    destruct (cmp a b) eqn:E; try (apply Hle; discriminate).
    constructor; auto. apply Forall_forall. intros v Hv. apply insert_In in Hv as [->|Hv].
    - apply le_cases. left. now apply cmp_gt_lt.
    - rewrite Forall_forall in Hf. auto.
  Qed.

  Lemma isort_sorted l : StronglySorted cmp_le (isort l).
  Proof. induction l; cbn; [constructor | now apply insert_sorted]. Qed.

  Lemma compact_In v l : In v (compact l) <-> In v l.
  Proof.
    induction l as [|a l IH]; [tauto|]. destruct l as [|b l]; [cbn; tauto|].
    change (compact (a :: b :: l)) with (if eqb a b then compact (b :: l) else a :: compact (b :: l)).
    destruct (eqb a b) eqn:E.
    - apply eqb_eq in E. subst. rewrite IH. cbn. tauto.
    - cbn [In]. rewrite IH. cbn. tauto.
  Qed.

  Lemma compact_sorted l : StronglySorted cmp_le l -> StronglySorted cmp_lt (compact l).
  Proof.
    induction 1 as [|a l Hs IH Hf]; [constructor|]. destruct l as [|b l]; [repeat constructor|].
    change (compact (a :: b :: l)) with (if eqb a b then compact (b :: l) else a :: compact (b :: l)).
    destruct (eqb a b) eqn:E; auto. constructor; auto.
    apply Forall_forall. intros v Hv. apply (proj1 (compact_In _ _)) in Hv. cbn [In] in Hv.
    rewrite Forall_forall in Hf.
    assert (Hab : cmp_lt a b).
    { specialize (Hf b (or_introl eq_refl)). apply le_cases in Hf as [H| ->]; auto.
      rewrite (proj2 (eqb_eq b b) eq_refl) in E. discriminate. }
    destruct Hv as [<-|Hv]; auto. eapply lt_le_trans; [exact Hab|].
    inversion Hs as [|? ? _ Hfb]; subst. rewrite Forall_forall in Hfb. auto.
  Qed.

  (* what NewScope does first: sort, then compact *)
  Lemma sort_compact_sorted l : StronglySorted cmp_lt (compact (isort l)).
  Proof. apply compact_sorted, isort_sorted. Qed.

  Lemma sort_compact_In v l : In v (compact (isort l)) <-> In v l.
  Proof. now rewrite compact_In, isort_In. Qed.

  Lemma sorted_lt_NoDup l : StronglySorted cmp_lt l -> NoDup l.
  Proof.
    induction 1 as [|a l Hs IH Hf]; constructor; auto.
    intros Hi. rewrite Forall_forall in Hf. apply (lt_irrefl a). auto.
  Qed.

  (* a strictly ascending list is determined by its elements *)
  Lemma sorted_lt_unique l1 l2 :
    StronglySorted cmp_lt l1 -> StronglySorted cmp_lt l2 ->
    (forall v, In v l1 <-> In v l2) -> l1 = l2.
  Proof.
    intros H1. revert l2. induction H1 as [|a l1 Hs1 IH Hf1]; intros l2 H2 Hi.
    - destruct l2 as [|b l2]; auto. exfalso. apply (Hi b). now left.
    - destruct H2 as [|b l2 Hs2 Hf2]; [exfalso; apply (Hi a); now left|].
      rewrite Forall_forall in Hf1, Hf2.
      assert (a = b) as <-.
      { destruct (proj1 (Hi a) (or_introl eq_refl)) as [E|Ha]; auto.
        destruct (proj2 (Hi b) (or_introl eq_refl)) as [E|Hb]; auto.
        exfalso. apply (lt_asym a b); auto. }
      f_equal. apply IH; auto. intros v. split; intros Hv.
      + destruct (proj1 (Hi v) (or_intror Hv)) as [<-|]; auto.
        exfalso. apply (lt_irrefl a). auto.
      + destruct (proj2 (Hi v) (or_intror Hv)) as [<-|]; auto.
        exfalso. apply (lt_irrefl a). auto.
  Qed.

  (* sorting a strictly ascending list changes nothing *)
  Lemma sort_compact_id l : StronglySorted cmp_lt l -> compact (isort l) = l.
  Proof.
    intros H. apply sorted_lt_unique; [apply sort_compact_sorted | exact H | intros v; apply sort_compact_In].
  Qed.

  (* split of a strictly ascending list at a probe: everything below, then the rest *)
  Lemma sorted_partition l t :
    StronglySorted cmp_lt l ->
    exists l1 l2, l = l1 ++ l2 /\ Forall (fun e => cmp e t = Lt) l1 /\ Forall (fun e => cmp e t <> Lt) l2.
  Proof.
    induction 1 as [|a l Hs IH Hf].
    - exists [], []. repeat split; constructor.
    - destruct (cmp a t) eqn:E.
      + exists [], (a :: l). repeat split; [constructor|]. constructor; [rewrite E; discriminate|].
        rewrite Forall_forall in *. intros v Hv Hl. apply (tc_eq _ T) in E. subst t.
        apply (lt_asym a v); auto.
      + destruct IH as (l1 & l2 & -> & F1 & F2). exists (a :: l1), l2. repeat split; auto.
      + exists [], (a :: l). repeat split; [constructor|]. constructor; [rewrite E; discriminate|].
        rewrite Forall_forall in *. intros v Hv Hl. apply cmp_gt_lt in E.
        apply (lt_asym a t); [eapply lt_trans; [apply Hf|]; eauto | exact E].
  Qed.
End Order.

Arguments cmp_lt {A} cmp a b /.
Arguments cmp_le {A} cmp a b /.

(* ---------- binary search ---------- *)

Section BSearch.
  Context {E T : Type} (cmp : E -> T -> comparison).

  (* the loop [for i < j] of slices.BinarySearch / BinarySearchFunc:
         h := int(uint(i+j) >> 1)
         if cmp(x[h], target) < 0 { i = h + 1 } else { j = h }                          *)
  Fixpoint bs_loop (fuel : nat) (x : list E) (t : T) (i j : nat) : R unit nat :=
    if (i <? j)%nat then
      match fuel with
      | O => OutOfFuel
      | S f =>
          let h := ((i + j) / 2)%nat in
          match nth_error x h with
          | None => Panic                      (* index out of range *)
          | Some e => match cmp e t with
                      | Lt => bs_loop f x t (h + 1)%nat j
                      | _ => bs_loop f x t i h
                      end
          end
      end
    else Ok i.

  (* return i, i < n && cmp(x[i], target) == 0 *)
  Definition bsearch (x : list E) (t : T) : R unit (nat * bool) :=
    do i <- bs_loop (S (length x)) x t 0%nat (length x);
    Ok (i, match nth_error x i with
           | Some e => match cmp e t with Eq => true | _ => false end
           | None => false
           end).

  Lemma half_bounds i j : (i < j)%nat -> (i <= (i + j) / 2 < j)%nat.
  Proof.
    intros H. split.
    - apply Nat.div_le_lower_bound; lia.
    - apply Nat.div_lt_upper_bound; lia.
  Qed.

  (* the loop finds the partition point of any list that is partitioned by "< target" *)
  Lemma bs_loop_spec fuel x t i j k :
    (forall idx e, nth_error x idx = Some e -> (cmp e t = Lt <-> (idx < k)%nat)) ->
    (i <= k <= j)%nat -> (j <= length x)%nat -> (j - i < fuel)%nat ->
    bs_loop fuel x t i j = Ok k.
  Proof.
    intros Hp. revert i j. induction fuel as [|f IH]; intros i j Hk Hj Hf; [lia|].
    cbn [bs_loop]. destruct (Nat.ltb_spec i j) as [Hlt|Hge].
    - destruct (half_bounds i j Hlt) as [Hh1 Hh2]. set (h := ((i + j) / 2)%nat) in *.
      destruct (nth_error x h) as [e|] eqn:En.
      2:{ apply nth_error_None in En. lia. }
      specialize (Hp h e En).
      destruct (cmp e t) eqn:Ec.
      + apply IH; try lia. assert (~ (h < k)%nat) by (intros Hc; apply Hp in Hc; discriminate). lia.
      + apply IH; try lia. assert (h < k)%nat by now apply Hp. lia.
      + apply IH; try lia. assert (~ (h < k)%nat) by (intros Hc; apply Hp in Hc; discriminate). lia.
    - f_equal. lia.
  Qed.

  (* on any list at all the loop terminates within its fuel and never indexes out of range *)
  Lemma bs_loop_total fuel x t i j :
    (j <= length x)%nat -> (j - i < fuel)%nat -> exists k, bs_loop fuel x t i j = Ok k.
  Proof.
    revert i j. induction fuel as [|f IH]; intros i j Hj Hf; [lia|].
    cbn [bs_loop]. destruct (Nat.ltb_spec i j) as [Hlt|Hge]; [|eauto].
    destruct (half_bounds i j Hlt) as [Hh1 Hh2]. set (h := ((i + j) / 2)%nat) in *.
    destruct (nth_error x h) as [e|] eqn:En.
    2:{ apply nth_error_None in En. lia. }
    destruct (cmp e t); apply IH; lia.
  Qed.

  Lemma bsearch_total x t : exists k b, bsearch x t = Ok (k, b).
  Proof.
    unfold bsearch. destruct (bs_loop_total (S (length x)) x t 0 (length x)) as [k Hk]; try lia.
    rewrite Hk. cbn. eauto.
  Qed.

  Lemma bsearch_partition x t l1 l2 :
    x = l1 ++ l2 -> Forall (fun e => cmp e t = Lt) l1 -> Forall (fun e => cmp e t <> Lt) l2 ->
    bsearch x t = Ok (length l1, match l2 with
                                 | e :: _ => match cmp e t with Eq => true | _ => false end
                                 | [] => false
                                 end).
  Proof.
    intros -> F1 F2. unfold bsearch.
    rewrite (bs_loop_spec _ _ _ 0%nat _ (length l1)).
    - cbn [rbind]. rewrite nth_error_app2, Nat.sub_diag by lia. destruct l2; reflexivity.
    - intros idx e En. rewrite Forall_forall in F1, F2. split.
      + intros Hl. destruct (Nat.lt_ge_cases idx (length l1)) as [|Hge]; auto.
        rewrite nth_error_app2 in En by lia. apply nth_error_In in En. now apply F2 in En.
      + intros Hl. rewrite nth_error_app1 in En by lia. apply nth_error_In in En. auto.
    - rewrite app_length. lia.
    - lia.
    - lia.
  Qed.
End BSearch.

(* binary search on a strictly ascending list is membership, and the index it returns is
   the position of the element *)
Lemma bsearch_sorted {A} (cmp : A -> A -> comparison) (T : total_cmp cmp) x t :
  StronglySorted (cmp_lt cmp) x ->
  exists k b, bsearch cmp x t = Ok (k, b) /\ (b = true <-> In t x) /\
              (b = true -> nth_error x k = Some t) /\
              k = length (filter (fun e => match cmp e t with Lt => true | _ => false end) x).
Proof.
  intros Hs. destruct (sorted_partition cmp T x t Hs) as (l1 & l2 & -> & F1 & F2).
  rewrite (bsearch_partition cmp _ t l1 l2 eq_refl F1 F2).
  apply ssorted_app in Hs as (Hs1 & Hs2 & H12).
  eexists _, _. split; [reflexivity|].
  assert (Hnot1 : ~ In t l1).
  { intros Hi. rewrite Forall_forall in F1. apply F1 in Hi. rewrite (cmp_refl cmp T) in Hi. discriminate. }
  repeat split.
  - destruct l2 as [|e l2]; [discriminate|]. destruct (cmp e t) eqn:Ec; try discriminate.
    intros _. apply (tc_eq _ T) in Ec. subst. apply in_or_app. right. now left.
  - intros Hi. apply in_app_or in Hi as [Hi|Hi]; [contradiction|].
    destruct l2 as [|e l2]; [destruct Hi|]. destruct Hi as [->|Hi]; [now rewrite (cmp_refl cmp T)|].
    exfalso. inversion Hs2 as [|? ? _ Hf]; subst. rewrite Forall_forall in Hf, F2.
    apply (F2 e (or_introl eq_refl)). now apply Hf.
  - destruct l2 as [|e l2]; [discriminate|]. destruct (cmp e t) eqn:Ec; try discriminate.
    intros _. apply (tc_eq _ T) in Ec. subst. rewrite nth_error_app2, Nat.sub_diag by lia. reflexivity.
  - rewrite filter_app, app_length.
    assert (filter (fun e => match cmp e t with Lt => true | _ => false end) l1 = l1) as ->.
    { clear -F1. induction F1 as [|e l He Hf IH]; cbn; auto. now rewrite He, IH. }
    assert (filter (fun e => match cmp e t with Lt => true | _ => false end) l2 = []) as ->.
    { clear -F2. induction F2 as [|e l He Hf IH]; cbn; auto. destruct (cmp e t); try congruence. }
    cbn. lia.
Qed.
