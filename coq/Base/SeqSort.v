(* Sorting vocabulary for the listing models (C05): slices.SortFunc with strings.Compare
   (any sorting function gives the same result on a list under a total order; the model
   uses insertion sort), slices.CompactFunc (drop consecutive equal elements), strictly
   sorted lists and their uniqueness. *)
From Coq Require Import Sorted Permutation.
From OCI Require Export Base.Bytes.

(* ---- slices.SortFunc(ks, strings.Compare) ---- *)
Fixpoint sort_ins (a : bytes) (l : list bytes) : list bytes :=
  match l with
  | [] => [a]
  | b :: l' => if bleb a b then a :: l else b :: sort_ins a l'
  end.

Fixpoint sort_bytes (l : list bytes) : list bytes :=
  match l with
  | [] => []
  | a :: l' => sort_ins a (sort_bytes l')
  end.

(* ---- slices.CompactFunc(xs, func(a, b) bool { return cmp(a, b) == 0 }) ---- *)
Fixpoint compact (l : list bytes) : list bytes :=
  match l with
  | [] => []
  | a :: l' => match l' with
               | [] => [a]
               | b :: _ => if beqb a b then compact l' else a :: compact l'
               end
  end.

Definition ble (a b : bytes) : Prop := bcmp a b <> Gt.
Definition ssorted (l : list bytes) : Prop := StronglySorted blt l.   (* strictly ascending *)
Definition wsorted (l : list bytes) : Prop := StronglySorted ble l.   (* ascending, duplicates allowed *)

(* adjacent-pairs check, for specifications evaluated on observations *)
Fixpoint ascending (l : list bytes) : bool :=
  match l with
  | [] => true
  | a :: l' => match l' with
               | [] => true
               | b :: _ => bltb a b && ascending l'
               end
  end.

(* ---------- order facts ---------- *)

Lemma bleb_le a b : bleb a b = true <-> ble a b.
Proof. unfold bleb, ble. destruct (bcmp a b); split; congruence. Qed.

Lemma bleb_false_lt a b : bleb a b = false -> blt b a.
Proof. unfold bleb. destruct (bcmp a b) eqn:E; try discriminate. intros _. now apply bcmp_gt_lt. Qed.

Lemma blt_le a b : blt a b -> ble a b.
Proof. unfold blt, ble. congruence. Qed.

Lemma ble_cases a b : ble a b -> blt a b \/ a = b.
Proof.
  unfold ble, blt. destruct (bcmp a b) eqn:E; intros H; try congruence; auto.
  right. now apply bcmp_eq.
Qed.

Lemma ble_refl a : ble a a.
Proof. unfold ble. rewrite bcmp_refl. discriminate. Qed.

Lemma ble_trans a b c : ble a b -> ble b c -> ble a c.
Proof.
  intros H1 H2. destruct (ble_cases _ _ H1) as [H1'| ->]; auto.
  destruct (ble_cases _ _ H2) as [H2'| ->]; auto.
  apply blt_le. eapply blt_trans; eauto.
Qed.

Lemma blt_ble_trans a b c : blt a b -> ble b c -> blt a c.
Proof. intros H1 H2. destruct (ble_cases _ _ H2) as [H| ->]; auto. eapply blt_trans; eauto. Qed.

Lemma ble_blt_trans a b c : ble a b -> blt b c -> blt a c.
Proof. intros H1 H2. destruct (ble_cases _ _ H1) as [H| ->]; auto. eapply blt_trans; eauto. Qed.

Lemma bltb_irrefl a : bltb a a = false.
Proof. unfold bltb. now rewrite bcmp_refl. Qed.

Lemma bltb_false_iff a b : bltb a b = false <-> ~ blt a b.
Proof. rewrite <- bltb_lt. destruct (bltb a b); split; congruence. Qed.

Lemma bltb_trans a b c : bltb a b = true -> bltb b c = true -> bltb a c = true.
Proof. rewrite !bltb_lt. apply blt_trans. Qed.

(* ---------- sort ---------- *)

Lemma sort_ins_In x a l : In x (sort_ins a l) <-> x = a \/ In x l.
Proof.
  induction l as [|b l IH]; cbn; [intuition|].
  destruct (bleb a b); cbn; [intuition|]. rewrite IH. intuition.
Qed.

Lemma sort_bytes_In x l : In x (sort_bytes l) <-> In x l.
Proof.
  induction l as [|a l IH]; cbn; [tauto|]. rewrite sort_ins_In, IH. intuition.
Qed.

Lemma sort_ins_length a l : length (sort_ins a l) = S (length l).
Proof. induction l as [|b l IH]; cbn; [reflexivity|]. destruct (bleb a b); cbn; congruence. Qed.

Lemma sort_bytes_length l : length (sort_bytes l) = length l.
Proof. induction l as [|a l IH]; cbn; [reflexivity|]. now rewrite sort_ins_length, IH. Qed.

Lemma sort_ins_perm a l : Permutation (a :: l) (sort_ins a l).
Proof.
  induction l as [|b l IH]; cbn; [reflexivity|].
  destruct (bleb a b); [reflexivity|].
  rewrite perm_swap. now apply perm_skip.
Qed.

Lemma sort_bytes_perm l : Permutation l (sort_bytes l).
Proof.
  induction l as [|a l IH]; cbn; [constructor|].
  rewrite <- sort_ins_perm. now apply perm_skip.
Qed.

Lemma sort_ins_wsorted a l : wsorted l -> wsorted (sort_ins a l).
Proof.
  unfold wsorted. induction l as [|b l IH]; intros Hs; cbn.
  - constructor; constructor.
  - apply StronglySorted_inv in Hs as [Hs Hb].
    destruct (bleb a b) eqn:E.
    + apply bleb_le in E. constructor; [constructor; auto|].
      constructor; auto. rewrite Forall_forall in *. intros x Hx. eapply ble_trans; eauto.
    + apply bleb_false_lt in E. constructor; auto.
      rewrite Forall_forall in *. intros x Hx. apply sort_ins_In in Hx as [->|Hx]; auto.
      now apply blt_le.
Qed.

Lemma sort_bytes_wsorted l : wsorted (sort_bytes l).
Proof. induction l; cbn; [constructor | now apply sort_ins_wsorted]. Qed.

(* ---------- strictly sorted lists ---------- *)

Lemma ssorted_nil : ssorted [].
Proof. constructor. Qed.

Lemma ssorted_cons_inv a l : ssorted (a :: l) -> ssorted l /\ Forall (blt a) l.
Proof. apply StronglySorted_inv. Qed.

Lemma ssorted_NoDup l : ssorted l -> NoDup l.
Proof.
  induction l as [|a l IH]; intros H; [constructor|].
  apply ssorted_cons_inv in H as [H1 H2]. constructor; auto.
  intros Hi. rewrite Forall_forall in H2. exact (blt_irrefl a (H2 _ Hi)).
Qed.

Lemma ssorted_wsorted l : ssorted l -> wsorted l.
Proof.
  unfold ssorted, wsorted. induction 1; constructor; auto.
  eapply Forall_impl; [|eassumption]. apply blt_le.
Qed.

(* two strictly sorted lists with the same members are equal *)
Lemma ssorted_unique l1 l2 :
  ssorted l1 -> ssorted l2 -> (forall x, In x l1 <-> In x l2) -> l1 = l2.
Proof.
  revert l2; induction l1 as [|a l1 IH]; intros [|b l2] H1 H2 Hm.
  - reflexivity.
  - exfalso. apply (proj2 (Hm b)). now left.
  - exfalso. apply (proj1 (Hm a)). now left.
  - apply ssorted_cons_inv in H1 as [H1 F1]. apply ssorted_cons_inv in H2 as [H2 F2].
    rewrite Forall_forall in F1, F2.
    assert (a = b) as ->.
    { destruct (proj1 (Hm a) (or_introl eq_refl)) as [->|Ha]; [reflexivity|].
      destruct (proj2 (Hm b) (or_introl eq_refl)) as [->|Hb]; [reflexivity|].
      exfalso. apply (blt_asym a b); auto. }
    f_equal. apply IH; auto. intros x. split; intros Hx.
    + destruct (proj1 (Hm x) (or_intror Hx)) as [<-|]; auto.
      exfalso. exact (blt_irrefl _ (F1 _ Hx)).
    + destruct (proj2 (Hm x) (or_intror Hx)) as [<-|]; auto.
      exfalso. exact (blt_irrefl _ (F2 _ Hx)).
Qed.

Lemma ssorted_filter f l : ssorted l -> ssorted (filter f l).
Proof.
  unfold ssorted. induction 1 as [|a l Hs IH Hf]; cbn; [constructor|].
  destruct (f a); auto. constructor; auto.
  rewrite Forall_forall in *. intros x Hx. apply filter_In in Hx as [Hx _]. auto.
Qed.

Lemma ssorted_app l1 l2 :
  ssorted l1 -> ssorted l2 -> (forall x y, In x l1 -> In y l2 -> blt x y) -> ssorted (l1 ++ l2).
Proof.
  unfold ssorted. induction l1 as [|a l1 IH]; intros H1 H2 Hc; cbn; auto.
  apply StronglySorted_inv in H1 as [H1 F1]. constructor.
  - apply IH; auto. intros x y Hx Hy. apply Hc; [now right|auto].
  - rewrite Forall_forall in *. intros x Hx. apply in_app_or in Hx as [Hx|Hx]; auto.
    apply Hc; [now left|auto].
Qed.

Lemma ssorted_app_inv l1 l2 :
  ssorted (l1 ++ l2) -> ssorted l1 /\ ssorted l2 /\ (forall x y, In x l1 -> In y l2 -> blt x y).
Proof.
  unfold ssorted. induction l1 as [|a l1 IH]; cbn; intros H.
  - repeat split; auto; [constructor | intros x y Hx; destruct Hx].
  - apply StronglySorted_inv in H as [H F]. destruct (IH H) as (H1 & H2 & Hc).
    rewrite Forall_forall in F. repeat split; auto.
    + constructor; auto. rewrite Forall_forall. intros x Hx. apply F. apply in_or_app. auto.
    + intros x y [<-|Hx] Hy; auto. apply F. apply in_or_app. auto.
Qed.

Lemma ascending_spec l : ascending l = true <-> ssorted l.
Proof.
  unfold ssorted. induction l as [|a l IH]; cbn; [split; auto; constructor|].
  destruct l as [|b l].
  - split; auto. intros _. constructor; constructor.
  - rewrite andb_true_iff, IH, bltb_lt. split.
    + intros [Hab Hs]. constructor; auto.
      apply StronglySorted_inv in Hs as [Hs F]. constructor; auto.
      eapply Forall_impl; [|eassumption]. intros x. now apply blt_trans.
    + intros H. apply StronglySorted_inv in H as [Hs F]. split; auto.
      now apply Forall_inv in F.
Qed.

(* on a duplicate-free list the sort is strictly ascending *)
Lemma sort_bytes_ssorted l : NoDup l -> ssorted (sort_bytes l).
Proof.
  intros Hn. assert (Hn' : NoDup (sort_bytes l)).
  { eapply Permutation_NoDup; [apply sort_bytes_perm | exact Hn]. }
  pose proof (sort_bytes_wsorted l) as Hw. unfold wsorted, ssorted in *.
  induction Hw as [|a r Hw IH F]; [constructor|].
  apply NoDup_cons_iff in Hn' as [Hni Hn']. constructor; auto.
  rewrite Forall_forall in *. intros x Hx. destruct (ble_cases _ _ (F _ Hx)) as [H0 | ->]; auto.
  contradiction.
Qed.

(* ---------- compact ---------- *)

Lemma compact_In x l : In x (compact l) <-> In x l.
Proof.
  induction l as [|a l IH]; [tauto|]. cbn [compact]. destruct l as [|b l]; [tauto|].
  destruct (beqb a b) eqn:E.
  - apply beqb_eq in E. subst b. rewrite IH. cbn. tauto.
  - cbn [In]. rewrite IH. cbn. tauto.
Qed.

Lemma compact_ssorted l : wsorted l -> ssorted (compact l).
Proof.
  unfold wsorted, ssorted. induction l as [|a l IH]; intros H; [constructor|].
  cbn [compact]. destruct l as [|b l]; [constructor; constructor|].
  apply StronglySorted_inv in H as [H F].
  destruct (beqb a b) eqn:E; [now apply IH|].
  apply beqb_neq in E. constructor; [now apply IH|].
  rewrite Forall_forall in *. intros x Hx. apply (proj1 (compact_In _ _)) in Hx.
  assert (Hab : blt a b).
  { destruct (ble_cases a b) as [|]; auto; [apply F; now left | contradiction]. }
  cbn [In] in Hx. destruct Hx as [<-|Hx]; auto.
  apply StronglySorted_inv in H as [_ Fb]. rewrite Forall_forall in Fb.
  eapply blt_ble_trans; eauto.
Qed.

Lemma compact_id l : ssorted l -> compact l = l.
Proof.
  unfold ssorted. induction l as [|a l IH]; intros H; [reflexivity|].
  cbn [compact]. destruct l as [|b l]; [reflexivity|].
  apply StronglySorted_inv in H as [H F]. apply Forall_inv in F.
  destruct (beqb a b) eqn:E.
  - apply beqb_eq in E. subst. exfalso. exact (blt_irrefl _ F).
  - f_equal. now apply IH.
Qed.

(* ---------- the elements strictly after a point ---------- *)

Lemma filter_after_In start l x : In x (filter (bltb start) l) <-> In x l /\ blt start x.
Proof. rewrite filter_In, bltb_lt. tauto. Qed.

(* in a strictly sorted list, what lies strictly after an element is the rest of the list *)
Lemma filter_after_split a x b :
  ssorted (a ++ x :: b) -> filter (bltb x) (a ++ x :: b) = b.
Proof.
  intros H. apply ssorted_app_inv in H as (Ha & Hb & Hc).
  apply ssorted_cons_inv in Hb as [Hb Fb].
  rewrite filter_app. cbn. rewrite bltb_irrefl.
  assert (filter (bltb x) a = []) as ->.
  { induction a as [|c a IH]; [reflexivity|]. cbn.
    assert (Hcx : blt c x) by (apply Hc; [now left | now left]).
    destruct (bltb x c) eqn:E.
    - apply bltb_lt in E. exfalso. exact (blt_asym _ _ Hcx E).
    - apply IH.
      + now apply ssorted_cons_inv in Ha.
      + intros u v Hu Hv. apply Hc; [now right | auto]. }
  cbn. clear Hc Ha. induction b as [|c b IH]; [reflexivity|]. cbn.
  apply Forall_cons_iff in Fb as [Hxc Fb]. apply bltb_lt in Hxc. rewrite Hxc. f_equal.
  apply IH; auto. now apply ssorted_cons_inv in Hb.
Qed.

(* filtering twice from increasing points is filtering from the later point *)
Lemma filter_after_after s x l :
  ble s x -> filter (bltb x) (filter (bltb s) l) = filter (bltb x) l.
Proof.
  intros Hsx. induction l as [|a l IH]; [reflexivity|]. cbn.
  destruct (bltb s a) eqn:E1; cbn; destruct (bltb x a) eqn:E2; rewrite ?IH; auto.
  apply bltb_lt in E2. apply bltb_false_iff in E1. exfalso. apply E1.
  eapply ble_blt_trans; eauto.
Qed.
