(* Regular expressions over bytes, as data, with a Brzozowski-derivative matcher.

   Used to model Go [regexp] patterns that are only asked "does the whole string
   match" (patterns of the shape ^(?:...)$ with MatchString): for those, leftmost-first
   versus leftmost-longest does not matter, the answer is language membership.

   Bytes versus runes.  Go's engine reads UTF-8 runes (an invalid byte is the rune U+FFFD
   of width 1).  Every class used by the models is either a positive class of ASCII bytes
   (never matches a byte >= 0x80, nor U+FFFD) or a negated class of ASCII bytes (matches
   every non-ASCII rune and U+FFFD); since no byte of a multi-byte UTF-8 sequence is
   ASCII, matching byte by byte accepts exactly the same strings.  This is an argument
   on paper, tied to the engine by the correspondence runs (which include invalid UTF-8). *)
From OCI Require Export Base.Outcome.

(* ---------- character classes: a finite union of inclusive ranges, possibly negated ---------- *)

Record cls := mkcls { c_neg : bool; c_ranges : list (N * N) }.

Definition in_range (c : N) (r : N * N) : bool := (fst r <=? c) && (c <=? snd r).
Definition cls_mem (k : cls) (c : N) : bool := xorb (c_neg k) (existsb (in_range c) (c_ranges k)).

Definition range_eqb (a b : N * N) : bool := (fst a =? fst b) && (snd a =? snd b).
Definition cls_eqb (a b : cls) : bool :=
  Bool.eqb (c_neg a) (c_neg b) && list_eqb range_eqb (c_ranges a) (c_ranges b).

Lemma range_eqb_eq a b : range_eqb a b = true <-> a = b.
Proof.
  destruct a as [a1 a2], b as [b1 b2]; unfold range_eqb; cbn.
  rewrite andb_true_iff, !N.eqb_eq. split; [intros [-> ->]; reflexivity | intros E; now inversion E].
Qed.

Lemma cls_eqb_eq a b : cls_eqb a b = true -> a = b.
Proof.
  destruct a as [n1 r1], b as [n2 r2]; unfold cls_eqb; cbn. intros H.
  apply andb_true_iff in H as [H1 H2]. apply Bool.eqb_prop in H1.
  apply (list_eqb_eq range_eqb range_eqb_eq) in H2. now subst.
Qed.

(* ---------- syntax ---------- *)

Inductive regex :=
  | Empty                      (* matches nothing *)
  | Eps                        (* matches the empty string *)
  | Chr (k : cls)              (* one byte of the class *)
  | Cat (a b : regex)
  | Alt (a b : regex)
  | Star (a : regex).

(* derived forms, as Go's parser expands them *)
Definition Plus (a : regex) : regex := Cat a (Star a).          (* a+ *)
Definition Opt (a : regex) : regex := Alt a Eps.                (* a? *)
Definition Byte (c : N) : regex := Chr (mkcls false [(c, c)]).
Fixpoint Lit (l : bytes) : regex :=                             (* literal string *)
  match l with
  | [] => Eps
  | c :: l' => Cat (Byte c) (Lit l')
  end.
Fixpoint Rep (n : nat) (a : regex) : regex :=                   (* a{n} *)
  match n with
  | O => Eps
  | S n' => Cat a (Rep n' a)
  end.

(* ---------- declarative semantics ---------- *)

Inductive Matches : regex -> bytes -> Prop :=
  | MEps : Matches Eps []
  | MChr k c : cls_mem k c = true -> Matches (Chr k) [c]
  | MCat a b u v : Matches a u -> Matches b v -> Matches (Cat a b) (u ++ v)
  | MAltL a b u : Matches a u -> Matches (Alt a b) u
  | MAltR a b u : Matches b u -> Matches (Alt a b) u
  | MStar0 a : Matches (Star a) []
  | MStarS a u v : Matches a u -> Matches (Star a) v -> Matches (Star a) (u ++ v).

(* ---------- the matcher ---------- *)

Fixpoint regex_eqb (a b : regex) : bool :=
  match a, b with
  | Empty, Empty => true
  | Eps, Eps => true
  | Chr k, Chr k' => cls_eqb k k'
  | Cat a1 a2, Cat b1 b2 => regex_eqb a1 b1 && regex_eqb a2 b2
  | Alt a1 a2, Alt b1 b2 => regex_eqb a1 b1 && regex_eqb a2 b2
  | Star a1, Star b1 => regex_eqb a1 b1
  | _, _ => false
  end.

Fixpoint nullable (r : regex) : bool :=
  match r with
  | Empty => false
  | Eps => true
  | Chr _ => false
  | Cat a b => nullable a && nullable b
  | Alt a b => nullable a || nullable b
  | Star _ => true
  end.

(* [a] is (syntactically) one of the alternatives of [r] *)
Fixpoint in_alt (a r : regex) : bool :=
  regex_eqb a r ||
  match r with
  | Alt u v => in_alt a u || in_alt a v
  | _ => false
  end.

(* smart constructors: keep derivatives small *)
Definition alt (a b : regex) : regex :=
  match a, b with
  | Empty, _ => b
  | _, Empty => a
  | _, _ => if in_alt b a then a else if in_alt a b then b else Alt a b
  end.

Definition cat (a b : regex) : regex :=
  match a, b with
  | Empty, _ => Empty
  | _, Empty => Empty
  | Eps, _ => b
  | _, Eps => a
  | _, _ => Cat a b
  end.

Fixpoint deriv (c : N) (r : regex) : regex :=
  match r with
  | Empty => Empty
  | Eps => Empty
  | Chr k => if cls_mem k c then Eps else Empty
  | Cat a b => if nullable a then alt (cat (deriv c a) b) (deriv c b) else cat (deriv c a) b
  | Alt a b => alt (deriv c a) (deriv c b)
  | Star a => cat (deriv c a) (Star a)
  end.

Fixpoint matches (r : regex) (w : bytes) : bool :=
  match w with
  | [] => nullable r
  | c :: w' => matches (deriv c r) w'
  end.

(* ---------- correctness of the matcher ---------- *)

Lemma regex_eqb_eq a : forall b, regex_eqb a b = true -> a = b.
Proof.
  induction a; intros [] H; cbn in H; try discriminate; try reflexivity.
  - apply cls_eqb_eq in H. now subst.
  - apply andb_true_iff in H as [H1 H2]. f_equal; auto.
  - apply andb_true_iff in H as [H1 H2]. f_equal; auto.
  - f_equal; auto.
Qed.

(* inversion lemmas *)
Lemma m_empty w : ~ Matches Empty w.
Proof. intros H. inversion H. Qed.

Lemma m_eps w : Matches Eps w <-> w = [].
Proof. split; [intros H; now inversion H | intros ->; constructor]. Qed.

Lemma m_chr k w : Matches (Chr k) w <-> exists c, w = [c] /\ cls_mem k c = true.
Proof.
  split.
  - intros H. inversion H; subst. eauto.
  - intros [c [-> H]]. now constructor.
Qed.

Lemma m_cat a b w : Matches (Cat a b) w <-> exists u v, w = u ++ v /\ Matches a u /\ Matches b v.
Proof.
  split.
  - intros H. inversion H; subst. eauto.
  - intros [u [v [-> [H1 H2]]]]. now constructor.
Qed.

Lemma m_alt a b w : Matches (Alt a b) w <-> Matches a w \/ Matches b w.
Proof.
  split.
  - intros H. inversion H; subst; auto.
  - intros [H|H]; [now apply MAltL | now apply MAltR].
Qed.

Lemma m_star_unfold a w :
  Matches (Star a) w <-> w = [] \/ exists u v, w = u ++ v /\ Matches a u /\ Matches (Star a) v.
Proof.
  split.
  - intros H. inversion H; subst; eauto 6.
  - intros [->|[u [v [-> [H1 H2]]]]]; [constructor | now constructor].
Qed.

(* a non-empty match of a star starts with a non-empty match of the body *)
Lemma m_star_cons a c w :
  Matches (Star a) (c :: w) ->
  exists u v, w = u ++ v /\ Matches a (c :: u) /\ Matches (Star a) v.
Proof.
  intros H. remember (Star a) as r eqn:Er. remember (c :: w) as cw eqn:Ew.
  revert a c w Er Ew. induction H; intros a' c' w' Er Ew; try discriminate.
  injection Er as ->.
  destruct u as [|c0 u].
  - cbn in Ew. eapply IHMatches2; eauto.
  - cbn in Ew. injection Ew as -> <-. eauto.
Qed.

Lemma in_alt_sound a r : in_alt a r = true -> forall w, Matches a w -> Matches r w.
Proof.
  induction r; cbn; intros H w Hm;
    try (rewrite orb_false_r in H; apply regex_eqb_eq in H; now subst).
  apply orb_true_iff in H as [H|H]; [apply regex_eqb_eq in H; now subst|].
  apply orb_true_iff in H as [H|H]; [apply MAltL | apply MAltR]; auto.
Qed.

Lemma alt_sem a b w : Matches (alt a b) w <-> Matches a w \/ Matches b w.
Proof.
  assert (G : forall a b, Matches (if in_alt b a then a else if in_alt a b then b else Alt a b) w
                          <-> Matches a w \/ Matches b w).
  { intros p q. destruct (in_alt q p) eqn:E1; [|destruct (in_alt p q) eqn:E2].
    - split; auto. intros [H|H]; auto. eapply in_alt_sound; eauto.
    - split; auto. intros [H|H]; auto. eapply in_alt_sound; eauto.
    - apply m_alt. }
  destruct a, b; cbn [alt]; try apply G;
    split; auto; intros [H|H]; auto; exfalso; eapply m_empty; eauto.
Qed.

Lemma cat_sem a b w : Matches (cat a b) w <-> exists u v, w = u ++ v /\ Matches a u /\ Matches b v.
Proof.
  assert (E0 : forall b, (exists u v, w = u ++ v /\ Matches Empty u /\ Matches b v) <-> False).
  { intros q. split; [intros [u [v [_ [H _]]]]; eapply m_empty; eauto | tauto]. }
  assert (E1 : forall a, (exists u v, w = u ++ v /\ Matches a u /\ Matches Empty v) <-> False).
  { intros q. split; [intros [u [v [_ [_ H]]]]; eapply m_empty; eauto | tauto]. }
  assert (L : forall b, Matches b w <-> exists u v, w = u ++ v /\ Matches Eps u /\ Matches b v).
  { intros q. split.
    - intros H. exists [], w. repeat split; auto. constructor.
    - intros [u [v [-> [H1 H2]]]]. apply m_eps in H1. now subst. }
  assert (Rr : forall a, Matches a w <-> exists u v, w = u ++ v /\ Matches a u /\ Matches Eps v).
  { intros q. split.
    - intros H. exists w, []. rewrite app_nil_r. repeat split; auto. constructor.
    - intros [u [v [-> [H1 H2]]]]. apply m_eps in H2. subst. now rewrite app_nil_r. }
  destruct a, b; cbn [cat];
    try (rewrite E0; split; [apply m_empty | tauto]);
    try (rewrite E1; split; [apply m_empty | tauto]);
    try apply L; try apply Rr; apply m_cat.
Qed.

Lemma nullable_sem r : nullable r = true <-> Matches r [].
Proof.
  induction r; cbn.
  - split; [discriminate | intros H; inversion H].
  - split; auto. constructor.
  - split; [discriminate | intros H; inversion H].
  - rewrite andb_true_iff, IHr1, IHr2, m_cat. split.
    + intros [H1 H2]. exists [], []. auto.
    + intros [u [v [E [H1 H2]]]]. symmetry in E. apply app_eq_nil in E as [-> ->]. auto.
  - rewrite orb_true_iff, IHr1, IHr2, m_alt. tauto.
  - split; auto. constructor.
Qed.

Lemma deriv_sem c r : forall w, Matches (deriv c r) w <-> Matches r (c :: w).
Proof.
  induction r; intros w; cbn [deriv].
  - split; intros H; inversion H.
  - split; intros H; inversion H.
  - destruct (cls_mem k c) eqn:E.
    + rewrite m_eps, m_chr. split.
      * intros ->. eauto.
      * intros [c' [Hc _]]. now injection Hc.
    + split; [intros H; inversion H|]. rewrite m_chr. intros [c' [Hc Hm]].
      injection Hc as -> _. congruence.
  - assert (G : Matches (cat (deriv c r1) r2) w <->
                exists u v, w = u ++ v /\ Matches r1 (c :: u) /\ Matches r2 v).
    { rewrite cat_sem. split; intros [u [v [E [H1 H2]]]]; exists u, v; repeat split; auto;
        now apply IHr1. }
    rewrite m_cat. destruct (nullable r1) eqn:En.
    + rewrite alt_sem, G, IHr2. split.
      * intros [[u [v [-> [H1 H2]]]]|H].
        -- exists (c :: u), v. auto.
        -- exists [], (c :: w). repeat split; auto. now apply nullable_sem.
      * intros [[|c' u] [v [E [H1 H2]]]].
        -- cbn in E. subst v. auto.
        -- cbn in E. injection E as <- ->. left. eauto.
    + rewrite G. split.
      * intros [u [v [-> [H1 H2]]]]. exists (c :: u), v. auto.
      * intros [[|c' u] [v [E [H1 H2]]]].
        -- apply nullable_sem in H1. congruence.
        -- cbn in E. injection E as <- ->. eauto.
  - rewrite alt_sem, IHr1, IHr2, m_alt. tauto.
  - rewrite cat_sem. split.
    + intros [u [v [-> [H1 H2]]]]. apply IHr in H1.
      change (c :: u ++ v) with ((c :: u) ++ v). now constructor.
    + intros H. apply m_star_cons in H as [u [v [-> [H1 H2]]]].
      exists u, v. repeat split; auto. now apply IHr.
Qed.

Theorem matches_sem r w : matches r w = true <-> Matches r w.
Proof.
  revert r; induction w as [|c w IH]; intros r; cbn.
  - apply nullable_sem.
  - rewrite IH. apply deriv_sem.
Qed.

Lemma matches_false r w : matches r w = false <-> ~ Matches r w.
Proof.
  rewrite <- matches_sem. destruct (matches r w); split; congruence.
Qed.

(* ---------- derived forms ---------- *)

Lemma m_opt a w : Matches (Opt a) w <-> Matches a w \/ w = [].
Proof. unfold Opt. now rewrite m_alt, m_eps. Qed.

Lemma m_plus a w :
  Matches (Plus a) w <-> exists u v, w = u ++ v /\ Matches a u /\ Matches (Star a) v.
Proof. apply m_cat. Qed.

Lemma m_byte c w : Matches (Byte c) w <-> w = [c].
Proof.
  unfold Byte. rewrite m_chr.
  assert (G : forall c', cls_mem (mkcls false [(c, c)]) c' = true <-> c' = c).
  { intros c'. unfold cls_mem, in_range. cbn [c_neg c_ranges existsb fst snd].
    rewrite xorb_false_l, orb_false_r, andb_true_iff, !N.leb_le. lia. }
  split.
  - intros [c' [-> H]]. apply G in H. now subst.
  - intros ->. exists c. split; auto. now apply G.
Qed.

Lemma m_lit l w : Matches (Lit l) w <-> w = l.
Proof.
  revert w; induction l as [|c l IH]; intros w; cbn [Lit].
  - apply m_eps.
  - rewrite m_cat. split.
    + intros [u [v [-> [H1 H2]]]]. apply m_byte in H1. apply IH in H2. now subst.
    + intros ->. exists [c], l. repeat split; [now apply m_byte | now apply IH].
Qed.

(* a star of a single class is "every byte is in the class" *)
Lemma m_star_chr k w : Matches (Star (Chr k)) w <-> Forall (fun c => cls_mem k c = true) w.
Proof.
  split.
  - induction w as [|c w IH]; intros H; constructor.
    + apply m_star_cons in H as [u [v [-> [H1 H2]]]]. apply m_chr in H1 as [c' [E Hm]].
      injection E as -> _. exact Hm.
    + apply m_star_cons in H as [u [v [-> [H1 H2]]]]. apply m_chr in H1 as [c' [E Hm]].
      injection E as _ ->. apply IH. exact H2.
  - induction 1 as [|c w Hc Hw IH]; [constructor|].
    change (c :: w) with ([c] ++ w). constructor; auto. now constructor.
Qed.

Lemma m_plus_chr k w :
  Matches (Plus (Chr k)) w <-> w <> [] /\ Forall (fun c => cls_mem k c = true) w.
Proof.
  rewrite m_plus. split.
  - intros [u [v [-> [H1 H2]]]]. apply m_chr in H1 as [c [-> Hm]]. split; [discriminate|].
    constructor; auto. now apply m_star_chr.
  - intros [Hn H]. destruct w as [|c w]; [congruence|]. inversion H; subst.
    exists [c], w. repeat split; [now constructor | now apply m_star_chr].
Qed.

Lemma m_rep_length n a w :
  (forall u, Matches a u -> length u = 1%nat) -> Matches (Rep n a) w -> length w = n.
Proof.
  intros Ha. revert w; induction n as [|n IH]; intros w; cbn [Rep].
  - rewrite m_eps. now intros ->.
  - rewrite m_cat. intros [u [v [-> [H1 H2]]]]. rewrite app_length, (Ha _ H1), (IH _ H2). reflexivity.
Qed.

(* ---------- alphabet: a matched string only contains bytes some leaf class admits ---------- *)

Fixpoint alpha (r : regex) (c : N) : bool :=
  match r with
  | Empty | Eps => false
  | Chr k => cls_mem k c
  | Cat a b | Alt a b => alpha a c || alpha b c
  | Star a => alpha a c
  end.

Theorem matches_alphabet r w : Matches r w -> Forall (fun c => alpha r c = true) w.
Proof.
  induction 1; cbn [alpha].
  - constructor.
  - constructor; auto.
  - apply Forall_app. split; (eapply Forall_impl; [|eassumption]); cbn; intros c Hc;
      rewrite Hc; auto using orb_true_r.
  - eapply Forall_impl; [|eassumption]. cbn; intros c Hc. now rewrite Hc.
  - eapply Forall_impl; [|eassumption]. cbn; intros c Hc. rewrite Hc. apply orb_true_r.
  - constructor.
  - apply Forall_app. split; auto.
Qed.

Corollary matches_not_in r w c : matches r w = true -> alpha r c = false -> ~ In c w.
Proof.
  intros H Ha Hin. apply matches_sem, matches_alphabet in H.
  rewrite Forall_forall in H. specialize (H _ Hin). congruence.
Qed.

(* the empty string is matched only by nullable expressions *)
Lemma matches_nil r : matches r [] = nullable r.
Proof. reflexivity. Qed.
