(* Base64, standard alphabet with '=' padding (RFC 4648 section 4).

   [b64_encode] is the specification side (what a writer of a config file does).
   [b64_decode] follows Go's encoding/base64 StdEncoding.DecodeString as it is
   (go1.23 decodeQuantum, non-strict): CR and LF are skipped wherever they occur,
   a final quantum must be padded to four characters ("xx==" or "xxx="), nothing
   but CR/LF may follow the padding, and the unused low bits of a padded quantum
   are NOT required to be zero.  Any other byte is a CorruptInputError = [None].
   The quantum loop of the Go code is flattened: [dbuf] is the list of sextets
   collected so far for the current quantum (Go's dbuf[0..j-1]).

   Theorem [b64_roundtrip]: decode (encode l) = Some l for every byte list. *)
From Coq Require Import String.
From OCI Require Export Base.Bytes.

(* encodeStd[v] for v < 64 *)
Definition b64_char (v : N) : N :=
  if v <? 26 then 65 + v            (* A-Z *)
  else if v <? 52 then 71 + v       (* a-z : 97 + (v - 26) *)
  else if v <? 62 then v - 4        (* 0-9 : 48 + (v - 52) *)
  else if v =? 62 then 43           (* + *)
  else 47.                          (* / *)

(* enc.decodeMap[c]; None is Go's 0xff *)
Definition b64_decode_map (c : N) : option N :=
  if (65 <=? c) && (c <=? 90) then Some (c - 65)
  else if (97 <=? c) && (c <=? 122) then Some (c - 71)
  else if (48 <=? c) && (c <=? 57) then Some (c + 4)
  else if c =? 43 then Some 62
  else if c =? 47 then Some 63
  else None.

Definition b64_pad : N := 61.   (* '=' *)

Fixpoint b64_encode (l : bytes) : bytes :=
  match l with
  | [] => []
  | [a] => [b64_char (a / 4); b64_char ((a mod 4) * 16); b64_pad; b64_pad]
  | [a; b] => [b64_char (a / 4); b64_char ((a mod 4) * 16 + b / 16); b64_char ((b mod 16) * 4); b64_pad]
  | a :: b :: c :: r =>
      b64_char (a / 4) :: b64_char ((a mod 4) * 16 + b / 16)
        :: b64_char ((b mod 16) * 4 + c / 64) :: b64_char (c mod 64) :: b64_encode r
  end.

(* in == '\n' || in == '\r' *)
Definition is_nl (c : N) : bool := (c =? 10) || (c =? 13).

(* for si < len(src) && (src[si] == '\n' || src[si] == '\r') { si++ } *)
Fixpoint skip_nl (l : bytes) : bytes :=
  match l with
  | c :: r => if is_nl c then skip_nl r else l
  | [] => []
  end.

(* val := dbuf[0]<<18 | dbuf[1]<<12 | dbuf[2]<<6 | dbuf[3]   (all sextets < 64, so | is +) *)
Definition quantum_val (d0 d1 d2 d3 : N) : N := d0 * 262144 + d1 * 4096 + d2 * 64 + d3.
(* byte(val>>16), byte(val>>8), byte(val>>0) *)
Definition qbyte0 (v : N) : N := (v / 65536) mod 256.
Definition qbyte1 (v : N) : N := (v / 256) mod 256.
Definition qbyte2 (v : N) : N := v mod 256.

Fixpoint b64_dec_loop (src : bytes) (dbuf : list N) : option bytes :=
  match src with
  | [] =>
      (* len(src) == si: j == 0 is a clean end, otherwise CorruptInputError (padding required) *)
      match dbuf with [] => Some [] | _ => None end
  | c :: rest =>
      match b64_decode_map c with
      | Some v =>
          match dbuf with
          | [d0; d1; d2] =>
              (* j == 3: quantum complete, dlen = 4, three bytes out, next quantum *)
              let val := quantum_val d0 d1 d2 v in
              match b64_dec_loop rest [] with
              | Some t => Some (qbyte0 val :: qbyte1 val :: qbyte2 val :: t)
              | None => None
              end
          | _ => b64_dec_loop rest (dbuf ++ [v])
          end
      | None =>
          if is_nl c then b64_dec_loop rest dbuf              (* j--; continue *)
          else if negb (c =? b64_pad) then None              (* CorruptInputError *)
          else
            match dbuf with
            | [d0; d1] =>
                (* j == 2: a second pad character is expected after optional newlines,
                   then only newlines *)
                match skip_nl rest with
                | [] => None
                | p :: rest2 =>
                    if negb (p =? b64_pad) then None
                    else match skip_nl rest2 with
                         | [] => Some [qbyte0 (quantum_val d0 d1 0 0)]
                         | _ :: _ => None                      (* trailing garbage *)
                         end
                end
            | [d0; d1; d2] =>
                (* j == 3 *)
                match skip_nl rest with
                | [] => let val := quantum_val d0 d1 d2 0 in Some [qbyte0 val; qbyte1 val]
                | _ :: _ => None                               (* trailing garbage *)
                end
            | _ => None                                        (* j = 0, 1: incorrect padding *)
            end
      end
  end.

Definition b64_decode (src : bytes) : option bytes := b64_dec_loop src [].

(* all elements are bytes *)
Definition is_bytes (l : bytes) : Prop := Forall (fun b => b < 256) l.

(* ---------- round trip ---------- *)

Lemma b64_decode_map_char v : v < 64 -> b64_decode_map (b64_char v) = Some v.
Proof.
  intros H. unfold b64_char, b64_decode_map.
  destruct (N.ltb_spec v 26).
  { replace ((65 <=? 65 + v) && (65 + v <=? 90)) with true; [f_equal; lia|].
    symmetry. apply andb_true_iff. split; apply N.leb_le; lia. }
  destruct (N.ltb_spec v 52).
  { replace ((65 <=? 71 + v) && (71 + v <=? 90)) with false.
    2:{ symmetry. apply andb_false_iff. right. apply N.leb_gt. lia. }
    replace ((97 <=? 71 + v) && (71 + v <=? 122)) with true; [f_equal; lia|].
    symmetry. apply andb_true_iff. split; apply N.leb_le; lia. }
  destruct (N.ltb_spec v 62).
  { replace ((65 <=? v - 4) && (v - 4 <=? 90)) with false.
    2:{ symmetry. apply andb_false_iff. left. apply N.leb_gt. lia. }
    replace ((97 <=? v - 4) && (v - 4 <=? 122)) with false.
    2:{ symmetry. apply andb_false_iff. left. apply N.leb_gt. lia. }
    replace ((48 <=? v - 4) && (v - 4 <=? 57)) with true; [f_equal; lia|].
    symmetry. apply andb_true_iff. split; apply N.leb_le; lia. }
  destruct (N.eqb_spec v 62); [subst; reflexivity|].
  assert (v = 63) as -> by lia. reflexivity.
Qed.

(* lia does not look inside N.div / N.modulo: name quotient and remainder first *)
Local Ltac gdm1 a b :=
  pose proof (N.div_mod' a b);
  assert (a mod b < b) by (apply N.mod_lt; discriminate);
  generalize dependent (a / b); generalize dependent (a mod b); intros.
Local Ltac gdm := repeat match goal with
  | |- context [?a / ?b] => gdm1 a b
  | |- context [?a mod ?b] => gdm1 a b
  end.

Lemma div_unique_small a b q r : b <> 0 -> a = b * q + r -> r < b -> a / b = q /\ a mod b = r.
Proof.
  intros Hb E L. split.
  - symmetry. now apply (N.div_unique a b q r).
  - symmetry. now apply (N.mod_unique a b q r).
Qed.

(* a full quantum decodes to its three bytes *)
Lemma quantum_bytes a b c : a < 256 -> b < 256 -> c < 256 ->
  let val := quantum_val (a / 4) ((a mod 4) * 16 + b / 16) ((b mod 16) * 4 + c / 64) (c mod 64) in
  val = a * 65536 + b * 256 + c.
Proof.
  intros Ha Hb Hc. unfold quantum_val. cbv zeta. gdm. lia.
Qed.

Lemma bytes_of_val a b c : a < 256 -> b < 256 -> c < 256 ->
  let val := a * 65536 + b * 256 + c in
  qbyte0 val = a /\ qbyte1 val = b /\ qbyte2 val = c.
Proof.
  intros Ha Hb Hc val. unfold qbyte0, qbyte1, qbyte2.
  assert (E0 : val / 65536 = a).
  { apply (div_unique_small val 65536 a (b * 256 + c)); [discriminate | unfold val; lia | lia]. }
  assert (E1 : val / 256 = a * 256 + b).
  { apply (div_unique_small val 256 (a * 256 + b) c); [discriminate | unfold val; lia | lia]. }
  rewrite E0, E1. repeat split.
  - apply N.mod_small; lia.
  - apply (div_unique_small (a * 256 + b) 256 a b); [discriminate | lia | lia].
  - apply (div_unique_small val 256 (a * 256 + b) c); [discriminate | unfold val; lia | lia].
Qed.

Lemma sextet_bounds a b c : a < 256 -> b < 256 -> c < 256 ->
  a / 4 < 64 /\ (a mod 4) * 16 + b / 16 < 64 /\ (b mod 16) * 4 + c / 64 < 64 /\ c mod 64 < 64
  /\ (a mod 4) * 16 < 64 /\ (b mod 16) * 4 < 64.
Proof.
  intros Ha Hb Hc. gdm. lia.
Qed.

Lemma list_ind3 {A} (P : list A -> Prop) :
  P [] -> (forall a, P [a]) -> (forall a b, P [a; b]) ->
  (forall a b c l, P l -> P (a :: b :: c :: l)) -> forall l, P l.
Proof.
  intros H0 H1 H2 H3.
  fix IH 1. intros [|a [|b [|c l]]]; [exact H0 | apply H1 | apply H2 | apply H3; apply IH].
Qed.

Lemma tail1_bytes a : a < 256 -> qbyte0 (quantum_val (a / 4) ((a mod 4) * 16) 0 0) = a.
Proof.
  intros Ha.
  replace (quantum_val (a / 4) ((a mod 4) * 16) 0 0) with (a * 65536 + 0 * 256 + 0)
    by (unfold quantum_val; gdm; lia).
  apply (bytes_of_val a 0 0); lia.
Qed.

Lemma tail2_bytes a b : a < 256 -> b < 256 ->
  let val := quantum_val (a / 4) ((a mod 4) * 16 + b / 16) ((b mod 16) * 4) 0 in
  qbyte0 val = a /\ qbyte1 val = b.
Proof.
  intros Ha Hb. cbv zeta.
  replace (quantum_val (a / 4) ((a mod 4) * 16 + b / 16) ((b mod 16) * 4) 0)
    with (a * 65536 + b * 256 + 0) by (unfold quantum_val; gdm; lia).
  destruct (bytes_of_val a b 0) as (B0 & B1 & _); [lia | lia | lia |]. now split.
Qed.

Theorem b64_roundtrip l : is_bytes l -> b64_decode (b64_encode l) = Some l.
Proof.
  unfold b64_decode. induction l as [|a|a b|a b c l IH] using list_ind3; intros Hl.
  - reflexivity.
  - inversion Hl as [|? ? Ha _]; subst.
    destruct (sextet_bounds a 0 0) as (S0 & _ & _ & _ & S1 & _); try lia.
    cbn [b64_encode b64_dec_loop].
    rewrite (b64_decode_map_char _ S0). cbn [app].
    rewrite (b64_decode_map_char _ S1). cbn [app].
    change (b64_decode_map b64_pad) with (@None N).
    change (is_nl b64_pad) with false. change (negb (b64_pad =? b64_pad)) with false.
    cbn [skip_nl]. change (is_nl b64_pad) with false. cbv iota.
    change (negb (b64_pad =? b64_pad)) with false. cbv iota.
    now rewrite (tail1_bytes a Ha).
  - inversion Hl as [|? ? Ha Hl']; subst. inversion Hl' as [|? ? Hb _]; subst.
    destruct (sextet_bounds a b 0) as (S0 & S1 & _ & _ & _ & S2); try lia.
    cbn [b64_encode b64_dec_loop].
    rewrite (b64_decode_map_char _ S0). cbn [app].
    rewrite (b64_decode_map_char _ S1). cbn [app].
    rewrite (b64_decode_map_char _ S2). cbn [app].
    change (b64_decode_map b64_pad) with (@None N).
    change (is_nl b64_pad) with false. change (negb (b64_pad =? b64_pad)) with false.
    cbn [skip_nl]. cbv iota.
    destruct (tail2_bytes a b Ha Hb) as (B0 & B1). now rewrite B0, B1.
  - inversion Hl as [|? ? Ha Hl1]; subst. inversion Hl1 as [|? ? Hb Hl2]; subst.
    inversion Hl2 as [|? ? Hc Hl3]; subst.
    destruct (sextet_bounds a b c Ha Hb Hc) as (S0 & S1 & S2 & S3 & _ & _).
    cbn [b64_encode b64_dec_loop].
    rewrite (b64_decode_map_char _ S0). cbn [app].
    rewrite (b64_decode_map_char _ S1). cbn [app].
    rewrite (b64_decode_map_char _ S2). cbn [app].
    rewrite (b64_decode_map_char _ S3).
    rewrite (IH Hl3).
    pose proof (quantum_bytes a b c Ha Hb Hc) as Q. cbv zeta in Q. rewrite Q.
    destruct (bytes_of_val a b c Ha Hb Hc) as (B0 & B1 & B2).
    now rewrite B0, B1, B2.
Qed.

(* the encoding uses alphabet and pad characters only (so it is valid JSON string content) *)
Lemma b64_encode_length l : length (b64_encode l) = (4 * ((length l + 2) / 3))%nat.
Proof.
  induction l as [|a|a b|a b c l IH] using list_ind3; try reflexivity.
  cbn [b64_encode length]. rewrite IH.
  replace (S (S (S (length l))) + 2)%nat with (length l + 2 + 1 * 3)%nat by lia.
  rewrite Nat.div_add by discriminate. lia.
Qed.
