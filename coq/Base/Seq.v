(* Model of Go push iterators (ociregistry/iter.go).

     type Seq[T any] func(yield func(T, error) bool)

   A Go iterator is a function that receives the consumer's callback and calls it
   some number of times; each call hands over an item or an error and gets back the
   consumer's wish to go on.  The model keeps exactly that shape: a consumer is a
   state-threading function [yield : T + E -> S -> S * bool] (the consumer's own state
   [S] stands for whatever the Go closure captures), and an iterator is a function that,
   for every consumer, turns the consumer's initial state into its final state:

     Seq T := forall S, consumer T S -> S -> S.

   A call [yield(x, nil)] is [y (inl x)], a call [yield(zero, err)] is [y (inr err)]
   (every yield in the code base that carries an error carries the zero item).

   [calls q y s] is the list of yield calls [q] makes against consumer [y], each with
   the answer it got; [protocol_ok] is the discipline the property C05 asks of every
   iterator: every call but the last was answered true and carried an item - i.e.
   nothing follows a declined item, nothing follows an error.

   [seq_of xs oe] is the canonical well-behaved iterator "the items xs in order, then the
   error oe if any, stopping as soon as the consumer declines"; [represents q xs oe] says
   that [q] behaves, against every consumer, exactly like it.  Iterator combinators are
   specified by what they do to represented iterators. *)
From OCI Require Export Base.Outcome.

Section Seq.
  Variable E : Type.     (* the error type *)

  Definition consumer (T S : Type) : Type := T + E -> S -> S * bool.
  Definition Seq (T : Type) : Type := forall S : Type, consumer T S -> S -> S.

  (* for _, x := range xs { if !yield(x, nil) { return } }
     result: the consumer state and whether the loop ran to its end *)
  Fixpoint slice_loop {T S} (xs : list T) (y : consumer T S) (s : S) : S * bool :=
    match xs with
    | [] => (s, true)
    | x :: xs' => let (s1, ok) := y (inl x) s in
                  if ok then slice_loop xs' y s1 else (s1, false)
    end.

  (* iter.go: SliceSeq *)
  Definition SliceSeq {T} (xs : list T) : Seq T := fun S y s => fst (slice_loop xs y s).

  (* iter.go: ErrorSeq - one yield carrying the error, answer ignored *)
  Definition ErrorSeq {T} (e : E) : Seq T := fun S y s => fst (y (inr e) s).

  (* iter.go: All - the callback appends items, records the first error and declines *)
  Definition all_cb {T} : consumer T (list T * option E) :=
    fun v st => match v with
                | inr e => ((fst st, Some e), false)
                | inl x => ((fst st ++ [x], snd st), true)
                end.
  Definition All {T} (q : Seq T) : list T * option E := q _ all_cb ([], None).

  (* the items, then the error if there is one; stops when declined *)
  Definition seq_of {T} (xs : list T) (oe : option E) : Seq T :=
    fun S y s =>
      let (s1, ok) := slice_loop xs y s in
      if ok then match oe with Some e => fst (y (inr e) s1) | None => s1 end else s1.

  Definition represents {T} (q : Seq T) (xs : list T) (oe : option E) : Prop :=
    forall S (y : consumer T S) (s : S), q S y s = seq_of xs oe S y s.

  (* ---- the log of yield calls ---- *)

  Definition call (T : Type) : Type := ((T + E) * bool)%type.

  Definition logged {T S} (y : consumer T S) : consumer T (S * list (call T)) :=
    fun v st => let (s1, b) := y v (fst st) in ((s1, snd st ++ [(v, b)]), b).

  Definition calls {T S} (q : Seq T) (y : consumer T S) (s : S) : list (call T) :=
    snd (q _ (logged y) (s, [])).

  (* the state the logged run leaves the consumer in *)
  Definition final {T S} (q : Seq T) (y : consumer T S) (s : S) : S :=
    fst (q _ (logged y) (s, [])).

  (* every call but the last was answered true and carried an item *)
  Fixpoint protocol_ok {T} (l : list (call T)) : Prop :=
    match l with
    | [] => True
    | c :: rest =>
        match rest with
        | [] => True
        | _ :: _ => snd c = true /\ (exists x, fst c = inl x) /\ protocol_ok rest
        end
    end.

  Definition is_item {T} (v : T + E) : bool := match v with inl _ => true | inr _ => false end.

  Fixpoint protocol_okb {T} (l : list (call T)) : bool :=
    match l with
    | [] => true
    | c :: rest =>
        match rest with
        | [] => true
        | _ :: _ => snd c && is_item (fst c) && protocol_okb rest
        end
    end.

  (* the calls the canonical iterator makes: an explicit trace function *)
  Fixpoint trace_of {T S} (xs : list T) (oe : option E) (y : consumer T S) (s : S) : list (call T) :=
    match xs with
    | [] => match oe with Some e => [(inr e, snd (y (inr e) s))] | None => [] end
    | x :: xs' => let (s1, ok) := y (inl x) s in
                  (inl x, ok) :: (if ok then trace_of xs' oe y s1 else [])
    end.

  (* consumers used in statements and in the correspondence *)
  (* never declines *)
  Definition always {T} : consumer T unit := fun _ s => (s, true).
  (* declines at its k-th call (k >= 1); k = 0 never declines.  State: calls seen. *)
  Definition stop_at {T} (k : N) : consumer T N :=
    fun _ c => (N.succ c, negb (N.eqb (N.succ c) k)).

  Definition items_of {T} (l : list (call T)) : list T :=
    flat_map (fun c => match fst c with inl x => [x] | inr _ => [] end) l.
  Definition errors_of {T} (l : list (call T)) : list E :=
    flat_map (fun c => match fst c with inl _ => [] | inr e => [e] end) l.
End Seq.

Arguments consumer E T S : clear implicits.
Arguments Seq E T : clear implicits.
Arguments slice_loop {E T S} xs y s.
Arguments SliceSeq {E T} xs.
Arguments ErrorSeq {E T} e.
Arguments all_cb {E T}.
Arguments All {E T} q.
Arguments seq_of {E T} xs oe.
Arguments represents {E T} q xs oe.
Arguments call E T : clear implicits.
Arguments logged {E T S} y.
Arguments calls {E T S} q y s.
Arguments final {E T S} q y s.
Arguments protocol_ok {E T} l.
Arguments protocol_okb {E T} l.
Arguments is_item {E T} v.
Arguments trace_of {E T S} xs oe y s.
Arguments always {E T}.
Arguments stop_at {E T} k.
Arguments items_of {E T} l.
Arguments errors_of {E T} l.
