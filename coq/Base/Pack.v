(* Compact byte-string literals for case files: [p n [w1; w2; ...]] is the byte string of
   length n whose bytes are packed seven per primitive 63-bit integer, big-endian (the
   last word holds the remaining n mod 7 bytes, right-aligned).  A hex string literal
   costs about ten kernel nodes per nibble; a packed word costs two nodes per seven
   bytes, which is what makes case files of a few megabytes of content evaluable.
   Only the harness-written case files use this; no theorem depends on it. *)
From Coq Require Import Uint63.
From OCI Require Import Base.Bytes.

Definition bitv (b : int) (i : int) (v : N) : N :=
  if PrimInt63.eqb (PrimInt63.land (PrimInt63.lsr b i) 1%uint63) 1%uint63 then v else 0%N.

Definition byte_of_int (w : int) : N :=
  let b := PrimInt63.land w 255%uint63 in
  (bitv b 0 1 + bitv b 1 2 + bitv b 2 4 + bitv b 3 8
   + bitv b 4 16 + bitv b 5 32 + bitv b 6 64 + bitv b 7 128)%N.

Definition byte_at (w : int) (k : int) : N := byte_of_int (PrimInt63.lsr w (PrimInt63.mul 8%uint63 k)).

(* the low k bytes of w, most significant first *)
Definition bytes_k (k : N) (w : int) : bytes :=
  match k with
  | 0%N => []
  | 1%N => [byte_at w 0]
  | 2%N => [byte_at w 1; byte_at w 0]
  | 3%N => [byte_at w 2; byte_at w 1; byte_at w 0]
  | 4%N => [byte_at w 3; byte_at w 2; byte_at w 1; byte_at w 0]
  | 5%N => [byte_at w 4; byte_at w 3; byte_at w 2; byte_at w 1; byte_at w 0]
  | 6%N => [byte_at w 5; byte_at w 4; byte_at w 3; byte_at w 2; byte_at w 1; byte_at w 0]
  | _ => [byte_at w 6; byte_at w 5; byte_at w 4; byte_at w 3; byte_at w 2; byte_at w 1; byte_at w 0]
  end.

Fixpoint p (n : N) (ws : list int) : bytes :=
  match ws with
  | [] => []
  | w :: ws' => if (7 <=? n)%N then bytes_k 7 w ++ p (n - 7) ws' else bytes_k n w
  end.
Arguments p _%N _%uint63.
