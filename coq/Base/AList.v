(* Association lists keyed by byte strings: the model of a Go map[string]V.
   [aset] replaces in place or appends, [adel] removes; lookups are first-match. *)
From OCI Require Export Base.Bytes.

Section AList.
  Context {V : Type}.
  Definition alist := list (bytes * V).

  Fixpoint alookup (k : bytes) (m : alist) : option V :=
    match m with
    | [] => None
    | (k', v) :: m' => if beqb k k' then Some v else alookup k m'
    end.

  Fixpoint aset (k : bytes) (v : V) (m : alist) : alist :=
    match m with
    | [] => [(k, v)]
    | (k', v') :: m' => if beqb k k' then (k, v) :: m' else (k', v') :: aset k v m'
    end.

  Fixpoint adel (k : bytes) (m : alist) : alist :=
    match m with
    | [] => []
    | (k', v') :: m' => if beqb k k' then adel k m' else (k', v') :: adel k m'
    end.

  Definition akeys (m : alist) : list bytes := map fst m.

  Lemma alookup_aset_eq k v m : alookup k (aset k v m) = Some v.
  Proof.
    induction m as [|[k' v'] m IH]; cbn; [now rewrite beqb_refl|].
    destruct (beqb k k') eqn:E; cbn; [now rewrite beqb_refl | now rewrite E].
  Qed.

  Lemma alookup_aset_neq k k' v m : k' <> k -> alookup k' (aset k v m) = alookup k' m.
  Proof.
    intros Hn. induction m as [|[k2 v2] m IH]; cbn.
    - apply beqb_neq in Hn. now rewrite Hn.
    - destruct (beqb k k2) eqn:E; cbn.
      + apply beqb_eq in E. subst k2. apply beqb_neq in Hn. now rewrite Hn.
      + now rewrite IH.
  Qed.

  Lemma alookup_aset k k' v m :
    alookup k' (aset k v m) = if beqb k' k then Some v else alookup k' m.
  Proof.
    destruct (beqb k' k) eqn:E.
    - apply beqb_eq in E. subst. apply alookup_aset_eq.
    - apply beqb_neq in E. now apply alookup_aset_neq.
  Qed.

  Lemma alookup_adel k k' m :
    alookup k' (adel k m) = if beqb k' k then None else alookup k' m.
  Proof.
    induction m as [|[k2 v2] m IH]; cbn; [now destruct (beqb k' k)|].
    destruct (beqb k k2) eqn:E; cbn.
    - apply beqb_eq in E. subst k2. rewrite IH. now destruct (beqb k' k).
    - rewrite IH. destruct (beqb k' k) eqn:E2; [|reflexivity].
      apply beqb_eq in E2. subst k'. now rewrite E.
  Qed.

  Lemma alookup_In k v m : alookup k m = Some v -> In (k, v) m.
  Proof.
    induction m as [|[k' v'] m IH]; cbn; [discriminate|].
    destruct (beqb k k') eqn:E; [|auto].
    apply beqb_eq in E. subst. intros H; injection H as ->. now left.
  Qed.

  Lemma alookup_None_notin k m : alookup k m = None <-> ~ In k (akeys m).
  Proof.
    induction m as [|[k' v'] m IH]; cbn; [tauto|].
    destruct (beqb k k') eqn:E.
    - apply beqb_eq in E. subst. split; [discriminate | intros H; exfalso; auto].
    - apply beqb_neq in E. rewrite IH. split; [intros H [?|?]; [congruence | auto] | auto].
  Qed.

  Lemma alookup_Some_in k v m : alookup k m = Some v -> In k (akeys m).
  Proof. intros H. apply alookup_In in H. apply (in_map fst) in H. exact H. Qed.

  Lemma In_akeys_lookup k m : In k (akeys m) -> exists v, alookup k m = Some v.
  Proof.
    intros H. destruct (alookup k m) eqn:E; eauto.
    apply alookup_None_notin in E. contradiction.
  Qed.

  (* keys stay duplicate-free *)
  Lemma akeys_aset_in k v m : In k (akeys m) -> akeys (aset k v m) = akeys m.
  Proof.
    unfold akeys. induction m as [|[k' v'] m IH]; cbn; [tauto|].
    destruct (beqb k k') eqn:E; cbn.
    - apply beqb_eq in E. now subst.
    - apply beqb_neq in E. intros [H|H]; [congruence|]. now rewrite IH.
  Qed.

  Lemma akeys_aset_notin k v m : ~ In k (akeys m) -> akeys (aset k v m) = akeys m ++ [k].
  Proof.
    unfold akeys. induction m as [|[k' v'] m IH]; cbn; [reflexivity|].
    destruct (beqb k k') eqn:E; cbn.
    - apply beqb_eq in E. subst. tauto.
    - intros H. rewrite IH; auto.
  Qed.

  Lemma NoDup_akeys_aset k v m : NoDup (akeys m) -> NoDup (akeys (aset k v m)).
  Proof.
    intros H. destruct (in_dec bytes_eq_dec k (akeys m)) as [Hi|Hn].
    - now rewrite akeys_aset_in.
    - rewrite akeys_aset_notin by assumption.
      assert (HA : Add k (akeys m ++ []) (akeys m ++ [k])) by apply Add_app.
      rewrite app_nil_r in HA. apply (NoDup_Add HA). split; assumption.
  Qed.

  Lemma akeys_adel_incl k m : incl (akeys (adel k m)) (akeys m).
  Proof.
    unfold akeys. induction m as [|[k' v'] m IH]; cbn; [apply incl_refl|].
    destruct (beqb k k'); [now apply incl_tl | now apply incl_cons; [left | apply incl_tl]].
  Qed.

  Lemma NoDup_akeys_adel k m : NoDup (akeys m) -> NoDup (akeys (adel k m)).
  Proof.
    pose proof (akeys_adel_incl k) as Hincl. unfold akeys in *. induction m as [|[k' v'] m IH]; cbn; [auto|].
    intros H. inversion H; subst. destruct (beqb k k'); [auto|].
    cbn. constructor; [|auto]. intros Hi. apply Hincl in Hi. contradiction.
  Qed.

  Lemma In_akeys_aset k k' v m : In k' (akeys (aset k v m)) <-> k' = k \/ In k' (akeys m).
  Proof.
    split.
    - intros H. apply In_akeys_lookup in H as [v' H]. rewrite alookup_aset in H.
      destruct (beqb k' k) eqn:E; [left; now apply beqb_eq | right; eapply alookup_Some_in; eauto].
    - intros [->|H].
      + eapply alookup_Some_in. apply alookup_aset_eq.
      + apply In_akeys_lookup in H as [v' H]. destruct (beqb k' k) eqn:E.
        * apply beqb_eq in E. subst. eapply alookup_Some_in. apply alookup_aset_eq.
        * eapply alookup_Some_in. rewrite alookup_aset, E. eauto.
  Qed.

  Lemma In_akeys_adel k k' m : In k' (akeys (adel k m)) <-> k' <> k /\ In k' (akeys m).
  Proof.
    split.
    - intros H. apply In_akeys_lookup in H as [v' H]. rewrite alookup_adel in H.
      destruct (beqb k' k) eqn:E; [discriminate|]. apply beqb_neq in E. split; auto.
      eapply alookup_Some_in; eauto.
    - intros [Hn H]. apply In_akeys_lookup in H as [v' H]. eapply alookup_Some_in.
      rewrite alookup_adel. apply beqb_neq in Hn. rewrite Hn. eauto.
  Qed.
End AList.
Arguments alist V : clear implicits.
