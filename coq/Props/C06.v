(* C06  Server is total and protocol-conformant on arbitrary HTTP requests.
   Statements only; proofs live in Proofs/Request.v, Proofs/Server.v, Proofs/ServerThms.v,
   Proofs/ServerStream.v, Proofs/ServerSettled.v.

   Everywhere below: [linked] (which hashes are linked in), [digest_of] (sha256), [subject_of]
   (json.Unmarshal of the subject), [enc] (json.Marshal), [redirect] (http.Redirect) are arbitrary
   functions; the backend is an arbitrary function [bstep : B -> op -> B * bres] over an arbitrary
   state type [B] (any result for any call: values, errors of any shape, iterators failing after
   some items, even a panic); [o] is any option set, [b] any backend state, [req] any request
   (method, decoded path, raw query, Range, Content-Range, Content-Type, ContentLength, body).
   [in_scope o tr]: the answers the backend gave during this run follow the conventions of
   ociregistry.Interface (no panic; an error value can be rendered and carries an HTTP status
   net/http accepts; BlobWriter.ID() is a non-empty valid UTF-8 string), and so does
   Options.LocationsForDescriptor. *)
From Coq Require Import String.
From OCI Require Import Base.Outcome Model.Ref Model.Errors Model.Request Model.Server Model.ServerSpec
  Model.ServerStream Model.ServerSettled Model.ServerLegacy Proofs.Request Proofs.Server Proofs.ServerThms
  Proofs.ServerStream Proofs.ServerSettled.

(* 1. no_panic: the handler returns a response; it neither panics nor leaves the model. *)
Theorem C06_no_panic :
  forall linked digest_of subject_of enc redirect B (bstep : backend B) o b req,
    let '(_, tr, r) := handle linked digest_of subject_of enc redirect B bstep o b req in
    in_scope o tr -> r <> Panic /\ r <> OutOfFuel /\ exists resp, r = Ok resp.
Proof. exact no_panic. Qed.
Print Assumptions C06_no_panic.

(* The hypothesis on BlobWriter.ID() is needed: an empty upload ID makes MustConstruct panic. *)
Theorem C06_no_panic_needs_good_id_refuted :
  exists script req, snd (ex_handle ex_opts script req) = Panic.
Proof. exact empty_upload_id_panics. Qed.
Print Assumptions C06_no_panic_needs_good_id_refuted.

(* ... and so is the one on error values: status 42 is refused by WriteHeader. *)
Theorem C06_no_panic_needs_servable_errors_refuted :
  exists script req, snd (ex_handle ex_opts script req) = Panic.
Proof. exact bad_status_panics. Qed.
Print Assumptions C06_no_panic_needs_servable_errors_refuted.

(* 2. status_agrees: a failure is one JSON error document with Content-Type application/json,
   a non-empty code, and the status the table assigns to that code whenever it assigns one;
   anything else is a 2xx/3xx answer. *)
Theorem C06_status_agrees :
  forall linked digest_of subject_of enc redirect B (bstep : backend B) o b req,
    let '(_, tr, r) := handle linked digest_of subject_of enc redirect B bstep o b req in
    in_scope o tr -> forall resp, r = Ok resp ->
    match p_json resp with
    | Some (JErr w) =>
        hget H_ctype (p_hdrs resp) = Some (s "application/json") /\ w_code w <> []
        /\ forall st, lookup (w_code w) error_statuses = Some st -> p_status resp = st
    | _ => (200 <= p_status resp < 400)%Z
    end.
Proof. exact status_agrees. Qed.
Print Assumptions C06_status_agrees.

(* ... and a backend failure is answered with a failure: if any backend call other than a
   Close (whose error a deferred Close drops by design) returned an error, the response is the
   JSON error document, never a success. *)
Theorem C06_failures_answered :
  forall linked digest_of subject_of enc redirect B (bstep : backend B) o b req,
    let '(_, tr, r) := handle linked digest_of subject_of enc redirect B bstep o b req in
    in_scope o tr -> forall resp, r = Ok resp ->
    existsb call_failed tr = true -> exists w, p_json resp = Some (JErr w).
Proof. exact failures_answered. Qed.
Print Assumptions C06_failures_answered.

(* the router's own errors: one of ten values, each answered 400, 404, 405 or 500 *)
Theorem C06_parse_errors_status :
  Forall (fun pe =>
            exists wr, serve_error go_sprefix go_cprefix (handler_error_for_request_parse_error pe) = Ok wr
                       /\ In (r_status wr) [400; 404; 405; 500]%Z) parse_errors.
Proof. exact parse_errors_status. Qed.
Print Assumptions C06_parse_errors_status.

(* 3. mandated_headers ([headers_ok], Model/ServerSpec.v): 201 carries Docker-Content-Digest equal
   to the digest of the descriptor the backend returned for what was created, and a Location
   that is the place Options.LocationsForDescriptor named or else /v2/REPO/blobs/DIGEST resp.
   /v2/REPO/manifests/DIGEST of what was created; 202 of an upload and 204 carry the Location
   /v2/REPO/blobs/uploads/base64url(ID) for the repository the upload was opened in and the ID
   its writer reported, and Range "0-N" where N+1 is the size the writer reported last in this
   exchange ("0-0" for size 0 and for an upload just opened); 307 carries Location; 200 for
   content carries Content-Length equal to the size the backend's descriptor promised (and equal
   to the body when the reader delivers what it promised) and a Docker-Content-Digest that is
   the descriptor's digest or the digest asked for, absent only when the option omits it; 206
   carries Content-Range "bytes S-E/SIZE" with 0 <= S <= E+1 <= SIZE, Content-Length E+1-S and
   Docker-Content-Digest; a marshalled document carries Content-Length equal to its length. *)
Theorem C06_mandated_headers :
  forall linked digest_of subject_of enc redirect B (bstep : backend B) o b req,
    let '(_, tr, r) := handle linked digest_of subject_of enc redirect B bstep o b req in
    in_scope o tr -> forall resp, r = Ok resp -> headers_ok o tr resp = true.
Proof. exact mandated_headers. Qed.
Print Assumptions C06_mandated_headers.

(* The header clauses constrain the values, not only their presence: after a PATCH whose writer
   reports 11 bytes and the ID "id1" in repository foo, Range 0-10 with the Location of that
   upload is accepted and Range 0-0, Range 0-11, the Location of another ID or of another
   repository are refused. *)
Theorem C06_upload_headers_discriminate :
  let tr := [ECall (PushBlobChunkedResume (s "foo") (s "id1") 0 0) (Ok (VWriter 1%N));
             ECall (WWrite 1%N (s "hello world")) (Ok (VN 11)); ECall (WClose 1%N) (Ok VUnit);
             ECall (WID 1%N) (Ok (VStr (s "id1"))); ECall (WSize 1%N) (Ok (VN 11))] in
  let resp r l := mkresp 202 [(H_location, l); (H_range, r)] [] None in
  headers_ok ex_opts tr (resp (s "0-10") (s "/v2/foo/blobs/uploads/aWQx")) = true
  /\ headers_ok ex_opts tr (resp (s "0-0") (s "/v2/foo/blobs/uploads/aWQx")) = false
  /\ headers_ok ex_opts tr (resp (s "0-11") (s "/v2/foo/blobs/uploads/aWQx")) = false
  /\ headers_ok ex_opts tr (resp (s "0-10") (s "/v2/foo/blobs/uploads/b3RoZXI")) = false
  /\ headers_ok ex_opts tr (resp (s "0-10") (s "/v2/bar/blobs/uploads/aWQx")) = false.
Proof. exact upload_headers_discriminate. Qed.
Print Assumptions C06_upload_headers_discriminate.

(* Likewise a 201 after PushManifest: only the digest the backend returned and the manifest URL
   of that digest are accepted. *)
Theorem C06_created_headers_discriminate :
  let d := {| d_media := s "application/octet-stream"; d_digest := ex_digest; d_size := 0; d_artifact := [] |} in
  let other := s "sha256:0000000000000000000000000000000000000000000000000000000000000000" in
  let tr := [ECall (PushManifest (s "foo") (s "latest") [] (s "application/octet-stream")) (Ok (VDesc d))] in
  let resp l dg := mkresp 201 [(H_location, l); (H_dcd, dg)] [] None in
  headers_ok ex_opts tr (resp (s "/v2/foo/manifests/" ++ ex_digest) ex_digest) = true
  /\ headers_ok ex_opts tr (resp (s "/v2/foo/manifests/latest") ex_digest) = false
  /\ headers_ok ex_opts tr (resp (s "/v2/foo/blobs/" ++ ex_digest) ex_digest) = false
  /\ headers_ok ex_opts tr (resp (s "/v2/foo/manifests/" ++ ex_digest) other) = false.
Proof. exact created_headers_discriminate. Qed.
Print Assumptions C06_created_headers_discriminate.

(* 4. backend_args_valid: every repository, from-repository, tag and digest handed to the
   backend (and to BlobWriter.Commit) satisfies the reference grammar. *)
Theorem C06_backend_args_valid :
  forall linked digest_of subject_of enc redirect B (bstep : backend B) o b req,
    let '(_, tr, r) := handle linked digest_of subject_of enc redirect B bstep o b req in
    in_scope o tr ->
    Forall (fun e => match e with ECall c _ => op_args_ok linked c = true | _ => True end) tr.
Proof. exact backend_args_valid. Qed.
Print Assumptions C06_backend_args_valid.

(* which rests on the router: it never panics, what it lets through has valid names for its
   kind, and its errors are the ten values above. *)
Theorem C06_router_total_and_valid :
  forall linked m p q,
    match parse_req linked m p q with
    | Ok r => request_fields_ok linked r = true
    | Err e => In e parse_errors
    | Panic | OutOfFuel => False
    end.
Proof. exact router_total_and_valid. Qed.
Print Assumptions C06_router_total_and_valid.

(* 5. all_closed: every BlobReader obtained is closed exactly once and every BlobWriter
   obtained is closed, by the time the response is complete. *)
Theorem C06_all_closed :
  forall linked digest_of subject_of enc redirect B (bstep : backend B) o b req,
    let '(_, tr, r) := handle linked digest_of subject_of enc redirect B bstep o b req in
    in_scope o tr -> closed_ok tr = true.
Proof. exact all_closed. Qed.
Print Assumptions C06_all_closed.

(* before the repair (Model/ServerLegacy.v) the manifest GET handler left its reader open *)
Theorem C06_all_closed_unrepaired_refuted :
  exists (script : list bres) (rreq : request),
    let '(st, r) := handle_manifest_get_unrepaired (list bres) script_step ex_opts (mkst script [] rw0) rreq in
    r = Ok tt /\ wb_trace (rev (h_tr st)) = true /\ closed_ok (rev (h_tr st)) = false.
Proof. exact manifest_get_unrepaired_leaks. Qed.
Print Assumptions C06_all_closed_unrepaired_refuted.

(* 6. streamed_readers: blob GET, ranged blob GET and manifest GET (by tag and by digest) stream
   a backend reader after the status and the Content-Length of the promised content are out.
   [VRead d data] in the trace is what io.Copy read from the reader: for a reader whose Read
   fails part-way, the bytes it delivered before the failure.  Whatever the backend does (no
   hypothesis on it), a response with a 2xx status produced while a reader was held carries
   exactly the bytes that reader delivered and is not a marshalled document: a failure that shows
   after the success status is out is never turned into an error body behind it. *)
Theorem C06_streamed_body :
  forall linked digest_of subject_of enc redirect B (bstep : backend B) o b req,
    let '(_, tr, r) := handle linked digest_of subject_of enc redirect B bstep o b req in
    forall resp data, r = Ok resp -> last_of reader_data tr None = Some data ->
    (200 <= p_status resp < 300)%Z -> p_body resp = data /\ p_json resp = None.
Proof. exact streamed_body. Qed.
Print Assumptions C06_streamed_body.

(* ... hence the specification clause for such exchanges ([stream_ok], Model/ServerStream.v): with
   [rs] saying, reader by reader, what each had promised beyond what it delivered, under a 2xx
   status the response is not an error document and its body is a prefix of the content the
   last reader promised. *)
Theorem C06_streamed_prefix :
  forall linked digest_of subject_of enc redirect B (bstep : backend B) o b req rs,
    let '(_, tr, r) := handle linked digest_of subject_of enc redirect B bstep o b req in
    forall resp, r = Ok resp -> stream_ok tr rs resp = true.
Proof. exact streamed_prefix. Qed.
Print Assumptions C06_streamed_prefix.

(* The clause constrains the body: after a reader of "abcd" that failed after "ab", the two
   bytes (or any prefix of the promised four) are accepted under 200; the two bytes followed by
   anything else, or an error document under 200, are refused. *)
Theorem C06_streamed_discriminates :
  let d := {| d_media := s "application/octet-stream"; d_digest := []; d_size := 4; d_artifact := [] |} in
  let tr := [ECall (GetTag (s "foo") (s "latest")) (Ok (VRead d (s "ab"))); ECloseR] in
  let rs := [mkrs (s "cd") (Some (Plain (s "reset"))) None] in
  let e := JErr (W (s "UNKNOWN") [] None) in
  stream_ok tr rs (mkresp 200 [] (s "ab") None) = true
  /\ stream_ok tr rs (mkresp 200 [] [] None) = true
  /\ stream_ok tr rs (mkresp 200 [] (s "abc") None) = true
  /\ stream_ok tr rs (mkresp 200 [] (s "ab{}") None) = false
  /\ stream_ok tr rs (mkresp 200 [] (s "abcde") None) = false
  /\ stream_ok tr rs (mkresp 200 [] [] (Some e)) = false
  /\ stream_ok tr rs (mkresp 206 [] (s "x") None) = false
  /\ stream_ok tr rs (mkresp 500 [] (s "{}") (Some e)) = true.
Proof. exact stream_ok_discriminates. Qed.
Print Assumptions C06_streamed_discriminates.

(* Which reports of a BlobWriter count (BlobWriter.ID: "only valid before Write has been called or
   after Close has been called"; a buffering writer learns the session's new name and how much
   the registry holds when Close flushes).  For EVERY backend, in scope or not: whenever the
   handler asked its writer for ID() or Size(), the last such answers of the exchange were given
   while the writer was settled - no Write before, or a Close after the last Write - and no
   Write followed ([settled] skips the reports made between a Write and its Close and forgets
   those made before a Write; it finds the same ones as "the last reported"). *)
Theorem C06_writer_asked_when_settled :
  forall linked digest_of subject_of enc redirect B (bstep : backend B) o b req,
    let '(_, tr, r) := handle linked digest_of subject_of enc redirect B bstep o b req in
    settled_id tr = last_of upload_id_of tr None /\ settled_size tr = last_of upload_size_of tr None.
Proof. exact reports_settled_always. Qed.
Print Assumptions C06_writer_asked_when_settled.

(* ... hence the specification clause [settled_ok] (Model/ServerSettled.v): the Location of a 202
   that continues an upload and of a 204 names the repository the upload was opened in and the
   ID the SETTLED writer reported, and Range is 0-(size-1) for the size the settled writer
   reported (0-0 for an upload opened afresh and not asked). *)
Theorem C06_upload_headers_from_settled_writer :
  forall linked digest_of subject_of enc redirect B (bstep : backend B) o b req,
    let '(_, tr, r) := handle linked digest_of subject_of enc redirect B bstep o b req in
    wb_trace tr = true -> wb_locs (o_locs o) tr = true ->
    exists resp, r = Ok resp /\ settled_ok tr resp = true.
Proof. exact settled_headers. Qed.
Print Assumptions C06_upload_headers_from_settled_writer.

(* The clause tells exchanges apart: a PATCH whose writer was asked after the Close is accepted
   with the values reported then; the same answers given between the Write and the Close, before
   the Write, or before a second Write are refused although they are the last ones reported;
   without a Write the order does not matter; a failure response is not constrained. *)
Theorem C06_settled_discriminates :
  let opn := ECall (PushBlobChunkedResume (s "foo") (s "id0") 0 3) (Ok (VWriter 1%N)) in
  let wr := ECall (WWrite 1%N (s "abc")) (Ok (VN 3)) in
  let cl := ECall (WClose 1%N) (Ok VUnit) in
  let id := ECall (WID 1%N) (Ok (VStr (s "id1"))) in
  let sz := ECall (WSize 1%N) (Ok (VN 3)) in
  let resp := mkresp 202 [(H_location, upload_location (s "foo") (s "id1")); (H_range, s "0-2")] [] None in
  settled_ok [opn; wr; cl; id; sz] resp = true
  /\ settled_ok [opn; wr; id; sz; cl] resp = false
  /\ settled_ok [opn; wr; id; cl; sz] resp = false
  /\ settled_ok [opn; wr; cl; id; sz; wr; cl] resp = false
  /\ settled_ok [opn; id; sz; wr; cl] resp = false
  /\ settled_ok [opn; id; sz; cl] resp = true
  /\ settled_ok [opn; cl; id; sz] resp = true
  /\ settled_ok [opn; wr; id; sz; cl] (mkresp 500 [] [] (Some (JErr (W (s "UNKNOWN") [] None)))) = true.
Proof. exact settled_ok_discriminates. Qed.
Print Assumptions C06_settled_discriminates.

(* The Location of an upload: for a valid repository name and a non-empty valid UTF-8 upload
   ID, MustConstruct of the upload-info request succeeds (url.Parse and Parse accept what
   construct built), i.e. base64url(ID) survives the round trip through the router. *)
Theorem C06_upload_location :
  forall linked repo id, vrepo repo = true -> id <> [] -> utf8_valid id = true ->
    MustConstruct linked (mkreq ReqBlobUploadInfo repo [] [] [] id 0 [])
    = Ok (m_GET, s "/v2/" ++ repo ++ up_lit ++ b64u_encode id).
Proof. exact upload_location_ok. Qed.
Print Assumptions C06_upload_location.

(* base64.RawURLEncoding: decode (encode l) = l *)
Theorem C06_base64url_roundtrip : forall l, Base64.is_bytes l -> b64u_decode (b64u_encode l) = Some l.
Proof. exact b64u_roundtrip. Qed.
Print Assumptions C06_base64url_roundtrip.

(* The hypotheses are satisfiable by a non-trivial run: a ranged blob GET answered 206. *)
Example C06_in_scope_nonvacuous :
  let script := [Ok (VRead {| d_media := s "application/octet-stream"; d_digest := ex_digest; d_size := 10; d_artifact := [] |}
                            (s "2345"))] in
  let req := mkhreq (s "GET") (s "/v2/foo/blobs/" ++ ex_digest) [] (s "bytes=2-5") [] [] 0 [] in
  let '(_, tr, r) := ex_handle ex_opts script req in
  in_scope ex_opts tr /\ length tr = 2%nat
  /\ exists resp, r = Ok resp /\ p_status resp = 206%Z
                  /\ hget H_crange (p_hdrs resp) = Some (s "bytes 2-5/10")
                  /\ hget H_clen (p_hdrs resp) = Some (s "4") /\ p_body resp = s "2345".
Proof. exact example_in_scope. Qed.
Print Assumptions C06_in_scope_nonvacuous.
