(* C11: credentials stay confined and the auth flow is bounded and non-intrusive.
   Every theorem is about Model/Auth.v (stdTransport.RoundTrip and below) run under ANY
   configuration, network, clock and url.Parse (the record E), and ANY schedule l of calls
   (any number of hosts and of calls in flight, phases interleaved arbitrarily).
   The clauses evP1..evP5 are defined in Model/AuthSpec.v over the observable history alone. *)
From Coq Require Import String ZArith.
From OCI Require Import Base.Outcome Model.Scope Model.Challenge Model.Auth Model.AuthSpec
  Proofs.Challenge Proofs.AuthC11 Proofs.AuthProps Proofs.AuthBody Proofs.AuthParse.

(* password_destinations + host_isolation (registry side): every request that reaches a
   registry host is the caller's request to that very host; its Authorization header is the
   caller's own, or a token configured for / issued to a call on that host, or that host's own
   user name and password - and the latter only after that host has sent a Basic challenge
   (so never on a first, unauthenticated request). *)
Theorem C11_registry_confinement : forall E l, all_ok (evP1 E) (history (run E l)) = true.
Proof. exact P1_holds. Qed.
Print Assumptions C11_registry_confinement.

(* refresh_destinations + host_isolation (token-server side): every token request goes to a
   realm that the calling request's host named in a Bearer challenge; a POST carries that
   host's refresh token (configured, or handed out to a call on that host) and only the five
   OAuth2 form fields; a GET carries no Authorization or that host's Basic credentials. *)
Theorem C11_token_server_confinement : forall E l, all_ok (evP2 E) (history (run E l)) = true.
Proof. exact P2_holds. Qed.
Print Assumptions C11_token_server_confinement.

(* two_attempts: no call makes a third attempt or any attempt after it returned; a call whose
   second attempt carried a token acquired for it and was answered 401 returns 403 with the
   DENIED body, and no other call returns that body; any other response is passed through
   with its status. *)
Theorem C11_two_attempts : forall E l, all_ok (evP3 E) (history (run E l)) = true.
Proof. exact P3_holds. Qed.
Print Assumptions C11_two_attempts.

Theorem C11_at_most_two_registry_attempts : forall E l id, (count_reg id (history (run E l)) <= 2)%nat.
Proof. exact two_attempts. Qed.
Print Assumptions C11_at_most_two_registry_attempts.

(* body_closed: when a call returns, a request body it was given has been closed by the
   transport itself or was handed to the underlying transport (which must close it). *)
Theorem C11_body_closed : forall E l, all_ok evP4 (history (run E l)) = true.
Proof. exact P4_holds. Qed.
Print Assumptions C11_body_closed.

(* body_closed, body by body: when a call returns, there have been at least as many hand-overs
   to the underlying transport and closes by the transport itself as request bodies the call has
   had in its hands - the one it was given and one for every GetBody call that returned a body.
   (A copy obtained from GetBody and then dropped on an early exit breaks this, not the clause
   above: Proofs/AuthBody.v P5_sees_the_copy.) *)
Theorem C11_every_body_closed : forall E l, all_ok evP5 (history (run E l)) = true.
Proof. exact P5_holds. Qed.
Print Assumptions C11_every_body_closed.

(* challenge_names_case_insensitive: whatever the spelling in the header, the parser hands out
   the scheme and every parameter name in lower case - the form in which the transport looks
   them up (realm, service, scope; basic, bearer). *)
Theorem C11_challenge_names_lower : forall header h,
  parseWWWAuthenticate header = Ok (Some h) ->
  no_upper (ah_scheme h) = true /\ forall k v, In (k, v) (ah_params h) -> no_upper k = true.
Proof. exact parse_lower. Qed.
Print Assumptions C11_challenge_names_lower.

(* request_untouched: the transport works on a clone; the request a call holds is the one it
   was started with, whatever happened in between. *)
Theorem C11_request_untouched : forall E l id th,
  th_get id (threads (run E l)) = Some th -> req_of id (history (run E l)) = Some (th_q th).
Proof. exact request_untouched. Qed.
Print Assumptions C11_request_untouched.

(* password_destinations, spelled out for one message. *)
Theorem C11_password_destinations : forall E l later id host u p rsp earlier,
  history (run E l) = later ++ ESend id (MReg host (ABasic u p)) rsp :: earlier ->
  (exists q, req_of id earlier = Some q /\ q_host q = host /\ q_auth q = ABasic u p)
  \/ (cfg_basic E host = Some (u, p) /\ named host is_basic_ch earlier = true).
Proof. exact password_to_registry. Qed.
Print Assumptions C11_password_destinations.

(* refresh_destinations, spelled out for one message. *)
Theorem C11_refresh_destinations : forall E l later id realm form a rsp earlier,
  history (run E l) = later ++ ESend id (MPost realm form a) rsp :: earlier ->
  exists q, a = ANone /\ req_of id earlier = Some q
    /\ named (q_host q) (fun ch => is_bearer_ch ch && beqb (pget k_realm (ah_params ch)) realm) earlier = true
    /\ refresh_of_host E (q_host q) (pget k_refresh_token form) earlier = true.
Proof. exact refresh_to_realm. Qed.
Print Assumptions C11_refresh_destinations.

(* challenge_parser_total: parseWWWAuthenticate answers (a challenge or nil) for every byte
   string: the unescape buffer is never overrun and the parameter loop terminates. *)
Theorem C11_challenge_parser_total : forall header, exists r, parseWWWAuthenticate header = Ok r.
Proof. exact parse_total. Qed.
Print Assumptions C11_challenge_parser_total.

(* the statements are not vacuous: a registry that wants Basic auth, a configured password *)
Definition ex_env : env :=
  {| e_cfg := fun _ => Some {| ce_refresh := []; ce_access := []; ce_user := s "u"; ce_pass := s "p" |};
     e_net := fun _ m => match m with
                         | MReg _ (ABasic _ _) => RHttp 200 [] TBBadJSON
                         | MReg _ _ => RHttp 401 [s "Basic realm=""x"""] TBBadJSON
                         | _ => RFail
                         end;
     e_clock := fun _ => 0%Z;
     e_purl := fun _ => None |}.
Definition ex_req : request :=
  {| q_host := s "h"; q_required := zero_scope; q_want := zero_scope; q_body := BPlain; q_auth := ANone |}.

Example C11_example :
  trace ex_env [Start 0 ex_req; Resume 0; Resume 0]
  = [EStart 0 ex_req;
     ESend 0 (MReg (s "h") ANone) (RHttp 401 [s "Basic realm=""x"""] TBBadJSON);
     EResume 0; ERespClose 0;
     ESend 0 (MReg (s "h") (ABasic (s "u") (s "p"))) (RHttp 200 [] TBBadJSON);
     EResume 0; EReturn 0 (RetResp 200 false)].
Proof. vm_compute. reflexivity. Qed.
