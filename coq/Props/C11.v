(* C11: credentials stay confined and the auth flow is bounded and non-intrusive.
   Every theorem is about Model/Auth.v (stdTransport.RoundTrip and below) run under ANY
   configuration, network, clock and url.Parse (the record E), and ANY schedule l of calls
   (any number of hosts and of calls in flight, phases interleaved arbitrarily).
   The clauses evP1..evP5 are defined in Model/AuthSpec.v over the observable history alone. *)
From Coq Require Import String ZArith.
From OCI Require Import Base.Outcome Model.Scope Model.Challenge Model.Auth Model.AuthSpec
  Model.AuthRedirect Proofs.Challenge Proofs.AuthC11 Proofs.AuthProps Proofs.AuthBody Proofs.AuthParse Proofs.AuthRedirect.

(* password_destinations + host_isolation (registry side): every request that reaches a
   registry host is the caller's request to that very host; its Authorization header is the
   caller's own, or a token configured for / issued to a call on that host, or that host's own
   user name and password - and the latter only after that host has sent a Basic challenge
   (so never on a first, unauthenticated request). *)
Theorem C11_registry_confinement : forall E l, all_ok (evP1 E) (history (run E l)) = true.
Proof. exact P1_holds. Qed.
Print Assumptions C11_registry_confinement.

(* refresh_destinations + host_isolation (token-server side): every token request goes to a
   realm that the calling request's host named in a Bearer challenge; a POST carries that
   host's refresh token (configured, or handed out to a call on that host) and only the five
   OAuth2 form fields; a GET carries no Authorization or that host's Basic credentials. *)
Theorem C11_token_server_confinement : forall E l, all_ok (evP2 E) (history (run E l)) = true.
Proof. exact P2_holds. Qed.
Print Assumptions C11_token_server_confinement.

(* two_attempts: no call makes a third attempt or any attempt after it returned; a call whose
   second attempt carried a token issued to that very call (by a token request made before its
   first attempt or in answer to the challenge) and was answered 401 returns 403 with the
   DENIED body, and no other call returns that body; any other response is passed through
   with its status. *)
Theorem C11_two_attempts : forall E l, all_ok (evP3 E) (history (run E l)) = true.
Proof. exact P3_holds. Qed.
Print Assumptions C11_two_attempts.

Theorem C11_at_most_two_registry_attempts : forall E l id, (count_reg id (history (run E l)) <= 2)%nat.
Proof. exact two_attempts. Qed.
Print Assumptions C11_at_most_two_registry_attempts.

(* body_closed: when a call returns, a request body it was given has been closed by the
   transport itself or was handed to the underlying transport (which must close it). *)
Theorem C11_body_closed : forall E l, all_ok evP4 (history (run E l)) = true.
Proof. exact P4_holds. Qed.
Print Assumptions C11_body_closed.

(* body_closed, body by body: when a call returns, there have been at least as many hand-overs
   to the underlying transport and closes by the transport itself as request bodies the call has
   had in its hands - the one it was given and one for every GetBody call that returned a body.
   (A copy obtained from GetBody and then dropped on an early exit breaks this, not the clause
   above: Proofs/AuthBody.v P5_sees_the_copy.) *)
Theorem C11_every_body_closed : forall E l, all_ok evP5 (history (run E l)) = true.
Proof. exact P5_holds. Qed.
Print Assumptions C11_every_body_closed.

(* challenge_names_case_insensitive: whatever the spelling in the header, the parser hands out
   the scheme and every parameter name in lower case - the form in which the transport looks
   them up (realm, service, scope; basic, bearer). *)
Theorem C11_challenge_names_lower : forall header h,
  parseWWWAuthenticate header = Ok (Some h) ->
  no_upper (ah_scheme h) = true /\ forall k v, In (k, v) (ah_params h) -> no_upper k = true.
Proof. exact parse_lower. Qed.
Print Assumptions C11_challenge_names_lower.

(* request_untouched: the transport works on a clone; the request a call holds is the one it
   was started with, whatever happened in between. *)
Theorem C11_request_untouched : forall E l id th,
  th_get id (threads (run E l)) = Some th -> req_of id (history (run E l)) = Some (th_q th).
Proof. exact request_untouched. Qed.
Print Assumptions C11_request_untouched.

(* password_destinations, spelled out for one message. *)
Theorem C11_password_destinations : forall E l later id host u p rsp earlier,
  history (run E l) = later ++ ESend id (MReg host (ABasic u p)) rsp :: earlier ->
  (exists q, req_of id earlier = Some q /\ q_host q = host /\ q_auth q = ABasic u p)
  \/ (cfg_basic E host = Some (u, p) /\ named host is_basic_ch earlier = true).
Proof. exact password_to_registry. Qed.
Print Assumptions C11_password_destinations.

(* refresh_destinations, spelled out for one message. *)
Theorem C11_refresh_destinations : forall E l later id realm form a rsp earlier,
  history (run E l) = later ++ ESend id (MPost realm form a) rsp :: earlier ->
  exists q, a = ANone /\ req_of id earlier = Some q
    /\ named (q_host q) (fun ch => is_bearer_ch ch && beqb (pget k_realm (ah_params ch)) realm) earlier = true
    /\ refresh_of_host E (q_host q) (pget k_refresh_token form) earlier = true.
Proof. exact refresh_to_realm. Qed.
Print Assumptions C11_refresh_destinations.

(* challenge_parser_total: parseWWWAuthenticate answers (a challenge or nil) for every byte
   string: the unescape buffer is never overrun and the parameter loop terminates. *)
Theorem C11_challenge_parser_total : forall header, exists r, parseWWWAuthenticate header = Ok r.
Proof. exact parse_total. Qed.
Print Assumptions C11_challenge_parser_total.

(* the statements are not vacuous: a registry that wants Basic auth, a configured password *)
Definition ex_env : env :=
  {| e_cfg := fun _ => Some {| ce_refresh := []; ce_access := []; ce_user := s "u"; ce_pass := s "p" |};
     e_net := fun _ m => match m with
                         | MReg _ (ABasic _ _) => RHttp 200 [] TBBadJSON
                         | MReg _ _ => RHttp 401 [s "Basic realm=""x"""] TBBadJSON
                         | _ => RFail
                         end;
     e_clock := fun _ => 0%Z;
     e_purl := fun _ => None |}.
Definition ex_req : request :=
  {| q_host := s "h"; q_required := zero_scope; q_want := zero_scope; q_body := BPlain; q_auth := ANone |}.

Example C11_example :
  trace ex_env [Start 0 ex_req; Resume 0; Resume 0]
  = [EStart 0 ex_req;
     ESend 0 (MReg (s "h") ANone) (RHttp 401 [s "Basic realm=""x"""] TBBadJSON);
     EResume 0; ERespClose 0;
     ESend 0 (MReg (s "h") (ABasic (s "u") (s "p"))) (RHttp 200 [] TBBadJSON);
     EResume 0; EReturn 0 (RetResp 200 false)].
Proof. vm_compute. reflexivity. Qed.

(* ---------- token servers that redirect (Model/AuthRedirect.v: http.Client under doTokenRequest) ----------

   The theorems above are about the token request as acquireToken forms it; the realm's server may
   answer it with a redirect, and the http.Client that doTokenRequest uses follows up to nine of
   them - except that its CheckRedirect hook refuses to send the POST to another host.  These are
   about everything that client sends, for ANY behaviour of the network (the argument net:
   answers, Location headers and how they resolve). *)

(* redirect_password_confinement: whatever the token servers answer, a request the client sends
   carries no Authorization header, or the token request's own on a request to the host name of
   the token request's URL (the realm the challenge named) or to a sub-domain of it.  Once a
   hop has left that site the header stays off, also when a later hop comes back (the first
   request is in the list too: it goes to the named host itself). *)
Theorem C11_redirect_password_confinement : forall net m host hostport r sent,
  is_tok_msg m = true -> client_do net m host hostport = (r, sent) ->
  Forall (fun w => auth_of (w_msg w) = ANone
                   \/ (auth_of (w_msg w) = auth_of m /\ in_site (w_host w) host = true)) sent.
Proof.
  intros net m host hostport r sent Hm Hd. apply client_do_facts in Hd as [_ [Hc _]]; [|exact Hm].
  eapply Forall_impl; [|exact Hc]. intros w [H|[H1 H2]]; [now left|]. right. split; [exact H1|].
  now apply dom_or_sub_in_site.
Qed.
Print Assumptions C11_redirect_password_confinement.

(* redirect_bounded: at most ten requests per token request, the token request first; what Do
   returns is an error or the answer to the last of them. *)
Theorem C11_redirect_bounded : forall net m host hostport r sent,
  is_tok_msg m = true -> client_do net m host hostport = (r, sent) ->
  (List.length sent <= 10)%nat /\ (exists rest, sent = rest ++ [(m, host, hostport)])
  /\ (r = RFail \/ exists w rest l, sent = w :: rest /\ net rest (w_msg w) (w_host w) = (r, l)).
Proof.
  intros net m host hostport r sent Hm Hd. apply client_do_facts in Hd as [Hl [_ [_ [Hr Hf]]]]; [|exact Hm].
  split; [lia|]. now split.
Qed.
Print Assumptions C11_redirect_bounded.

(* redirect_refresh_token_confinement (the repaired behaviour; before the CheckRedirect hook of
   doTokenRequest a 307 / 308 made the client POST the form again wherever the Location pointed):
   a form body on the wire - the refresh token is nowhere else - is the token request's own form
   (a POST is only ever repeated, never made up: a GET token request is followed by GETs only),
   and the request that carries it goes to the very host, port included, that the token request
   went to: the realm the challenge named.  No exception. *)
Theorem C11_redirect_refresh_token_confinement : forall net m host hostport r sent,
  is_tok_msg m = true -> client_do net m host hostport = (r, sent) ->
  Forall (fun w => match w_msg w with
                   | MPost _ f _ => (exists u0 a0, m = MPost u0 f a0) /\ w_hostport w = hostport
                   | MGet _ _ _ => True
                   | MReg _ _ => False
                   end) sent.
Proof. intros net m host hostport r sent Hm Hd. now apply client_do_facts in Hd as [_ [_ [Hf _]]]. Qed.
Print Assumptions C11_redirect_refresh_token_confinement.

(* not vacuous: a 307 to another host is not followed by the POST (the 307 is the answer), one to
   another path of the same host is *)
Definition ex_post : msg :=
  MPost (s "https://auth.example/token") [(k_grant_type, k_refresh_token); (k_refresh_token, s "rt")] ANone.
Definition ex_redirecting_net (url host : string) : cnet :=
  fun sent _ _ =>
    match sent with
    | [] => (RHttp 307 [] TBBadJSON,
             LTo {| t_url := s url; t_base := s url; t_query := []; t_host := s host; t_hostport := s host |})
    | _ => (RHttp 200 [] TBBadJSON, LNone)
    end.

Example C11_redirect_example_other_host :
  client_do (ex_redirecting_net "https://elsewhere.test/issue" "elsewhere.test") ex_post (s "auth.example") (s "auth.example")
  = (RHttp 307 [] TBBadJSON, [(ex_post, s "auth.example", s "auth.example")]).
Proof. vm_compute. reflexivity. Qed.

Example C11_redirect_example_same_host :
  List.length (snd (client_do (ex_redirecting_net "https://auth.example/v2/token" "auth.example") ex_post (s "auth.example") (s "auth.example")))
  = 2%nat.
Proof. vm_compute. reflexivity. Qed.
