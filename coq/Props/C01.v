(* C01  Content integrity: bytes served for a digest are the bytes pushed.
   Statements only; proofs live in Proofs/Integrity.v (registry) and Proofs/BlobReader.v (wire). *)
From Coq Require Import String.
From OCI Require Import Model.Mem Model.IntegritySpec Proofs.MemInv Proofs.Integrity.
From OCI Require Import Model.RangeCodec Model.BlobReader Model.BlobReaderLegacy Proofs.BlobReader.
From OCI Require Import Model.IntegrityStack Proofs.IntegrityStack.

Local Open Scope Z_scope.

Section C01.
  Variable hash : bytes -> bytes.
  Variable valid_digest valid_repo valid_tag : bytes -> bool.
  Variable decode_image : bytes -> option image_manifest.
  Variable decode_index : bytes -> option index_manifest.
  Variable cfg : config.
  Variable subject_json_ok : bytes -> bytes -> bool.

  Local Notation step := (step hash valid_digest valid_repo valid_tag decode_image decode_index cfg).
  Local Notation xstep := (xstep hash valid_digest valid_repo valid_tag decode_image decode_index cfg subject_json_ok).
  Local Notation xrun := (xrun hash valid_digest valid_repo valid_tag decode_image decode_index cfg subject_json_ok).
  Local Notation xlog := (xlog hash valid_digest valid_repo valid_tag decode_image decode_index cfg subject_json_ok).
  Local Notation Inv := (Inv hash decode_image decode_index).

  (* After every history over the 18 methods, the BlobWriter operations and the manifest PUT
     by digest, for every hash function and both configurations: what is stored under a digest
     hashes to that digest (blobs and manifests; mount, commit callback and overwrite
     included). *)
  Theorem C01_store_inv : forall h r d b,
    let st := fst (xrun init [] h) in
    (iblob st r d = Some b -> hash (b_data b) = d) /\
    (iman st r d = Some b -> hash (b_data b) = d).
  Proof. exact (store_inv hash valid_digest valid_repo valid_tag decode_image decode_index cfg subject_json_ok). Qed.

  (* The invariant behind it holds in every reachable state. *)
  Theorem C01_reachable_inv : forall h, Inv (fst (xrun init [] h)).
  Proof. intros h. apply inv_xrun, inv_init. Qed.

  (* In such a state a successful GetBlob returns the stored bytes; their hash is the
     requested digest and the descriptor's digest, their length the descriptor's size. *)
  Theorem C01_get_blob : forall st r d de data,
    Inv st -> snd (step st (GetBlob r d)) = Ok (RRead de data) ->
    exists b, iblob st r d = Some b /\ data = b_data b /\
              hash data = d /\ d_digest de = d /\ d_size de = blen data.
  Proof. exact (get_blob_spec hash valid_digest valid_repo valid_tag decode_image decode_index cfg). Qed.

  Theorem C01_get_manifest : forall st r d de data,
    Inv st -> snd (step st (GetManifest r d)) = Ok (RRead de data) ->
    exists b, iman st r d = Some b /\ data = b_data b /\
              hash data = d /\ d_digest de = d /\ d_size de = blen data.
  Proof. exact (get_manifest_spec hash valid_digest valid_repo valid_tag decode_image decode_index cfg). Qed.

  Theorem C01_get_tag : forall st r t de data,
    Inv st -> snd (step st (GetTag r t)) = Ok (RRead de data) ->
    exists td b, itag st r t = Some td /\ iman st r (d_digest td) = Some b /\ data = b_data b /\
                 hash data = d_digest td /\ d_digest de = d_digest td /\ d_size de = blen data.
  Proof. exact (get_tag_spec hash valid_digest valid_repo valid_tag decode_image decode_index cfg). Qed.

  (* A successful GetBlobRange o0 o1 returns exactly bytes [o0, o1') of the stored blob, with
     o1' = len when o1 < 0 or o1 > len, and still describes the whole blob. *)
  Theorem C01_get_blob_range : forall st r d o0 o1 de data,
    Inv st -> snd (step st (GetBlobRange r d o0 o1)) = Ok (RRead de data) ->
    exists b, iblob st r d = Some b /\
              let e := clamp (blen (b_data b)) o1 in
              0 <= o0 <= e /\ data = slice (b_data b) o0 e /\
              hash (b_data b) = d /\ d_digest de = d /\ d_size de = blen (b_data b).
  Proof. exact (get_blob_range_spec hash valid_digest valid_repo valid_tag decode_image decode_index cfg). Qed.

  (* ... and it fails exactly when the clamped pair is not a range. *)
  Theorem C01_get_blob_range_fails : forall st r d o0 o1 b,
    iblob st r d = Some b ->
    is_err (snd (step st (GetBlobRange r d o0 o1))) = (o0 <? 0) || (o0 >? clamp (blen (b_data b)) o1).
  Proof. exact (get_blob_range_fails hash valid_digest valid_repo valid_tag decode_image decode_index cfg). Qed.

  (* A push whose declared digest or size disagrees with the content is an error and the
     state afterwards IS the state before (so nothing is retrievable in any later history
     that was not retrievable anyway). *)
  Theorem C01_rejected_push_blob : forall st r de c,
    hash c <> d_digest de \/ d_size de <> blen c ->
    exists e, step st (PushBlob r de c) = (st, Err e).
  Proof. exact (rejected_push_blob hash valid_digest valid_repo valid_tag decode_image decode_index cfg). Qed.

  Theorem C01_rejected_put_manifest : forall st r d c m,
    hash c <> d -> exists e, xstep st (XPutManifest r d c m) = (st, Err e).
  Proof. exact (rejected_put_manifest hash valid_digest valid_repo valid_tag decode_image decode_index cfg subject_json_ok). Qed.

  (* Commit with a digest that is not the digest of the buffered bytes: an error, and the
     repository table (blobs, manifests, tags of every repository) is unchanged; only the
     upload session remembers the failure. *)
  Theorem C01_rejected_commit : forall st w d b,
    nth_error (bufs st) (N.to_nat w) = Some b -> hash (u_buf b) <> d ->
    exists e, snd (step st (WCommit w d)) = Err e /\ repos (fst (step st (WCommit w d))) = repos st.
  Proof. exact (rejected_commit hash valid_digest valid_repo valid_tag decode_image decode_index cfg). Qed.

  (* The property itself, over histories: the log of every history satisfies the
     specification hist_ok (Model/IntegritySpec.v): mismatched pushes fail, consistent blob
     pushes are accepted, every successful read returns bytes that hash to the requested /
     described digest, have the described length, were the content of an earlier accepted push
     and were put under that digest in that repository by an earlier accepted operation; range
     reads return the slice and describe the whole blob. *)
  Theorem C01_histories : forall h, hist_ok hash valid_digest valid_repo (xlog h) = true.
  Proof. exact (xrun_hist_ok hash valid_digest valid_repo valid_tag decode_image decode_index cfg subject_json_ok). Qed.
End C01.
Print Assumptions C01_store_inv.
Print Assumptions C01_reachable_inv.
Print Assumptions C01_get_blob.
Print Assumptions C01_get_manifest.
Print Assumptions C01_get_tag.
Print Assumptions C01_get_blob_range.
Print Assumptions C01_get_blob_range_fails.
Print Assumptions C01_rejected_push_blob.
Print Assumptions C01_rejected_put_manifest.
Print Assumptions C01_rejected_commit.
Print Assumptions C01_histories.

(* ------------------------------------------------------------------ the client's reader *)
Section C01_reader.
  Variable hashd : bytes -> bytes -> bytes.   (* algorithm name, content -> digest *)

  (* blobReader, soundness, for EVERY sequence of Read results of the underlying body (any
     cutting, zero-length reads, errors, data after what should be the end): if the verifying
     reader ends in a clean io.EOF, the bytes it relayed have the descriptor's size and, under
     the descriptor's algorithm, its digest. *)
  Theorem C01_blobreader_sound : forall de r sc data,
    new_blob_reader de true = Ok r -> drain hashd r sc [] = DClean data ->
    blen data = d_size de /\ hashd (br_alg r) data = d_digest de.
  Proof. exact (blobreader_sound hashd). Qed.

  (* The reader of a range read cannot check a slice against the descriptor of the whole blob;
     what it guarantees is that a clean end never relayed more bytes than the blob has. *)
  Theorem C01_blobreader_range_sound : forall de r sc data,
    new_blob_reader de false = Ok r -> drain hashd r sc [] = DClean data -> blen data <= d_size de.
  Proof. exact (blobreader_unverified_sound hashd). Qed.

  (* Completeness, for every cutting of a body into reads (the final io.EOF together with the
     last bytes or on its own): clean EOF exactly when size and digest match ... *)
  Theorem C01_blobreader_complete : forall de parts last out,
    drain hashd (fresh_reader de true) (deliver parts last) [] = DClean out <->
    out = body_of parts last /\ blen (body_of parts last) = d_size de /\
    hashd (br_alg (fresh_reader de true)) (body_of parts last) = d_digest de.
  Proof. exact (verified_clean_iff hashd). Qed.

  (* ... for the range reader exactly when the body is not longer than the described blob ... *)
  Theorem C01_blobreader_range_complete : forall de parts last out,
    drain hashd (fresh_reader de false) (deliver parts last) [] = DClean out <->
    out = body_of parts last /\ blen (body_of parts last) <= d_size de.
  Proof. exact (unverified_clean_iff hashd). Qed.

  (* ... a too-long body fails with a size error at the first non-final read that takes the
     count beyond the size, verifying or not, whatever follows ... *)
  Theorem C01_blobreader_early_failure : forall de v parts last d,
    cross 0 (d_size de) parts [] = Some d ->
    drain hashd (fresh_reader de v) (deliver parts last) [] = DErr d RRSize.
  Proof. exact (early_failure hashd). Qed.

  (* ... and the consumer is never left without an answer. *)
  Theorem C01_blobreader_never_hangs : forall de v parts last,
    match drain hashd (fresh_reader de v) (deliver parts last) [] with DHang _ => False | _ => True end.
  Proof. exact (never_hangs hashd). Qed.

  (* Before the repair the range reader did not count bytes delivered together with io.EOF:
     a clean end with more bytes than the whole blob (replayed on the real code:
     corpus/C01/range_overlong_eof_with_data.json). *)
  Theorem C01_legacy_range_reader_refuted :
    exists de sc data, drain_legacy hashd (fresh_reader de false) sc [] = DClean data /\ d_size de < blen data.
  Proof.
    exists {| d_media := []; d_digest := []; d_size := 0; d_artifact := [] |}, [([7%N], REOF)], [7%N].
    split; [reflexivity | reflexivity].
  Qed.
End C01_reader.
Print Assumptions C01_blobreader_sound.
Print Assumptions C01_blobreader_range_sound.
Print Assumptions C01_blobreader_complete.
Print Assumptions C01_blobreader_range_complete.
Print Assumptions C01_blobreader_early_failure.
Print Assumptions C01_blobreader_never_hangs.
Print Assumptions C01_legacy_range_reader_refuted.

(* ------------------------------------------------------------------ the wire *)

(* The server parses the Range header the client writes for (o0, o1) back to (o0, o1) (end -1
   for "to the end"), refusing exactly a negative start and 0 <= o1 <= o0 - for all int64
   offsets. *)
Theorem C01_range_header_roundtrip : forall o0 o1,
  MIN64 <= o0 <= MAX64 -> MIN64 <= o1 <= MAX64 ->
  parse_http_range (client_range_header o0 o1) =
    if o0 <? 0 then HREndRelative
    else if o1 <? 0 then HROk [{| hr_start := o0; hr_end := -1 |}]
    else if o1 <=? o0 then HRInvalid
    else HROk [{| hr_start := o0; hr_end := o1 |}].
Proof. exact parse_client_range. Qed.
Print Assumptions C01_range_header_roundtrip.

(* The client reads the total of "bytes a-b/n" back as n (and refuses an n beyond int64). *)
Theorem C01_content_range_total : forall a b n,
  after_last 47%N (content_range_header a b n) = Some (fmt_int n) /\
  parse_int (fmt_int n) = if in_int64 n then Some n else None.
Proof. intros. split; [apply content_range_total | apply parse_int_fmt_int_gen]. Qed.
Print Assumptions C01_content_range_total.

Section C01_stack.
  Variable vref : bytes -> bool.                      (* ociref.IsValidDigest *)
  Variable hashd : bytes -> bytes -> bytes.
  Variable valid_digest valid_repo valid_tag : bytes -> bool.
  Variable decode_image : bytes -> option image_manifest.
  Variable decode_index : bytes -> option index_manifest.
  Variable cfg : config.
  Variable subject_json_ok : bytes -> bytes -> bool.

  Local Notation hash := (canon_hash hashd).
  Local Notation Inv := (Inv hash decode_image decode_index).
  Local Notation mem_rb := (mem_rb hashd valid_digest valid_repo valid_tag decode_image decode_index cfg).

  (* GetBlobRange through one client -> server hop over ocimem: the same bytes and the
     whole-blob descriptor as the direct call whenever the range can be written as a Range
     header, an error otherwise (HTTP cannot ask for an empty range). *)
  Theorem C01_range_over_http : forall st r d o0 o1 b,
    Inv st -> iblob st r d = Some b ->
    in64 o0 -> in64 o1 -> blen (b_data b) <= MAX64 ->
    vref d = true -> alg_of d = Some (s "sha256") ->
    let direct := rb_range (mem_rb st) r d o0 o1 in
    let via := rb_range (http_layer vref hashd (mem_rb st)) r d o0 o1 in
    (0 <= o0 -> o1 < 0 \/ o0 < o1 -> pres via = pres direct) /\
    (o0 < 0 \/ 0 <= o1 <= o0 -> pres via = None).
  Proof. exact (range_over_http vref hashd valid_digest valid_repo valid_tag decode_image decode_index cfg). Qed.

  (* Any number of hops: each of the four reads answers an error (or no reader), or the digest,
     size and bytes ocimem answers. *)
  Theorem C01_hops_refine : forall k st, Inv st ->
    below hashd valid_digest valid_repo valid_tag decode_image decode_index cfg st (hops vref hashd k (mem_rb st)).
  Proof. exact (hops_refine vref hashd valid_digest valid_repo valid_tag decode_image decode_index cfg). Qed.

  (* The property over histories seen through k HTTP hops (k = 0: ocimem itself and the
     transparent wrappers), for range offsets that are int64 values. *)
  Theorem C01_histories_through_hops : forall k h,
    int64_ops h ->
    hist_ok hash valid_digest valid_repo
      (vlog vref hashd valid_digest valid_repo valid_tag decode_image decode_index cfg subject_json_ok k h) = true.
  Proof. exact (vstep_hist_ok vref hashd valid_digest valid_repo valid_tag decode_image decode_index cfg subject_json_ok). Qed.
End C01_stack.
Print Assumptions C01_range_over_http.
Print Assumptions C01_hops_refine.
Print Assumptions C01_histories_through_hops.

(* The hypotheses of the read theorems are satisfiable, and the history theorem is not about
   empty logs: with the identity as hash function, after one accepted push the blob is served,
   a range of it is served, and a push with a wrong digest is refused. *)
Example C01_nonvacuous :
  let idh := fun c : bytes => c in
  let yes := fun _ : bytes => true in
  let step := step idh yes yes yes (fun _ => None) (fun _ => None) {| immutable_tags := false |} in
  let c := s "hello" in
  let de := {| d_media := s "m"; d_digest := c; d_size := 5; d_artifact := [] |} in
  let st := fst (step init (PushBlob (s "r") de c)) in
  snd (step st (GetBlob (s "r") c)) = Ok (RRead de c) /\
  snd (step st (GetBlobRange (s "r") c 1 3)) = Ok (RRead de (s "el")) /\
  is_err (snd (step st (PushBlob (s "r") de (s "hellx")))) = true /\
  xlog idh yes yes yes (fun _ => None) (fun _ => None) {| immutable_tags := false |} (fun _ _ => true)
       [XO (PushBlob (s "r") de c); XO (GetBlobRange (s "r") c 1 3)]
    = [(XO (PushBlob (s "r") de c), PDesc c 5); (XO (GetBlobRange (s "r") c 1 3), PRead c 5 (s "el"))].
Proof. vm_compute. repeat split; reflexivity. Qed.
