(* C05, bridge: the per-property model of listings (Model/Listing.v, what Props/C05.v is about) agrees
   with the line-by-line models of ociclient and ociserver (Model/Client.v, Model/Server.v, composed in
   Model/Stack.v) which C18 / C06 / C03 compare with the Go code; C05's completeness theorem is
   transferred to the composed model.  Proofs: Proofs/BridgeListing.v.  Statements only; they are the
   lemmas' types as Coq prints them (tools/genprops.py). *)
From Coq Require Import String.
From OCI Require Proofs.BridgeListing.

(* the server's makeNextLink (Model/Server.v) produces, for every request and next start point, exactly the Link text of C05's model (Model/Listing.v) *)
Theorem C05_bridge_link_text :
  forall (m : Http.meth) (p : Bytes.bytes) (q : BridgeListing.L.wquery) (last : Bytes.bytes),
  BridgeListing.wq_wf q ->
  Server.make_next_link (StackTransparent.plain_req m p (BridgeListing.wq_text q)) last =
  (BinNums.Npos (BinNums.xO (BinNums.xO (BinNums.xI (BinNums.xI (BinNums.xI BinNums.xH)))))
   :: (Request.path_escape_mode p ++
       BinNums.Npos
         (BinNums.xI (BinNums.xI (BinNums.xI (BinNums.xI (BinNums.xI BinNums.xH)))))
       :: BridgeListing.wq_text (BridgeListing.L.makeNextLink q last)) ++
      Bytes.s ">;rel=""next""")%list.
Proof. exact @BridgeListing.bridge_link_text. Qed.
Print Assumptions C05_bridge_link_text.

(* the server's nextListResults and C05's agree on items, Link, error and the panic branch for every n, item list, final error and option set *)
Theorem C05_bridge_nextListResults :
  forall (o : Server.opts) (m : Http.meth) (p : Bytes.bytes) (q : BridgeListing.L.wquery)
    (rreq : Request.request) (xs : list Bytes.bytes) (oe : option Errors.gerr)
    (f : Errors.gerr -> Iface.err),
  BridgeListing.wq_wf q ->
  match
    BridgeListing.L.nextListResults (BridgeListing.so o) q (Request.q_listn rreq)
      (BridgeListing.Sq.seq_of xs (option_map f oe))
  with
  | BridgeListing.L.LR_ok items link =>
      match
        Server.next_list_results o (StackTransparent.plain_req m p (BridgeListing.wq_text q))
          rreq (xs, oe)
      with
      | Outcome.Ok (items', text) =>
          items' = items /\ text = BridgeListing.link_header_text p link
      | _ => False
      end
  | BridgeListing.L.LR_err e =>
      match
        Server.next_list_results o (StackTransparent.plain_req m p (BridgeListing.wq_text q))
          rreq (xs, oe)
      with
      | Outcome.Err e' =>
          e = BridgeListing.L.err_n_too_large /\ e' = BridgeListing.E_big \/
          oe = Some e' /\ e = f e'
      | _ => False
      end
  | BridgeListing.L.LR_panic =>
      match
        Server.next_list_results o (StackTransparent.plain_req m p (BridgeListing.wq_text q))
          rreq (xs, oe)
      with
      | Outcome.Panic => True
      | _ => False
      end
  end.
Proof. exact @BridgeListing.bridge_nextListResults. Qed.
Print Assumptions C05_bridge_nextListResults.

(* the request the client's nextLink builds from a response is the one C05's nextLink denotes *)
Theorem C05_bridge_next_request :
  forall (linked : Ref.alg -> bool) (hash : Bytes.bytes -> Bytes.bytes -> Bytes.bytes)
    (media : Bytes.bytes -> Bytes.bytes) (enc : Server.jval -> Bytes.bytes)
    (dec_errors : Bytes.bytes -> option (list Errors.werr))
    (dec_names : bool -> Bytes.bytes -> option (list Bytes.bytes))
    (dec_index : Bytes.bytes -> option (list Iface.desc)) (B : Type) 
    (o : Server.opts) (cc : Stack.ccfg) (K : Http.kind) (repo : Bytes.bytes)
    (mkj : list Bytes.bytes -> Server.jval) (R : Bytes.bytes -> Request.request)
    (ctail : Bytes.bytes),
  K = Http.ReqTagsList \/ K = Http.ReqCatalogList ->
  List.forallb RequestCodec.safe ctail = true ->
  Stack.dot_free (BridgeListing.SB.cpath ctail) = true ->
  (forall s0 : Bytes.bytes,
   Request.construct (Stack.req_of (BridgeListing.SB.q_of cc K repo s0)) =
   (Request.m_GET,
    (BridgeListing.SB.cpath ctail ++ RequestCodec.optq (BridgeListing.SB.cquery cc s0))%list)) ->
  (forall s0 : Bytes.bytes,
   RequestCodec.byte_list s0 = true ->
   Request.parse_req linked Request.m_GET (BridgeListing.SB.cpath ctail)
     (BridgeListing.SB.cquery cc s0) = Outcome.Ok (R s0)) ->
  forall full : Bytes.bytes -> list Bytes.bytes,
  (forall s0 x : Bytes.bytes,
   List.In x (full s0) -> x <> nil /\ RequestCodec.byte_list x = true) ->
  forall (start : Bytes.bytes) (rc : Http.hreq) (s0 : Bytes.bytes)
    (w : Http.world (Stack.srv B)) (last : Bytes.bytes),
  BridgeListing.SB.page_request cc ctail rc s0 ->
  BridgeListing.SB.N cc <= Datatypes.length (full s0) ->
  List.nth_error (full s0) (BridgeListing.SB.N cc - 1) = Some last ->
  BridgeListing.L.last_opt (BridgeListing.SB.page_items cc full s0) = Some last /\
  (exists rc' : Http.hreq,
     Client.next_link (Stack.stack_env linked hash media dec_errors dec_names dec_index)
       (StackBase.got B w rc (BridgeListing.SB.page_resp enc o cc mkj ctail full s0))
       (BridgeListing.SB.q_of cc K repo start) last = Outcome.Ok rc' /\
     BridgeListing.same_request ctail rc'
       (BridgeListing.L.nextLink (BridgeListing.linkL_of o cc full s0) 
          (BridgeListing.SB.n cc) last)).
Proof. exact @BridgeListing.bridge_next_request. Qed.
Print Assumptions C05_bridge_next_request.

(* the client's pager (Model/Client.v) over the composed stack and C05's pager over its own page function make the same yield calls, end the same way and send the same page requests - every fuel, start point, consumer budget, granted page size, OmitLink setting, error-free backend listing *)
Theorem C05_bridge_pager :
  forall (linked : Ref.alg -> bool) (hash : Bytes.bytes -> Bytes.bytes -> Bytes.bytes)
    (subject_of : Bytes.bytes -> option (option Bytes.bytes))
    (media : Bytes.bytes -> Bytes.bytes) (enc : Server.jval -> Bytes.bytes)
    (dec_errors : Bytes.bytes -> option (list Errors.werr))
    (dec_names : bool -> Bytes.bytes -> option (list Bytes.bytes))
    (dec_index : Bytes.bytes -> option (list Iface.desc))
    (redirect : Bytes.bytes -> Bytes.bytes -> Bytes.bytes * Bytes.bytes) 
    (B : Type) (bstep : Server.backend B) (o : Server.opts) (cc : Stack.ccfg) 
    (K : Http.kind) (repo : Bytes.bytes) (mkop : Bytes.bytes -> Iface.op)
    (mkj : list Bytes.bytes -> Server.jval) (tagsflag : bool)
    (R : Bytes.bytes -> Request.request) (ctail : Bytes.bytes),
  K = Http.ReqTagsList \/ K = Http.ReqCatalogList ->
  List.forallb RequestCodec.safe ctail = true ->
  Stack.dot_free (BridgeListing.SB.cpath ctail) = true ->
  (forall s0 : Bytes.bytes,
   Request.construct (Stack.req_of (BridgeListing.SB.q_of cc K repo s0)) =
   (Request.m_GET,
    (BridgeListing.SB.cpath ctail ++ RequestCodec.optq (BridgeListing.SB.cquery cc s0))%list)) ->
  (forall s0 : Bytes.bytes,
   RequestCodec.byte_list s0 = true ->
   Request.parse_req linked Request.m_GET (BridgeListing.SB.cpath ctail)
     (BridgeListing.SB.cquery cc s0) = Outcome.Ok (R s0)) ->
  (forall s0 : Bytes.bytes, Request.q_listn (R s0) = BridgeListing.SB.n cc) ->
  (forall (bb : B) (req : Server.hreq) (s0 : Bytes.bytes) (b' : B) 
     (v : Server.bval) (items : list Bytes.bytes) (link : Bytes.bytes),
   Request.parse_req linked (Server.hq_method req) (Server.hq_path req)
     (Server.hq_rawquery req) = Outcome.Ok (R s0) ->
   bstep bb (mkop s0) = (b', Outcome.Ok v) ->
   Server.next_list_results o req (R s0) (Server.items_of v, Server.iter_err_of v) =
   Outcome.Ok (items, link) ->
   Stack.server_handle linked hash subject_of enc redirect B bstep o bb req =
   (b', (Server.ECall (mkop s0) (Outcome.Ok v) :: nil)%list,
    Outcome.Ok
      {|
        Server.p_status :=
          BinNums.Zpos
            (BinNums.xO
               (BinNums.xO
                  (BinNums.xO (BinNums.xI (BinNums.xO (BinNums.xO (BinNums.xI BinNums.xH)))))));
        Server.p_hdrs := StackDesc.list_hdrs (enc (mkj items)) link None;
        Server.p_body := enc (mkj items);
        Server.p_json := Some (mkj items)
      |})) ->
  (forall items : list Bytes.bytes, dec_names tagsflag (enc (mkj items)) = Some items) ->
  forall (b : B) (full : Bytes.bytes -> list Bytes.bytes),
  (forall s0 : Bytes.bytes, bstep b (mkop s0) = (b, Outcome.Ok (Server.VList (full s0) None))) ->
  (forall s0 x : Bytes.bytes,
   List.In x (full s0) -> x <> nil /\ RequestCodec.byte_list x = true) ->
  (forall s0 : Bytes.bytes,
   BinInt.Z.le (Bytes.blen (enc (mkj (BridgeListing.SB.page_items cc full s0))))
     Request.max_int64) ->
  forall (wire : Iface.err -> Iface.err) (ue : Iface.err -> Errors.gerr)
    (backL : Bytes.bytes -> BridgeListing.Sq.Seq Iface.err Bytes.bytes),
  (forall s0 : Bytes.bytes, BridgeListing.Sq.represents (backL s0) (full s0) None) ->
  (BinInt.Z.ltb BinNums.Z0 (Server.o_max_list_page_size o) &&
   BinInt.Z.ltb (Server.o_max_list_page_size o) (BridgeListing.SB.n cc))%bool = false ->
  forall (start : Bytes.bytes) (fuel : nat) (budget : option nat)
    (w : Http.world (Stack.srv B)),
  RequestCodec.byte_list start = true ->
  Stack.sv_b (Http.w_srv w) = b ->
  let final :=
    BridgeListing.L.pager_run wire fuel
      (BridgeListing.L.handleList (BridgeListing.so o) backL) (BridgeListing.SB.n cc) start
      (list (Bytes.bytes + Iface.err) * option nat) BridgeListing.budget_y (
      nil, budget) in
  let reqs :=
    BridgeListing.pager_requests wire fuel
      (BridgeListing.L.handleList (BridgeListing.so o) backL) (BridgeListing.SB.n cc) start
      (list (Bytes.bytes + Iface.err) * option nat) BridgeListing.budget_y (
      nil, budget) in
  exists (w' : Http.world (Stack.srv B)) (rs : list Http.hreq),
    Client.pager (Stack.srv B) (Stack.serve_stack linked hash subject_of enc redirect bstep o)
      (Stack.stack_env linked hash media dec_errors dec_names dec_index) fuel tagsflag
      (BridgeListing.SB.q_of cc K repo start) budget w =
    (w', (List.map (BridgeListing.up ue) (fst (fst final)), BridgeListing.pend_of (snd final))) /\
    Http.w_srv w' =
    StackBase.after B (Http.w_srv w) b (List.map (BridgeListing.ev_of mkop full) reqs) /\
    List.map Http.en_req (Http.w_log w') = (List.map Http.en_req (Http.w_log w) ++ rs)%list /\
    List.Forall2 (BridgeListing.same_request ctail) rs reqs.
Proof. exact @BridgeListing.bridge_pager. Qed.
Print Assumptions C05_bridge_pager.

(* the same for Tags *)
Theorem C05_bridge_Tags :
  forall (linked : Ref.alg -> bool) (hash : Bytes.bytes -> Bytes.bytes -> Bytes.bytes)
    (subject_of : Bytes.bytes -> option (option Bytes.bytes))
    (media : Bytes.bytes -> Bytes.bytes) (enc : Server.jval -> Bytes.bytes)
    (dec_errors : Bytes.bytes -> option (list Errors.werr))
    (dec_names : bool -> Bytes.bytes -> option (list Bytes.bytes))
    (dec_index : Bytes.bytes -> option (list Iface.desc))
    (redirect : Bytes.bytes -> Bytes.bytes -> Bytes.bytes * Bytes.bytes) 
    (B : Type) (bstep : Server.backend B) (o : Server.opts) (cc : Stack.ccfg),
  (forall (name : Bytes.bytes) (l : list Bytes.bytes),
   dec_names true (enc (Server.JTags name l)) = Some l) ->
  forall (w : Http.world (Stack.srv B)) (repo start : Bytes.bytes) 
    (budget : option nat) (full : Bytes.bytes -> list Bytes.bytes)
    (wire : Iface.err -> Iface.err) (ue : Iface.err -> Errors.gerr)
    (backL : Bytes.bytes -> BridgeListing.Sq.Seq Iface.err Bytes.bytes),
  Request.vrepo repo = true ->
  RequestCodec.byte_list start = true ->
  StackListing.page_size_ok o cc ->
  BridgeListing.lists B bstep (Stack.sv_b (Http.w_srv w)) (Iface.Tags repo) full ->
  BridgeListing.SB.pages_small enc cc (Server.JTags repo) full ->
  (forall s0 : Bytes.bytes, BridgeListing.Sq.represents (backL s0) (full s0) None) ->
  let final :=
    BridgeListing.L.pager_run wire (Stack.cc_fuel cc)
      (BridgeListing.L.handleList (BridgeListing.so o) backL)
      (Client.c_page_size (Stack.stack_client cc)) start
      (list (Bytes.bytes + Iface.err) * option nat) BridgeListing.budget_y (
      nil, budget) in
  let reqs :=
    BridgeListing.pager_requests wire (Stack.cc_fuel cc)
      (BridgeListing.L.handleList (BridgeListing.so o) backL)
      (Client.c_page_size (Stack.stack_client cc)) start
      (list (Bytes.bytes + Iface.err) * option nat) BridgeListing.budget_y (
      nil, budget) in
  exists (w' : Http.world (Stack.srv B)) (rs : list Http.hreq),
    Stack.stack_call linked hash subject_of media enc dec_errors dec_names dec_index redirect
      bstep o cc (Client.CTags repo start budget) w =
    (w',
     Client.ONames (List.map (BridgeListing.up ue) (fst (fst final)))
       (BridgeListing.pend_of (snd final))) /\
    Http.w_srv w' =
    StackBase.after B (Http.w_srv w) (Stack.sv_b (Http.w_srv w))
      (List.map (BridgeListing.ev_of (Iface.Tags repo) full) reqs) /\
    List.map Http.en_req (Http.w_log w') = (List.map Http.en_req (Http.w_log w) ++ rs)%list /\
    List.Forall2 (BridgeListing.same_request (BridgeListing.tags_tail repo)) rs reqs.
Proof. exact @BridgeListing.bridge_Tags. Qed.
Print Assumptions C05_bridge_Tags.

(* the same for Repositories *)
Theorem C05_bridge_Repositories :
  forall (linked : Ref.alg -> bool) (hash : Bytes.bytes -> Bytes.bytes -> Bytes.bytes)
    (subject_of : Bytes.bytes -> option (option Bytes.bytes))
    (media : Bytes.bytes -> Bytes.bytes) (enc : Server.jval -> Bytes.bytes)
    (dec_errors : Bytes.bytes -> option (list Errors.werr))
    (dec_names : bool -> Bytes.bytes -> option (list Bytes.bytes))
    (dec_index : Bytes.bytes -> option (list Iface.desc))
    (redirect : Bytes.bytes -> Bytes.bytes -> Bytes.bytes * Bytes.bytes) 
    (B : Type) (bstep : Server.backend B) (o : Server.opts) (cc : Stack.ccfg),
  (forall l : list Bytes.bytes, dec_names false (enc (Server.JCatalog l)) = Some l) ->
  forall (w : Http.world (Stack.srv B)) (start : Bytes.bytes) (budget : option nat)
    (full : Bytes.bytes -> list Bytes.bytes) (wire : Iface.err -> Iface.err)
    (ue : Iface.err -> Errors.gerr)
    (backL : Bytes.bytes -> BridgeListing.Sq.Seq Iface.err Bytes.bytes),
  RequestCodec.byte_list start = true ->
  StackListing.page_size_ok o cc ->
  BridgeListing.lists B bstep (Stack.sv_b (Http.w_srv w)) Iface.Repositories full ->
  BridgeListing.SB.pages_small enc cc Server.JCatalog full ->
  (forall s0 : Bytes.bytes, BridgeListing.Sq.represents (backL s0) (full s0) None) ->
  let final :=
    BridgeListing.L.pager_run wire (Stack.cc_fuel cc)
      (BridgeListing.L.handleList (BridgeListing.so o) backL)
      (Client.c_page_size (Stack.stack_client cc)) start
      (list (Bytes.bytes + Iface.err) * option nat) BridgeListing.budget_y (
      nil, budget) in
  let reqs :=
    BridgeListing.pager_requests wire (Stack.cc_fuel cc)
      (BridgeListing.L.handleList (BridgeListing.so o) backL)
      (Client.c_page_size (Stack.stack_client cc)) start
      (list (Bytes.bytes + Iface.err) * option nat) BridgeListing.budget_y (
      nil, budget) in
  exists (w' : Http.world (Stack.srv B)) (rs : list Http.hreq),
    Stack.stack_call linked hash subject_of media enc dec_errors dec_names dec_index redirect
      bstep o cc (Client.CRepositories start budget) w =
    (w',
     Client.ONames (List.map (BridgeListing.up ue) (fst (fst final)))
       (BridgeListing.pend_of (snd final))) /\
    Http.w_srv w' =
    StackBase.after B (Http.w_srv w) (Stack.sv_b (Http.w_srv w))
      (List.map (BridgeListing.ev_of Iface.Repositories full) reqs) /\
    List.map Http.en_req (Http.w_log w') = (List.map Http.en_req (Http.w_log w) ++ rs)%list /\
    List.Forall2 (BridgeListing.same_request BridgeListing.catalog_tail) rs reqs.
Proof. exact @BridgeListing.bridge_Repositories. Qed.
Print Assumptions C05_bridge_Repositories.

(* the yields against the never-declining consumer determine what the pager does against every consumer *)
Theorem C05_bridge_every_consumer :
  forall (linked : Ref.alg -> bool) (hash : Bytes.bytes -> Bytes.bytes -> Bytes.bytes)
    (subject_of : Bytes.bytes -> option (option Bytes.bytes))
    (media : Bytes.bytes -> Bytes.bytes) (enc : Server.jval -> Bytes.bytes)
    (dec_errors : Bytes.bytes -> option (list Errors.werr))
    (dec_names : bool -> Bytes.bytes -> option (list Bytes.bytes))
    (dec_index : Bytes.bytes -> option (list Iface.desc))
    (redirect : Bytes.bytes -> Bytes.bytes -> Bytes.bytes * Bytes.bytes) 
    (B : Type) (bstep : Server.backend B) (o : Server.opts) (cc : Stack.ccfg) 
    (K : Http.kind) (repo : Bytes.bytes) (mkop : Bytes.bytes -> Iface.op)
    (mkj : list Bytes.bytes -> Server.jval) (tagsflag : bool)
    (R : Bytes.bytes -> Request.request) (ctail : Bytes.bytes),
  K = Http.ReqTagsList \/ K = Http.ReqCatalogList ->
  List.forallb RequestCodec.safe ctail = true ->
  Stack.dot_free (BridgeListing.SB.cpath ctail) = true ->
  (forall s0 : Bytes.bytes,
   Request.construct (Stack.req_of (BridgeListing.SB.q_of cc K repo s0)) =
   (Request.m_GET,
    (BridgeListing.SB.cpath ctail ++ RequestCodec.optq (BridgeListing.SB.cquery cc s0))%list)) ->
  (forall s0 : Bytes.bytes,
   RequestCodec.byte_list s0 = true ->
   Request.parse_req linked Request.m_GET (BridgeListing.SB.cpath ctail)
     (BridgeListing.SB.cquery cc s0) = Outcome.Ok (R s0)) ->
  (forall s0 : Bytes.bytes, Request.q_listn (R s0) = BridgeListing.SB.n cc) ->
  (forall (bb : B) (req : Server.hreq) (s0 : Bytes.bytes) (b' : B) 
     (v : Server.bval) (items : list Bytes.bytes) (link : Bytes.bytes),
   Request.parse_req linked (Server.hq_method req) (Server.hq_path req)
     (Server.hq_rawquery req) = Outcome.Ok (R s0) ->
   bstep bb (mkop s0) = (b', Outcome.Ok v) ->
   Server.next_list_results o req (R s0) (Server.items_of v, Server.iter_err_of v) =
   Outcome.Ok (items, link) ->
   Stack.server_handle linked hash subject_of enc redirect B bstep o bb req =
   (b', (Server.ECall (mkop s0) (Outcome.Ok v) :: nil)%list,
    Outcome.Ok
      {|
        Server.p_status :=
          BinNums.Zpos
            (BinNums.xO
               (BinNums.xO
                  (BinNums.xO (BinNums.xI (BinNums.xO (BinNums.xO (BinNums.xI BinNums.xH)))))));
        Server.p_hdrs := StackDesc.list_hdrs (enc (mkj items)) link None;
        Server.p_body := enc (mkj items);
        Server.p_json := Some (mkj items)
      |})) ->
  (forall items : list Bytes.bytes, dec_names tagsflag (enc (mkj items)) = Some items) ->
  forall (b : B) (full : Bytes.bytes -> list Bytes.bytes),
  (forall s0 : Bytes.bytes, bstep b (mkop s0) = (b, Outcome.Ok (Server.VList (full s0) None))) ->
  (forall s0 x : Bytes.bytes,
   List.In x (full s0) -> x <> nil /\ RequestCodec.byte_list x = true) ->
  (forall s0 : Bytes.bytes,
   BinInt.Z.le (Bytes.blen (enc (mkj (BridgeListing.SB.page_items cc full s0))))
     Request.max_int64) ->
  forall wire : Iface.err -> Iface.err,
  (Iface.err -> Errors.gerr) ->
  forall backL : Bytes.bytes -> BridgeListing.Sq.Seq Iface.err Bytes.bytes,
  (forall s0 : Bytes.bytes, BridgeListing.Sq.represents (backL s0) (full s0) None) ->
  (BinInt.Z.ltb BinNums.Z0 (Server.o_max_list_page_size o) &&
   BinInt.Z.ltb (Server.o_max_list_page_size o) (BridgeListing.SB.n cc))%bool = false ->
  forall (start : Bytes.bytes) (fuel : nat) (w w' : Http.world (Stack.srv B))
    (xs : list Bytes.bytes) (pe : Client.pend),
  RequestCodec.byte_list start = true ->
  Stack.sv_b (Http.w_srv w) = b ->
  Client.pager (Stack.srv B) (Stack.serve_stack linked hash subject_of enc redirect bstep o)
    (Stack.stack_env linked hash media dec_errors dec_names dec_index) fuel tagsflag
    (BridgeListing.SB.q_of cc K repo start) None w = (w', (List.map inl xs, pe)) ->
  forall (S : Type) (y : BridgeListing.Sq.consumer Iface.err Bytes.bytes S) (st : S),
  BridgeListing.L.pager wire fuel (BridgeListing.L.handleList (BridgeListing.so o) backL)
    (BridgeListing.SB.n cc) start S y st = BridgeListing.Sq.seq_of xs None S y st.
Proof. exact @BridgeListing.bridge_every_consumer. Qed.
Print Assumptions C05_bridge_every_consumer.

(* the same when the backend iterator may end with an error *)
Theorem C05_bridge_pager_e :
  forall (linked : Ref.alg -> bool) (hash : Bytes.bytes -> Bytes.bytes -> Bytes.bytes)
    (subject_of : Bytes.bytes -> option (option Bytes.bytes))
    (media : Bytes.bytes -> Bytes.bytes) (enc : Server.jval -> Bytes.bytes)
    (dec_errors : Bytes.bytes -> option (list Errors.werr))
    (dec_names : bool -> Bytes.bytes -> option (list Bytes.bytes))
    (dec_index : Bytes.bytes -> option (list Iface.desc))
    (redirect : Bytes.bytes -> Bytes.bytes -> Bytes.bytes * Bytes.bytes) 
    (B : Type) (bstep : Server.backend B) (o : Server.opts) (cc : Stack.ccfg) 
    (K : Http.kind) (repo : Bytes.bytes) (mkop : Bytes.bytes -> Iface.op)
    (mkj : list Bytes.bytes -> Server.jval) (tagsflag : bool)
    (R : Bytes.bytes -> Request.request) (ctail : Bytes.bytes),
  K = Http.ReqTagsList \/ K = Http.ReqCatalogList ->
  List.forallb RequestCodec.safe ctail = true ->
  Stack.dot_free (BridgeListing.SB.cpath ctail) = true ->
  (forall s0 : Bytes.bytes,
   Request.construct (Stack.req_of (BridgeListing.SB.q_of cc K repo s0)) =
   (Request.m_GET,
    (BridgeListing.SB.cpath ctail ++ RequestCodec.optq (BridgeListing.SB.cquery cc s0))%list)) ->
  (forall s0 : Bytes.bytes,
   RequestCodec.byte_list s0 = true ->
   Request.parse_req linked Request.m_GET (BridgeListing.SB.cpath ctail)
     (BridgeListing.SB.cquery cc s0) = Outcome.Ok (R s0)) ->
  (forall s0 : Bytes.bytes, Request.q_listn (R s0) = BridgeListing.SB.n cc) ->
  (forall (bb : B) (req : Server.hreq) (s0 : Bytes.bytes) (b' : B) 
     (v : Server.bval) (items : list Bytes.bytes) (link : Bytes.bytes),
   Request.parse_req linked (Server.hq_method req) (Server.hq_path req)
     (Server.hq_rawquery req) = Outcome.Ok (R s0) ->
   bstep bb (mkop s0) = (b', Outcome.Ok v) ->
   Server.next_list_results o req (R s0) (Server.items_of v, Server.iter_err_of v) =
   Outcome.Ok (items, link) ->
   Stack.server_handle linked hash subject_of enc redirect B bstep o bb req =
   (b', (Server.ECall (mkop s0) (Outcome.Ok v) :: nil)%list,
    Outcome.Ok
      {|
        Server.p_status :=
          BinNums.Zpos
            (BinNums.xO
               (BinNums.xO
                  (BinNums.xO (BinNums.xI (BinNums.xO (BinNums.xO (BinNums.xI BinNums.xH)))))));
        Server.p_hdrs := StackDesc.list_hdrs (enc (mkj items)) link None;
        Server.p_body := enc (mkj items);
        Server.p_json := Some (mkj items)
      |})) ->
  (forall items : list Bytes.bytes, dec_names tagsflag (enc (mkj items)) = Some items) ->
  forall (b : B) (full : Bytes.bytes -> list Bytes.bytes),
  (forall s0 x : Bytes.bytes,
   List.In x (full s0) -> x <> nil /\ RequestCodec.byte_list x = true) ->
  (forall s0 : Bytes.bytes,
   BinInt.Z.le (Bytes.blen (enc (mkj (BridgeListing.SB.page_items cc full s0))))
     Request.max_int64) ->
  forall wire : Iface.err -> Iface.err,
  (BinInt.Z.ltb BinNums.Z0 (Server.o_max_list_page_size o) &&
   BinInt.Z.ltb (Server.o_max_list_page_size o) (BridgeListing.SB.n cc))%bool = false ->
  forall (start : Bytes.bytes) (ferr : Bytes.bytes -> option Errors.gerr),
  (forall s0 : Bytes.bytes,
   bstep b (mkop s0) = (b, Outcome.Ok (Server.VList (full s0) (ferr s0)))) ->
  (forall (bb : B) (req : Server.hreq) (s0 : Bytes.bytes) (b'' : B) 
     (a0 : Server.bres) (e0 : Errors.gerr) (wr : Errors.wire),
   Request.parse_req linked (Server.hq_method req) (Server.hq_path req)
     (Server.hq_rawquery req) = Outcome.Ok (R s0) ->
   bstep bb (mkop s0) = (b'', a0) ->
   match Server.as_list a0 with
   | Outcome.Ok it => Server.next_list_results o req (R s0) it = Outcome.Err e0
   | _ => False
   end ->
   Errors.serve_error Errors.go_sprefix Errors.go_cprefix e0 = Outcome.Ok wr ->
   Stack.server_handle linked hash subject_of enc redirect B bstep o bb req =
   (b'', (Server.ECall (mkop s0) a0 :: nil)%list, Outcome.Ok (StackBase.err_resp enc nil wr))) ->
  media StackBase.json_ct = StackBase.json_ct ->
  (forall x : Errors.werr, dec_errors (enc (Server.JErr x)) = Some (x :: nil)%list) ->
  (forall (s0 : Bytes.bytes) (e : Errors.gerr),
   ferr s0 = Some e ->
   StackTransparent.conf_err e /\
   BinInt.Z.le
     (Bytes.blen
        (enc
           (Server.JErr
              (Errors.r_err (Errors.marshal_error Errors.go_sprefix Errors.go_cprefix e)))))
     (BinNums.Zpos
        (BinNums.xO
           (BinNums.xO
              (BinNums.xO
                 (BinNums.xO
                    (BinNums.xO
                       (BinNums.xO
                          (BinNums.xO
                             (BinNums.xO
                                (BinNums.xO
                                   (BinNums.xO
                                      (BinNums.xO (BinNums.xO (BinNums.xO BinNums.xH))))))))))))))) ->
  forall (f down_e : Errors.gerr -> Iface.err)
    (backLe : Bytes.bytes -> BridgeListing.Sq.Seq Iface.err Bytes.bytes),
  (forall s0 : Bytes.bytes,
   BridgeListing.Sq.represents (backLe s0) (full s0) (option_map f (ferr s0))) ->
  (forall (s0 : Bytes.bytes) (e : Errors.gerr),
   ferr s0 = Some e -> wire (f e) = down_e (StackTransparent.wire_error enc false e)) ->
  forall (fuel : nat) (budget : option nat) (w : Http.world (Stack.srv B)),
  RequestCodec.byte_list start = true ->
  Stack.sv_b (Http.w_srv w) = b ->
  let final :=
    BridgeListing.L.pager_run wire fuel
      (BridgeListing.L.handleList (BridgeListing.so o) backLe) (BridgeListing.SB.n cc) start
      (list (Bytes.bytes + Iface.err) * option nat) BridgeListing.budget_y (
      nil, budget) in
  let reqs :=
    BridgeListing.pager_requests wire fuel
      (BridgeListing.L.handleList (BridgeListing.so o) backLe) (BridgeListing.SB.n cc) start
      (list (Bytes.bytes + Iface.err) * option nat) BridgeListing.budget_y (
      nil, budget) in
  exists
    (w' : Http.world (Stack.srv B)) (ysC : list (Bytes.bytes + Errors.gerr)) 
  (rs : list Http.hreq),
    Client.pager (Stack.srv B) (Stack.serve_stack linked hash subject_of enc redirect bstep o)
      (Stack.stack_env linked hash media dec_errors dec_names dec_index) fuel tagsflag
      (BridgeListing.SB.q_of cc K repo start) budget w =
    (w', (ysC, BridgeListing.pend_of (snd final))) /\
    List.map (BridgeListing.down down_e) ysC = fst (fst final) /\
    Http.w_srv w' =
    StackBase.after B (Http.w_srv w) b (List.map (BridgeListing.ev_of_e mkop full ferr) reqs) /\
    List.map Http.en_req (Http.w_log w') = (List.map Http.en_req (Http.w_log w) ++ rs)%list /\
    List.Forall2 (BridgeListing.same_request ctail) rs reqs.
Proof. exact @BridgeListing.bridge_pager_e. Qed.
Print Assumptions C05_bridge_pager_e.

(* a page size above MaxListPageSize: both sides make one request and yield one UNSUPPORTED error *)
Theorem C05_bridge_refused :
  forall (linked : Ref.alg -> bool) (hash : Bytes.bytes -> Bytes.bytes -> Bytes.bytes)
    (subject_of : Bytes.bytes -> option (option Bytes.bytes))
    (media : Bytes.bytes -> Bytes.bytes) (enc : Server.jval -> Bytes.bytes)
    (dec_errors : Bytes.bytes -> option (list Errors.werr))
    (dec_names : bool -> Bytes.bytes -> option (list Bytes.bytes))
    (dec_index : Bytes.bytes -> option (list Iface.desc))
    (redirect : Bytes.bytes -> Bytes.bytes -> Bytes.bytes * Bytes.bytes) 
    (B : Type) (bstep : Server.backend B) (o : Server.opts) (cc : Stack.ccfg) 
    (K : Http.kind) (repo : Bytes.bytes) (mkop : Bytes.bytes -> Iface.op) 
    (tagsflag : bool) (R : Bytes.bytes -> Request.request) (ctail : Bytes.bytes),
  K = Http.ReqTagsList \/ K = Http.ReqCatalogList ->
  List.forallb RequestCodec.safe ctail = true ->
  (forall s0 : Bytes.bytes,
   Request.construct (Stack.req_of (BridgeListing.SB.q_of cc K repo s0)) =
   (Request.m_GET,
    (BridgeListing.SB.cpath ctail ++ RequestCodec.optq (BridgeListing.SB.cquery cc s0))%list)) ->
  (forall s0 : Bytes.bytes,
   RequestCodec.byte_list s0 = true ->
   Request.parse_req linked Request.m_GET (BridgeListing.SB.cpath ctail)
     (BridgeListing.SB.cquery cc s0) = Outcome.Ok (R s0)) ->
  (forall s0 : Bytes.bytes, Request.q_listn (R s0) = BridgeListing.SB.n cc) ->
  forall (wire : Iface.err -> Iface.err)
    (backL : Bytes.bytes -> BridgeListing.Sq.Seq Iface.err Bytes.bytes) 
    (fuel : nat) (budget : option nat) (w : Http.world (Stack.srv B)) 
    (start : Bytes.bytes) (b' : B) (a : Server.bres),
  (BinInt.Z.ltb BinNums.Z0 (Server.o_max_list_page_size o) &&
   BinInt.Z.ltb (Server.o_max_list_page_size o) (BridgeListing.SB.n cc))%bool = true ->
  (forall (bb : B) (req : Server.hreq) (s0 : Bytes.bytes) (b'' : B) 
     (a0 : Server.bres) (e0 : Errors.gerr) (wr : Errors.wire),
   Request.parse_req linked (Server.hq_method req) (Server.hq_path req)
     (Server.hq_rawquery req) = Outcome.Ok (R s0) ->
   bstep bb (mkop s0) = (b'', a0) ->
   match Server.as_list a0 with
   | Outcome.Ok it => Server.next_list_results o req (R s0) it = Outcome.Err e0
   | _ => False
   end ->
   Errors.serve_error Errors.go_sprefix Errors.go_cprefix e0 = Outcome.Ok wr ->
   Stack.server_handle linked hash subject_of enc redirect B bstep o bb req =
   (b'', (Server.ECall (mkop s0) a0 :: nil)%list, Outcome.Ok (StackBase.err_resp enc nil wr))) ->
  media StackBase.json_ct = StackBase.json_ct ->
  (forall x : Errors.werr, dec_errors (enc (Server.JErr x)) = Some (x :: nil)%list) ->
  RequestCodec.byte_list start = true ->
  1 <= fuel ->
  bstep (Stack.sv_b (Http.w_srv w)) (mkop start) = (b', a) ->
  a <> Outcome.Panic ->
  a <> Outcome.OutOfFuel ->
  BinInt.Z.le
    (Bytes.blen
       (enc
          (Server.JErr
             (Errors.r_err
                (Errors.marshal_error Errors.go_sprefix Errors.go_cprefix BridgeListing.E_big)))))
    (BinNums.Zpos
       (BinNums.xO
          (BinNums.xO
             (BinNums.xO
                (BinNums.xO
                   (BinNums.xO
                      (BinNums.xO
                         (BinNums.xO
                            (BinNums.xO
                               (BinNums.xO
                                  (BinNums.xO
                                     (BinNums.xO (BinNums.xO (BinNums.xO BinNums.xH)))))))))))))) ->
  let final :=
    BridgeListing.L.pager_run wire fuel
      (BridgeListing.L.handleList (BridgeListing.so o) backL) (BridgeListing.SB.n cc) start
      (list (Bytes.bytes + Iface.err) * option nat) BridgeListing.budget_y (
      nil, budget) in
  exists w' : Http.world (Stack.srv B),
    Client.pager (Stack.srv B) (Stack.serve_stack linked hash subject_of enc redirect bstep o)
      (Stack.stack_env linked hash media dec_errors dec_names dec_index) fuel tagsflag
      (BridgeListing.SB.q_of cc K repo start) budget w =
    (w',
     ((inr (StackTransparent.wire_error enc false BridgeListing.E_big) :: nil)%list,
      Client.PDone)) /\
    fst (fst final) = (inr (wire BridgeListing.L.err_n_too_large) :: nil)%list /\
    snd final = BridgeListing.L.PDone /\
    BridgeListing.pager_requests wire fuel
      (BridgeListing.L.handleList (BridgeListing.so o) backL) (BridgeListing.SB.n cc) start
      (list (Bytes.bytes + Iface.err) * option nat) BridgeListing.budget_y (
      nil, budget) = (BridgeListing.L.listParams (BridgeListing.SB.n cc) start :: nil)%list /\
    Http.w_srv w' = StackBase.after B (Http.w_srv w) b' (Server.ECall (mkop start) a :: nil) /\
    Errors.marshal_code (StackTransparent.wire_error enc false BridgeListing.E_big) =
    Errors.std_code Errors.SUnsupported /\
    Iface.e_code BridgeListing.L.err_n_too_large = Iface.UNSUPPORTED.
Proof. exact @BridgeListing.bridge_refused. Qed.
Print Assumptions C05_bridge_refused.

(* TRANSFER: C05's pager completeness theorem holds of the composed client/server model (Tags) *)
Theorem C05_pager_complete_Tags :
  forall (linked : Ref.alg -> bool) (hash : Bytes.bytes -> Bytes.bytes -> Bytes.bytes)
    (subject_of : Bytes.bytes -> option (option Bytes.bytes))
    (media : Bytes.bytes -> Bytes.bytes) (enc : Server.jval -> Bytes.bytes)
    (dec_errors : Bytes.bytes -> option (list Errors.werr))
    (dec_names : bool -> Bytes.bytes -> option (list Bytes.bytes))
    (dec_index : Bytes.bytes -> option (list Iface.desc))
    (redirect : Bytes.bytes -> Bytes.bytes -> Bytes.bytes * Bytes.bytes) 
    (B : Type) (bstep : Server.backend B) (o : Server.opts) (cc : Stack.ccfg),
  (forall (name : Bytes.bytes) (l : list Bytes.bytes),
   dec_names true (enc (Server.JTags name l)) = Some l) ->
  forall (w : Http.world (Stack.srv B)) (repo : Bytes.bytes) (l : list Bytes.bytes)
    (start : Bytes.bytes) (budget : option nat),
  Request.vrepo repo = true ->
  RequestCodec.byte_list start = true ->
  StackListing.page_size_ok o cc ->
  BytesSort.ssorted l ->
  (forall x : Bytes.bytes, List.In x l -> x <> nil /\ RequestCodec.byte_list x = true) ->
  (forall s0 : Bytes.bytes,
   bstep (Stack.sv_b (Http.w_srv w)) (Iface.Tags repo s0) =
   (Stack.sv_b (Http.w_srv w), Outcome.Ok (Server.VList (List.filter (Bytes.bltb s0) l) None))) ->
  BridgeListing.SB.pages_small enc cc (Server.JTags repo)
    (fun s0 : Bytes.bytes => List.filter (Bytes.bltb s0) l) ->
  PeanoNat.Nat.div (Datatypes.length l)
    (BinInt.Z.to_nat (Client.c_page_size (Stack.stack_client cc))) + 2 <= 
  Stack.cc_fuel cc ->
  exists w' : Http.world (Stack.srv B),
    Stack.stack_call linked hash subject_of media enc dec_errors dec_names dec_index redirect
      bstep o cc (Client.CTags repo start budget) w =
    (w',
     Client.ONames
       (List.map inl
          (fst (fst (Client.yield_items (List.filter (Bytes.bltb start) l) budget))))
       Client.PDone) /\ Stack.sv_b (Http.w_srv w') = Stack.sv_b (Http.w_srv w).
Proof. exact @BridgeListing.C05_pager_complete_Tags. Qed.
Print Assumptions C05_pager_complete_Tags.

(* TRANSFER: the same for Repositories *)
Theorem C05_pager_complete_Repositories :
  forall (linked : Ref.alg -> bool) (hash : Bytes.bytes -> Bytes.bytes -> Bytes.bytes)
    (subject_of : Bytes.bytes -> option (option Bytes.bytes))
    (media : Bytes.bytes -> Bytes.bytes) (enc : Server.jval -> Bytes.bytes)
    (dec_errors : Bytes.bytes -> option (list Errors.werr))
    (dec_names : bool -> Bytes.bytes -> option (list Bytes.bytes))
    (dec_index : Bytes.bytes -> option (list Iface.desc))
    (redirect : Bytes.bytes -> Bytes.bytes -> Bytes.bytes * Bytes.bytes) 
    (B : Type) (bstep : Server.backend B) (o : Server.opts) (cc : Stack.ccfg),
  (forall l : list Bytes.bytes, dec_names false (enc (Server.JCatalog l)) = Some l) ->
  forall (w : Http.world (Stack.srv B)) (l : list Bytes.bytes) (start : Bytes.bytes)
    (budget : option nat),
  RequestCodec.byte_list start = true ->
  StackListing.page_size_ok o cc ->
  BytesSort.ssorted l ->
  (forall x : Bytes.bytes, List.In x l -> x <> nil /\ RequestCodec.byte_list x = true) ->
  (forall s0 : Bytes.bytes,
   bstep (Stack.sv_b (Http.w_srv w)) (Iface.Repositories s0) =
   (Stack.sv_b (Http.w_srv w), Outcome.Ok (Server.VList (List.filter (Bytes.bltb s0) l) None))) ->
  BridgeListing.SB.pages_small enc cc Server.JCatalog
    (fun s0 : Bytes.bytes => List.filter (Bytes.bltb s0) l) ->
  PeanoNat.Nat.div (Datatypes.length l)
    (BinInt.Z.to_nat (Client.c_page_size (Stack.stack_client cc))) + 2 <= 
  Stack.cc_fuel cc ->
  exists w' : Http.world (Stack.srv B),
    Stack.stack_call linked hash subject_of media enc dec_errors dec_names dec_index redirect
      bstep o cc (Client.CRepositories start budget) w =
    (w',
     Client.ONames
       (List.map inl
          (fst (fst (Client.yield_items (List.filter (Bytes.bltb start) l) budget))))
       Client.PDone) /\ Stack.sv_b (Http.w_srv w') = Stack.sv_b (Http.w_srv w).
Proof. exact @BridgeListing.C05_pager_complete_Repositories. Qed.
Print Assumptions C05_pager_complete_Repositories.

(* the two models choose the same client page size for every ListPageSize >= 0 *)
Theorem C05_page_size_agrees :
  forall p : BinNums.Z,
  BinInt.Z.le BinNums.Z0 p ->
  BridgeListing.L.client_page_size p = Client.c_page_size (Client.new_client Client.current p).
Proof. exact @BridgeListing.page_size_agrees. Qed.
Print Assumptions C05_page_size_agrees.

(* DIFFERENCE between the two models: for a negative ListPageSize C05's model keeps the value (the code before fix ec0179c), the client model falls back to the default (the code as it is); outside C05's domain (page sizes >= 1) *)
Theorem C05_page_size_default_refuted :
  exists p : BinNums.Z,
  BridgeListing.L.client_page_size p <>
  Client.c_page_size (Client.new_client Client.current p).
Proof. exact @BridgeListing.page_size_default_refuted. Qed.
Print Assumptions C05_page_size_default_refuted.

