(* C15  Unified registry is the union view and replicates every write.
   Statements only; proofs live in Proofs/Unify.v (and Proofs/UnifyExample.v).

   Throughout: [step0 : registry B0] and [step1 : registry B1] are two ARBITRARY member
   registries (any state type, any step function), [st] any state of the unifier over them,
   [pol] either read policy, [c] any choice of the scheduler (which member's answer arrives
   first; for PushBlob whether a member's content stream was cut).  [ans0 st o] / [ans1 st o]
   is what member 0 / 1 answers when asked [o] directly in its present state;
   [proper r] = the answer is a value or an error (the member did not panic).
   [idenc]/[iddec] is the upload-ID codec (base64url of a JSON pair) - an oracle. *)
From Coq Require Import String Sorted.
From OCI Require Import Model.Unify Proofs.Unify Proofs.UnifyExample.

(* union_reads: a digest-addressed read (GetBlob, GetBlobRange, GetManifest, ResolveBlob,
   ResolveManifest) through the unifier succeeds exactly when a member has the content;
   the answer IS the answer of a member (of one that has it, on success; a member's own
   error otherwise) - under either policy, whatever the scheduler does. *)
Theorem C15_union_reads :
  forall (B0 B1 : Type) (step0 : registry B0) (step1 : registry B1) idenc iddec
         (pol : policy) (c : choice) (st : ustate B0 B1) (o : op),
    is_digest_read o = true -> proper (ans0 step0 st o) -> proper (ans1 step1 st o) ->
    let r := snd (ustep step0 step1 idenc iddec pol c st o) in
    is_ok r = is_ok (ans0 step0 st o) || is_ok (ans1 step1 st o)
    /\ (r = ans0 step0 st o \/ r = ans1 step1 st o)
    /\ (is_ok r = true -> (r = ans0 step0 st o /\ is_ok (ans0 step0 st o) = true)
                          \/ (r = ans1 step1 st o /\ is_ok (ans1 step1 st o) = true)).
Proof. exact @union_reads. Qed.
Print Assumptions C15_union_reads.

(* ... and over members on which a digest means one content (when both have it they answer
   alike) the content returned does not depend on who was asked. *)
Theorem C15_union_reads_content :
  forall (B0 B1 : Type) (step0 : registry B0) (step1 : registry B1) idenc iddec
         (pol : policy) (c : choice) (st : ustate B0 B1) (o : op),
    is_digest_read o = true ->
    (is_ok (ans0 step0 st o) = true -> is_ok (ans1 step1 st o) = true -> ans0 step0 st o = ans1 step1 st o) ->
    let r := snd (ustep step0 step1 idenc iddec pol c st o) in
    is_ok r = true ->
    (is_ok (ans0 step0 st o) = true -> r = ans0 step0 st o) /\ (is_ok (ans1 step1 st o) = true -> r = ans1 step1 st o).
Proof. exact @union_reads_content. Qed.
Print Assumptions C15_union_reads_content.

(* tag_rule: GetTag / ResolveTag.  Both members resolve the tag to the same digest: member
   0's answer.  To different digests: an error ("conflicting results"), never one of the
   two.  Only one member has it: that member's answer.  Neither: member 0's error.
   Whenever the unifier resolves a tag to a digest d, every member that resolves the tag
   resolves it to d. *)
Theorem C15_tag_rule :
  forall (B0 B1 : Type) (step0 : registry B0) (step1 : registry B1) idenc iddec
         (pol : policy) (c : choice) (st : ustate B0 B1) (o : op),
    is_tag_read o = true ->
    let r := snd (ustep step0 step1 idenc iddec pol c st o) in
    let r0 := ans0 step0 st o in
    let r1 := ans1 step1 st o in
    (forall d0 d1, ok_digest r0 = Some d0 -> ok_digest r1 = Some d1 -> d0 = d1 -> r = r0)
    /\ (forall d0 d1, ok_digest r0 = Some d0 -> ok_digest r1 = Some d1 -> d0 <> d1 -> r = Err err_conflict)
    /\ (is_ok r0 = true -> is_err r1 = true -> r = r0)
    /\ (is_err r0 = true -> is_ok r1 = true -> r = r1)
    /\ (is_err r0 = true -> is_err r1 = true -> r = r0)
    /\ (forall d, ok_digest r = Some d ->
          (ok_digest r0 = Some d \/ ok_digest r1 = Some d)
          /\ (forall d0, ok_digest r0 = Some d0 -> d0 = d)
          /\ (forall d1, ok_digest r1 = Some d1 -> d1 = d)).
Proof. exact @tag_rule. Qed.
Print Assumptions C15_tag_rule.

(* union_listings (Repositories, Tags): with (xs_i, e_i) the items and the closing error of
   member i's listing, the unifier lists THE strictly ascending (hence duplicate-free) list
   whose elements are exactly the elements of xs0 and xs1 - for members that list in
   ascending order it is the two-way merge - and closes with [merged_err e0 e1]: a
   "repository unknown" of one member counts as that member's empty listing, of both it is
   the answer (no items), any other member error closes the listing after the items. *)
Theorem C15_union_listings :
  forall (B0 B1 : Type) (step0 : registry B0) (step1 : registry B1) idenc iddec
         (pol : policy) (c : choice) (st : ustate B0 B1) (o : op),
    is_string_listing o = true -> proper (ans0 step0 st o) -> proper (ans1 step1 st o) ->
    let xs0 := fst (as_strings (ans0 step0 st o)) in let e0 := snd (as_strings (ans0 step0 st o)) in
    let xs1 := fst (as_strings (ans1 step1 st o)) in let e1 := snd (as_strings (ans1 step1 st o)) in
    exists xs, snd (ustep step0 step1 idenc iddec pol c st o) = Ok (RList xs (merged_err e0 e1))
      /\ if not_found e0 && not_found e1 then xs = []
         else ssorted xs /\ (forall a, In a xs <-> In a xs0 \/ In a xs1)
              /\ (ssorted xs0 -> ssorted xs1 -> xs = smerge xs0 xs1).
Proof. exact @union_listings_strings. Qed.
Print Assumptions C15_union_listings.

(* union_listings (Referrers): strictly ascending by digest (no digest twice), every
   descriptor listed is one a member listed, every digest a member lists is listed. *)
Theorem C15_union_listings_referrers :
  forall (B0 B1 : Type) (step0 : registry B0) (step1 : registry B1) idenc iddec
         (pol : policy) (c : choice) (st : ustate B0 B1) (r d a : bytes),
    let o := Referrers r d a in
    proper (ans0 step0 st o) -> proper (ans1 step1 st o) ->
    let xs0 := fst (as_descs (ans0 step0 st o)) in let e0 := snd (as_descs (ans0 step0 st o)) in
    let xs1 := fst (as_descs (ans1 step1 st o)) in let e1 := snd (as_descs (ans1 step1 st o)) in
    exists xs, snd (ustep step0 step1 idenc iddec pol c st o) = Ok (RDescs xs (merged_err e0 e1))
      /\ if not_found e0 && not_found e1 then xs = []
         else StronglySorted (fun x y => blt (d_digest x) (d_digest y)) xs
              /\ (forall x, In x xs -> In x xs0 \/ In x xs1)
              /\ (forall x, In x xs0 \/ In x xs1 -> exists y, In y xs /\ d_digest y = d_digest x).
Proof. exact @union_listings_descs. Qed.
Print Assumptions C15_union_listings_referrers.

(* policies_agree: for every pair of member states and every digest-addressed read the
   sequential and the concurrent policy (any schedule each) succeed or fail together, and
   over members on which a digest means one content they return the same thing. *)
Theorem C15_policies_agree :
  forall (B0 B1 : Type) (step0 : registry B0) (step1 : registry B1) idenc iddec
         (c c' : choice) (st : ustate B0 B1) (o : op),
    proper (ans0 step0 st o) -> proper (ans1 step1 st o) ->
    let rs := snd (ustep step0 step1 idenc iddec ReadSequential c st o) in
    let rc := snd (ustep step0 step1 idenc iddec ReadConcurrent c' st o) in
    is_digest_read o = true ->
    is_ok rs = is_ok rc
    /\ ((is_ok (ans0 step0 st o) = true -> is_ok (ans1 step1 st o) = true -> ans0 step0 st o = ans1 step1 st o) ->
        is_ok rs = true -> rs = rc).
Proof. exact @policies_agree. Qed.
Print Assumptions C15_policies_agree.

(* ... and every other call (tag reads, listings, all writes) does not look at the policy. *)
Theorem C15_policy_irrelevant_elsewhere :
  forall (B0 B1 : Type) (step0 : registry B0) (step1 : registry B1) idenc iddec
         (c : choice) (st : ustate B0 B1) (o : op),
    is_digest_read o = false ->
    ustep step0 step1 idenc iddec ReadSequential c st o = ustep step0 step1 idenc iddec ReadConcurrent c st o.
Proof. exact @policy_irrelevant_outside_reads. Qed.
Print Assumptions C15_policy_irrelevant_elsewhere.

(* writes_replicated: for every write [o] ([member_op i st o] = the call member i has to
   receive: the caller's call, with the unifier's writer replaced by the member's own
   writer and a composite upload ID by the member's own half), when no content stream is
   cut, the ghost log of calls shows that EACH member received exactly that call, in the
   state it was in, possibly followed only by Size/Close on the member's new writer; the
   arguments are the caller's ([erase] blanks writer handles and upload IDs); the unifier
   reports success only if both member calls succeeded. *)
Theorem C15_writes_replicated :
  forall (B0 B1 : Type) (step0 : registry B0) (step1 : registry B1) idenc iddec
         (pol : policy) (c : choice) (st : ustate B0 B1) (o o0 o1 : op),
    uncut c ->
    member_op iddec false st o = Some o0 -> member_op iddec true st o = Some o1 ->
    let st' := fst (ustep step0 step1 idenc iddec pol c st o) in
    let r := snd (ustep step0 step1 idenc iddec pol c st o) in
    (exists l0, u_log0 st' = l0 ++ o0 :: u_log0 st /\ forallb is_followup l0 = true)
    /\ (exists l1, u_log1 st' = l1 ++ o1 :: u_log1 st /\ forallb is_followup l1 = true)
    /\ (is_ok r = true -> is_ok (ans0 step0 st o0) = true /\ is_ok (ans1 step1 st o1) = true)
    /\ erase o0 = erase o /\ erase o1 = erase o.
Proof. exact @writes_replicated_args. Qed.
Print Assumptions C15_writes_replicated.

(* ... and for the writes that are one call on each member (everything but the start of a
   chunked upload) also conversely: both succeeded => success is reported. *)
Theorem C15_write_success_iff_both :
  forall (B0 B1 : Type) (step0 : registry B0) (step1 : registry B1) idenc iddec
         (pol : policy) (c : choice) (st : ustate B0 B1) (o o0 o1 : op),
    uncut c -> is_direct_write o = true ->
    member_op iddec false st o = Some o0 -> member_op iddec true st o = Some o1 ->
    (is_ok (snd (ustep step0 step1 idenc iddec pol c st o)) = true <->
     is_ok (ans0 step0 st o0) = true /\ is_ok (ans1 step1 st o1) = true).
Proof. exact @write_success_iff_both. Qed.
Print Assumptions C15_write_success_iff_both.

(* composite IDs: the ID of a paired writer is the encoding of the two members' own IDs,
   in member order (so on a codec that round-trips, resume hands each member its own ID:
   [member_op_resume]). *)
Theorem C15_composite_id :
  forall (B0 B1 : Type) (step0 : registry B0) (step1 : registry B1) idenc iddec
         (pol : policy) (c : choice) (st : ustate B0 B1) (k : wid) (w : uwriter) (id0 id1 : bytes),
    get_writer st k = Some w ->
    ans0 step0 st (WID (uw0 w)) = Ok (RStr id0) -> ans1 step1 st (WID (uw1 w)) = Ok (RStr id1) ->
    snd (ustep step0 step1 idenc iddec pol c st (WID k)) = Ok (RStr (idenc id0 id1))
    /\ (iddec (idenc id0 id1) = Some [id0; id1] ->
        forall i r off hint,
          member_op iddec i st (PushBlobChunkedResume r (idenc id0 id1) off hint)
          = Some (PushBlobChunkedResume r (pick i id0 id1) off hint)).
Proof. exact @composite_id. Qed.
Print Assumptions C15_composite_id.

(* equal_stay_equal: let [R p] be ANY relation "observably equal up to the renaming p of
   upload IDs and writer handles" that the two members respect (the same call on both keeps
   them related and is answered alike, new names extending the renaming; a digest read or
   Size asked of one member alone, and a failed PushBlob, change nothing observable), and
   let the codec round-trip on the IDs the members hand out.  Then along EVERY history
   through the unifier - either policy, any schedule, cut streams, chunked uploads resumed
   with the IDs the unifier handed out ([closed_loop]; any string that is not the encoding
   of two IDs may be tried too) - the members stay related, every paired writer pairs
   related member writers ([Inv]), and every composite ID handed out decodes to the two
   members' own IDs of one upload. *)
Theorem C15_equal_stay_equal :
  forall (B0 B1 : Type) (step0 : registry B0) (step1 : registry B1)
         (idenc : bytes -> bytes -> bytes) (iddec : bytes -> option (list bytes))
         (R : ren -> B0 -> B1 -> Prop),
    (forall p s0 s1 o0 o1, R p s0 s1 -> op_rel p o0 o1 ->
       exists p', ren_incl p p' /\ R p' (fst (step0 s0 o0)) (fst (step1 s1 o1))
                  /\ res_rel p' (snd (step0 s0 o0)) (snd (step1 s1 o1))) ->
    (forall p s0 s1 o, R p s0 s1 -> is_observer o = true -> R p (fst (step0 s0 o)) s1) ->
    (forall p s0 s1 r de data, R p s0 s1 -> is_err (snd (step0 s0 (PushBlob r de data))) = true ->
       R p (fst (step0 s0 (PushBlob r de data))) s1) ->
    (forall p s0 s1 r de data, R p s0 s1 -> is_err (snd (step1 s1 (PushBlob r de data))) = true ->
       R p s0 (fst (step1 s1 (PushBlob r de data)))) ->
    forall idok : bytes -> Prop,
    (forall a b, idok a -> idok b -> iddec (idenc a b) = Some [a; b]) ->
    (forall s w id, snd (step0 s (WID w)) = Ok (RStr id) -> idok id) ->
    (forall s w id, snd (step1 s (WID w)) = Ok (RStr id) -> idok id) ->
    forall (pol : policy) (h : list (choice * op)) (st : ustate B0 B1) (p : ren) (issued : list bytes),
      Inv R p st -> issued_ok idenc idok p issued ->
      closed_loop step0 step1 idenc iddec pol issued st h ->
      exists p', ren_incl p p'
        /\ Inv R p' (fst (urun step0 step1 idenc iddec pol st h))
        /\ issued_ok idenc idok p' (issued_after step0 step1 idenc iddec pol issued st h)
        /\ (forall id, In id (issued_after step0 step1 idenc iddec pol issued st h) ->
              exists a b, iddec id = Some [a; b] /\ In (a, b) (r_ids p')).
Proof. exact @equal_stay_equal_ids. Qed.
Print Assumptions C15_equal_stay_equal.

(* The hypotheses of C15_equal_stay_equal are jointly satisfiable by a registry that stores
   blobs, hands out writers and upload IDs and answers reads (Proofs/UnifyExample.v): two
   such members started in one state are in one state after every closed-loop history, and
   every ID handed out decodes to two equal member IDs; the closed-loop condition holds of
   a history with a chunked upload, its ID, a resume by that ID, a push and a read. *)
Example C15_equal_stay_equal_instance :
  (forall pol s h,
     closed_loop toy_step toy_step toy_enc toy_dec pol [] (uinit s s) h ->
     let st' := fst (urun toy_step toy_step toy_enc toy_dec pol (uinit s s) h) in
     u_b0 st' = u_b1 st'
     /\ forall id, In id (issued_after toy_step toy_step toy_enc toy_dec pol [] (uinit s s) h) ->
          exists a, toy_dec id = Some [a; a])
  /\ closed_loop toy_step toy_step toy_enc toy_dec ReadConcurrent []
       (uinit {| t_blobs := []; t_nw := 0 |} {| t_blobs := []; t_nw := 0 |}) toy_history.
Proof. split; [exact toy_equal_stay_equal | exact toy_history_closed]. Qed.
Print Assumptions C15_equal_stay_equal_instance.
