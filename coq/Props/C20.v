(* C20  Function-table registry is total: unset methods fail cleanly, set ones delegate.
   Statements only; proofs live in Proofs/Funcs.v. *)
From OCI Require Import Model.Funcs Proofs.Funcs.

(* No call on any table (all 2^18 field assignments, with or without the error
   constructor, nil receiver or not), any method, any arguments, panics. *)
Theorem C20_no_panic : forall t m args, call t m args <> CPanic.
Proof. exact call_no_panic. Qed.
Print Assumptions C20_no_panic.

(* A set field is called with the caller's arguments, unchanged, and its results are the
   method's results. *)
Theorem C20_delegates : forall t m args,
  t_nil t = false -> t_set t m = true -> call t m args = CDelegated m args.
Proof. exact call_delegates. Qed.
Print Assumptions C20_delegates.

(* An unset field (or a nil table) yields the constructor's error for (method name,
   repository argument) when a constructor is present, else the unsupported-operation error
   naming the method; iterator methods deliver it in exactly one yield. *)
Theorem C20_unset_error : forall t m args,
  (t_nil t = true \/ t_set t m = false) ->
  call t m args =
    if negb (t_nil t) && t_ctor t
    then CCtorError (method_name m) (repo_arg m args) (if is_iter m then 1 else 0)
    else CUnsupported (method_name m) (if is_iter m then 1 else 0).
Proof. exact call_unset. Qed.
Print Assumptions C20_unset_error.

(* The nil table: every method is the unsupported-operation error. *)
Theorem C20_nil_table : forall t m args,
  t_nil t = true -> call t m args = CUnsupported (method_name m) (if is_iter m then 1 else 0).
Proof. exact call_nil. Qed.
Print Assumptions C20_nil_table.

(* The outcome of method m depends only on field m, the constructor and nil-ness:
   independent of which other functions are set. *)
Theorem C20_independent : forall t t' m args,
  t_nil t = t_nil t' -> t_ctor t = t_ctor t' -> t_set t m = t_set t' m ->
  call t m args = call t' m args.
Proof. exact call_independent. Qed.
Print Assumptions C20_independent.
