(* C20  Function-table registry is total: unset methods fail cleanly, set ones delegate.
   Statements only; proofs live in Proofs/Funcs.v. *)
From OCI Require Import Model.Funcs Proofs.Funcs Model.FuncsRun Proofs.FuncsRun.

(* No call on any table (all 2^18 field assignments, with or without the error
   constructor, nil receiver or not), any method, any arguments, panics. *)
Theorem C20_no_panic : forall t m args, call t m args <> CPanic.
Proof. exact call_no_panic. Qed.
Print Assumptions C20_no_panic.

(* A set field is called with the caller's arguments, unchanged, and its results are the
   method's results. *)
Theorem C20_delegates : forall t m args,
  t_nil t = false -> t_set t m = true -> call t m args = CDelegated m args.
Proof. exact call_delegates. Qed.
Print Assumptions C20_delegates.

(* An unset field (or a nil table) yields the constructor's error for (method name,
   repository argument) when a constructor is present, else the unsupported-operation error
   naming the method; iterator methods deliver it in exactly one yield. *)
Theorem C20_unset_error : forall t m args,
  (t_nil t = true \/ t_set t m = false) ->
  call t m args =
    if negb (t_nil t) && t_ctor t
    then CCtorError (method_name m) (repo_arg m args) (if is_iter m then 1 else 0)
    else CUnsupported (method_name m) (if is_iter m then 1 else 0).
Proof. exact call_unset. Qed.
Print Assumptions C20_unset_error.

(* The nil table: every method is the unsupported-operation error. *)
Theorem C20_nil_table : forall t m args,
  t_nil t = true -> call t m args = CUnsupported (method_name m) (if is_iter m then 1 else 0).
Proof. exact call_nil. Qed.
Print Assumptions C20_nil_table.

(* The outcome of method m depends only on field m, the constructor and nil-ness:
   independent of which other functions are set. *)
Theorem C20_independent : forall t t' m args,
  t_nil t = t_nil t' -> t_ctor t = t_ctor t' -> t_set t m = t_set t' m ->
  call t m args = call t' m args.
Proof. exact call_independent. Qed.
Print Assumptions C20_independent.

(* ---- the same over time: the context argument, re-traversal of the returned iterator, and
   histories of calls on one table value (Model/FuncsRun.v) ---- *)

(* With the context as an argument and the iterator as a value, a call still never panics. *)
Theorem C20_invoke_no_panic : forall t m ctx args, invoke t m ctx args <> RPanic.
Proof. exact invoke_no_panic. Qed.
Print Assumptions C20_invoke_no_panic.

(* The refined call, with the context and the iterator value forgotten, is the call of the five
   theorems above: nothing they say is lost. *)
Theorem C20_invoke_refines_call : forall t m ctx args, erase (invoke t m ctx args) = call t m args.
Proof. exact erase_invoke. Qed.
Print Assumptions C20_invoke_refines_call.

(* The iterator an unset method returns makes exactly one yield, carrying the error, on every
   traversal and whatever the consumer answers (it has no state to use up). *)
Theorem C20_error_seq_every_traversal : forall e k, traverse_error_seq e k = [e].
Proof. exact traverse_once. Qed.
Print Assumptions C20_error_seq_every_traversal.

(* In any history of calls on one table, a call of a method whose field is set is answered by
   that field, called with the caller's own context and arguments, whatever was called before
   or is called after. *)
Theorem C20_history_delegates : forall t pre st post,
  t_nil t = false -> t_set t (s_m st) = true ->
  nth (List.length pre) (run t (pre ++ st :: post)) SPanic
  = SDelegated (s_m st) (s_ctx st) (s_args st).
Proof. exact run_delegates. Qed.
Print Assumptions C20_history_delegates.

(* In any history, a call of a method whose field is unset (or any call on the nil table) is
   answered by the constructor's error for (this call's context, the method's name, its
   repository argument), or else by the unsupported-operation error naming the method, whatever
   the context is and whatever was called before; for an iterator method every one of the
   caller's traversals is exactly one yield of that error. *)
Theorem C20_history_unset_error : forall t pre st post,
  (t_nil t = true \/ t_set t (s_m st) = false) ->
  nth (List.length pre) (run t (pre ++ st :: post)) SPanic
  = let e := if negb (t_nil t) && t_ctor t
             then ECtorErr (s_ctx st) (method_name (s_m st)) (repo_arg (s_m st) (s_args st))
             else EUnsup (method_name (s_m st)) in
    if is_iter (s_m st) then SSeq (map (fun _ => [YErr e]) (s_trav st)) else SError e.
Proof. exact run_unset. Qed.
Print Assumptions C20_history_unset_error.

(* No call of any history panics. *)
Theorem C20_history_no_panic : forall t steps, ~ In SPanic (run t steps).
Proof. exact run_no_panic. Qed.
Print Assumptions C20_history_no_panic.

(* A history is answered the same by two tables that agree on nil-ness, on the constructor and
   on the fields of the methods the history calls: the other fields do not matter. *)
Theorem C20_history_independent : forall t t' steps,
  t_nil t = t_nil t' -> t_ctor t = t_ctor t' ->
  (forall st, In st steps -> t_set t (s_m st) = t_set t' (s_m st)) ->
  run t steps = run t' steps.
Proof. exact run_independent. Qed.
Print Assumptions C20_history_independent.
