(* C01, bridge: the per-property model of the HTTP read path (Model/IntegrityStack.v, Model/BlobReader.v,
   Model/RangeCodec.v - what Props/C01.v is about) agrees with the line-by-line models of ociclient and
   ociserver composed in Model/Stack.v, which C18 / C06 / C03 compare with the Go code; C01's
   range-over-HTTP theorem is transferred to the composed model.  Where the two models differ the
   difference is a kernel-checked witness with a note saying which one follows the Go code.
   Proofs: Proofs/BridgeIntegrity.v.  Statements are the lemmas' types as Coq prints them
   (tools/genprops.py). *)
From Coq Require Import String.
From OCI Require Proofs.BridgeIntegrity.

(* the Range header text C01's model writes for (o0, o1) is the one the client model writes *)
Theorem C01_bridge_range_header_text :
  forall o0 o1 : BinNums.Z,
  BridgeIntegrity.ISP.in64 o1 ->
  Client.range_header o0 o1 = BridgeIntegrity.RC.client_range_header o0 o1.
Proof. exact @BridgeIntegrity.bridge_range_header_text. Qed.
Print Assumptions C01_bridge_range_header_text.

(* the Content-Range text C01's model emits is the one the server model emits *)
Theorem C01_bridge_content_range_text :
  forall start end_ size : BinNums.Z,
  BridgeIntegrity.ISP.in64 (BinInt.Z.sub end_ (BinNums.Zpos BinNums.xH)) ->
  StackDesc.content_range start end_ size =
  BridgeIntegrity.RC.content_range_header start end_ size.
Proof. exact @BridgeIntegrity.bridge_content_range_text. Qed.
Print Assumptions C01_bridge_content_range_text.

(* the server's parseRange (Model/Server.v) agrees with C01's range codec on every header text *)
Theorem C01_bridge_parse_range :
  forall a : Bytes.bytes,
  BridgeIntegrity.hr_view (BridgeIntegrity.RC.parse_http_range a) =
  Server.parse_range_header a.
Proof. exact @BridgeIntegrity.bridge_parse_range. Qed.
Print Assumptions C01_bridge_parse_range.

(* the client's descriptorFromResponse (Model/Client.v) equals C01's on every response, known digest and flag set *)
Theorem C01_bridge_descriptor_from_response :
  forall (ev : Client.env) (r : Http.resp) (known : Bytes.bytes) (rs rd : bool),
  BridgeIntegrity.opt_of (Client.descriptor_from_response ev Client.current r known rs rd) =
  BridgeIntegrity.BR.descriptor_from_response (Client.e_valid_digest ev)
    (BridgeIntegrity.resp_view r) known rs rd.
Proof. exact @BridgeIntegrity.bridge_descriptor_from_response. Qed.
Print Assumptions C01_bridge_descriptor_from_response.

(* one Read of the client's blobReader equals one Read of C01's reader (Model/BlobReader.v) in every state, for every buffer size *)
Theorem C01_bridge_blob_read :
  forall (Srv : Type) (ev : Client.env) (b : Client.blob_reader) (k : nat)
    (w : Http.world Srv),
  BridgeIntegrity.alg_inv b ->
  let
  '(w1, (b', data, e)) := Client.blob_read Srv ev b k w in
   let
   '(_, (_, data', se)) := Client.source_read Srv (Client.br_src b) k w in
    data' = data /\
    BridgeIntegrity.alg_inv b' /\
    Http.w_srv w1 = Http.w_srv w /\
    BridgeIntegrity.BR.br_read (BridgeIntegrity.hashd_of (Client.e_hashhex ev))
      (BridgeIntegrity.br_view b) data (BridgeIntegrity.rerr_of se) =
    (BridgeIntegrity.br_view b', BridgeIntegrity.rres_of e).
Proof. exact @BridgeIntegrity.bridge_blob_read. Qed.
Print Assumptions C01_bridge_blob_read.

(* hence reading to the end *)
Theorem C01_bridge_drain :
  forall (Srv : Type) (ev : Client.env) (k : nat),
  1 <= k ->
  forall (fuel : nat) (b : Client.blob_reader) (acc : Bytes.bytes) (w : Http.world Srv),
  Datatypes.length (Client.src_rest (Client.br_src b)) < fuel ->
  BridgeIntegrity.alg_inv b ->
  exists (w' : Http.world Srv) (data : Bytes.bytes) (e : Client.rend),
    Client.drain Srv ev fuel b k acc w = (w', Outcome.Ok (data, e)) /\
    Http.w_srv w' = Http.w_srv w /\
    e <> Client.RdMore /\
    BridgeIntegrity.BR.drain (BridgeIntegrity.hashd_of (Client.e_hashhex ev))
      (BridgeIntegrity.br_view b)
      (BridgeIntegrity.script_of k (Client.src_rest (Client.br_src b))
         (Client.src_fail (Client.br_src b))) acc = BridgeIntegrity.drained_of data e.
Proof. exact @BridgeIntegrity.bridge_drain. Qed.
Print Assumptions C01_bridge_drain.

(* and the verdict (clean EOF / size error / digest error) is the one C01's hop computes *)
Theorem C01_bridge_reader_verdict :
  forall (Srv : Type) (ev : Client.env) (k fuel : nat) (b : Client.blob_reader)
    (acc : Bytes.bytes) (w : Http.world Srv),
  1 <= k ->
  Datatypes.length (Client.src_rest (Client.br_src b)) < fuel ->
  BridgeIntegrity.alg_inv b ->
  Client.src_fail (Client.br_src b) = false ->
  exists (w' : Http.world Srv) (data : Bytes.bytes) (e : Client.rend),
    Client.drain Srv ev fuel b k acc w = (w', Outcome.Ok (data, e)) /\
    Http.w_srv w' = Http.w_srv w /\
    e <> Client.RdMore /\
    BridgeIntegrity.verdict (BridgeIntegrity.drained_of data e) =
    BridgeIntegrity.verdict
      (BridgeIntegrity.BR.drain (BridgeIntegrity.hashd_of (Client.e_hashhex ev))
         (BridgeIntegrity.br_view b)
         (BridgeIntegrity.BR.whole (Client.src_rest (Client.br_src b))) acc).
Proof. exact @BridgeIntegrity.bridge_reader_verdict. Qed.
Print Assumptions C01_bridge_reader_verdict.

(* GetBlob through the composed client/server model (Model/Stack.v) is one hop of C01's model: same descriptor and bytes, or an error on both sides *)
Theorem C01_bridge_get_blob :
  forall (linked : Ref.alg -> bool) (hash : Bytes.bytes -> Bytes.bytes -> Bytes.bytes)
    (subject_of : Bytes.bytes -> option (option Bytes.bytes))
    (media : Bytes.bytes -> Bytes.bytes) (enc : Server.jval -> Bytes.bytes)
    (dec_errors : Bytes.bytes -> option (list Errors.werr))
    (dec_names : bool -> Bytes.bytes -> option (list Bytes.bytes))
    (dec_index : Bytes.bytes -> option (list Iface.desc))
    (redirect : Bytes.bytes -> Bytes.bytes -> Bytes.bytes * Bytes.bytes) 
    (B : Type) (bstep : Server.backend B) (o : Server.opts) (cc : Stack.ccfg),
  media StackBase.json_ct = StackBase.json_ct ->
  (forall w : Errors.werr, dec_errors (enc (Server.JErr w)) = Some (w :: nil)%list) ->
  forall (w : Http.world (Stack.srv B)) (repo dig : Bytes.bytes) (k : nat)
    (get : Outcome.R Iface.err (Iface.desc * Bytes.bytes)),
  Server.o_locs o = None ->
  1 <= k ->
  Request.vrepo repo = true ->
  Request.vdigest linked dig = true ->
  let a := snd (bstep (Stack.sv_b (Http.w_srv w)) (Iface.GetBlob repo dig)) in
  BridgeIntegrity.conf_read enc a ->
  BridgeIntegrity.ans_rel a get ->
  BridgeIntegrity.sim
    (BridgeIntegrity.seen
       (snd
          (Stack.stack_call linked hash subject_of media enc dec_errors dec_names dec_index
             redirect bstep o cc (Client.CGetBlob repo dig k) w)))
    (BridgeIntegrity.BR.http_get_blob (Request.vdigest linked) (BridgeIntegrity.hashd_of hash)
       dig get).
Proof. exact @BridgeIntegrity.bridge_get_blob. Qed.
Print Assumptions C01_bridge_get_blob.

(* the same for GetBlobRange, every int64 offset pair *)
Theorem C01_bridge_get_blob_range :
  forall (linked : Ref.alg -> bool) (hash : Bytes.bytes -> Bytes.bytes -> Bytes.bytes)
    (subject_of : Bytes.bytes -> option (option Bytes.bytes))
    (media : Bytes.bytes -> Bytes.bytes) (enc : Server.jval -> Bytes.bytes)
    (dec_errors : Bytes.bytes -> option (list Errors.werr))
    (dec_names : bool -> Bytes.bytes -> option (list Bytes.bytes))
    (dec_index : Bytes.bytes -> option (list Iface.desc))
    (redirect : Bytes.bytes -> Bytes.bytes -> Bytes.bytes * Bytes.bytes) 
    (B : Type) (bstep : Server.backend B) (o : Server.opts) (cc : Stack.ccfg),
  media StackBase.json_ct = StackBase.json_ct ->
  (forall w : Errors.werr, dec_errors (enc (Server.JErr w)) = Some (w :: nil)%list) ->
  forall (w : Http.world (Stack.srv B)) (repo dig : Bytes.bytes) (o0 o1 : BinNums.Z) 
    (k : nat) (get : Outcome.R Iface.err (Iface.desc * Bytes.bytes))
    (getrange : BinNums.Z -> BinNums.Z -> Outcome.R Iface.err (Iface.desc * Bytes.bytes)),
  Server.o_locs o = None ->
  1 <= k ->
  Request.vrepo repo = true ->
  Request.vdigest linked dig = true ->
  BridgeIntegrity.ISP.in64 o0 ->
  BridgeIntegrity.ISP.in64 o1 ->
  BinInt.Z.le
    (Bytes.blen
       (enc
          (Server.JErr
             (Errors.r_err
                (Errors.marshal_error Errors.go_sprefix Errors.go_cprefix BridgeIntegrity.e416)))))
    (BinNums.Zpos
       (BinNums.xO
          (BinNums.xO
             (BinNums.xO
                (BinNums.xO
                   (BinNums.xO
                      (BinNums.xO
                         (BinNums.xO
                            (BinNums.xO
                               (BinNums.xO
                                  (BinNums.xO
                                     (BinNums.xO (BinNums.xO (BinNums.xO BinNums.xH)))))))))))))) ->
  BridgeIntegrity.range_hyp enc B bstep (Stack.sv_b (Http.w_srv w)) repo dig o0 o1 get
    getrange ->
  BridgeIntegrity.sim
    (BridgeIntegrity.seen
       (snd
          (Stack.stack_call linked hash subject_of media enc dec_errors dec_names dec_index
             redirect bstep o cc (Client.CGetBlobRange repo dig o0 o1 k) w)))
    (BridgeIntegrity.BR.http_get_blob_range (Request.vdigest linked)
       (BridgeIntegrity.hashd_of hash) dig o0 o1 get getrange).
Proof. exact @BridgeIntegrity.bridge_get_blob_range. Qed.
Print Assumptions C01_bridge_get_blob_range.

(* the same for GetManifest *)
Theorem C01_bridge_get_manifest :
  forall (linked : Ref.alg -> bool) (hash : Bytes.bytes -> Bytes.bytes -> Bytes.bytes)
    (subject_of : Bytes.bytes -> option (option Bytes.bytes))
    (media : Bytes.bytes -> Bytes.bytes) (enc : Server.jval -> Bytes.bytes)
    (dec_errors : Bytes.bytes -> option (list Errors.werr))
    (dec_names : bool -> Bytes.bytes -> option (list Bytes.bytes))
    (dec_index : Bytes.bytes -> option (list Iface.desc))
    (redirect : Bytes.bytes -> Bytes.bytes -> Bytes.bytes * Bytes.bytes) 
    (B : Type) (bstep : Server.backend B) (o : Server.opts) (cc : Stack.ccfg),
  media StackBase.json_ct = StackBase.json_ct ->
  (forall w : Errors.werr, dec_errors (enc (Server.JErr w)) = Some (w :: nil)%list) ->
  forall (w : Http.world (Stack.srv B)) (repo dig : Bytes.bytes) (k : nat)
    (get : Outcome.R Iface.err (Iface.desc * Bytes.bytes)),
  Server.o_omit_digest_from_tag_get o = false ->
  1 <= k ->
  Request.vrepo repo = true ->
  Request.vdigest linked dig = true ->
  let a := snd (bstep (Stack.sv_b (Http.w_srv w)) (Iface.GetManifest repo dig)) in
  BridgeIntegrity.conf_manifest linked enc a ->
  BridgeIntegrity.ans_rel a get ->
  BridgeIntegrity.sim
    (BridgeIntegrity.seen
       (snd
          (Stack.stack_call linked hash subject_of media enc dec_errors dec_names dec_index
             redirect bstep o cc (Client.CGetManifest repo dig k) w)))
    (BridgeIntegrity.BR.http_get_manifest (Request.vdigest linked)
       (BridgeIntegrity.hashd_of hash) dig get).
Proof. exact @BridgeIntegrity.bridge_get_manifest. Qed.
Print Assumptions C01_bridge_get_manifest.

(* the same for GetTag *)
Theorem C01_bridge_get_tag :
  forall (linked : Ref.alg -> bool) (hash : Bytes.bytes -> Bytes.bytes -> Bytes.bytes)
    (subject_of : Bytes.bytes -> option (option Bytes.bytes))
    (media : Bytes.bytes -> Bytes.bytes) (enc : Server.jval -> Bytes.bytes)
    (dec_errors : Bytes.bytes -> option (list Errors.werr))
    (dec_names : bool -> Bytes.bytes -> option (list Bytes.bytes))
    (dec_index : Bytes.bytes -> option (list Iface.desc))
    (redirect : Bytes.bytes -> Bytes.bytes -> Bytes.bytes * Bytes.bytes) 
    (B : Type) (bstep : Server.backend B) (o : Server.opts) (cc : Stack.ccfg),
  media StackBase.json_ct = StackBase.json_ct ->
  (forall w : Errors.werr, dec_errors (enc (Server.JErr w)) = Some (w :: nil)%list) ->
  forall (w : Http.world (Stack.srv B)) (repo tag : Bytes.bytes) (k : nat)
    (get : Outcome.R Iface.err (Iface.desc * Bytes.bytes)),
  Server.o_omit_digest_from_tag_get o = false ->
  1 <= k ->
  Request.vrepo repo = true ->
  Request.vtag tag = true ->
  let a := snd (bstep (Stack.sv_b (Http.w_srv w)) (Iface.GetTag repo tag)) in
  BridgeIntegrity.conf_manifest linked enc a ->
  BridgeIntegrity.ans_rel a get ->
  BridgeIntegrity.sim
    (BridgeIntegrity.seen
       (snd
          (Stack.stack_call linked hash subject_of media enc dec_errors dec_names dec_index
             redirect bstep o cc (Client.CGetTag repo tag k) w)))
    (BridgeIntegrity.BR.http_get_manifest (Request.vdigest linked)
       (BridgeIntegrity.hashd_of hash) nil get).
Proof. exact @BridgeIntegrity.bridge_get_tag. Qed.
Print Assumptions C01_bridge_get_tag.

(* the four reads together: the composed stack refines C01's http_layer *)
Theorem C01_bridge_http_layer :
  forall (linked : Ref.alg -> bool) (hash : Bytes.bytes -> Bytes.bytes -> Bytes.bytes)
    (subject_of : Bytes.bytes -> option (option Bytes.bytes))
    (media : Bytes.bytes -> Bytes.bytes) (enc : Server.jval -> Bytes.bytes)
    (dec_errors : Bytes.bytes -> option (list Errors.werr))
    (dec_names : bool -> Bytes.bytes -> option (list Bytes.bytes))
    (dec_index : Bytes.bytes -> option (list Iface.desc))
    (redirect : Bytes.bytes -> Bytes.bytes -> Bytes.bytes * Bytes.bytes) 
    (B : Type) (bstep : Server.backend B) (o : Server.opts) (cc : Stack.ccfg),
  media StackBase.json_ct = StackBase.json_ct ->
  (forall w : Errors.werr, dec_errors (enc (Server.JErr w)) = Some (w :: nil)%list) ->
  forall (w : Http.world (Stack.srv B)) (k : nat),
  Server.o_locs o = None ->
  Server.o_omit_digest_from_tag_get o = false ->
  1 <= k ->
  BinInt.Z.le
    (Bytes.blen
       (enc
          (Server.JErr
             (Errors.r_err
                (Errors.marshal_error Errors.go_sprefix Errors.go_cprefix BridgeIntegrity.e416)))))
    (BinNums.Zpos
       (BinNums.xO
          (BinNums.xO
             (BinNums.xO
                (BinNums.xO
                   (BinNums.xO
                      (BinNums.xO
                         (BinNums.xO
                            (BinNums.xO
                               (BinNums.xO
                                  (BinNums.xO
                                     (BinNums.xO (BinNums.xO (BinNums.xO BinNums.xH)))))))))))))) ->
  let b := Stack.sv_b (Http.w_srv w) in
  let top :=
    BridgeIntegrity.IS.http_layer (Request.vdigest linked) (BridgeIntegrity.hashd_of hash)
      (BridgeIntegrity.rb_of bstep b) in
  (forall repo dig : Bytes.bytes,
   Request.vrepo repo = true ->
   Request.vdigest linked dig = true ->
   let a := snd (bstep b (Iface.GetBlob repo dig)) in
   BridgeIntegrity.read_shaped a ->
   BridgeIntegrity.conf_read enc a ->
   BridgeIntegrity.sim
     (BridgeIntegrity.seen
        (snd
           (Stack.stack_call linked hash subject_of media enc dec_errors dec_names dec_index
              redirect bstep o cc (Client.CGetBlob repo dig k) w)))
     (BridgeIntegrity.IS.rb_blob top repo dig)) /\
  (forall (repo dig : Bytes.bytes) (o0 o1 : BinNums.Z),
   Request.vrepo repo = true ->
   Request.vdigest linked dig = true ->
   BridgeIntegrity.ISP.in64 o0 ->
   BridgeIntegrity.ISP.in64 o1 ->
   let aB := snd (bstep b (Iface.GetBlob repo dig)) in
   let aR := snd (bstep b (Iface.GetBlobRange repo dig o0 (StackRange.server_end o1))) in
   BridgeIntegrity.read_shaped aB ->
   BridgeIntegrity.read_shaped aR ->
   BridgeIntegrity.conf_read enc aB ->
   BridgeIntegrity.conf_range enc o0 (StackRange.server_end o1) aR ->
   BridgeIntegrity.sim
     (BridgeIntegrity.seen
        (snd
           (Stack.stack_call linked hash subject_of media enc dec_errors dec_names dec_index
              redirect bstep o cc (Client.CGetBlobRange repo dig o0 o1 k) w)))
     (BridgeIntegrity.IS.rb_range top repo dig o0 o1)) /\
  (forall repo dig : Bytes.bytes,
   Request.vrepo repo = true ->
   Request.vdigest linked dig = true ->
   let a := snd (bstep b (Iface.GetManifest repo dig)) in
   BridgeIntegrity.read_shaped a ->
   BridgeIntegrity.conf_manifest linked enc a ->
   BridgeIntegrity.sim
     (BridgeIntegrity.seen
        (snd
           (Stack.stack_call linked hash subject_of media enc dec_errors dec_names dec_index
              redirect bstep o cc (Client.CGetManifest repo dig k) w)))
     (BridgeIntegrity.IS.rb_man top repo dig)) /\
  (forall repo tag : Bytes.bytes,
   Request.vrepo repo = true ->
   Request.vtag tag = true ->
   let a := snd (bstep b (Iface.GetTag repo tag)) in
   BridgeIntegrity.read_shaped a ->
   BridgeIntegrity.conf_manifest linked enc a ->
   BridgeIntegrity.sim
     (BridgeIntegrity.seen
        (snd
           (Stack.stack_call linked hash subject_of media enc dec_errors dec_names dec_index
              redirect bstep o cc (Client.CGetTag repo tag k) w)))
     (BridgeIntegrity.IS.rb_tag top repo tag)).
Proof. exact @BridgeIntegrity.bridge_http_layer. Qed.
Print Assumptions C01_bridge_http_layer.

(* a backend error's registry code survives the hop (no code comes back as UNKNOWN) *)
Theorem C01_bridge_backend_error_code :
  forall (linked : Ref.alg -> bool) (hash : Bytes.bytes -> Bytes.bytes -> Bytes.bytes)
    (subject_of : Bytes.bytes -> option (option Bytes.bytes))
    (media : Bytes.bytes -> Bytes.bytes) (enc : Server.jval -> Bytes.bytes)
    (dec_errors : Bytes.bytes -> option (list Errors.werr))
    (dec_names : bool -> Bytes.bytes -> option (list Bytes.bytes))
    (dec_index : Bytes.bytes -> option (list Iface.desc))
    (redirect : Bytes.bytes -> Bytes.bytes -> Bytes.bytes * Bytes.bytes) 
    (B : Type) (bstep : Server.backend B) (o : Server.opts) (cc : Stack.ccfg),
  media StackBase.json_ct = StackBase.json_ct ->
  (forall w : Errors.werr, dec_errors (enc (Server.JErr w)) = Some (w :: nil)%list) ->
  forall (w : Http.world (Stack.srv B)) (c : Iface.op) (e : Errors.gerr) (k : nat),
  Server.o_locs o = None ->
  StackTransparent.conf_err e ->
  BinInt.Z.le
    (Bytes.blen
       (enc
          (Server.JErr
             (Errors.r_err (Errors.marshal_error Errors.go_sprefix Errors.go_cprefix e)))))
    (BinNums.Zpos
       (BinNums.xO
          (BinNums.xO
             (BinNums.xO
                (BinNums.xO
                   (BinNums.xO
                      (BinNums.xO
                         (BinNums.xO
                            (BinNums.xO
                               (BinNums.xO
                                  (BinNums.xO
                                     (BinNums.xO (BinNums.xO (BinNums.xO BinNums.xH)))))))))))))) ->
  snd (bstep (Stack.sv_b (Http.w_srv w)) c) = Outcome.Err e ->
  match c with
  | Iface.GetBlob r d =>
      Request.vrepo r = true ->
      Request.vdigest linked d = true ->
      exists x : Iface.err,
        BridgeIntegrity.seen
          (snd
             (Stack.stack_call linked hash subject_of media enc dec_errors dec_names dec_index
                redirect bstep o cc (Client.CGetBlob r d k) w)) = 
        Outcome.Err x /\
        BridgeIntegrity.IS.rb_blob
          (BridgeIntegrity.IS.http_layer (Request.vdigest linked)
             (BridgeIntegrity.hashd_of hash)
             (BridgeIntegrity.rb_of bstep (Stack.sv_b (Http.w_srv w)))) r d =
        Outcome.Err (Stack.err_of_gerr e) /\
        BridgeIntegrity.on_wire (Iface.e_code x) =
        BridgeIntegrity.on_wire (Iface.e_code (Stack.err_of_gerr e))
  | Iface.GetManifest r d =>
      Request.vrepo r = true ->
      Request.vdigest linked d = true ->
      exists x : Iface.err,
        BridgeIntegrity.seen
          (snd
             (Stack.stack_call linked hash subject_of media enc dec_errors dec_names dec_index
                redirect bstep o cc (Client.CGetManifest r d k) w)) = 
        Outcome.Err x /\
        BridgeIntegrity.IS.rb_man
          (BridgeIntegrity.IS.http_layer (Request.vdigest linked)
             (BridgeIntegrity.hashd_of hash)
             (BridgeIntegrity.rb_of bstep (Stack.sv_b (Http.w_srv w)))) r d =
        Outcome.Err (Stack.err_of_gerr e) /\
        BridgeIntegrity.on_wire (Iface.e_code x) =
        BridgeIntegrity.on_wire (Iface.e_code (Stack.err_of_gerr e))
  | Iface.GetTag r t =>
      Request.vrepo r = true ->
      Request.vtag t = true ->
      exists x : Iface.err,
        BridgeIntegrity.seen
          (snd
             (Stack.stack_call linked hash subject_of media enc dec_errors dec_names dec_index
                redirect bstep o cc (Client.CGetTag r t k) w)) = Outcome.Err x /\
        BridgeIntegrity.IS.rb_tag
          (BridgeIntegrity.IS.http_layer (Request.vdigest linked)
             (BridgeIntegrity.hashd_of hash)
             (BridgeIntegrity.rb_of bstep (Stack.sv_b (Http.w_srv w)))) r t =
        Outcome.Err (Stack.err_of_gerr e) /\
        BridgeIntegrity.on_wire (Iface.e_code x) =
        BridgeIntegrity.on_wire (Iface.e_code (Stack.err_of_gerr e))
  | _ => True
  end.
Proof. exact @BridgeIntegrity.bridge_backend_error_code. Qed.
Print Assumptions C01_bridge_backend_error_code.

(* TRANSFER: C01_range_over_http holds with the composed client - wire - server over the ocimem model as the hop *)
Theorem C01_range_over_http_composed :
  forall (linked : Ref.alg -> bool) (hash : Bytes.bytes -> Bytes.bytes -> Bytes.bytes)
    (subject_of : Bytes.bytes -> option (option Bytes.bytes))
    (media : Bytes.bytes -> Bytes.bytes) (enc : Server.jval -> Bytes.bytes)
    (dec_errors : Bytes.bytes -> option (list Errors.werr))
    (dec_names : bool -> Bytes.bytes -> option (list Bytes.bytes))
    (dec_index : Bytes.bytes -> option (list Iface.desc))
    (redirect : Bytes.bytes -> Bytes.bytes -> Bytes.bytes * Bytes.bytes) 
    (o : Server.opts) (cc : Stack.ccfg)
    (valid_digest valid_repo valid_tag : Bytes.bytes -> bool)
    (decode_image : Bytes.bytes -> option Mem.image_manifest)
    (decode_index : Bytes.bytes -> option Mem.index_manifest) (cfg : Mem.config),
  media StackBase.json_ct = StackBase.json_ct ->
  (forall w : Errors.werr, dec_errors (enc (Server.JErr w)) = Some (w :: nil)%list) ->
  forall (w : Http.world (Stack.srv Mem.state)) (r d : Bytes.bytes) 
    (o0 o1 : BinNums.Z) (b : Mem.blob) (k : nat),
  let st := Stack.sv_b (Http.w_srv w) in
  Server.o_locs o = None ->
  1 <= k ->
  Request.vrepo r = true ->
  BinInt.Z.le
    (Bytes.blen
       (enc
          (Server.JErr
             (Errors.r_err
                (Errors.marshal_error Errors.go_sprefix Errors.go_cprefix BridgeIntegrity.e416)))))
    (BinNums.Zpos
       (BinNums.xO
          (BinNums.xO
             (BinNums.xO
                (BinNums.xO
                   (BinNums.xO
                      (BinNums.xO
                         (BinNums.xO
                            (BinNums.xO
                               (BinNums.xO
                                  (BinNums.xO
                                     (BinNums.xO (BinNums.xO (BinNums.xO BinNums.xH)))))))))))))) ->
  BinInt.Z.le
    (Bytes.blen
       (enc
          (Server.JErr
             (Errors.r_err
                (Errors.marshal_error Errors.go_sprefix Errors.go_cprefix
                   BridgeIntegrity.e_invalid_range)))))
    (BinNums.Zpos
       (BinNums.xO
          (BinNums.xO
             (BinNums.xO
                (BinNums.xO
                   (BinNums.xO
                      (BinNums.xO
                         (BinNums.xO
                            (BinNums.xO
                               (BinNums.xO
                                  (BinNums.xO
                                     (BinNums.xO (BinNums.xO (BinNums.xO BinNums.xH)))))))))))))) ->
  MemInv.Inv (BridgeIntegrity.BR.canon_hash (BridgeIntegrity.hashd_of hash)) decode_image
    decode_index st ->
  Mem.iblob st r d = Some b ->
  BridgeIntegrity.ISP.in64 o0 ->
  BridgeIntegrity.ISP.in64 o1 ->
  BinInt.Z.le (Bytes.blen (Mem.b_data b)) BridgeIntegrity.RC.MAX64 ->
  Request.vdigest linked d = true ->
  BridgeIntegrity.BR.alg_of d = Some (Bytes.s "sha256") ->
  let direct :=
    BridgeIntegrity.IS.rb_range
      (BridgeIntegrity.IS.mem_rb (BridgeIntegrity.hashd_of hash) valid_digest valid_repo
         valid_tag decode_image decode_index cfg st) r d o0 o1 in
  let via :=
    BridgeIntegrity.seen
      (snd
         (Stack.stack_call linked hash subject_of media enc dec_errors dec_names dec_index
            redirect
            (BridgeIntegrity.mstep hash valid_digest valid_repo valid_tag decode_image
               decode_index cfg) o cc (Client.CGetBlobRange r d o0 o1 k) w)) in
  (BinInt.Z.le BinNums.Z0 o0 ->
   BinInt.Z.lt o1 BinNums.Z0 \/ BinInt.Z.lt o0 o1 ->
   BridgeIntegrity.ISP.pres via = BridgeIntegrity.ISP.pres direct) /\
  (BinInt.Z.lt o0 BinNums.Z0 \/ BinInt.Z.le BinNums.Z0 o1 /\ BinInt.Z.le o1 o0 ->
   BridgeIntegrity.ISP.pres via = None).
Proof. exact @BridgeIntegrity.range_over_http_composed. Qed.
Print Assumptions C01_range_over_http_composed.

(* TRANSFER: C01_hops_refine at one hop for GetBlob *)
Theorem C01_get_blob_composed_refines :
  forall (linked : Ref.alg -> bool) (hash : Bytes.bytes -> Bytes.bytes -> Bytes.bytes)
    (subject_of : Bytes.bytes -> option (option Bytes.bytes)) (o : Server.opts)
    (cc : Stack.ccfg) (valid_digest valid_repo valid_tag : Bytes.bytes -> bool)
    (decode_image : Bytes.bytes -> option Mem.image_manifest)
    (decode_index : Bytes.bytes -> option Mem.index_manifest) (cfg : Mem.config)
    (w : Http.world (Stack.srv Mem.state)) (r d : Bytes.bytes) (k : nat),
  let hashd := BridgeIntegrity.hashd_of hash in
  let st := Stack.sv_b (Http.w_srv w) in
  Server.o_locs o = None ->
  1 <= k ->
  Request.vrepo r = true ->
  Request.vdigest linked d = true ->
  MemInv.Inv (BridgeIntegrity.BR.canon_hash hashd) decode_image decode_index st ->
  (forall b : Mem.blob,
   Mem.iblob st r d = Some b -> BinInt.Z.le (Bytes.blen (Mem.b_data b)) Request.max_int64) ->
  BridgeIntegrity.ISP.refines
    (BridgeIntegrity.seen
       (snd
          (Stack.stack_call linked hash subject_of StackRun.media0 StackRun.enc0
             StackRun.dec_errors0 StackRun.dec_names0 StackRun.dec_index0 StackRun.redirect0
             (BridgeIntegrity.mstep hash valid_digest valid_repo valid_tag decode_image
                decode_index cfg) o cc (Client.CGetBlob r d k) w)))
    (BridgeIntegrity.IS.rb_blob
       (BridgeIntegrity.IS.mem_rb hashd valid_digest valid_repo valid_tag decode_image
          decode_index cfg st) r d).
Proof. exact @BridgeIntegrity.get_blob_composed_refines. Qed.
Print Assumptions C01_get_blob_composed_refines.

(* DIFFERENCE: for a refused range C01's model says RANGE_INVALID, the composed model UNKNOWN with status 416 - which is what the Go code does; harmless for C01 (its projection keeps only 'failed') *)
Theorem C01_bridge_416_code_refuted :
  exists e1 e2 : Iface.err,
  BridgeIntegrity.seen
    (BridgeIntegrity.Witness.call0 BridgeIntegrity.Witness.bk_panic tt
       (Client.CGetBlobRange BridgeIntegrity.Witness.rp
          (StackRun.Smoke.dg StackRun.Smoke.blob1)
          (BinNums.Zpos (BinNums.xI (BinNums.xO BinNums.xH)))
          (BinNums.Zpos (BinNums.xI (BinNums.xO BinNums.xH))) 512)) = 
  Outcome.Err e1 /\
  BridgeIntegrity.BR.http_get_blob_range (Request.vdigest BridgeIntegrity.Witness.all)
    (BridgeIntegrity.hashd_of BridgeIntegrity.Witness.fhash)
    (StackRun.Smoke.dg StackRun.Smoke.blob1)
    (BinNums.Zpos (BinNums.xI (BinNums.xO BinNums.xH)))
    (BinNums.Zpos (BinNums.xI (BinNums.xO BinNums.xH))) Outcome.Panic
    (fun _ _ : BinNums.Z => Outcome.Panic) = Outcome.Err e2 /\
  Iface.e_code e1 = Iface.ECustom (Bytes.s "UNKNOWN") /\
  Iface.e_tag e1 = Bytes.s "416" /\ Iface.e_code e2 = Iface.RANGE_INVALID.
Proof. exact @BridgeIntegrity.bridge_416_code_refuted. Qed.
Print Assumptions C01_bridge_416_code_refuted.

(* DIFFERENCE: a panicking backend propagates in C01's model, is a transport error in the composed one (net/http recovers the handler) *)
Theorem C01_bridge_panic_refuted :
  ~
  BridgeIntegrity.sim
    (BridgeIntegrity.seen
       (BridgeIntegrity.Witness.call0 BridgeIntegrity.Witness.bk_panic tt
          (Client.CGetBlob BridgeIntegrity.Witness.rp (StackRun.Smoke.dg StackRun.Smoke.blob1)
             512)))
    (BridgeIntegrity.BR.http_get_blob (Request.vdigest BridgeIntegrity.Witness.all)
       (BridgeIntegrity.hashd_of BridgeIntegrity.Witness.fhash)
       (StackRun.Smoke.dg StackRun.Smoke.blob1) Outcome.Panic).
Proof. exact @BridgeIntegrity.bridge_panic_refuted. Qed.
Print Assumptions C01_bridge_panic_refuted.

(* DIFFERENCE: a backend delivering more bytes than its descriptor's size: size error in C01's model, truncation to Content-Length in the composed one; the real net/http drops the whole crossing Write - neither model is exact; only non-conforming backends are affected (ocimem is not) *)
Theorem C01_bridge_overlong_body_refuted :
  BridgeIntegrity.seen
    (BridgeIntegrity.Witness.call0 BridgeIntegrity.Witness.bk_long tt
       (Client.CGetBlob BridgeIntegrity.Witness.rp
          (StackRun.Smoke.dg BridgeIntegrity.Witness.ab) 512)) =
  Outcome.Ok
    (BridgeIntegrity.hop_desc (StackRun.Smoke.dg BridgeIntegrity.Witness.ab)
       BridgeIntegrity.Witness.de_ab, BridgeIntegrity.Witness.ab) /\
  (exists e : Iface.err,
     BridgeIntegrity.BR.http_get_blob (Request.vdigest BridgeIntegrity.Witness.all)
       (BridgeIntegrity.hashd_of BridgeIntegrity.Witness.fhash)
       (StackRun.Smoke.dg BridgeIntegrity.Witness.ab)
       (Outcome.Ok (BridgeIntegrity.Witness.de_ab, BridgeIntegrity.Witness.abc)) =
     Outcome.Err e).
Proof. exact @BridgeIntegrity.bridge_overlong_body_refuted. Qed.
Print Assumptions C01_bridge_overlong_body_refuted.

(* DIFFERENCE: C01's model forwards an invalid repository name, the composed model (and Go) refuse to build the request *)
Theorem C01_bridge_invalid_repo_refuted :
  exists e : Iface.err,
  BridgeIntegrity.seen
    (BridgeIntegrity.Witness.call0 BridgeIntegrity.Witness.bk_ab tt
       (Client.CGetBlob (Bytes.s "UPPER") (StackRun.Smoke.dg BridgeIntegrity.Witness.ab) 512)) =
  Outcome.Err e /\
  BridgeIntegrity.BR.http_get_blob (Request.vdigest BridgeIntegrity.Witness.all)
    (BridgeIntegrity.hashd_of BridgeIntegrity.Witness.fhash)
    (StackRun.Smoke.dg BridgeIntegrity.Witness.ab)
    (Outcome.Ok (BridgeIntegrity.Witness.de_ab, BridgeIntegrity.Witness.ab)) =
  Outcome.Ok
    (BridgeIntegrity.hop_desc (StackRun.Smoke.dg BridgeIntegrity.Witness.ab)
       BridgeIntegrity.Witness.de_ab, BridgeIntegrity.Witness.ab).
Proof. exact @BridgeIntegrity.bridge_invalid_repo_refuted. Qed.
Print Assumptions C01_bridge_invalid_repo_refuted.

