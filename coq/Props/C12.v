(* C12  Access-checking / selecting wrappers never let a rejected repository through.
   Statements only; proofs live in Proofs/FilterSelect.v (one wrapper) and
   Proofs/FilterStack.v (wrappers applied to each other).  Throughout: [bstep] is an
   arbitrary wrapped registry with arbitrary state [st]; [check] is an arbitrary policy
   (function of name and access kind, [None] = allowed); [listAll] distinguishes the
   wrapper built by AccessChecker (false) from the one built by Select (true);
   [pre_checks listAll o] is the list of (repository, access kind) pairs the property
   says a call of [o] needs: (r, read) for the seven read methods, (r, write) for the four
   push methods, (from, read) then (to, write) for a mount, (r, delete) for the deletes,
   (r, list) for Tags and Referrers, and ("*", list) for Repositories under AccessChecker.
   The third component of a step's result is the trace: the backend calls made. *)
From Coq Require Import String.
From OCI Require Import Model.Filter Model.FilterStack Model.FilterIter Proofs.FilterSelect Proofs.FilterStack Proofs.FilterIter.

(* When the policy rejects any of the pairs a call needs, the wrapped registry is not
   invoked at all and its state is untouched; the first rejected pair, in the order
   above, decides the error (so both repositories of a mount are checked: the source for
   read, then the target for write), and that error is what the caller gets: as the error
   result, or for Repositories / Tags / Referrers as an iterator that yields exactly that
   error. *)
Theorem C12_no_call_when_denied :
  forall (B : Type) (check : checker) (listAll : bool) (bstep : registry B) (st : B) (o : op),
    (exists rk, In rk (pre_checks listAll o) /\ check (fst rk) (snd rk) <> None) ->
    exists e, first_denial check (pre_checks listAll o) = Some e /\
              ac_step check listAll bstep st o = (st, deliver o e, []).
Proof. exact @ac_denied. Qed.
Print Assumptions C12_no_call_when_denied.

(* The error delivered is the policy's own answer to one of the pairs the call needs. *)
Theorem C12_denied_error :
  forall (check : checker) (l : list (bytes * akind)) (e : err) (o : op),
    first_denial check l = Some e ->
    (exists rk, In rk l /\ check (fst rk) (snd rk) = Some e) /\ result_error (deliver o e) = Some e.
Proof. intros check l e o H. split; [exact (first_denial_in check l e H) | exact (deliver_error o e)]. Qed.
Print Assumptions C12_denied_error.

(* When the policy allows every pair, the call behaves exactly as on the wrapped registry:
   one backend call, the call itself with unchanged arguments; the backend state afterwards
   is the state after the direct call; the result (including a BlobReader's content or the
   BlobWriter handed back) is the direct call's result, except that a repository listing is
   filtered ([post]).  Operations on a BlobWriter need no pair and are always passed on. *)
Theorem C12_allowed_is_identity :
  forall (B : Type) (check : checker) (listAll : bool) (bstep : registry B) (st : B) (o : op),
    (forall rk, In rk (pre_checks listAll o) -> check (fst rk) (snd rk) = None) ->
    ac_step check listAll bstep st o = (fst (bstep st o), post check o (snd (bstep st o)), [o]).
Proof. exact @ac_allowed. Qed.
Print Assumptions C12_allowed_is_identity.

(* Both at once, as a complete description of every call. *)
Theorem C12_step_characterised :
  forall (B : Type) (check : checker) (listAll : bool) (bstep : registry B) (st : B) (o : op),
    ac_step check listAll bstep st o =
      match first_denial check (pre_checks listAll o) with
      | Some e => (st, deliver o e, [])
      | None => (fst (bstep st o), post check o (snd (bstep st o)), [o])
      end.
Proof. exact @ac_step_spec. Qed.
Print Assumptions C12_step_characterised.

(* Over every history: each call that reaches the wrapped registry passed every check its
   method needs. *)
Theorem C12_trace_allowed :
  forall (B : Type) (check : checker) (listAll : bool) (bstep : registry B) (h : list op) (st : B) (o' : op),
    In o' (ttrace (ac_step check listAll bstep) st h) ->
    forall rk, In rk (op_checks o') -> check (fst rk) (snd rk) = None.
Proof. exact @ac_trace_allowed. Qed.
Print Assumptions C12_trace_allowed.

(* Over every history: the wrapped registry's state is exactly what replaying the trace on
   it gives; the wrapper has no other effect on it. *)
Theorem C12_state_is_trace_replay :
  forall (B : Type) (check : checker) (listAll : bool) (bstep : registry B) (h : list op) (st : B),
    fst (trun (ac_step check listAll bstep) st h) =
      final bstep st (ttrace (ac_step check listAll bstep) st h).
Proof. exact @ac_state_replay. Qed.
Print Assumptions C12_state_is_trace_replay.

(* Select: for every allow function and every call, if a repository involved is not
   allowed the wrapped registry is not invoked and the error is name-unknown for the read,
   list and delete methods and denied for the write methods (mount: name-unknown when the
   source is not allowed, else denied); otherwise the call is the direct call.
   Repositories itself is always allowed. *)
Theorem C12_select_characterised :
  forall (B : Type) (allow : bytes -> bool) (bstep : registry B) (st : B) (o : op),
    select allow bstep st o =
      match select_error allow o with
      | Some e => (st, deliver o e, [])
      | None => (fst (bstep st o), post (select_check allow) o (snd (bstep st o)), [o])
      end.
Proof. exact @select_spec. Qed.
Print Assumptions C12_select_characterised.

(* ... and [select_error] is an error exactly when some repository named by the call
   (any method, including the name "*") is not allowed. *)
Theorem C12_select_rejects_iff :
  forall (allow : bytes -> bool) (o : op),
    select_error allow o <> None <-> exists r, In r (op_repos o) /\ allow r = false.
Proof. exact select_error_some. Qed.
Print Assumptions C12_select_rejects_iff.

(* Select over every history: every repository named by a call that reaches the wrapped
   registry is allowed. *)
Theorem C12_select_trace_allowed :
  forall (B : Type) (allow : bytes -> bool) (bstep : registry B) (h : list op) (st : B) (o' : op),
    In o' (ttrace (select allow bstep) st h) ->
    forall r, In r (op_repos o') -> allow r = true.
Proof. exact @select_trace_allowed. Qed.
Print Assumptions C12_select_trace_allowed.

(* Repository listings: when the listing itself is permitted and the wrapped registry
   yields items l and then maybe an error e, the caller gets exactly the names of l the
   policy lets it read, in the same order, and then the same e. *)
Theorem C12_listing_filtered :
  forall (B : Type) (check : checker) (listAll : bool) (bstep : registry B) (st : B) (start : bytes)
         (st' : B) (l : list bytes) (e : option err),
    (listAll = true \/ check star AccessList = None) ->
    bstep st (Repositories start) = (st', Ok (RList l e)) ->
    ac_step check listAll bstep st (Repositories start) =
      (st', Ok (RList (filter (visible check) l) e), [Repositories start]).
Proof. exact @ac_listing. Qed.
Print Assumptions C12_listing_filtered.

(* The same yield by yield, for a wrapped iterator that may yield anything in any order
   (evs) and a consumer that may stop at any yield (more): what the consumer receives is a
   prefix of the kept names the backend yields before its first error, in order ... *)
Theorem C12_listing_yields_prefix :
  forall (keep : bytes -> option bytes) (more : nat -> bool) (evs : list yld) (i : nat),
    exists rest,
      filter_map keep (items_before_error evs) =
        item_yields (fst (repos_drive keep more i evs)) ++ rest.
Proof. exact drive_items_prefix. Qed.
Print Assumptions C12_listing_yields_prefix.

(* ... all of them when the consumer never stops ... *)
Theorem C12_listing_yields_all :
  forall (keep : bytes -> option bytes) (evs : list yld) (i : nat),
    item_yields (fst (repos_drive keep always i evs)) = filter_map keep (items_before_error evs).
Proof. exact drive_all_items. Qed.
Print Assumptions C12_listing_yields_all.

(* ... an error is passed on and nothing is yielded after it ... *)
Theorem C12_listing_error_is_last :
  forall (keep : bytes -> option bytes) (more : nat -> bool) (evs : list yld) (i : nat)
         (pre : list yld) (y : yld) (post0 : list yld),
    fst (repos_drive keep more i evs) = pre ++ y :: post0 -> is_error y = true -> post0 = [].
Proof. exact drive_error_last. Qed.
Print Assumptions C12_listing_error_is_last.

(* ... and the yield the consumer answers with "stop" is the last one. *)
Theorem C12_listing_stops_when_told :
  forall (keep : bytes -> option bytes) (more : nat -> bool) (evs : list yld) (i : nat)
         (ys : list yld) (n : nat),
    repos_drive keep more i evs = (ys, n) ->
    forall k, (k < length ys)%nat -> more (i + k)%nat = false -> S k = length ys.
Proof. exact drive_stops. Qed.
Print Assumptions C12_listing_stops_when_told.

(* The wrapper types embed a nil *ociregistry.Funcs: for ANY set of methods the type
   declares itself, a method outside that set is the promoted method of the nil table
   (C20): it returns the unsupported-operation error naming the method and calls nothing,
   so a method added to Interface later is refused, not passed through. *)
Theorem C12_unknown_methods_fail_closed :
  forall (B C : Type) (declared : method -> bool) (step : tstep B C) (st : B) (o : op) (m : method),
    op_method o = Some m -> declared m = false ->
    with_embedded_funcs declared step st o = (st, promoted_result m, []) /\
    result_error (promoted_result m) = Some (unsupported_err (method_name m)).
Proof. exact @promoted_fail_closed. Qed.
Print Assumptions C12_unknown_methods_fail_closed.

(* ---- wrappers applied to each other ----
   AccessChecker and Select take any registry, in particular the result of AccessChecker or
   Select.  [stack_step ls bstep] is the wrapper built from the levels [ls] (outermost first;
   a level is the pair of fields check and listAll of one wrapper) over the innermost registry
   [bstep]: the one-wrapper model applied to itself (Model/FilterStack.v).  The trace is the
   list of calls that reach the INNERMOST registry.  [stack_denial ls o] asks the levels from
   the outside in, each with the pairs its own wrapper needs for [o], and is the answer of the
   first level that rejects. *)

(* Every call through every stack, completely: some level rejects - nothing reaches the
   innermost registry, its state is untouched, the caller gets that rejection; or no level
   does - exactly the direct call, the result passed out through every level's listing
   filter. *)
Theorem C12_stack_characterised :
  forall (B : Type) (bstep : registry B) (ls : list layer) (st : B) (o : op),
    stack_step ls bstep st o =
      match stack_denial ls o with
      | Some e => (st, deliver o e, [])
      | None => (fst (bstep st o), stack_post ls o (snd (bstep st o)), [o])
      end.
Proof. exact @stack_step_spec. Qed.
Print Assumptions C12_stack_characterised.

(* A rejection by ANY level, wherever it sits in the stack and whatever the other levels'
   policies say, stops the call before the innermost registry: every level's policy is
   consulted. *)
Theorem C12_stack_no_call_when_any_level_denies :
  forall (B : Type) (bstep : registry B) (ls : list layer) (st : B) (o : op) (l : layer),
    In l ls ->
    (exists rk, In rk (pre_checks (l_listAll l) o) /\ l_check l (fst rk) (snd rk) <> None) ->
    exists e, stack_denial ls o = Some e /\ stack_step ls bstep st o = (st, deliver o e, []).
Proof. exact @stack_denied. Qed.
Print Assumptions C12_stack_no_call_when_any_level_denies.

(* The error delivered is the one of the OUTERMOST level that rejects (its own first
   rejected pair): every level outside it let the call pass. *)
Theorem C12_stack_error_is_outermost_rejection :
  forall (ls : list layer) (o : op) (e : err),
    stack_denial ls o = Some e ->
    exists outer l inner,
      ls = outer ++ l :: inner /\
      (forall l', In l' outer -> first_denial (l_check l') (pre_checks (l_listAll l') o) = None) /\
      first_denial (l_check l) (pre_checks (l_listAll l) o) = Some e.
Proof. exact stack_denial_some. Qed.
Print Assumptions C12_stack_error_is_outermost_rejection.

(* When every level allows every pair it needs, the call is the direct call. *)
Theorem C12_stack_allowed_is_identity :
  forall (B : Type) (bstep : registry B) (ls : list layer) (st : B) (o : op),
    (forall l, In l ls -> forall rk, In rk (pre_checks (l_listAll l) o) -> l_check l (fst rk) (snd rk) = None) ->
    stack_step ls bstep st o = (fst (bstep st o), stack_post ls o (snd (bstep st o)), [o]).
Proof. exact @stack_allowed. Qed.
Print Assumptions C12_stack_allowed_is_identity.

(* Over every history through every stack: each call that reaches the innermost registry
   passed every check of its method at EVERY level ... *)
Theorem C12_stack_trace_allowed :
  forall (B : Type) (bstep : registry B) (ls : list layer) (h : list op) (st : B) (o' : op),
    In o' (ttrace (stack_step ls bstep) st h) ->
    forall l, In l ls -> forall rk, In rk (op_checks o') -> l_check l (fst rk) (snd rk) = None.
Proof. exact @stack_trace_allowed. Qed.
Print Assumptions C12_stack_trace_allowed.

(* ... and the innermost registry's state is exactly the replay of that trace. *)
Theorem C12_stack_state_is_trace_replay :
  forall (B : Type) (bstep : registry B) (ls : list layer) (h : list op) (st : B),
    fst (trun (stack_step ls bstep) st h) = final bstep st (ttrace (stack_step ls bstep) st h).
Proof. exact @stack_state_replay. Qed.
Print Assumptions C12_stack_state_is_trace_replay.

(* Repository listings through a stack: when no level refuses the listing, the caller gets
   exactly the names every level lets it read, in order, then the innermost registry's error. *)
Theorem C12_stack_listing_filtered :
  forall (B : Type) (ls : list layer) (bstep : registry B) (st : B) (start : bytes)
         (st' : B) (l : list bytes) (e : option err),
    stack_denial ls (Repositories start) = None ->
    bstep st (Repositories start) = (st', Ok (RList l e)) ->
    stack_step ls bstep st (Repositories start) =
      (st', Ok (RList (filter (stack_visible ls) l) e), [Repositories start]).
Proof. exact @stack_listing. Qed.
Print Assumptions C12_stack_listing_filtered.

(* The same yield by yield, with the iterators modelled as the Go functions they are (a Seq
   is a function of its yield callback; each level's Repositories hands its own function
   literal to the level below): for any innermost events, any consumer and at least one
   level, either the outermost level that is not built by Select and whose policy rejects
   ("*", list) makes the consumer receive exactly that error and the innermost iterator is
   never started, or the consumer receives what ONE function literal with the conjunction of
   all the levels' filters would deliver - to which the yield-level theorems above apply. *)
Theorem C12_stack_listing_yields :
  forall (l : layer) (ls : list layer) (more : nat -> bool) (evs : list yld),
    stack_drive (l :: ls) more evs =
      match star_denial (l :: ls) with
      | Some e => ([([], Some e)], 0%nat)
      | None => repos_drive (stack_keep (l :: ls)) more 0 evs
      end.
Proof. exact stack_drive_spec. Qed.
Print Assumptions C12_stack_listing_yields.

(* A stack of one level is the wrapper of the theorems above. *)
Theorem C12_stack_of_one :
  forall (B : Type) (l : layer) (bstep : registry B) (st : B) (o : op),
    stack_step [l] bstep st o = ac_step (l_check l) (l_listAll l) bstep st o.
Proof. exact @stack_one. Qed.
Print Assumptions C12_stack_of_one.

(* ---- the iterator methods as Go evaluates them, under every caller of the returned Seq ----
   (Model/FilterIter.v: a method call = the calls its body makes on the innermost registry +
   the Seq it returns; a Seq = a function of the caller's callback; [evs] = what the
   innermost registry's iterator hands out, arbitrary.) *)

(* Repositories, Tags or Referrers rejected by ANY level of a stack: the method body makes no
   call on the innermost registry, and the returned Seq, iterated with ANY callback in ANY
   state - one that answers "more" to the error included - calls it exactly once, with the
   zero item and the error of the outermost rejecting level, and does nothing else (the
   state afterwards is the callback's own: no innermost call, no innermost yield).  Since
   this holds for every state it holds for every iteration of the same Seq. *)
Theorem C12_iter_rejected_under_every_caller :
  forall (l : layer) (ls : list layer) (evs : list yld) (o : op) (e : err),
    is_iter_op o = true -> stack_denial (l :: ls) o = Some e ->
    fst (istack (l :: ls) evs o) = [] /\
    forall (yield : yfun istate) (st : istate),
      snd (istack (l :: ls) evs o) yield st = fst (yield (@nil N, Some e) st).
Proof. exact iter_denied. Qed.
Print Assumptions C12_iter_rejected_under_every_caller.

(* Every call that reaches the innermost registry at any time - while the method body runs
   or during any of any number of iterations by any callers - is the call itself, and then
   no level rejects it. *)
Theorem C12_iter_calls_allowed :
  forall (l : layer) (ls : list layer) (evs : list yld) (o : op) (cs : list cons) (o' : op),
    is_iter_op o = true ->
    In o' (fst (irun (l :: ls) evs o cs) ++ concat (map snd (snd (irun (l :: ls) evs o cs)))) ->
    o' = o /\ stack_denial (l :: ls) o = None.
Proof. exact irun_calls. Qed.
Print Assumptions C12_iter_calls_allowed.

(* Tags / Referrers allowed by every level: the very call and the very Seq of the innermost
   registry. *)
Theorem C12_iter_allowed_is_identity :
  forall (ls : list layer) (evs : list yld) (o : op),
    is_list_op o = true -> stack_denial ls o = None -> istack ls evs o = ibottom evs o.
Proof. exact iter_allowed_list. Qed.
Print Assumptions C12_iter_allowed_is_identity.

(* Repositories allowed by every level, iterated any number of times by any callers: the
   method body calls nothing; every iteration calls the innermost Repositories once with
   the same argument and hands its caller the names every level lets be read, in order, up
   to the first error, then that error and nothing after it - cut after the first yield
   the caller answers "stop" to. *)
Theorem C12_iter_listing_under_every_caller :
  forall (l : layer) (ls : list layer) (evs : list yld) (start : bytes) (cs : list cons),
    star_denial (l :: ls) = None ->
    fst (irun (l :: ls) evs (Repositories start) cs) = [] /\
    Forall2 (fun c it =>
               i_got it = take_more c 0 (kept_upto_error (stack_keep (l :: ls)) evs) /\
               snd it = [Repositories start])
            cs (snd (irun (l :: ls) evs (Repositories start) cs)).
Proof. exact irun_allowed_repos. Qed.
Print Assumptions C12_iter_listing_under_every_caller.

(* A caller that answers "more" when it is handed the error, iterating twice the Seq of a
   rejected Tags call: the error each time, the tags never, the innermost registry not called. *)
Example C12_example_iter_rejected_carries_on :
  irun [checker_layer (fun r k => if beqb r (s "private") && akind_eqb k AccessList then Some ErrDenied else None)]
       [(s "v1", None); (s "v2", None)] (Tags (s "private") [])
       [Cons [] true None; Cons [] true (Some true)]
  = ([], [([([], Some ErrDenied)], 0%nat, []); ([([], Some ErrDenied)], 0%nat, [])]).
Proof. reflexivity. Qed.

(* The hypotheses are satisfiable by non-trivial values: a policy that rejects the target
   of a mount but not its source stops the call; one that rejects only another access kind
   lets it through to a backend that answers. *)
Example C12_example_denied :
  ac_step (fun r k => if beqb r (s "to") && akind_eqb k AccessWrite then Some ErrDenied else None)
          false (fun (st : nat) (o : op) => (S st, Ok RUnit)) 0%nat (MountBlob (s "from") (s "to") (s "d"))
  = (0%nat, Err ErrDenied, []).
Proof. reflexivity. Qed.

Example C12_example_allowed :
  ac_step (fun r k => if beqb r (s "to") && akind_eqb k AccessRead then Some ErrDenied else None)
          false (fun (st : nat) (o : op) => (S st, Ok RUnit)) 0%nat (MountBlob (s "from") (s "to") (s "d"))
  = (1%nat, Ok RUnit, [MountBlob (s "from") (s "to") (s "d")]).
Proof. reflexivity. Qed.

(* A checker that refuses repository listing, in front of a Select: the listing is refused
   and the backend is not asked, although Select by itself always permits listing. *)
Example C12_example_stack_listing_denied :
  stack_step [checker_layer (fun r k => if beqb r star && akind_eqb k AccessList then Some ErrDenied else None);
              select_layer (fun r => beqb r (s "public"))]
             (fun (st : nat) (o : op) => (S st, Ok (RList [s "public"; s "private"] None))) 0%nat (Repositories [])
  = (0%nat, Ok (RList [] (Some ErrDenied)), []).
Proof. reflexivity. Qed.

(* ... and the other way round the listing is filtered by both. *)
Example C12_example_stack_listing_filtered :
  stack_step [select_layer (fun r => negb (beqb r (s "private")));
              checker_layer (fun r k => if beqb r (s "hidden") && akind_eqb k AccessRead then Some ErrDenied else None)]
             (fun (st : nat) (o : op) => (S st, Ok (RList [s "public"; s "hidden"; s "private"] None))) 0%nat (Repositories [])
  = (1%nat, Ok (RList [s "public"] None), [Repositories []]).
Proof. reflexivity. Qed.
