(* C02  In-memory registry follows the reference registry semantics.
   Statements only; proofs live in Proofs/Mem*.v.  The implementation model is Model/Mem.v
   (ocimem, implementation-shaped), the reference registry is Model/MemSpec.v (an event log:
   per repository a set of blobs, a set of manifests, tag bindings), the acceptance
   relation [res_ok] and the history judgements are in Model/MemRel.v.  Hash, digest /
   repository / tag validity and the JSON decoders are universally quantified. *)
From Coq Require Import String.
From OCI Require Import Model.Mem Model.MemSpec Model.MemRel Model.MemAccept Proofs.MemInv Proofs.MemRefine Proofs.MemHistory
  Proofs.MemFrame Proofs.MemCorollaries Model.NameSpec Model.Ref Proofs.NameSpec.

(* Refinement over all histories, both configurations: when the manifests pushed in the
   history do not form a digest cycle (none of them contains, directly or through the
   others, its own digest - every history anyone can produce short of constructing a sha256
   cycle) every answer of every operation is the reference registry's answer - same success /
   failure, OCI code, descriptor, bytes, listing - up to the slack the property grants for
   repositories without content.  In particular no answer is a panic or a search that ran
   out of fuel. *)
Theorem C02_refines :
  forall hash valid_digest valid_repo valid_tag decode_image decode_index cfg h,
    acyclic_on (pushed_manifest h) hash decode_image decode_index ->
    hist_ok (step hash valid_digest valid_repo valid_tag decode_image decode_index cfg)
            (sstep hash valid_digest valid_repo valid_tag decode_image decode_index cfg)
            init sinit h.
Proof. exact refines. Qed.
Print Assumptions C02_refines.

(* The idealised-hash form: a hash under which no byte strings at all form a digest cycle. *)
Theorem C02_refines_ideal_hash :
  forall hash valid_digest valid_repo valid_tag decode_image decode_index cfg,
    acyclic hash decode_image decode_index ->
    forall h,
      hist_ok (step hash valid_digest valid_repo valid_tag decode_image decode_index cfg)
              (sstep hash valid_digest valid_repo valid_tag decode_image decode_index cfg)
              init sinit h.
Proof. intros. now apply refines_ideal. Qed.
Print Assumptions C02_refines_ideal_hash.

(* The same without any hypothesis on the hash: every answer is the reference registry's
   up to the first point at which one of the two reachability searches runs out of fuel
   (only possible when stored manifests form a digest cycle, where the Go code recurses
   without end). *)
Theorem C02_refines_upto_fuel :
  forall hash valid_digest valid_repo valid_tag decode_image decode_index cfg h,
    hist_ok_upto_fuel (step hash valid_digest valid_repo valid_tag decode_image decode_index cfg)
                      (sstep hash valid_digest valid_repo valid_tag decode_image decode_index cfg)
                      init sinit h.
Proof. exact refines_upto_fuel. Qed.
Print Assumptions C02_refines_upto_fuel.

(* The acyclicity hypothesis is satisfiable by a registry with non-trivial index manifests. *)
Example C02_acyclic_satisfiable : exists hash decode_image decode_index,
  acyclic hash decode_image decode_index /\ exists data m, decode_index data = Some m /\ ix_manifests m <> [].
Proof.
  eexists _, _, _. split; [exact acyclic_example|].
  exists [1%N], {| ix_manifests := [{| d_media := MT_INDEX; d_digest := []; d_size := 1; d_artifact := [] |}]; ix_subject := None |}.
  split; [reflexivity | discriminate].
Qed.

(* One step: related states stay related and the answer is accepted (the simulation the
   history theorems are lifted from). *)
Theorem C02_simulation_step :
  forall hash valid_digest valid_repo valid_tag decode_image decode_index cfg st sp o,
    Rel st sp -> Inv hash decode_image decode_index st ->
    (fuelled o = true ->
     definite (snd (step hash valid_digest valid_repo valid_tag decode_image decode_index cfg st o)) /\
     definite (snd (sstep hash valid_digest valid_repo valid_tag decode_image decode_index cfg sp o))) ->
    step_ok (slog sp) o
      (step hash valid_digest valid_repo valid_tag decode_image decode_index cfg st o)
      (sstep hash valid_digest valid_repo valid_tag decode_image decode_index cfg sp o).
Proof. exact sim_step. Qed.
Print Assumptions C02_simulation_step.

(* The representation invariant holds in every reachable state: map keys are duplicate-free,
   everything stored under a digest hashes to it, every stored manifest decodes under its
   stored media type and its cached subject is the subject its content names, every upload
   session belongs to an existing repository. *)
Theorem C02_invariant_reachable :
  forall hash valid_digest valid_repo valid_tag decode_image decode_index cfg h,
    Inv hash decode_image decode_index
        (final (step hash valid_digest valid_repo valid_tag decode_image decode_index cfg) init h).
Proof. exact inv_reachable. Qed.
Print Assumptions C02_invariant_reachable.

Section Named.
  Variable hash : bytes -> bytes.
  Variables valid_digest valid_repo valid_tag : bytes -> bool.
  Variable decode_image : bytes -> option image_manifest.
  Variable decode_index : bytes -> option index_manifest.
  Variable cfg : config.
  Local Notation step := (step hash valid_digest valid_repo valid_tag decode_image decode_index cfg).
  Local Notation Inv := (Inv hash decode_image decode_index).

  (* Pushed things are found until deleted: after a successful PushBlob, whatever operations
     follow except DeleteBlob of that digest in that repository, GetBlob finds content
     hashing to the digest. *)
  Theorem C02_blob_found_until_deleted : forall st r de c h,
    Inv st -> is_ok (snd (step st (PushBlob r de c))) = true ->
    Forall (fun o => o <> DeleteBlob r (d_digest de)) h ->
    exists de' data,
      snd (step (final step (fst (step st (PushBlob r de c))) h) (GetBlob r (d_digest de))) = Ok (RRead de' data) /\
      d_digest de' = d_digest de /\ hash data = d_digest de /\ d_size de' = blen data.
  Proof. exact (blob_found_until_deleted hash valid_digest valid_repo valid_tag decode_image decode_index cfg). Qed.

  (* ... and it is exactly the pushed bytes and media type as long as nothing else is stored
     under (or deleted from) that repository and digest. *)
  Theorem C02_blob_found_exact : forall st r de c h,
    is_ok (snd (step st (PushBlob r de c))) = true ->
    Forall (fun o => touches_blob o r (d_digest de) = false) h ->
    snd (step (final step (fst (step st (PushBlob r de c))) h) (GetBlob r (d_digest de))) =
      Ok (RRead (sdesc (d_media de) (d_digest de) c) c).
  Proof. exact (blob_found_exact hash valid_digest valid_repo valid_tag decode_image decode_index cfg). Qed.

  (* Deleted things are not found: after a successful DeleteBlob, until something is stored
     again under that repository and digest, GetBlob fails with BLOB_UNKNOWN (or NAME_UNKNOWN). *)
  Theorem C02_blob_deleted_not_found : forall st r d h,
    is_ok (snd (step st (DeleteBlob r d))) = true ->
    Forall (fun o => touches_blob o r d = false) h ->
    exists e, snd (step (final step (fst (step st (DeleteBlob r d))) h) (GetBlob r d)) = Err e /\
              (e_code e = BLOB_UNKNOWN \/ e_code e = NAME_UNKNOWN).
  Proof. exact (blob_deleted_not_found hash valid_digest valid_repo valid_tag decode_image decode_index cfg). Qed.

  (* The same for manifests (a push that was answered from an existing immutable tag stores
     nothing, hence the side condition). *)
  Theorem C02_manifest_found_until_deleted : forall st r t data media h,
    Inv st -> is_ok (snd (step st (PushManifest r t data media))) = true ->
    (immutable_tags cfg = false \/ itag st r t = None) ->
    Forall (fun o => o <> DeleteManifest r (hash data)) h ->
    exists de' data',
      snd (step (final step (fst (step st (PushManifest r t data media))) h) (GetManifest r (hash data))) =
        Ok (RRead de' data') /\
      d_digest de' = hash data /\ hash data' = hash data /\ d_size de' = blen data'.
  Proof. exact (manifest_found_until_deleted hash valid_digest valid_repo valid_tag decode_image decode_index cfg). Qed.

  Theorem C02_manifest_found_exact : forall st r t data media h,
    is_ok (snd (step st (PushManifest r t data media))) = true ->
    (immutable_tags cfg = false \/ itag st r t = None) ->
    Forall (fun o => touches_manifest hash o r (hash data) = false) h ->
    snd (step (final step (fst (step st (PushManifest r t data media))) h) (GetManifest r (hash data))) =
      Ok (RRead (sdesc media (hash data) data) data).
  Proof. exact (manifest_found_exact hash valid_digest valid_repo valid_tag decode_image decode_index cfg). Qed.

  Theorem C02_manifest_deleted_not_found : forall st r d h,
    is_ok (snd (step st (DeleteManifest r d))) = true ->
    Forall (fun o => touches_manifest hash o r d = false) h ->
    exists e, snd (step (final step (fst (step st (DeleteManifest r d))) h) (GetManifest r d)) = Err e /\
              (e_code e = MANIFEST_UNKNOWN \/ e_code e = NAME_UNKNOWN).
  Proof. exact (manifest_deleted_not_found hash valid_digest valid_repo valid_tag decode_image decode_index cfg). Qed.

  (* A tag resolves to the last manifest pushed under it: after a successful tagged push, and
     any operations that neither push under nor delete that tag, ResolveTag answers the
     descriptor the push returned, which names the pushed content and media type. *)
  Theorem C02_tag_resolves_to_last_push : forall st r t data media de h,
    snd (step st (PushManifest r t data media)) = Ok (RDesc de) -> t <> [] ->
    Forall (fun o => touches_tag o r t = false) h ->
    snd (step (final step (fst (step st (PushManifest r t data media))) h) (ResolveTag r t)) = Ok (RDesc de) /\
    d_digest de = hash data /\ d_media de = media.
  Proof. exact (tag_resolves_to_last_push hash valid_digest valid_repo valid_tag decode_image decode_index cfg). Qed.

  Theorem C02_tag_deleted_not_found : forall st r t h,
    is_ok (snd (step st (DeleteTag r t))) = true ->
    Forall (fun o => touches_tag o r t = false) h ->
    exists e, snd (step (final step (fst (step st (DeleteTag r t))) h) (ResolveTag r t)) = Err e /\
              (e_code e = MANIFEST_UNKNOWN \/ e_code e = NAME_UNKNOWN).
  Proof. exact (tag_deleted_not_found hash valid_digest valid_repo valid_tag decode_image decode_index cfg). Qed.

  (* A manifest is accepted exactly when it has a media type and a valid digest and, for the
     OCI image and index types, decodes, every descriptor in it is well-formed, and every
     layer, the config and every child manifest is present in the repository; the subject
     may dangle.  (Valid names; not stopped by tag immutability.) *)
  Theorem C02_manifest_accepted_iff : forall st r t data media,
    valid_repo r = true ->
    (t = [] \/ valid_tag t = true) ->
    (immutable_tags cfg = true ->
       (t = [] \/ itag st r t = None) /\ (forall b, iman st r (hash data) = Some b -> b_media b = media)) ->
    (is_ok (snd (step st (PushManifest r t data media))) = true <->
     media <> [] /\ valid_digest (hash data) = true /\
     wf_present valid_digest decode_image decode_index st r media data).
  Proof. exact (manifest_accepted_iff hash valid_digest valid_repo valid_tag decode_image decode_index cfg). Qed.

  (* Referrers are exactly the stored manifests whose content names the digest as subject,
     in ascending digest order. *)
  Theorem C02_referrers_exact : forall st r rp d art,
    Inv st -> get_repo st r = Some rp ->
    exists l, snd (step st (Referrers r d art)) = Ok (RDescs l None) /\
              ssorted (map d_digest l) /\
              forall de, In de l <->
                         exists dm b, iman st r dm = Some b /\
                                      subject_of decode_image decode_index (b_media b) (b_data b) = d /\
                                      de = blob_desc hash b.
  Proof. exact (referrers_exact hash valid_digest valid_repo valid_tag decode_image decode_index cfg). Qed.

  (* Listings are the live keys strictly after the start point, ascending, duplicate-free. *)
  Theorem C02_tags_listing : forall st r rp start,
    Inv st -> get_repo st r = Some rp ->
    exists l, snd (step st (Tags r start)) = Ok (RList l None) /\ ssorted l /\
              forall t, In t l <-> itag st r t <> None /\ blt start t.
  Proof. exact (tags_listing hash valid_digest valid_repo valid_tag decode_image decode_index cfg). Qed.

  Theorem C02_repositories_listing : forall st start,
    Inv st ->
    exists l, snd (step st (Repositories start)) = Ok (RList l None) /\ ssorted l /\
              forall r, In r l <-> get_repo st r <> None /\ blt start r.
  Proof. exact (repositories_listing hash valid_digest valid_repo valid_tag decode_image decode_index cfg). Qed.

  (* Documented codes: a PushBlob whose digest / size does not match the content answers
     DIGEST_INVALID / SIZE_INVALID (finding 17, repaired), an invalid repository name answers
     NAME_INVALID on every operation that would create the repository, tag immutability
     answers DENIED.  (Unknown repository / blob / manifest codes: the _not_found theorems
     and the refinement.) *)
  Theorem C02_push_blob_codes : forall st r de c,
    valid_digest (d_digest de) = true ->
    (hash c <> d_digest de ->
       exists e, step st (PushBlob r de c) = (st, Err e) /\ e_code e = DIGEST_INVALID) /\
    (hash c = d_digest de -> d_size de <> blen c ->
       exists e, step st (PushBlob r de c) = (st, Err e) /\ e_code e = SIZE_INVALID) /\
    (hash c = d_digest de -> d_size de = blen c -> d_media de <> [] -> valid_repo r = false ->
       exists e, step st (PushBlob r de c) = (st, Err e) /\ e_code e = NAME_INVALID).
  Proof. exact (push_blob_codes hash valid_digest valid_repo valid_tag decode_image decode_index cfg). Qed.

  Theorem C02_invalid_name_codes : forall st r,
    valid_repo r = false ->
    (forall t data media, snd (step st (PushManifest r t data media)) = Err e_name_invalid) /\
    (forall hint, snd (step st (PushBlobChunked r hint)) = Err e_name_invalid) /\
    (forall id off hint, snd (step st (PushBlobChunkedResume r id off hint)) = Err e_name_invalid) /\
    (forall from d, snd (step st (MountBlob from r d)) = Err e_name_invalid).
  Proof. exact (invalid_name_codes hash valid_digest valid_repo valid_tag decode_image decode_index cfg). Qed.

  Theorem C02_immutable_denied : forall st r rp t cur,
    immutable_tags cfg = true -> get_repo st r = Some rp -> alookup t (tags rp) = Some cur ->
    (exists e, snd (step st (DeleteTag r t)) = Err e /\ e_code e = DENIED) /\
    (forall data media, valid_repo r = true -> valid_tag t = true -> t <> [] ->
       (hash data <> d_digest cur \/ d_media cur <> media) ->
       exists e, snd (step st (PushManifest r t data media)) = Err e /\ e_code e = DENIED).
  Proof. exact (immutable_denied hash valid_digest valid_repo valid_tag decode_image decode_index cfg). Qed.
End Named.
Print Assumptions C02_blob_found_until_deleted.
Print Assumptions C02_blob_found_exact.
Print Assumptions C02_blob_deleted_not_found.
Print Assumptions C02_manifest_found_until_deleted.
Print Assumptions C02_manifest_found_exact.
Print Assumptions C02_manifest_deleted_not_found.
Print Assumptions C02_tag_resolves_to_last_push.
Print Assumptions C02_tag_deleted_not_found.
Print Assumptions C02_manifest_accepted_iff.
Print Assumptions C02_referrers_exact.
Print Assumptions C02_tags_listing.
Print Assumptions C02_repositories_listing.
Print Assumptions C02_push_blob_codes.
Print Assumptions C02_invalid_name_codes.
Print Assumptions C02_immutable_denied.

(* The hypotheses of the corollaries are satisfiable: a concrete registry (identity hash,
   every name valid, nothing decodes) in which a pushed blob is found, a tagged opaque
   manifest is pushed, resolved, and the tag deleted. *)
Example C02_nontrivial_instance :
  let stp := step (fun d => d) (fun _ => true) (fun _ => true) (fun _ => true) (fun _ => None) (fun _ => None)
                  {| immutable_tags := false |} in
  let de := {| d_media := MT_OCTET; d_digest := s "x"; d_size := 1; d_artifact := [] |} in
  snd (run stp init [PushBlob (s "r") de (s "x"); GetBlob (s "r") (s "x");
                     PushManifest (s "r") (s "t") (s "m") (s "a/b"); ResolveTag (s "r") (s "t");
                     DeleteTag (s "r") (s "t"); ResolveTag (s "r") (s "t")]) =
  [Ok (RDesc de); Ok (RRead de (s "x"));
   Ok (RDesc (sdesc (s "a/b") (s "m") (s "m"))); Ok (RDesc (sdesc (s "a/b") (s "m") (s "m")));
   Ok RUnit; Err e_manifest_unknown].
Proof. vm_compute. reflexivity. Qed.

(* Name validity.  The theorems above hold for every validity predicate; the correspondence
   runs both models with the grammars of the specifications (Model/NameSpec.v), not with
   what the library's validators answer.  The three statements below say that the model of
   those validators as they are now (Model/Ref.v: ociref.IsValidRepository, IsValidTag,
   go-digest's Validate with every registered hash linked) accepts exactly these grammars,
   for every string: on the unchanged library nothing is lost by not asking the validators,
   and a validator whose verdict changes on any name is at variance with what the C02 models
   are run with. *)
Theorem C02_names_repository :
  forall w, is_valid_repository w = Ok (spec_valid_repo w).
Proof. exact is_valid_repository_is_spec. Qed.

Theorem C02_names_tag :
  forall w, is_valid_tag w = Ok (spec_valid_tag w).
Proof. exact is_valid_tag_is_spec. Qed.

Theorem C02_names_digest :
  forall d, is_valid_digest (fun _ => true) d = Ok (spec_valid_digest d).
Proof. exact is_valid_digest_is_spec. Qed.

Print Assumptions C02_names_repository.
Print Assumptions C02_names_tag.
Print Assumptions C02_names_digest.
