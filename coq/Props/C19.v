(* C19  Credential lookup from config files is deterministic with fixed precedence.
   Statements only; proofs live in Proofs/AuthFile.v (and Base/Base64.v for the codec) and, for
   the real helper runner (ExecHelperWithEnv, Model/AuthExec.v), in Proofs/AuthExec.v.

   Vocabulary (Model/AuthFile.v).  [doc] is what json.Unmarshal delivers (unique keys, no
   derivedFrom: [wf_auths]).  [sched] is the sequence of keys the statement
   "for addr, ac := range f.Auths" produces while the loop body extends the map; [valid_sched]
   is all that Go promises about it: every key present before the loop exactly once, in any
   order; keys created by the loop anywhere, any number of times, or never.  [run] is the
   helper runner (any function).  [observe] projects a lookup result to (entry, error class):
   no error prose.  [ref_lookup] / [ref_table] (Proofs/AuthFile.v) read the answer off the
   DOCUMENT without any loop or order. *)
From Coq Require Import String.
From OCI Require Import Model.AuthFile Proofs.AuthFile Model.AuthExec Proofs.AuthExec.
From Coq Require Import Permutation.

(* Determinism, part 1: whatever order the map iteration takes and whichever derived keys it
   produces or skips, loading succeeds or fails alike, and after a successful load every lookup
   gives the same entry, the same error class and the same calls to the helper runner. *)
Theorem C19_order_independent : forall doc s1 s2,
  wf_auths (cd_auths doc) -> valid_sched (cd_auths doc) s1 -> valid_sched (cd_auths doc) s2 ->
  match decode_config_file s1 doc, decode_config_file s2 doc with
  | Ok c1, Ok c2 =>
      forall run h, observe (entry_for_registry c1 run h) = observe (entry_for_registry c2 run h)
                    /\ runner_calls c1 h = runner_calls c2 h
  | Err _, Err _ => True
  | _, _ => False
  end.
Proof. exact order_independent. Qed.
Print Assumptions C19_order_independent.

(* Determinism, part 2 (the function itself): after a load under any schedule the observable
   result of a lookup is [ref_lookup doc run h], a closed-form function of the file contents and
   the helper's answer: per-host helper, else default store (falling back to the table when its
   binary is missing), else the table = the member keyed by the host, else the unique member
   whose URL-form key names the host, failure when there are several.  Lookups do not change the
   configuration (entry_for_registry is a function of it), so their order is immaterial. *)
Theorem C19_lookup_function_of_document : forall sched doc c run,
  wf_auths (cd_auths doc) -> valid_sched (cd_auths doc) sched ->
  decode_config_file sched doc = Ok c ->
  forall h, observe (entry_for_registry c run h) = ref_lookup doc run h
            /\ runner_calls c h = runner_calls doc h.
Proof. exact lookup_ref. Qed.
Print Assumptions C19_lookup_function_of_document.

(* Loading fails exactly when some member's auth field does not decode - for every schedule -
   and never panics. *)
Theorem C19_load_fails_iff : forall sched doc,
  wf_auths (cd_auths doc) -> valid_sched (cd_auths doc) sched ->
  ((exists e, decode_config_file sched doc = Err e)
   <-> exists k a, map_get k (cd_auths doc) = Some a /\ decoded a = None).
Proof. exact decode_fails_iff. Qed.
Print Assumptions C19_load_fails_iff.

Theorem C19_load_no_panic : forall sched doc,
  wf_auths (cd_auths doc) -> valid_sched (cd_auths doc) sched ->
  match decode_config_file sched doc with Ok _ | Err _ => True | _ => False end.
Proof. exact decode_config_file_shape. Qed.
Print Assumptions C19_load_no_panic.

(* The schedules "a permutation of the original keys, each URL-form key followed or not by its
   derived key" and "document order, derived keys never produced" (the one the correspondence
   check runs the model with) are valid. *)
Theorem C19_go_schedules_valid : forall m0 perm visit,
  Permutation perm (keys m0) -> valid_sched m0 (go_sched m0 perm visit).
Proof. exact go_sched_valid. Qed.
Print Assumptions C19_go_schedules_valid.

Theorem C19_document_order_valid : forall m0, valid_sched m0 (keys m0).
Proof. exact doc_order_valid. Qed.
Print Assumptions C19_document_order_valid.

(* ---------- precedence: EntryForRegistry on ANY configuration ---------- *)

(* A per-host helper (non-empty name) is the answer whatever it returns - credentials, a token,
   nothing, "binary missing", another error - and it is the only call made: neither the default
   store nor the table is consulted. *)
Theorem C19_precedence_per_host_helper : forall c run h hp,
  map_get h (cd_helpers c) = Some hp -> hp <> [] ->
  entry_for_registry c run h = helper_answer (run hp h) /\ runner_calls c h = [(hp, h)].
Proof. exact precedence_per_host. Qed.
Print Assumptions C19_precedence_per_host_helper.

(* No per-host helper: the default store is the answer (also when it has no credentials for
   the host) unless its binary is missing. *)
Theorem C19_precedence_store_over_table : forall c run h,
  map_get h (cd_helpers c) = None -> cd_store c <> [] -> snd (run (cd_store c) h) <> HMissing ->
  entry_for_registry c run h = helper_answer (run (cd_store c) h) /\ runner_calls c h = [(cd_store c, h)].
Proof. exact precedence_store. Qed.
Print Assumptions C19_precedence_store_over_table.

(* A missing default helper falls back to the auths table. *)
Theorem C19_missing_store_falls_back : forall c run h,
  map_get h (cd_helpers c) = None -> cd_store c <> [] -> snd (run (cd_store c) h) = HMissing ->
  entry_for_registry c run h = table_lookup c h /\ runner_calls c h = [(cd_store c, h)].
Proof. exact precedence_store_missing. Qed.
Print Assumptions C19_missing_store_falls_back.

(* No helper at all (or a per-host helper with an empty name): the table, and no call. *)
Theorem C19_no_helper_table : forall c run h,
  map_get h (cd_helpers c) = None -> cd_store c = [] ->
  entry_for_registry c run h = table_lookup c h /\ runner_calls c h = [].
Proof. exact precedence_no_helper. Qed.
Print Assumptions C19_no_helper_table.

Theorem C19_empty_per_host_helper_table : forall c run h,
  map_get h (cd_helpers c) = Some [] ->
  entry_for_registry c run h = table_lookup c h /\ runner_calls c h = [].
Proof. exact precedence_per_host_empty. Qed.
Print Assumptions C19_empty_per_host_helper_table.

(* ---------- the table rules, for every schedule ---------- *)

(* An explicit host entry wins over entries derived from URL-form keys, however many there are
   and wherever the iteration meets them: the table answer is the explicit member's. *)
Theorem C19_explicit_over_derived : forall sched doc c,
  wf_auths (cd_auths doc) -> valid_sched (cd_auths doc) sched -> decode_config_file sched doc = Ok c ->
  forall h a, map_get h (cd_auths doc) = Some a -> observe (table_lookup c h) = ref_entry a.
Proof. exact explicit_over_derived. Qed.
Print Assumptions C19_explicit_over_derived.

(* Exactly one URL-form key names the host (and no explicit entry): that member's answer. *)
Theorem C19_single_url_key : forall sched doc c,
  wf_auths (cd_auths doc) -> valid_sched (cd_auths doc) sched -> decode_config_file sched doc = Ok c ->
  forall h k a, map_get h (cd_auths doc) = None -> url_entries (cd_auths doc) h = [(k, a)] ->
  observe (table_lookup c h) = ref_entry a.
Proof. exact single_url_key. Qed.
Print Assumptions C19_single_url_key.

(* Several URL-form keys for one host (and no explicit entry): the lookup fails with the zero
   entry; none of them is picked. *)
Theorem C19_collision_fails : forall sched doc c,
  wf_auths (cd_auths doc) -> valid_sched (cd_auths doc) sched -> decode_config_file sched doc = Ok c ->
  forall h, map_get h (cd_auths doc) = None -> (2 <= length (url_entries (cd_auths doc) h))%nat ->
  observe (table_lookup c h) = (zero_entry, EOther).
Proof. exact collision_fails. Qed.
Print Assumptions C19_collision_fails.

(* Neither: no information, no error. *)
Theorem C19_no_entry : forall sched doc c,
  wf_auths (cd_auths doc) -> valid_sched (cd_auths doc) sched -> decode_config_file sched doc = Ok c ->
  forall h, map_get h (cd_auths doc) = None -> url_entries (cd_auths doc) h = [] ->
  observe (table_lookup c h) = (zero_entry, ENone).
Proof. exact no_entry. Qed.
Print Assumptions C19_no_entry.

(* ---------- the auth field ---------- *)

(* base64 (StdEncoding, as Go decodes it) round trip for every byte string. *)
Theorem C19_base64_roundtrip : forall l, is_bytes l -> b64_decode (b64_encode l) = Some l.
Proof. exact b64_roundtrip. Qed.
Print Assumptions C19_base64_roundtrip.

(* auth = base64(user ":" password) decodes to exactly (user, password) when the user is
   non-empty without ':' and the password neither ends NOR STARTS with NUL. *)
Theorem C19_auth_roundtrip_partial : forall u pw,
  is_bytes u -> is_bytes pw -> u <> [] -> ~ In 58 u ->
  hd_error pw <> Some 0 -> hd_error (rev pw) <> Some 0 ->
  decode_auth (b64_encode (u ++ 58 :: pw)) = Ok (u, pw).
Proof. exact decode_auth_roundtrip. Qed.
Print Assumptions C19_auth_roundtrip_partial.

(* What it decodes to with no condition on the password: NULs trimmed at both ends. *)
Theorem C19_auth_decodes_trimmed : forall u pw,
  is_bytes u -> is_bytes pw -> u <> [] -> ~ In 58 u ->
  decode_auth (b64_encode (u ++ 58 :: pw)) = Ok (u, trim_byte 0 pw).
Proof. exact decode_auth_encoded. Qed.
Print Assumptions C19_auth_decodes_trimmed.

(* The property as written excludes only a TRAILING NUL; with that hypothesis alone the round
   trip is false: user "u", password NUL "p" decodes to password "p" (known finding
   C19-auth-leading-nul, replayed on the real code by the harness stream auth-leading-nul). *)
Theorem C19_auth_roundtrip_refuted :
  exists u pw, is_bytes u /\ is_bytes pw /\ u <> [] /\ ~ In 58 u /\ hd_error (rev pw) <> Some 0 /\
               decode_auth (b64_encode (u ++ 58 :: pw)) <> Ok (u, pw).
Proof. exact decode_auth_leading_nul_refuted. Qed.
Print Assumptions C19_auth_roundtrip_refuted.

(* decodeAuth returns or fails; it has no panic site. *)
Theorem C19_decode_auth_total : forall a, match decode_auth a with Ok _ | Err _ => True | _ => False end.
Proof. exact decode_auth_shape. Qed.
Print Assumptions C19_decode_auth_total.

(* ---------- the hypotheses are satisfiable by a non-trivial document ---------- *)

(* Two URL-form keys for host r (collision), an explicit entry r2 beside a URL-form key for r2,
   one URL-form key for b carrying an auth field.  Loaded in document order without visiting
   derived keys, and in reverse order visiting every derived key: both schedules are valid, both
   loads succeed, the two maps differ, and the lookups agree - r fails, r2 is the explicit
   entry, b is the decoded auth field. *)
Example C19_example_two_schedules :
  let mk k u pw au := (k, {| ac_derived := []; ac_user := u; ac_pass := pw; ac_auth := au; ac_idtok := []; ac_regtok := [] |}) in
  let doc := {| cd_auths := [mk (s "https://r/v1") (s "u1") (s "p1") [];
                             mk (s "http://r/v2") (s "u2") (s "p2") [];
                             mk (s "r2") (s "explicit") (s "ep") [];
                             mk (s "https://r2/") (s "derived") (s "dp") [];
                             mk (s "http://b") (s "ignored") (s "ignored") (b64_encode (s "user:pass"))];
                cd_store := []; cd_helpers := [] |} in
  let s1 := keys (cd_auths doc) in
  let s2 := go_sched (cd_auths doc) (rev (keys (cd_auths doc))) (fun _ => true) in
  let run : runner_t := fun _ _ => (zero_entry, HOther) in
  wf_auths (cd_auths doc) /\ valid_sched (cd_auths doc) s1 /\ valid_sched (cd_auths doc) s2 /\ s1 <> s2 /\
  match decode_config_file s1 doc, decode_config_file s2 doc with
  | Ok c1, Ok c2 =>
      cd_auths c1 <> cd_auths c2 /\
      map (fun h => observe (entry_for_registry c1 run h)) [s "r"; s "r2"; s "b"; s "zz"]
      = [(zero_entry, EOther);
         ({| ce_refresh := []; ce_access := []; ce_user := s "explicit"; ce_pass := s "ep" |}, ENone);
         ({| ce_refresh := []; ce_access := []; ce_user := s "user"; ce_pass := s "pass" |}, ENone);
         (zero_entry, ENone)] /\
      map (fun h => observe (entry_for_registry c2 run h)) [s "r"; s "r2"; s "b"; s "zz"]
      = map (fun h => observe (entry_for_registry c1 run h)) [s "r"; s "r2"; s "b"; s "zz"]
  | _, _ => False
  end.
Proof.
  cbv zeta. split; [|split; [|split; [|split]]].
  - split.
    + apply NoDup_count_occ' with (decA := bytes_eq_dec). intros x Hx.
      cbn in Hx. repeat (destruct Hx as [<-|Hx]; [vm_compute; reflexivity|]). destruct Hx.
    + repeat constructor.
  - apply doc_order_valid.
  - apply go_sched_valid. symmetry. apply Permutation_rev.
  - vm_compute. discriminate.
  - vm_compute. repeat split. discriminate.
Qed.

(* Precedence on that document with a per-host helper for r2 and a default store whose binary
   is missing: r2 is answered by its helper (an error here) although an explicit table entry
   exists; b falls back to the table. *)
Example C19_example_precedence :
  let mk k u pw := (k, {| ac_derived := []; ac_user := u; ac_pass := pw; ac_auth := []; ac_idtok := []; ac_regtok := [] |}) in
  let c := {| cd_auths := [mk (s "r2") (s "explicit") (s "ep"); mk (s "b") (s "bu") (s "bp")];
              cd_store := s "store"; cd_helpers := [(s "r2", s "perhost")] |} in
  let run : runner_t := fun helper _ => if beqb helper (s "perhost") then (zero_entry, HOther) else (zero_entry, HMissing) in
  observe (entry_for_registry c run (s "r2")) = (zero_entry, EOther) /\
  runner_calls c (s "r2") = [(s "perhost", s "r2")] /\
  observe (entry_for_registry c run (s "b"))
  = ({| ce_refresh := []; ce_access := []; ce_user := s "bu"; ce_pass := s "bp" |}, ENone) /\
  runner_calls c (s "b") = [(s "store", s "b")].
Proof. vm_compute. repeat split. Qed.

(* ---------- the real helper runner (nil HelperRunner: ExecHelperWithEnv) ----------

   [path] is what the operating system holds: the directories of PATH in order, each a listing
   file name -> kind of file ([pfile]); [unjson] is json.Unmarshal on the helper's output (any
   function); [real_runner unjson path] is the model of ExecHelperWithEnv over them. *)

(* The runner reports "helper not found" exactly when no directory of PATH holds an executable
   regular file docker-credential-NAME: a directory of that name, a file without an execute bit
   or a dangling link do not count as the helper, and a file that is executable but cannot be
   started does. *)
Theorem C19_exec_missing_iff : forall unjson path helper host,
  snd (real_runner unjson path helper host) = HMissing <->
  (forall d f, In d path -> map_get (helper_prefix ++ helper) d = Some f -> is_program f = false).
Proof.
  intros. rewrite exec_missing_iff. apply look_path_none_iff.
Qed.
Print Assumptions C19_exec_missing_iff.

(* LookPath is the first program of that name on PATH. *)
Theorem C19_exec_look_path_first : forall path file,
  look_path path file = hd_error (programs_named path file).
Proof. exact look_path_first. Qed.
Print Assumptions C19_exec_look_path_first.

(* A helper that is installed but cannot be started is an error of the helper, not a missing
   helper, and carries no credentials. *)
Theorem C19_exec_unstartable_is_other_error : forall unjson path helper host,
  look_path path (helper_prefix ++ helper) = Some FBroken ->
  real_runner unjson path helper host = (zero_entry, HOther).
Proof. exact exec_unstartable. Qed.
Print Assumptions C19_exec_unstartable_is_other_error.

(* A helper that starts: exit 0 with credentials = those credentials (user name <token>: a
   refresh token); exit 0 with anything the decoder rejects = other error; non-zero exit with
   the not-found message (surrounding white space ignored) = no information, no error; any other
   non-zero exit = other error.  Never "helper not found". *)
Theorem C19_exec_program_answer : forall unjson path helper host ans dflt,
  look_path path (helper_prefix ++ helper) = Some (FProg ans dflt) ->
  real_runner unjson path helper host = answer_result unjson (answer_for ans dflt host)
  /\ snd (answer_result unjson (answer_for ans dflt host)) <> HMissing.
Proof.
  intros. split; [now apply exec_program | apply answer_result_not_missing].
Qed.
Print Assumptions C19_exec_program_answer.

(* An error of the real runner never comes with credentials. *)
Theorem C19_exec_error_zero_entry : forall unjson path helper host,
  snd (real_runner unjson path helper host) <> HNil -> fst (real_runner unjson path helper host) = zero_entry.
Proof. exact exec_error_zero_entry. Qed.
Print Assumptions C19_exec_error_zero_entry.

(* The precedence clause end to end with the real runner.  No per-host helper, a default store
   named: without a program of that name on PATH the auths table answers ... *)
Theorem C19_exec_store_absent_falls_back : forall unjson path c h,
  map_get h (cd_helpers c) = None -> cd_store c <> [] ->
  look_path path (helper_prefix ++ cd_store c) = None ->
  entry_for_registry c (real_runner unjson path) h = table_lookup c h.
Proof. exact exec_store_absent_falls_back. Qed.
Print Assumptions C19_exec_store_absent_falls_back.

(* ... with one, the store answers whatever it is and does - the table is not consulted ... *)
Theorem C19_exec_store_present_wins : forall unjson path c h f,
  map_get h (cd_helpers c) = None -> cd_store c <> [] ->
  look_path path (helper_prefix ++ cd_store c) = Some f ->
  entry_for_registry c (real_runner unjson path) h = helper_answer (real_runner unjson path (cd_store c) h).
Proof. exact exec_store_present_wins. Qed.
Print Assumptions C19_exec_store_present_wins.

(* ... in particular a store that cannot be started makes the lookup fail with the zero entry
   although the table may know the host. *)
Theorem C19_exec_store_unstartable_is_error : forall unjson path c h,
  map_get h (cd_helpers c) = None -> cd_store c <> [] ->
  look_path path (helper_prefix ++ cd_store c) = Some FBroken ->
  entry_for_registry c (real_runner unjson path) h = (zero_entry, Some (LEHelper HOther)).
Proof. exact exec_store_unstartable_is_error. Qed.
Print Assumptions C19_exec_store_unstartable_is_error.

(* The hypotheses are satisfiable: PATH = [a directory of that name; a file without execute bit;
   a file that cannot be started; a working helper]: the third one is the helper, the lookup of a
   host the table knows fails; without it the working helper answers; with only the first two
   the table answers. *)
Example C19_example_exec :
  let name := helper_prefix ++ s "store" in
  let prog := FProg [] {| pe_exit0 := true; pe_out := s "ignored" |} in
  let unjson : bytes -> option (bytes * bytes) := fun _ => Some (s "hu", s "hp") in
  let c := {| cd_auths := [(s "r", {| ac_derived := []; ac_user := s "tu"; ac_pass := s "tp"; ac_auth := [];
                                      ac_idtok := []; ac_regtok := [] |})];
              cd_store := s "store"; cd_helpers := [] |} in
  observe (entry_for_registry c (real_runner unjson [[(name, FDir)]; [(name, FNoExec)]; [(name, FBroken)]; [(name, prog)]]) (s "r"))
  = (zero_entry, EOther) /\
  observe (entry_for_registry c (real_runner unjson [[(name, FDir)]; [(name, FNoExec)]; [(name, prog)]]) (s "r"))
  = ({| ce_refresh := []; ce_access := []; ce_user := s "hu"; ce_pass := s "hp" |}, ENone) /\
  observe (entry_for_registry c (real_runner unjson [[(name, FDir)]; [(name, FNoExec)]; [(name, FDangling)]]) (s "r"))
  = ({| ce_refresh := []; ce_access := []; ce_user := s "tu"; ce_pass := s "tp" |}, ENone).
Proof. vm_compute. repeat split. Qed.
