(* C16  Concurrent unified reads are leak-free for every answer order and cancellation.
   Statements only; proofs live in Proofs/UnifyConc.v.

   The model (Model/UnifyConc.v) is a finite transition system: the caller's goroutine in
   runReadConcurrent and its wrapper (runRead / runReadBlobReader), the two sender
   goroutines, the caller's Close on the returned reader; the unbuffered result channel, the
   done channel, the caller's context, one derived context and one reader per member.
   [step] contains every internal step (every ready case of every select) and every
   environment move (start, a member's gate opens with success or failure, cancel, use of the
   returned reader, Close);
   [reach] is reachability from any of the 18 configurations (2 wrapper styles x 3 x 3 member
   kinds: answers when let, or only once its context is done - with success or failure).
   The bound of the statements is the model itself: they hold of EVERY reachable state, i.e.
   of every state of every trace, for every interleaving, answer order and cancellation
   point.  [quiescent s] = no internal step is enabled in s. *)
From OCI Require Import Model.UnifyConc Model.UnifyConcSpec Proofs.UnifyConc.

(* The computed list [reachable] contains every initial state and is closed under every step:
   it over-approximates (in fact equals) the reachable set; every check below runs over it. *)
Theorem C16_reach_closed :
  (forall c, In c inits -> In c reachable) /\
  (forall s s', In s reachable -> In s' (step s) -> In s' reachable).
Proof. exact reach_closed. Qed.
Print Assumptions C16_reach_closed.

(* ... hence every state of every trace from an initial state is in the list (the lifting
   lemma), and the initial states are all configurations. *)
Theorem C16_traces_in_reachable : forall s, reach s -> In s reachable.
Proof. exact reach_in_reachable. Qed.
Print Assumptions C16_traces_in_reachable.

Theorem C16_all_configurations : forall y k0 k1, In (init y k0 k1) inits.
Proof. exact inits_complete. Qed.
Print Assumptions C16_all_configurations.

(* Clause 1a. Whatever is returned: a value is the successful answer of the member it came from;
   an error means both members failed (a member's error) or the caller cancelled (the context
   error) - in every state from the moment the result is fixed. *)
Theorem C16_answer_valid : forall s j, reach s -> res s = ROk j -> mr (sd j s) = Ret Succ.
Proof. exact answer_valid. Qed.
Print Assumptions C16_answer_valid.

Theorem C16_error_only_when : forall s, reach s ->
  (res s = RErrCtx \/ exists j, res s = RErrM j) ->
  (mr (sd0 s) = Ret Fail /\ mr (sd1 s) = Ret Fail) \/ cctx s = true.
Proof. exact error_only_when. Qed.
Print Assumptions C16_error_only_when.

(* Clause 1b. The first successful answer is returned: at every quiet moment at which some
   member has answered successfully the call has already returned - with an answer, or with
   the context error if the caller cancelled.  (With C16_answer_valid: at the first quiet
   moment after the first success only that member has succeeded, so it is its answer.) *)
Theorem C16_first_success_returned : forall s i, reach s -> quiescent s = true ->
  main s <> M_idle -> mr (sd i s) = Ret Succ ->
  main s = M_returned /\ ((exists j, res s = ROk j) \/ (res s = RErrCtx /\ cctx s = true)).
Proof. exact first_success_returned. Qed.
Print Assumptions C16_first_success_returned.

(* the call has also returned at every quiet moment once both answered, or the caller cancelled *)
Theorem C16_both_answered_returned : forall s, reach s -> quiescent s = true ->
  mr (sd0 s) <> NotRet -> mr (sd1 s) <> NotRet -> main s = M_returned.
Proof. exact both_answered_returned. Qed.
Print Assumptions C16_both_answered_returned.

Theorem C16_cancelled_returned : forall s, reach s -> quiescent s = true -> main s <> M_idle ->
  cctx s = true -> main s = M_returned.
Proof. exact cancelled_returned. Qed.
Print Assumptions C16_cancelled_returned.

(* Clause 2. Every reader opened on the member that was not chosen is closed: at a quiet moment
   an open reader is the chosen member's, of a call that has returned, and the caller has not
   closed it yet.  No reader is ever closed twice, and the chosen member's reader stays open
   until the caller's Close closes it. *)
Theorem C16_loser_closed : forall s i, reach s -> quiescent s = true -> rd (sd i s) = RdOpen ->
  res s = ROk i /\ main s = M_returned /\ cl s = Cl_none.
Proof. exact loser_closed. Qed.
Print Assumptions C16_loser_closed.

Theorem C16_never_closed_twice : forall s i, reach s -> rd (sd i s) <> RdTwice.
Proof. exact never_closed_twice. Qed.
Print Assumptions C16_never_closed_twice.

Theorem C16_chosen_reader : forall s j, reach s -> st s = Blob -> res s = ROk j ->
  rd (sd j s) = match cl s with Cl_none | Cl_inner => RdOpen | _ => RdClosed end.
Proof. exact chosen_reader. Qed.
Print Assumptions C16_chosen_reader.

(* Clause 3. The context given to the chosen member stays live until the returned reader is
   closed (in EVERY state before the caller's Close has completed its cancel function has not
   run, so the context is done only if the caller's own is) and is cancelled afterwards; it
   was live when the member answered unless the caller had cancelled; for the resolve-style
   entry points it is cancelled exactly when the call returns. *)
Theorem C16_chosen_ctx_live : forall s j, reach s -> st s = Blob -> res s = ROk j ->
  cl s <> Cl_done -> own (sd j s) = false /\ dead j s = cctx s.
Proof. exact chosen_ctx_live. Qed.
Print Assumptions C16_chosen_ctx_live.

Theorem C16_chosen_ctx_cancelled_after_close : forall s j, reach s -> st s = Blob ->
  res s = ROk j -> cl s = Cl_done -> own (sd j s) = true /\ dead j s = true.
Proof. exact chosen_ctx_cancelled_after_close. Qed.
Print Assumptions C16_chosen_ctx_cancelled_after_close.

Theorem C16_chosen_ctx_live_at_answer : forall s j, reach s -> res s = ROk j ->
  rdead (sd j s) = true -> cctx s = true.
Proof. exact chosen_ctx_live_at_answer. Qed.
Print Assumptions C16_chosen_ctx_live_at_answer.

Theorem C16_chosen_ctx_resolve : forall s j, reach s -> st s = Resolve -> res s = ROk j ->
  own (sd j s) = match main s with M_returned => true | _ => false end.
Proof. exact chosen_ctx_resolve. Qed.
Print Assumptions C16_chosen_ctx_resolve.

(* Clause 3, the order inside Close.  At the moment blobReader.Close calls the member reader's
   Close the chosen member's context has not been cancelled (the reader is closed first, the
   context cancelled second); the same holds for the member that was not chosen when its sender
   closes its reader; and in no reachable state has a method of a member's reader (Close, or
   Read / Descriptor through the returned reader) started on the open reader with the member's
   context already cancelled under a live caller context (the ghost the readers' methods set
   is never set). *)
Theorem C16_chosen_ctx_live_at_close : forall s j, reach s -> cl s = Cl_inner -> res s = ROk j ->
  own (sd j s) = false /\ dead j s = cctx s.
Proof. exact chosen_ctx_live_at_close. Qed.
Print Assumptions C16_chosen_ctx_live_at_close.

Theorem C16_loser_ctx_live_at_close : forall s i, reach s -> pc (sd i s) = S_dclose ->
  own (sd i s) = false /\ dead i s = cctx s.
Proof. exact loser_ctx_live_at_close. Qed.
Print Assumptions C16_loser_ctx_live_at_close.

Theorem C16_never_cancelled_under_open_reader : forall s i, reach s -> early (sd i s) = false.
Proof. exact never_cancelled_under_open_reader. Qed.
Print Assumptions C16_never_cancelled_under_open_reader.

(* ... and nothing the caller does with the returned reader short of closing it is a step of
   the protocol: Read (delivering bytes, io.EOF or an error) and Descriptor are possible from the
   return until Close and leave every context, reader and goroutine as they were - so
   C16_chosen_ctx_live and C16_chosen_reader cover a reader that has been read to the end (or
   whose Read failed) but has not been closed.  (The member reader's method looks at the context
   of the call that opened it - touch_rd - and in a reachable state finds it as it should be,
   hence the reach hypothesis.) *)
Theorem C16_use_is_neutral : forall s u s', reach s -> estep (EUse u) s = Some s' -> s' = s.
Proof. exact use_neutral. Qed.
Print Assumptions C16_use_is_neutral.

Theorem C16_use_enabled : forall s u, reach s -> main s = M_returned -> st s = Blob ->
  (exists j, res s = ROk j) -> cl s = Cl_none -> estep (EUse u) s = Some s.
Proof. exact use_enabled. Qed.
Print Assumptions C16_use_enabled.

(* Clause 4. No goroutine remains blocked once both members have returned: at every quiet
   moment after both answers the call has returned, both senders have exited and no Close is
   in flight.  Stronger: a sender whose member has answered is never left waiting, whatever
   the other member does.  PARTIAL with respect to the Go runtime: this is proved for the
   model's threads; on the implementation the goroutine profile is sampled by the harness. *)
Theorem C16_no_goroutine_blocked_partial : forall s, reach s -> quiescent s = true ->
  mr (sd0 s) <> NotRet -> mr (sd1 s) <> NotRet ->
  main s = M_returned /\ pc (sd0 s) = S_exit /\ pc (sd1 s) = S_exit
  /\ (cl s = Cl_none \/ cl s = Cl_done).
Proof. exact no_goroutine_blocked. Qed.
Print Assumptions C16_no_goroutine_blocked_partial.

Theorem C16_sender_never_stuck_partial : forall s i, reach s -> quiescent s = true ->
  mr (sd i s) <> NotRet -> pc (sd i s) = S_exit.
Proof. exact sender_never_stuck. Qed.
Print Assumptions C16_sender_never_stuck_partial.

(* Not in the property's text, but what makes the clean-up complete: the context of every
   member that answered and was not chosen has been cancelled at every quiet moment. *)
Theorem C16_unchosen_ctx_cancelled : forall s i, reach s -> quiescent s = true ->
  mr (sd i s) <> NotRet -> res s <> ROk i -> own (sd i s) = true.
Proof. exact unchosen_ctx_cancelled. Qed.
Print Assumptions C16_unchosen_ctx_cancelled.

(* Internal steps terminate: from any reachable state at most rank <= 24 internal steps can be
   taken (rank checked to decrease on every internal step of every reachable state), so a
   quiet moment is always reached once the environment stops acting. *)
Theorem C16_internal_steps_bounded : forall s, reach s ->
  forall n s', isteps n s s' -> (n + rank s' <= rank s)%nat.
Proof. exact internal_steps_bounded. Qed.
Print Assumptions C16_internal_steps_bounded.

Theorem C16_internal_steps_terminate : forall s, reach s ->
  forall n s', isteps n s s' -> (n <= 24)%nat.
Proof. exact internal_steps_terminate. Qed.
Print Assumptions C16_internal_steps_terminate.

(* The specification used to judge the implementation (Model/UnifyConcSpec.v: result, first
   success, readers, chosen context, contexts of the members not chosen cancelled, no context
   with a deadline of its own, goroutines) holds of the snapshot of every reachable
   quiescent state, and therefore of every snapshot list the schedule runner can produce -
   for every configuration and EVERY schedule (any events, in any order, waited for or not). *)
Theorem C16_spec_holds : forall s, reach s -> quiescent s = true -> snap_ok (st s) (snap s) = true.
Proof. exact spec_holds. Qed.
Print Assumptions C16_spec_holds.

Theorem C16_schedules_ok : forall y k0 k1 evs snaps,
  In snaps (run run_fuel evs [init y k0 k1]) -> seq_ok y snaps = true.
Proof. exact schedules_ok. Qed.
Print Assumptions C16_schedules_ok.

(* The hypotheses above are satisfiable: reachable quiet states in which the second answer
   wins after a failure, a loser's reader has been closed, both failed, Close has cancelled
   the chosen context, cancellation returned the context error. *)
Theorem C16_witnesses :
  (exists q, reach q /\ quiescent q = true /\ w_second_answer_wins (snap q) = true) /\
  (exists q, reach q /\ quiescent q = true /\ w_loser_closed (snap q) = true) /\
  (exists q, reach q /\ quiescent q = true /\ w_both_fail (snap q) = true) /\
  (exists q, reach q /\ quiescent q = true /\ w_close_cancels (snap q) = true) /\
  (exists q, reach q /\ quiescent q = true /\ w_cancel_returns (snap q) = true).
Proof. exact witnesses. Qed.
Print Assumptions C16_witnesses.

(* Observation outside the property's statement (a finding, not a violation): choosing a winner
   does not cancel the other member's context.  A member that returns only once its context
   is done is still inside its call with a live context after the call has returned and the
   caller has closed the returned reader; it is released only when the caller cancels its own
   context.  (The property's last clause is conditional on both members having returned.) *)
Theorem C16_loser_left_running :
  exists q, reach q /\ quiescent q = true /\ w_loser_left_running (snap q) = true.
Proof. exact loser_left_running. Qed.
Print Assumptions C16_loser_left_running.
