(* C15, instantiated for ocimem: "equal members stay equal", union reads and the tag rule when both members
   are the ocimem model (statements only; proofs in Proofs/UnifyMem.v).
   M = the ocimem model (Model/Mem.v [step]) under one set of parameters; both members of
   the unifier are M.  [mem_rel idok p s0 s1] (Model/UnifyMemSpec.v) = equal up to
   upload-session identifiers under the renaming p. *)
From Coq Require Import String.
From OCI Require Import Model.UnifyMemSpec Proofs.UnifyMem.

Section C15Mem.
  Variable hash : bytes -> bytes.
  Variables valid_digest valid_repo valid_tag : bytes -> bool.
  Variable decode_image : bytes -> option image_manifest.
  Variable decode_index : bytes -> option index_manifest.
  Variable cfg : config.
  Notation M := (step hash valid_digest valid_repo valid_tag decode_image decode_index cfg).

  (* Mem.step respects the relation while both ID counters are below 10^40 *)
  Theorem C15Mem_step_respects :
    forall idok : bytes -> Prop, (forall n, idok (fresh_id n)) ->
    forall p s0 s1 o0 o1,
      mem_rel idok p s0 s1 -> (next_id s0 < ID_LIMIT)%N -> (next_id s1 < ID_LIMIT)%N -> op_rel p o0 o1 ->
      exists p', ren_incl p p'
        /\ mem_rel idok p' (fst (M s0 o0)) (fst (M s1 o1))
        /\ res_rel p' (snd (M s0 o0)) (snd (M s1 o1))
        /\ (next_id (fst (M s0 o0)) <= next_id s0 + 1)%N /\ (next_id (fst (M s1 o1)) <= next_id s1 + 1)%N.
  Proof. exact (mem_sim hash valid_digest valid_repo valid_tag decode_image decode_index cfg). Qed.

  (* ... and without any bound for every call that does not start a chunked upload *)
  Theorem C15Mem_step_respects_free :
    forall idok p s0 s1 o0 o1,
      is_chunk_start o0 = false -> mem_rel idok p s0 s1 -> op_rel p o0 o1 ->
      mem_rel idok p (fst (M s0 o0)) (fst (M s1 o1))
      /\ res_rel p (snd (M s0 o0)) (snd (M s1 o1))
      /\ next_id (fst (M s0 o0)) = next_id s0 /\ next_id (fst (M s1 o1)) = next_id s1.
  Proof. exact (mem_sim_free hash valid_digest valid_repo valid_tag decode_image decode_index cfg). Qed.

  Theorem C15Mem_equal_stay_equal :
    forall idok : bytes -> Prop, (forall n, idok (fresh_id n)) ->
    forall idenc iddec, (forall a b, idok a -> idok b -> iddec (idenc a b) = Some [a; b]) ->
    forall pol h (st : ustate state state) p issued,
      Inv (mem_rel idok) p st -> issued_ok idenc idok p issued ->
      (next_id (u_b0 st) + N.of_nat (length h) <= ID_LIMIT)%N ->
      (next_id (u_b1 st) + N.of_nat (length h) <= ID_LIMIT)%N ->
      closed_loop M M idenc iddec pol issued st h ->
      exists p', ren_incl p p'
        /\ Inv (mem_rel idok) p' (fst (urun M M idenc iddec pol st h))
        /\ issued_ok idenc idok p' (issued_after M M idenc iddec pol issued st h)
        /\ (forall id, In id (issued_after M M idenc iddec pol issued st h) ->
              exists a b, iddec id = Some [a; b] /\ In (a, b) (r_ids p')).
  Proof. exact (mem_equal_stay_equal hash valid_digest valid_repo valid_tag decode_image decode_index cfg). Qed.

  Theorem C15Mem_equal_members_stay_equal :
    forall idok : bytes -> Prop, (forall n, idok (fresh_id n)) ->
    forall idenc iddec, (forall a b, idok a -> idok b -> iddec (idenc a b) = Some [a; b]) ->
    forall st pol h,
      mem_ok idok st -> (next_id st + N.of_nat (length h) <= ID_LIMIT)%N ->
      closed_loop M M idenc iddec pol [] (uinit st st) h ->
      exists p', ren_incl (ren_of st) p'
        /\ Inv (mem_rel idok) p' (fst (urun M M idenc iddec pol (uinit st st) h))
        /\ (forall id, In id (issued_after M M idenc iddec pol [] (uinit st st) h) ->
              exists a b, iddec id = Some [a; b] /\ In (a, b) (r_ids p')).
  Proof. exact (mem_equal_members_stay_equal hash valid_digest valid_repo valid_tag decode_image decode_index cfg). Qed.

  (* fit starting states: the empty registry and everything reached from it by calls that
     are not part of a chunked upload *)
  Theorem C15Mem_population_ok :
    forall idok h, forallb is_content_op h = true -> mem_ok idok (final M init h).
  Proof. exact (mem_ok_population hash valid_digest valid_repo valid_tag decode_image decode_index cfg). Qed.

  (* related members answer every read and listing alike *)
  Theorem C15Mem_reads_agree :
    forall idok p s0 s1 o, mem_rel idok p s0 s1 -> is_read o = true -> snd (M s0 o) = snd (M s1 o).
  Proof. exact (mem_rel_reads_agree hash valid_digest valid_repo valid_tag decode_image decode_index cfg). Qed.

  Theorem C15Mem_writes_applied :
    forall idenc iddec pol c (st : ustate state state) o o0 o1,
      uncut c -> member_op iddec false st o = Some o0 -> member_op iddec true st o = Some o1 ->
      let st' := fst (ustep M M idenc iddec pol c st o) in
      u_b0 st' = fst (M (u_b0 st) o0) /\ u_b1 st' = fst (M (u_b1 st) o1).
  Proof. exact (mem_writes_applied hash valid_digest valid_repo valid_tag decode_image decode_index cfg). Qed.

  Theorem C15Mem_union_reads :
    forall idenc iddec pol c (st : ustate state state) o,
      is_whole_digest_read o = true ->
      let r := snd (ustep M M idenc iddec pol c st o) in
      is_ok r = holds (u_b0 st) o || holds (u_b1 st) o
      /\ (r = ans0 M st o \/ r = ans1 M st o)
      /\ (is_ok r = true -> (r = ans0 M st o /\ holds (u_b0 st) o = true)
                            \/ (r = ans1 M st o /\ holds (u_b1 st) o = true)).
  Proof. exact (mem_union_reads hash valid_digest valid_repo valid_tag decode_image decode_index cfg). Qed.

  Theorem C15Mem_tag_rule :
    forall idenc iddec pol c (st : ustate state state) r t,
      let res := snd (ustep M M idenc iddec pol c st (ResolveTag r t)) in
      match itag (u_b0 st) r t, itag (u_b1 st) r t with
      | Some de0, Some de1 =>
          if beqb (d_digest de0) (d_digest de1) then res = Ok (RDesc de0) else res = Err err_conflict
      | Some de0, None => res = Ok (RDesc de0)
      | None, Some de1 => res = Ok (RDesc de1)
      | None, None => res = ans0 M st (ResolveTag r t) /\ is_err res = true
      end.
  Proof. exact (mem_tag_rule_resolve hash valid_digest valid_repo valid_tag decode_image decode_index cfg). Qed.
End C15Mem.

Print Assumptions C15Mem_equal_stay_equal.
Print Assumptions C15Mem_equal_members_stay_equal.
Print Assumptions C15Mem_step_respects.
Print Assumptions C15Mem_writes_applied.
Print Assumptions C15Mem_union_reads.
Print Assumptions C15Mem_tag_rule.
Print Assumptions mem_tag_rule_get.
Print Assumptions mem_example.
Print Assumptions mem_step_beyond_limit_refuted.
Print Assumptions equal_stay_equal_budget.
