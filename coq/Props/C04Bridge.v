(* C04, bridge: the per-property model of chunked uploads (Model/Upload.v - the client's blobWriter, the
   server's upload handlers, the Content-Range codec; what Props/C04.v is about) agrees with the
   line-by-line models of ociclient and ociserver composed in Model/Stack.v, which C18 / C06 / C03 compare
   with the Go code: handler by handler, writer operation by writer operation, and for whole upload
   scripts; C04's headline theorems are transferred to the composed model.  Proofs: Proofs/BridgeUpload.v.
   Statements are the lemmas' types as Coq prints them (tools/genprops.py). *)
From Coq Require Import String.
From OCI Require Proofs.BridgeUpload.

(* RangeString is the same function in C04's range codec and in the request model the client and server models use *)
Theorem C04_rc_range_string :
  forall a b : BinNums.Z, RangeCodec.range_string a b = Request.range_string a b.
Proof. exact @BridgeUpload.rc_range_string. Qed.
Print Assumptions C04_rc_range_string.

(* likewise ParseRange *)
Theorem C04_rc_parse_range :
  forall a : Bytes.bytes, RangeCodec.parse_range a = Request.parse_range a.
Proof. exact @BridgeUpload.rc_parse_range. Qed.
Print Assumptions C04_rc_parse_range.

(* likewise the server's chunkRange on every request *)
Theorem C04_rc_chunk_range :
  forall req : Server.hreq,
  Server.chunk_range req =
  BridgeUpload.cr_view (RangeCodec.chunk_range (Server.hq_crange req) (Server.hq_clen req)).
Proof. exact @BridgeUpload.rc_chunk_range. Qed.
Print Assumptions C04_rc_chunk_range.

(* the server model's start-upload handler (Model/Server.v) and C04's (Model/Upload.v) end in the same backend state and give the same response, success and every error path, for every backend paired by Agrees *)
Theorem C04_srv_start :
  forall (linked : Ref.alg -> bool) (hash : Bytes.bytes -> Bytes.bytes -> Bytes.bytes)
    (subject_of : Bytes.bytes -> option (option Bytes.bytes))
    (enc : Server.jval -> Bytes.bytes)
    (redirect : Bytes.bytes -> Bytes.bytes -> Bytes.bytes * Bytes.bytes) 
    (B : Type) (bstep : Server.backend B) (o : Server.opts)
    (UB : Upload.ubackend B Iface.wid Bytes.bytes) (Live : B -> Iface.wid -> Prop)
    (Inv : B -> Prop),
  BridgeUpload.Agrees linked enc B bstep UB Live Inv ->
  forall (b : B) (req : Server.hreq) (r : Request.request),
  Request.parse_req linked (Server.hq_method req) (Server.hq_path req)
    (Server.hq_rawquery req) = Outcome.Ok r ->
  Request.q_kind r = Request.ReqBlobStartUpload ->
  Request.vrepo (Request.q_repo r) = true ->
  Inv b ->
  exists (tr : list Server.ev) (resp : Server.hresp),
    Server.handle linked (Stack.digest_of hash) subject_of enc redirect B bstep o b req =
    (fst (Upload.handle_start UB b (Request.q_repo r)), tr, Outcome.Ok resp) /\
    BridgeUpload.RespRel linked enc (snd (Upload.handle_start UB b (Request.q_repo r))) resp.
Proof. exact @BridgeUpload.srv_start. Qed.
Print Assumptions C04_srv_start.

(* the same for the upload-status handler *)
Theorem C04_srv_info :
  forall (linked : Ref.alg -> bool) (hash : Bytes.bytes -> Bytes.bytes -> Bytes.bytes)
    (subject_of : Bytes.bytes -> option (option Bytes.bytes))
    (enc : Server.jval -> Bytes.bytes)
    (redirect : Bytes.bytes -> Bytes.bytes -> Bytes.bytes * Bytes.bytes) 
    (B : Type) (bstep : Server.backend B) (o : Server.opts)
    (UB : Upload.ubackend B Iface.wid Bytes.bytes) (Live : B -> Iface.wid -> Prop)
    (Inv : B -> Prop),
  BridgeUpload.Agrees linked enc B bstep UB Live Inv ->
  forall (b : B) (req : Server.hreq) (r : Request.request),
  Request.parse_req linked (Server.hq_method req) (Server.hq_path req)
    (Server.hq_rawquery req) = Outcome.Ok r ->
  Request.q_kind r = Request.ReqBlobUploadInfo ->
  Request.vrepo (Request.q_repo r) = true ->
  StackUpload.good_upload_id (Request.q_upload r) ->
  Inv b ->
  exists (tr : list Server.ev) (resp : Server.hresp),
    Server.handle linked (Stack.digest_of hash) subject_of enc redirect B bstep o b req =
    (fst (Upload.handle_info UB b (Request.q_repo r) (Request.q_upload r)), tr,
     Outcome.Ok resp) /\
    BridgeUpload.RespRel linked enc
      (snd (Upload.handle_info UB b (Request.q_repo r) (Request.q_upload r))) resp.
Proof. exact @BridgeUpload.srv_info. Qed.
Print Assumptions C04_srv_info.

(* the same for the chunk PATCH handler, every Content-Range, Content-Length and body *)
Theorem C04_srv_patch :
  forall (linked : Ref.alg -> bool) (hash : Bytes.bytes -> Bytes.bytes -> Bytes.bytes)
    (subject_of : Bytes.bytes -> option (option Bytes.bytes))
    (enc : Server.jval -> Bytes.bytes)
    (redirect : Bytes.bytes -> Bytes.bytes -> Bytes.bytes * Bytes.bytes) 
    (B : Type) (bstep : Server.backend B) (o : Server.opts)
    (UB : Upload.ubackend B Iface.wid Bytes.bytes) (Live : B -> Iface.wid -> Prop)
    (Inv : B -> Prop),
  BridgeUpload.Agrees linked enc B bstep UB Live Inv ->
  BridgeUpload.small enc BridgeUpload.bad_range_err ->
  BridgeUpload.small enc BridgeUpload.bad_length_err ->
  forall (b : B) (req : Server.hreq) (r : Request.request),
  Request.parse_req linked (Server.hq_method req) (Server.hq_path req)
    (Server.hq_rawquery req) = Outcome.Ok r ->
  Request.q_kind r = Request.ReqBlobUploadChunk ->
  Request.vrepo (Request.q_repo r) = true ->
  StackUpload.good_upload_id (Request.q_upload r) ->
  Inv b ->
  let y :=
    Upload.handle_patch UB BridgeUpload.pieces1 b (Request.q_repo r) 
      (Request.q_upload r) (Server.hq_crange req) (Server.hq_clen req) 
      (Server.hq_body req) in
  exists (tr : list Server.ev) (resp : Server.hresp),
    Server.handle linked (Stack.digest_of hash) subject_of enc redirect B bstep o b req =
    (fst y, tr, Outcome.Ok resp) /\ BridgeUpload.RespRel linked enc (snd y) resp.
Proof. exact @BridgeUpload.srv_patch. Qed.
Print Assumptions C04_srv_patch.

(* the same for the closing PUT *)
Theorem C04_srv_put :
  forall (linked : Ref.alg -> bool) (hash : Bytes.bytes -> Bytes.bytes -> Bytes.bytes)
    (subject_of : Bytes.bytes -> option (option Bytes.bytes))
    (enc : Server.jval -> Bytes.bytes)
    (redirect : Bytes.bytes -> Bytes.bytes -> Bytes.bytes * Bytes.bytes) 
    (B : Type) (bstep : Server.backend B) (o : Server.opts),
  Server.o_locs o = None ->
  forall (UB : Upload.ubackend B Iface.wid Bytes.bytes) (Live : B -> Iface.wid -> Prop)
    (Inv : B -> Prop),
  BridgeUpload.Agrees linked enc B bstep UB Live Inv ->
  BridgeUpload.small enc BridgeUpload.bad_range_err ->
  BridgeUpload.small enc BridgeUpload.bad_length_err ->
  forall (b : B) (req : Server.hreq) (r : Request.request),
  Request.parse_req linked (Server.hq_method req) (Server.hq_path req)
    (Server.hq_rawquery req) = Outcome.Ok r ->
  Request.q_kind r = Request.ReqBlobCompleteUpload ->
  Request.vrepo (Request.q_repo r) = true ->
  StackUpload.good_upload_id (Request.q_upload r) ->
  Request.vdigest linked (Request.q_digest r) = true ->
  Inv b ->
  let y :=
    Upload.handle_put UB BridgeUpload.pieces1 b (Request.q_repo r) 
      (Request.q_upload r) (Request.q_digest r) (Server.hq_crange req) 
      (Server.hq_clen req) (Server.hq_body req) in
  exists (tr : list Server.ev) (resp : Server.hresp),
    Server.handle linked (Stack.digest_of hash) subject_of enc redirect B bstep o b req =
    (fst y, tr, Outcome.Ok resp) /\ BridgeUpload.RespRel linked enc (snd y) resp.
Proof. exact @BridgeUpload.srv_put. Qed.
Print Assumptions C04_srv_put.

(* the client model's flush (Model/Client.v) and C04's agree: no-op, PATCH, closing PUT, every failure *)
Theorem C04_flush_bridge :
  forall (linked : Ref.alg -> bool) (hash : Bytes.bytes -> Bytes.bytes -> Bytes.bytes)
    (subject_of : Bytes.bytes -> option (option Bytes.bytes))
    (media : Bytes.bytes -> Bytes.bytes) (enc : Server.jval -> Bytes.bytes)
    (dec_errors : Bytes.bytes -> option (list Errors.werr))
    (dec_names : bool -> Bytes.bytes -> option (list Bytes.bytes))
    (dec_index : Bytes.bytes -> option (list Iface.desc))
    (redirect : Bytes.bytes -> Bytes.bytes -> Bytes.bytes * Bytes.bytes) 
    (B : Type) (bstep : Server.backend B) (o : Server.opts),
  media StackBase.json_ct = StackBase.json_ct ->
  (forall w : Errors.werr, dec_errors (enc (Server.JErr w)) = Some (w :: nil)%list) ->
  Server.o_locs o = None ->
  forall (UB : Upload.ubackend B Iface.wid Bytes.bytes) (Live : B -> Iface.wid -> Prop)
    (Inv : B -> Prop),
  BridgeUpload.Agrees linked enc B bstep UB Live Inv ->
  BridgeUpload.small enc BridgeUpload.bad_range_err ->
  BridgeUpload.small enc BridgeUpload.bad_length_err ->
  forall (w : Http.world (Stack.srv B)) (wr : Client.writer) (uw : Upload.bwriter Bytes.bytes)
    (buf dig : list BinNums.N) (odig : option (list BinNums.N)) (rp id : Bytes.bytes),
  BridgeUpload.wfields uw wr ->
  Upload.w_loc uw = Upload.LUpload rp id ->
  BridgeUpload.lrel linked (Upload.LUpload rp id) (Client.wr_location wr) ->
  dig = nil /\ odig = None \/ odig = Some dig /\ Request.vdigest linked dig = true ->
  BinInt.Z.le BinNums.Z0 (Client.wr_flushed wr) ->
  BinInt.Z.le
    (BinInt.Z.add (Client.wr_flushed wr) (Bytes.blen (Client.chunk_bytes wr ++ buf)%list))
    Request.max_int64 ->
  Inv (Stack.sv_b (Http.w_srv w)) ->
  let y :=
    Upload.client_flush (Upload.serve UB BridgeUpload.pieces1) (Stack.sv_b (Http.w_srv w)) uw
      buf odig in
  exists (w' : Http.world (Stack.srv B)) (x : Outcome.R Errors.gerr Client.writer),
    Client.flush (Stack.srv B) (Stack.serve_stack linked hash subject_of enc redirect bstep o)
      (Stack.stack_env linked hash media dec_errors dec_names dec_index) wr buf dig w =
    (w', x) /\
    Stack.sv_b (Http.w_srv w') = fst (fst y) /\
    Inv (Stack.sv_b (Http.w_srv w')) /\
    Stack.sv_outside (Http.w_srv w') = Stack.sv_outside (Http.w_srv w) /\
    Stack.sv_panic (Http.w_srv w') = Stack.sv_panic (Http.w_srv w) /\
    match snd y with
    | Some u =>
        snd (fst y) = uw /\
        (exists e : Errors.gerr, x = Outcome.Err e /\ BridgeUpload.U e = u)
    | None =>
        exists wr' : Client.writer,
          x = Outcome.Ok wr' /\ BridgeUpload.flush_result linked (snd (fst y)) wr' odig
    end.
Proof. exact @BridgeUpload.flush_bridge. Qed.
Print Assumptions C04_flush_bridge.

(* and put the same method, path, Content-Range, Content-Length and body on the wire *)
Theorem C04_flush_same_wire :
  forall (linked : Ref.alg -> bool) (wr : Client.writer) (uw : Upload.bwriter Bytes.bytes)
    (buf dig : Bytes.bytes) (odig : option Bytes.bytes) (rp id : Bytes.bytes),
  BridgeUpload.wfields uw wr ->
  Upload.w_loc uw = Upload.LUpload rp id ->
  BridgeUpload.lrel linked (Upload.LUpload rp id) (Client.wr_location wr) ->
  dig = nil /\ odig = None /\ (Client.chunk_bytes wr ++ buf)%list <> nil \/
  odig = Some dig /\ dig <> nil ->
  BinInt.Z.le BinNums.Z0 (Client.wr_flushed wr) ->
  BinInt.Z.le
    (BinInt.Z.add (Client.wr_flushed wr) (Bytes.blen (Client.chunk_bytes wr ++ buf)%list))
    Request.max_int64 ->
  option_map Outcome.Ok (BridgeUpload.wire_of (BridgeUpload.uflush_request uw buf odig)) =
  Some (Stack.to_server_req (BridgeUpload.cflush_request wr buf dig)).
Proof. exact @BridgeUpload.flush_same_wire. Qed.
Print Assumptions C04_flush_same_wire.

(* Write agrees, every chunk size, hint and buffer *)
Theorem C04_write_bridge :
  forall (linked : Ref.alg -> bool) (hash : Bytes.bytes -> Bytes.bytes -> Bytes.bytes)
    (subject_of : Bytes.bytes -> option (option Bytes.bytes))
    (media : Bytes.bytes -> Bytes.bytes) (enc : Server.jval -> Bytes.bytes)
    (dec_errors : Bytes.bytes -> option (list Errors.werr))
    (dec_names : bool -> Bytes.bytes -> option (list Bytes.bytes))
    (dec_index : Bytes.bytes -> option (list Iface.desc))
    (redirect : Bytes.bytes -> Bytes.bytes -> Bytes.bytes * Bytes.bytes) 
    (B : Type) (bstep : Server.backend B) (o : Server.opts),
  media StackBase.json_ct = StackBase.json_ct ->
  (forall w : Errors.werr, dec_errors (enc (Server.JErr w)) = Some (w :: nil)%list) ->
  Server.o_locs o = None ->
  forall (UB : Upload.ubackend B Iface.wid Bytes.bytes) (Live : B -> Iface.wid -> Prop)
    (Inv : B -> Prop),
  BridgeUpload.Agrees linked enc B bstep UB Live Inv ->
  BridgeUpload.small enc BridgeUpload.bad_range_err ->
  BridgeUpload.small enc BridgeUpload.bad_length_err ->
  forall (w : Http.world (Stack.srv B)) (wr : Client.writer) (uw : Upload.bwriter Bytes.bytes)
    (buf : Bytes.bytes),
  BridgeUpload.Sim linked uw wr ->
  BinInt.Z.le (BinInt.Z.add (Client.wr_size wr) (Bytes.blen buf)) Request.max_int64 ->
  Inv (Stack.sv_b (Http.w_srv w)) ->
  let y :=
    Upload.client_write (Upload.serve UB BridgeUpload.pieces1) (Stack.sv_b (Http.w_srv w)) uw
      buf in
  exists
    (w' : Http.world (Stack.srv B)) (wr' : Client.writer) (x : Outcome.R Errors.gerr BinNums.Z),
    Client.writer_write (Stack.srv B)
      (Stack.serve_stack linked hash subject_of enc redirect bstep o)
      (Stack.stack_env linked hash media dec_errors dec_names dec_index) Client.current wr buf
      w = (w', (wr', x)) /\
    Stack.sv_b (Http.w_srv w') = fst (fst y) /\
    Inv (Stack.sv_b (Http.w_srv w')) /\
    Stack.sv_outside (Http.w_srv w') = Stack.sv_outside (Http.w_srv w) /\
    Stack.sv_panic (Http.w_srv w') = Stack.sv_panic (Http.w_srv w) /\
    BridgeUpload.Sim linked (snd (fst y)) wr' /\
    match snd y with
    | Some u => exists e : Errors.gerr, x = Outcome.Err e /\ BridgeUpload.U e = u
    | None => x = Outcome.Ok (Bytes.blen buf)
    end.
Proof. exact @BridgeUpload.write_bridge. Qed.
Print Assumptions C04_write_bridge.

(* Close agrees *)
Theorem C04_close_bridge :
  forall (linked : Ref.alg -> bool) (hash : Bytes.bytes -> Bytes.bytes -> Bytes.bytes)
    (subject_of : Bytes.bytes -> option (option Bytes.bytes))
    (media : Bytes.bytes -> Bytes.bytes) (enc : Server.jval -> Bytes.bytes)
    (dec_errors : Bytes.bytes -> option (list Errors.werr))
    (dec_names : bool -> Bytes.bytes -> option (list Bytes.bytes))
    (dec_index : Bytes.bytes -> option (list Iface.desc))
    (redirect : Bytes.bytes -> Bytes.bytes -> Bytes.bytes * Bytes.bytes) 
    (B : Type) (bstep : Server.backend B) (o : Server.opts),
  media StackBase.json_ct = StackBase.json_ct ->
  (forall w : Errors.werr, dec_errors (enc (Server.JErr w)) = Some (w :: nil)%list) ->
  Server.o_locs o = None ->
  forall (UB : Upload.ubackend B Iface.wid Bytes.bytes) (Live : B -> Iface.wid -> Prop)
    (Inv : B -> Prop),
  BridgeUpload.Agrees linked enc B bstep UB Live Inv ->
  BridgeUpload.small enc BridgeUpload.bad_range_err ->
  BridgeUpload.small enc BridgeUpload.bad_length_err ->
  forall (w : Http.world (Stack.srv B)) (wr : Client.writer) (uw : Upload.bwriter Bytes.bytes),
  BridgeUpload.Sim linked uw wr ->
  Inv (Stack.sv_b (Http.w_srv w)) ->
  let y :=
    Upload.client_close (Upload.serve UB BridgeUpload.pieces1) (Stack.sv_b (Http.w_srv w)) uw
    in
  exists
    (w' : Http.world (Stack.srv B)) (wr' : Client.writer) (x : Outcome.R Errors.gerr BinNums.Z),
    Client.writer_close (Stack.srv B)
      (Stack.serve_stack linked hash subject_of enc redirect bstep o)
      (Stack.stack_env linked hash media dec_errors dec_names dec_index) wr w = (
    w', (wr', x)) /\
    Stack.sv_b (Http.w_srv w') = fst (fst y) /\
    Inv (Stack.sv_b (Http.w_srv w')) /\
    Stack.sv_outside (Http.w_srv w') = Stack.sv_outside (Http.w_srv w) /\
    Stack.sv_panic (Http.w_srv w') = Stack.sv_panic (Http.w_srv w) /\
    BridgeUpload.Sim linked (snd (fst y)) wr' /\
    match snd y with
    | Some u => exists e : Errors.gerr, x = Outcome.Err e /\ BridgeUpload.U e = u
    | None => x = Outcome.Ok BinNums.Z0
    end.
Proof. exact @BridgeUpload.close_bridge. Qed.
Print Assumptions C04_close_bridge.

(* Commit agrees *)
Theorem C04_commit_bridge :
  forall (linked : Ref.alg -> bool) (hash : Bytes.bytes -> Bytes.bytes -> Bytes.bytes)
    (subject_of : Bytes.bytes -> option (option Bytes.bytes))
    (media : Bytes.bytes -> Bytes.bytes) (enc : Server.jval -> Bytes.bytes)
    (dec_errors : Bytes.bytes -> option (list Errors.werr))
    (dec_names : bool -> Bytes.bytes -> option (list Bytes.bytes))
    (dec_index : Bytes.bytes -> option (list Iface.desc))
    (redirect : Bytes.bytes -> Bytes.bytes -> Bytes.bytes * Bytes.bytes) 
    (B : Type) (bstep : Server.backend B) (o : Server.opts),
  media StackBase.json_ct = StackBase.json_ct ->
  (forall w : Errors.werr, dec_errors (enc (Server.JErr w)) = Some (w :: nil)%list) ->
  Server.o_locs o = None ->
  forall (UB : Upload.ubackend B Iface.wid Bytes.bytes) (Live : B -> Iface.wid -> Prop)
    (Inv : B -> Prop),
  BridgeUpload.Agrees linked enc B bstep UB Live Inv ->
  BridgeUpload.small enc BridgeUpload.bad_range_err ->
  BridgeUpload.small enc BridgeUpload.bad_length_err ->
  forall (w : Http.world (Stack.srv B)) (wr : Client.writer) (uw : Upload.bwriter Bytes.bytes)
    (dig : Bytes.bytes),
  BridgeUpload.Sim linked uw wr ->
  dig = nil \/ Request.vdigest linked dig = true ->
  Inv (Stack.sv_b (Http.w_srv w)) ->
  let y :=
    Upload.client_commit (Upload.serve UB BridgeUpload.pieces1) (Stack.sv_b (Http.w_srv w)) uw
      dig in
  exists
    (w' : Http.world (Stack.srv B)) (wr' : Client.writer) (x : Outcome.R Errors.gerr
                                                                 Iface.desc),
    Client.writer_commit (Stack.srv B)
      (Stack.serve_stack linked hash subject_of enc redirect bstep o)
      (Stack.stack_env linked hash media dec_errors dec_names dec_index) wr dig w =
    (w', (wr', x)) /\
    Stack.sv_b (Http.w_srv w') = fst (fst y) /\
    Inv (Stack.sv_b (Http.w_srv w')) /\
    Stack.sv_outside (Http.w_srv w') = Stack.sv_outside (Http.w_srv w) /\
    Stack.sv_panic (Http.w_srv w') = Stack.sv_panic (Http.w_srv w) /\
    BridgeUpload.wfields (snd (fst y)) wr' /\
    match snd y with
    | Outcome.Ok de => x = Outcome.Ok de
    | Outcome.Err u => exists e : Errors.gerr, x = Outcome.Err e /\ BridgeUpload.U e = u
    | _ => False
    end.
Proof. exact @BridgeUpload.commit_bridge. Qed.
Print Assumptions C04_commit_bridge.

(* PushBlobChunked agrees *)
Theorem C04_start_bridge :
  forall (linked : Ref.alg -> bool) (hash : Bytes.bytes -> Bytes.bytes -> Bytes.bytes)
    (subject_of : Bytes.bytes -> option (option Bytes.bytes))
    (media : Bytes.bytes -> Bytes.bytes) (enc : Server.jval -> Bytes.bytes)
    (dec_errors : Bytes.bytes -> option (list Errors.werr))
    (dec_names : bool -> Bytes.bytes -> option (list Bytes.bytes))
    (dec_index : Bytes.bytes -> option (list Iface.desc))
    (redirect : Bytes.bytes -> Bytes.bytes -> Bytes.bytes * Bytes.bytes) 
    (B : Type) (bstep : Server.backend B) (o : Server.opts),
  media StackBase.json_ct = StackBase.json_ct ->
  (forall w : Errors.werr, dec_errors (enc (Server.JErr w)) = Some (w :: nil)%list) ->
  forall (UB : Upload.ubackend B Iface.wid Bytes.bytes) (Live : B -> Iface.wid -> Prop)
    (Inv : B -> Prop),
  BridgeUpload.Agrees linked enc B bstep UB Live Inv ->
  forall (w : Http.world (Stack.srv B)) (repo : Bytes.bytes) (hint : BinNums.Z),
  Request.vrepo repo = true ->
  Inv (Stack.sv_b (Http.w_srv w)) ->
  let y :=
    Upload.client_start (Upload.serve UB BridgeUpload.pieces1) (Stack.sv_b (Http.w_srv w))
      repo hint in
  exists (w' : Http.world (Stack.srv B)) (x : Outcome.R Errors.gerr Client.writer),
    Client.push_blob_chunked (Stack.srv B)
      (Stack.serve_stack linked hash subject_of enc redirect bstep o)
      (Stack.stack_env linked hash media dec_errors dec_names dec_index) repo hint w = (
    w', x) /\
    Stack.sv_b (Http.w_srv w') = fst y /\
    Inv (Stack.sv_b (Http.w_srv w')) /\
    Stack.sv_outside (Http.w_srv w') = Stack.sv_outside (Http.w_srv w) /\
    Stack.sv_panic (Http.w_srv w') = Stack.sv_panic (Http.w_srv w) /\
    match snd y with
    | Outcome.Ok uw =>
        exists wr : Client.writer,
          x = Outcome.Ok wr /\
          BridgeUpload.fresh_sim linked uw wr /\ Client.wr_flushed wr = BinNums.Z0
    | Outcome.Err u => exists e : Errors.gerr, x = Outcome.Err e /\ BridgeUpload.U e = u
    | _ => False
    end.
Proof. exact @BridgeUpload.start_bridge. Qed.
Print Assumptions C04_start_bridge.

(* PushBlobChunkedResume agrees: explicit offset, -1, and an invalid offset *)
Theorem C04_resume_bridge :
  forall (linked : Ref.alg -> bool) (hash : Bytes.bytes -> Bytes.bytes -> Bytes.bytes)
    (subject_of : Bytes.bytes -> option (option Bytes.bytes))
    (media : Bytes.bytes -> Bytes.bytes) (enc : Server.jval -> Bytes.bytes)
    (dec_errors : Bytes.bytes -> option (list Errors.werr))
    (dec_names : bool -> Bytes.bytes -> option (list Bytes.bytes))
    (dec_index : Bytes.bytes -> option (list Iface.desc))
    (redirect : Bytes.bytes -> Bytes.bytes -> Bytes.bytes * Bytes.bytes) 
    (B : Type) (bstep : Server.backend B) (o : Server.opts),
  media StackBase.json_ct = StackBase.json_ct ->
  (forall w : Errors.werr, dec_errors (enc (Server.JErr w)) = Some (w :: nil)%list) ->
  forall (UB : Upload.ubackend B Iface.wid Bytes.bytes) (Live : B -> Iface.wid -> Prop)
    (Inv : B -> Prop),
  BridgeUpload.Agrees linked enc B bstep UB Live Inv ->
  forall (w : Http.world (Stack.srv B)) (repo rp id : Bytes.bytes) (offset hint : BinNums.Z),
  Request.vrepo rp = true ->
  StackUpload.good_upload_id id ->
  Inv (Stack.sv_b (Http.w_srv w)) ->
  let y :=
    Upload.client_resume (Upload.serve UB BridgeUpload.pieces1) (Stack.sv_b (Http.w_srv w))
      repo (Upload.LUpload rp id) offset hint in
  exists (w' : Http.world (Stack.srv B)) (x : Outcome.R Errors.gerr Client.writer),
    Client.push_blob_chunked_resume (Stack.srv B)
      (Stack.serve_stack linked hash subject_of enc redirect bstep o)
      (Stack.stack_env linked hash media dec_errors dec_names dec_index) repo
      (StackUpload.upath rp id) offset hint w = (w', x) /\
    Stack.sv_b (Http.w_srv w') = fst y /\
    Inv (Stack.sv_b (Http.w_srv w')) /\
    Stack.sv_outside (Http.w_srv w') = Stack.sv_outside (Http.w_srv w) /\
    Stack.sv_panic (Http.w_srv w') = Stack.sv_panic (Http.w_srv w) /\
    match snd y with
    | Outcome.Ok uw =>
        exists wr : Client.writer,
          x = Outcome.Ok wr /\
          BridgeUpload.fresh_sim linked uw wr /\
          (offset <> BinNums.Zneg BinNums.xH -> Client.wr_flushed wr = offset /\ w' = w)
    | Outcome.Err u => exists e : Errors.gerr, x = Outcome.Err e /\ BridgeUpload.U e = u
    | _ => False
    end.
Proof. exact @BridgeUpload.resume_bridge. Qed.
Print Assumptions C04_resume_bridge.

(* SIMULATION: a whole upload script on C04's one-hop stack and on the composed client/server model gives equal observations and equal backend states *)
Theorem C04_script_sim :
  forall (linked : Ref.alg -> bool) (hash : Bytes.bytes -> Bytes.bytes -> Bytes.bytes)
    (subject_of : Bytes.bytes -> option (option Bytes.bytes))
    (media : Bytes.bytes -> Bytes.bytes) (enc : Server.jval -> Bytes.bytes)
    (dec_errors : Bytes.bytes -> option (list Errors.werr))
    (dec_names : bool -> Bytes.bytes -> option (list Bytes.bytes))
    (dec_index : Bytes.bytes -> option (list Iface.desc))
    (redirect : Bytes.bytes -> Bytes.bytes -> Bytes.bytes * Bytes.bytes) 
    (B : Type) (bstep : Server.backend B) (o : Server.opts),
  media StackBase.json_ct = StackBase.json_ct ->
  (forall w : Errors.werr, dec_errors (enc (Server.JErr w)) = Some (w :: nil)%list) ->
  Server.o_locs o = None ->
  forall (UB : Upload.ubackend B Iface.wid Bytes.bytes) (Live : B -> Iface.wid -> Prop)
    (Inv : B -> Prop),
  BridgeUpload.Agrees linked enc B bstep UB Live Inv ->
  BridgeUpload.small enc BridgeUpload.bad_range_err ->
  BridgeUpload.small enc BridgeUpload.bad_length_err ->
  forall Bound : B -> BinNums.Z -> Prop,
  BridgeUpload.Sized B UB Live Bound ->
  forall repo : Bytes.bytes,
  Request.vrepo repo = true ->
  forall (ops : list Upload.uop) (st : B) (cur : option (Upload.bwriter Bytes.bytes))
    (w : Http.world (Stack.srv B)) (ccur : option Client.writer) (K : BinNums.Z),
  BridgeUpload.script_ok linked ops ->
  BridgeUpload.Rel linked B Inv Bound st cur w ccur K (UploadSpec.weight ops) ->
  let
  '(st', _, obs) :=
   Upload.run_script (Upload.client_backend (Upload.serve UB BridgeUpload.pieces1)) repo st
     cur ops in
   let
   '(w', _, cobs) :=
    BridgeUpload.crun linked hash subject_of media enc dec_errors dec_names dec_index redirect
      B bstep o repo w ccur ops in
    cobs = obs /\
    Stack.sv_b (Http.w_srv w') = st' /\
    Stack.sv_outside (Http.w_srv w') = Stack.sv_outside (Http.w_srv w) /\
    Stack.sv_panic (Http.w_srv w') = Stack.sv_panic (Http.w_srv w).
Proof. exact @BridgeUpload.script_sim. Qed.
Print Assumptions C04_script_sim.

(* the ocimem model is such a backend *)
Theorem C04_mem_agrees :
  forall (hash : Bytes.bytes -> Bytes.bytes) (vd vr vt : Bytes.bytes -> bool)
    (di : Bytes.bytes -> option Mem.image_manifest)
    (dx : Bytes.bytes -> option Mem.index_manifest) (cfg : Mem.config)
    (linked : Ref.alg -> bool) (enc : Server.jval -> Bytes.bytes),
  (forall e : Iface.err,
   List.In e BridgeUpload.MemBridge.mem_errs -> BridgeUpload.okerr enc (Server.gerr_of_err e)) ->
  BridgeUpload.Agrees linked enc Mem.state
    (BridgeUpload.MemBridge.mem_bstep hash vd vr vt di dx cfg)
    (UploadMem.mem_backend hash vd vr vt di dx cfg) (BridgeUpload.MemBridge.m_live enc)
    (BridgeUpload.MemBridge.m_inv hash di dx enc).
Proof. exact @BridgeUpload.MemBridge.mem_agrees. Qed.
Print Assumptions C04_mem_agrees.

(* hence for uploads over ocimem from the initial state *)
Theorem C04_stack_script_agrees :
  forall (hash : Bytes.bytes -> Bytes.bytes) (vd vr vt : Bytes.bytes -> bool)
    (di : Bytes.bytes -> option Mem.image_manifest)
    (dx : Bytes.bytes -> option Mem.index_manifest) (cfg : Mem.config)
    (linked : Ref.alg -> bool) (enc : Server.jval -> Bytes.bytes),
  (forall e : Iface.err,
   List.In e BridgeUpload.MemBridge.mem_errs -> BridgeUpload.okerr enc (Server.gerr_of_err e)) ->
  forall (hash2 : Bytes.bytes -> Bytes.bytes -> Bytes.bytes)
    (subject_of : Bytes.bytes -> option (option Bytes.bytes))
    (media : Bytes.bytes -> Bytes.bytes)
    (dec_errors : Bytes.bytes -> option (list Errors.werr))
    (dec_names : bool -> Bytes.bytes -> option (list Bytes.bytes))
    (dec_index : Bytes.bytes -> option (list Iface.desc))
    (redirect : Bytes.bytes -> Bytes.bytes -> Bytes.bytes * Bytes.bytes) 
    (o : Server.opts),
  media StackBase.json_ct = StackBase.json_ct ->
  (forall w : Errors.werr, dec_errors (enc (Server.JErr w)) = Some (w :: nil)%list) ->
  Server.o_locs o = None ->
  BridgeUpload.small enc BridgeUpload.bad_range_err ->
  BridgeUpload.small enc BridgeUpload.bad_length_err ->
  forall repo : Bytes.bytes,
  Request.vrepo repo = true ->
  forall ops : list Upload.uop,
  BridgeUpload.script_ok linked ops ->
  BinInt.Z.le (UploadSpec.weight ops) Request.max_int64 ->
  let
  '(st', _, obs) :=
   Upload.run_script (UploadMem.hop1 hash vd vr vt di dx cfg BridgeUpload.pieces1) repo
     Mem.init None ops in
   let
   '(w', _, cobs) :=
    BridgeUpload.crun linked hash2 subject_of media enc dec_errors dec_names dec_index
      redirect Mem.state (BridgeUpload.MemBridge.mem_bstep hash vd vr vt di dx cfg) o repo
      BridgeUpload.MemBridge.w0 None ops in
    cobs = obs /\
    Stack.sv_b (Http.w_srv w') = st' /\
    Stack.sv_outside (Http.w_srv w') = false /\ Stack.sv_panic (Http.w_srv w') = false.
Proof. exact @BridgeUpload.MemBridge.stack_script_agrees. Qed.
Print Assumptions C04_stack_script_agrees.

(* TRANSFER: C04's one-hop specification theorem holds of the composed model *)
Theorem C04_stack_meets_spec :
  forall (hash : Bytes.bytes -> Bytes.bytes) (vd vr vt : Bytes.bytes -> bool)
    (di : Bytes.bytes -> option Mem.image_manifest)
    (dx : Bytes.bytes -> option Mem.index_manifest) (cfg : Mem.config)
    (linked : Ref.alg -> bool) (enc : Server.jval -> Bytes.bytes),
  (forall e : Iface.err,
   List.In e BridgeUpload.MemBridge.mem_errs -> BridgeUpload.okerr enc (Server.gerr_of_err e)) ->
  forall (hash2 : Bytes.bytes -> Bytes.bytes -> Bytes.bytes)
    (subject_of : Bytes.bytes -> option (option Bytes.bytes))
    (media : Bytes.bytes -> Bytes.bytes)
    (dec_errors : Bytes.bytes -> option (list Errors.werr))
    (dec_names : bool -> Bytes.bytes -> option (list Bytes.bytes))
    (dec_index : Bytes.bytes -> option (list Iface.desc))
    (redirect : Bytes.bytes -> Bytes.bytes -> Bytes.bytes * Bytes.bytes) 
    (o : Server.opts),
  media StackBase.json_ct = StackBase.json_ct ->
  (forall w : Errors.werr, dec_errors (enc (Server.JErr w)) = Some (w :: nil)%list) ->
  Server.o_locs o = None ->
  BridgeUpload.small enc BridgeUpload.bad_range_err ->
  BridgeUpload.small enc BridgeUpload.bad_length_err ->
  forall repo : Bytes.bytes,
  Request.vrepo repo = true ->
  vr repo = true ->
  forall (ops : list Upload.uop) (digests : list Bytes.bytes),
  BridgeUpload.script_ok linked ops ->
  BinInt.Z.le (UploadSpec.weight ops) Request.max_int64 ->
  let
  '(w', _, cobs) :=
   BridgeUpload.crun linked hash2 subject_of media enc dec_errors dec_names dec_index redirect
     Mem.state (BridgeUpload.MemBridge.mem_bstep hash vd vr vt di dx cfg) o repo
     BridgeUpload.MemBridge.w0 None ops in
   UploadSpec.check hash true ops cobs
     (List.map
        (fun d : Bytes.bytes => (d, UploadMem.m_stor repo (Stack.sv_b (Http.w_srv w')) d))
        digests) = true.
Proof. exact @BridgeUpload.MemBridge.stack_meets_spec. Qed.
Print Assumptions C04_stack_meets_spec.

(* TRANSFER: Commit stores the concatenation of everything written, for every partition, chunk size and resume pattern *)
Theorem C04_stack_plan_commit :
  forall (hash : Bytes.bytes -> Bytes.bytes) (vd vr vt : Bytes.bytes -> bool)
    (di : Bytes.bytes -> option Mem.image_manifest)
    (dx : Bytes.bytes -> option Mem.index_manifest) (cfg : Mem.config)
    (linked : Ref.alg -> bool) (enc : Server.jval -> Bytes.bytes),
  (forall e : Iface.err,
   List.In e BridgeUpload.MemBridge.mem_errs -> BridgeUpload.okerr enc (Server.gerr_of_err e)) ->
  forall (hash2 : Bytes.bytes -> Bytes.bytes -> Bytes.bytes)
    (subject_of : Bytes.bytes -> option (option Bytes.bytes))
    (media : Bytes.bytes -> Bytes.bytes)
    (dec_errors : Bytes.bytes -> option (list Errors.werr))
    (dec_names : bool -> Bytes.bytes -> option (list Bytes.bytes))
    (dec_index : Bytes.bytes -> option (list Iface.desc))
    (redirect : Bytes.bytes -> Bytes.bytes -> Bytes.bytes * Bytes.bytes) 
    (o : Server.opts),
  media StackBase.json_ct = StackBase.json_ct ->
  (forall w : Errors.werr, dec_errors (enc (Server.JErr w)) = Some (w :: nil)%list) ->
  Server.o_locs o = None ->
  BridgeUpload.small enc BridgeUpload.bad_range_err ->
  BridgeUpload.small enc BridgeUpload.bad_length_err ->
  forall repo : Bytes.bytes,
  Request.vrepo repo = true ->
  vr repo = true ->
  forall (h0 : BinNums.Z) (ws0 : list Bytes.bytes) (segs : list UploadPlans.seg)
    (dg : Bytes.bytes),
  let ops := (UploadPlans.plan_ops h0 ws0 segs ++ Upload.UCommit dg :: nil)%list in
  let content := (List.concat ws0 ++ UploadPlans.later_content segs)%list in
  UploadPlans.later_ok (List.concat ws0) segs ->
  BinInt.Z.le (UploadSpec.weight ops) Request.max_int64 ->
  Request.vdigest linked dg = true ->
  let
  '(w', _, cobs) :=
   BridgeUpload.crun linked hash2 subject_of media enc dec_errors dec_names dec_index redirect
     Mem.state (BridgeUpload.MemBridge.mem_bstep hash vd vr vt di dx cfg) o repo
     BridgeUpload.MemBridge.w0 None ops in
   exists (obs1 : list Upload.uobs) (ob : Upload.uobs),
     cobs = (obs1 ++ ob :: nil)%list /\
     List.Forall UploadPlans.ok_res obs1 /\
     (dg = hash content ->
      Upload.uo_res ob = Upload.UOk (Bytes.blen content) /\
      (forall x : Bytes.bytes,
       UploadMem.m_stor repo (Stack.sv_b (Http.w_srv w')) x =
       UploadLaw.put_view dg content x (UploadMem.m_stor repo Mem.init x))) /\
     (dg <> hash content ->
      UploadSpec.is_uerr (Upload.uo_res ob) = true /\
      (forall x : Bytes.bytes,
       UploadMem.m_stor repo (Stack.sv_b (Http.w_srv w')) x = UploadMem.m_stor repo Mem.init x)).
Proof. exact @BridgeUpload.MemBridge.stack_plan_commit. Qed.
Print Assumptions C04_stack_plan_commit.

(* TRANSFER: data at a wrong offset is refused RANGE_INVALID (416) and leaves the upload unchanged *)
Theorem C04_stack_wrong_offset_refused :
  forall (hash : Bytes.bytes -> Bytes.bytes) (vd vr vt : Bytes.bytes -> bool)
    (di : Bytes.bytes -> option Mem.image_manifest)
    (dx : Bytes.bytes -> option Mem.index_manifest) (cfg : Mem.config)
    (linked : Ref.alg -> bool) (enc : Server.jval -> Bytes.bytes),
  (forall e : Iface.err,
   List.In e BridgeUpload.MemBridge.mem_errs -> BridgeUpload.okerr enc (Server.gerr_of_err e)) ->
  forall (hash2 : Bytes.bytes -> Bytes.bytes -> Bytes.bytes)
    (subject_of : Bytes.bytes -> option (option Bytes.bytes))
    (media : Bytes.bytes -> Bytes.bytes)
    (dec_errors : Bytes.bytes -> option (list Errors.werr))
    (dec_names : bool -> Bytes.bytes -> option (list Bytes.bytes))
    (dec_index : Bytes.bytes -> option (list Iface.desc))
    (redirect : Bytes.bytes -> Bytes.bytes -> Bytes.bytes * Bytes.bytes) 
    (o : Server.opts),
  media StackBase.json_ct = StackBase.json_ct ->
  (forall w : Errors.werr, dec_errors (enc (Server.JErr w)) = Some (w :: nil)%list) ->
  Server.o_locs o = None ->
  BridgeUpload.small enc BridgeUpload.bad_range_err ->
  BridgeUpload.small enc BridgeUpload.bad_length_err ->
  forall repo : Bytes.bytes,
  Request.vrepo repo = true ->
  vr repo = true ->
  forall (h0 : BinNums.Z) (ws0 : list (list BinNums.N)) (segs : list UploadPlans.seg)
    (off h1 : BinNums.Z) (ews : list Bytes.bytes) (h2 : BinNums.Z)
    (ws2 : list (list BinNums.N)),
  let g := (List.concat ws0 ++ UploadPlans.later_content segs)%list in
  let content := (g ++ List.concat ws2)%list in
  let d := hash content in
  let ops :=
    (UploadPlans.plan_ops h0 ws0 segs ++
     Upload.UClose
     :: Upload.UResume (Upload.MAt off) h1
        :: (List.map Upload.UWrite ews ++ Upload.UClose :: nil) ++
           Upload.UResume (Upload.MAt (Bytes.blen g)) h2
           :: List.map Upload.UWrite ws2 ++ Upload.UCommit d :: nil)%list in
  UploadPlans.later_ok (List.concat ws0) segs ->
  BinInt.Z.le BinNums.Z0 off ->
  off <> Bytes.blen g ->
  List.concat ews <> nil ->
  Request.vdigest linked d = true ->
  BinInt.Z.le (UploadSpec.weight ops) Request.max_int64 ->
  let
  '(w', _, cobs) :=
   BridgeUpload.crun linked hash2 subject_of media enc dec_errors dec_names dec_index redirect
     Mem.state (BridgeUpload.MemBridge.mem_bstep hash vd vr vt di dx cfg) o repo
     BridgeUpload.MemBridge.w0 None ops in
   exists (obs1 obe obs2 : list Upload.uobs) (ob : Upload.uobs),
     cobs = (obs1 ++ obe ++ obs2 ++ ob :: nil)%list /\
     List.Exists
       (fun ob' : Upload.uobs => UploadSpec.is_range_refusal true (Upload.uo_res ob') = true)
       obe /\
     Upload.uo_res ob = Upload.UOk (Bytes.blen content) /\
     (forall x : Bytes.bytes,
      UploadMem.m_stor repo (Stack.sv_b (Http.w_srv w')) x =
      UploadLaw.put_view d content x (UploadMem.m_stor repo Mem.init x)).
Proof. exact @BridgeUpload.MemBridge.stack_wrong_offset_refused. Qed.
Print Assumptions C04_stack_wrong_offset_refused.

(* both models make the same Start / Resume / Write / Close / Commit calls on the backend *)
Theorem C04_stack_same_backend_calls :
  forall (hash : Bytes.bytes -> Bytes.bytes) (vd vr vt : Bytes.bytes -> bool)
    (di : Bytes.bytes -> option Mem.image_manifest)
    (dx : Bytes.bytes -> option Mem.index_manifest) (cfg : Mem.config)
    (linked : Ref.alg -> bool) (enc : Server.jval -> Bytes.bytes),
  (forall e : Iface.err,
   List.In e BridgeUpload.MemBridge.mem_errs -> BridgeUpload.okerr enc (Server.gerr_of_err e)) ->
  forall (hash2 : Bytes.bytes -> Bytes.bytes -> Bytes.bytes)
    (subject_of : Bytes.bytes -> option (option Bytes.bytes))
    (media : Bytes.bytes -> Bytes.bytes)
    (dec_errors : Bytes.bytes -> option (list Errors.werr))
    (dec_names : bool -> Bytes.bytes -> option (list Bytes.bytes))
    (dec_index : Bytes.bytes -> option (list Iface.desc))
    (redirect : Bytes.bytes -> Bytes.bytes -> Bytes.bytes * Bytes.bytes) 
    (o : Server.opts),
  media StackBase.json_ct = StackBase.json_ct ->
  (forall w : Errors.werr, dec_errors (enc (Server.JErr w)) = Some (w :: nil)%list) ->
  Server.o_locs o = None ->
  BridgeUpload.small enc BridgeUpload.bad_range_err ->
  BridgeUpload.small enc BridgeUpload.bad_length_err ->
  forall repo : Bytes.bytes,
  Request.vrepo repo = true ->
  forall ops : list Upload.uop,
  BridgeUpload.script_ok linked ops ->
  BinInt.Z.le (UploadSpec.weight ops) Request.max_int64 ->
  let
  '(st', _, obs) :=
   Upload.run_script
     (Upload.client_backend
        (Upload.serve
           (BridgeUpload.rec_ub Mem.state (UploadMem.mem_backend hash vd vr vt di dx cfg))
           BridgeUpload.pieces1)) repo (Mem.init, nil) None ops in
   let
   '(w', _, cobs) :=
    BridgeUpload.crun linked hash2 subject_of media enc dec_errors dec_names dec_index
      redirect (Mem.state * list Iface.op)
      (BridgeUpload.rec_bstep Mem.state
         (BridgeUpload.MemBridge.mem_bstep hash vd vr vt di dx cfg)) o repo
      (Client.init_world (Stack.srv0 (Mem.init, nil))) None ops in
    cobs = obs /\ Stack.sv_b (Http.w_srv w') = st'.
Proof. exact @BridgeUpload.MemBridge.stack_same_backend_calls. Qed.
Print Assumptions C04_stack_same_backend_calls.

(* non-vacuity: every hypothesis is discharged for the runner's concrete oracles *)
Theorem C04_concrete_script_agrees :
  forall ops : list Upload.uop,
  BridgeUpload.script_ok BridgeUpload.Concrete.all ops ->
  BinInt.Z.le (UploadSpec.weight ops) Request.max_int64 ->
  let
  '(st', _, obs) :=
   Upload.run_script BridgeUpload.Concrete.cmem BridgeUpload.Concrete.crepo Mem.init None ops
   in
   let
   '(w', _, cobs) := BridgeUpload.Concrete.cstack BridgeUpload.MemBridge.w0 None ops in
    cobs = obs /\
    Stack.sv_b (Http.w_srv w') = st' /\
    Stack.sv_outside (Http.w_srv w') = false /\ Stack.sv_panic (Http.w_srv w') = false.
Proof. exact @BridgeUpload.Concrete.concrete_script_agrees. Qed.
Print Assumptions C04_concrete_script_agrees.

(* DIFFERENCE: C04's model keeps Size and flushed as unbounded integers, Go and the composed model wrap at int64 (witness: resume at 2^63-1 then write one byte) - outside C04's domain (script weight <= 2^63-1) *)
Theorem C04_script_agrees_without_fit_refuted :
  exists ops : list Upload.uop,
  BridgeUpload.script_ok BridgeUpload.Concrete.all ops /\
  List.map Upload.uo_size
    (snd
       (Upload.run_script BridgeUpload.Concrete.cmem BridgeUpload.Concrete.crepo Mem.init
          None ops)) <>
  List.map Upload.uo_size
    (snd (BridgeUpload.Concrete.cstack BridgeUpload.MemBridge.w0 None ops)).
Proof. exact @BridgeUpload.Concrete.script_agrees_without_fit_refuted. Qed.
Print Assumptions C04_script_agrees_without_fit_refuted.

(* DIFFERENCE: a malformed Commit digest reaches the backend in C04's model (DIGEST_INVALID after the chunk was appended); in Go the router answers 400 before any handler runs - C04's model states this as an assumption *)
Theorem C04_script_agrees_bad_digest_refuted :
  exists ops : list Upload.uop,
  BinInt.Z.le (UploadSpec.weight ops) Request.max_int64 /\
  List.map Upload.uo_res
    (snd
       (Upload.run_script BridgeUpload.Concrete.cmem BridgeUpload.Concrete.crepo Mem.init
          None ops)) <>
  BridgeUpload.Concrete.res_of
    (BridgeUpload.Concrete.cstack BridgeUpload.MemBridge.w0 None ops).
Proof. exact @BridgeUpload.Concrete.script_agrees_bad_digest_refuted. Qed.
Print Assumptions C04_script_agrees_bad_digest_refuted.

