(* C10: the auth transport only uses tokens that are sufficient, fresh and its own.
   Every theorem is about Model/Auth.v run under ANY configuration, network, clock and
   url.Parse (the record E) and ANY schedule l of calls (any hosts, any number of calls in
   flight, phases interleaved arbitrarily).  The clauses evS1..evS3 are defined in
   Model/AuthSpec.v over the observable history alone.

   Side condition [side] (Proofs/AuthC10.v), about the run itself: the required / desired
   scopes of the started calls are well formed (true of everything the exported API builds:
   Proofs/ScopeEval.v wf_eval) and every scope a token was asked for reads back from its text
   as itself (true of every clean scope: Proofs/ScopeText.v print_parse; false for the
   unlimited scope, whose text is a star).  The correspondence check decides it per case. *)
From Coq Require Import String ZArith.
From OCI Require Import Proofs.Scope Proofs.ScopeAlg Proofs.ScopeOps Proofs.ScopeEval Proofs.ScopeText.
From OCI Require Import Base.Outcome Model.Scope Model.Challenge Model.Auth Model.AuthSpec
  Proofs.AuthC11 Proofs.AuthC10 Proofs.AuthC10b Proofs.AuthParse.

(* bearer_provenance + bearer_fresh + bearer_sufficient: every bearer token forwarded to a
   registry is the caller's own header, or was issued in this very phase to this call for a
   scope covering the required scope (refresh-token path) resp. the challenge's scope (answer
   to a challenge), or is a cached token that was issued to a call on that same host (or is the
   one configured for it), still has a second to live at the moment the phase started, and was
   asked for a scope covering the required scope. *)
Theorem C10_bearer_provenance_fresh_sufficient : forall E l,
  side (run E l) -> all_ok (evS1 E) (history (run E l)) = true.
Proof. exact S1_holds. Qed.
Print Assumptions C10_bearer_provenance_fresh_sufficient.

(* token_request_scope: a token request made in answer to a challenge asks for a scope that
   covers the challenge's scope, the required and the desired scope - and for the challenge's
   own scope text, verbatim, when that scope already covers the other two; after a 401 from
   the token server the request is repeated with exactly the challenge's scope text.  A
   request made with a refresh token before any attempt covers the required (and, first time,
   the desired) scope. *)
Theorem C10_token_request_scope : forall E l,
  side (run E l) -> all_ok evS3 (history (run E l)) = true.
Proof. exact S3_holds. Qed.
Print Assumptions C10_token_request_scope.

(* no_extra_roundtrip: while the host holds a usable token covering the required scope - one
   that was issued to a call on that host (or is configured for it), has at least a second to
   live when the call starts and was asked for a covering scope - a call on that host makes no
   token request before its first attempt, and that first attempt carries a bearer token (it
   does not go out bare to collect a 401 first; which tokens it may carry is the theorem
   above); and a second attempt is only ever made in answer to a challenge.  Side condition [side2]: the clock does not run backwards along the run,
   and asked scopes read back from their text. *)
Theorem C10_no_extra_roundtrip : forall E l,
  side2 E (run E l) -> all_ok (evS2 E) (history (run E l)) = true.
Proof. exact S2_holds. Qed.
Print Assumptions C10_no_extra_roundtrip.

(* challenge_scope_whatever_the_spelling: the challenge scope that the two theorems above speak
   of is the value of the challenge's scope parameter however its NAME is spelled (RFC 7235
   2.1: names are case-insensitive): the parser hands out every parameter name in lower case,
   which is how the transport - and the specification - look it up. *)
Theorem C10_challenge_names_lower : forall header h,
  parseWWWAuthenticate header = Ok (Some h) ->
  no_upper (ah_scheme h) = true /\ forall k v, In (k, v) (ah_params h) -> no_upper k = true.
Proof. exact parse_lower. Qed.
Print Assumptions C10_challenge_names_lower.

(* cache_inv: at every reachable state, every cached token is the host's own (configured, or
   handed out to a call on that host for the scope it is recorded under) and every token
   handed out is still cached unless a call on that host already started when it had less
   than a second to live. *)
Theorem C10_cache_inv : forall E l, Proofs.AuthInv.Inv E (run E l) /\ Proofs.AuthComp.Comp E (run E l).
Proof. intros E l. split; [apply Proofs.AuthStep.run_Inv | apply Proofs.AuthComp.run_Comp]. Qed.
Print Assumptions C10_cache_inv.

(* the side condition holds of what the API builds: a scope built by ParseScope / NewScope /
   Union / Canonical is well formed, and a clean one reads back from its canonical text *)
Theorem C10_side_wf : forall e, wf (eval e).
Proof. exact wf_eval. Qed.
Print Assumptions C10_side_wf.

Theorem C10_side_text : forall sc, wf sc -> unlimited sc = false -> clean sc ->
  Equal (ParseScope (String (Canonical sc))) sc = true.
Proof. exact print_parse. Qed.
Print Assumptions C10_side_text.

(* the statements are not vacuous: a token is acquired in answer to a challenge, cached, and
   reused by the next call without any further token request *)
Definition ex_env : env :=
  {| e_cfg := fun _ => Some {| ce_refresh := []; ce_access := []; ce_user := []; ce_pass := [] |};
     e_net := fun _ m => match m with
                         | MReg _ (ABearer _) => RHttp 200 [] TBBadJSON
                         | MReg _ _ => RHttp 401 [s "Bearer realm=""r"",scope=""repository:foo:pull"""] TBBadJSON
                         | _ => RHttp 200 [] (TBJSON {| wt_token := s "t1"; wt_access := []; wt_refresh := []; wt_expires := 0 |})
                         end;
     e_clock := fun h => Z.of_nat (List.length h);
     e_purl := fun r => Some (r, []) |}.
Definition ex_req : request :=
  {| q_host := s "h"; q_required := ParseScope (s "repository:foo:pull"); q_want := zero_scope; q_body := BNone; q_auth := ANone |}.
Definition ex_sched := [Start 0 ex_req; Resume 0; Resume 0; Start 1 ex_req; Resume 1].

Example C10_example_trace :
  map (fun e => match e with ESend i m _ => Some (i, m) | _ => None end) (trace ex_env ex_sched)
  = [None; Some (0%nat, MReg (s "h") ANone); None;
     Some (0%nat, MGet (s "r") [(s "scope", [s "repository:foo:pull"])] ANone); None;
     Some (0%nat, MReg (s "h") (ABearer (s "t1"))); None; None;
     None; Some (1%nat, MReg (s "h") (ABearer (s "t1"))); None; None].
Proof. vm_compute. reflexivity. Qed.

Example C10_example_specs :
  all_ok (evS1 ex_env) (history (run ex_env ex_sched)) = true
  /\ all_ok (evS2 ex_env) (history (run ex_env ex_sched)) = true
  /\ all_ok evS3 (history (run ex_env ex_sched)) = true.
Proof. vm_compute. repeat split. Qed.
