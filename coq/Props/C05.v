(* C05  Listings are complete, ordered, duplicate-free and paginate losslessly.
   Statements only; proofs live in Proofs/Seq.v, Proofs/Listing.v, Proofs/ListingStack.v, Proofs/ListingFast.v.

   Vocabulary.  An iterator is [Seq err T] (Base/Seq.v): for every consumer - a function
   answering each yield call with "go on" or "stop", threading a state of its own - the
   iterator maps the consumer's initial state to its final state.  [calls q y s] is the log
   of yield calls q makes against consumer y.  [represents q xs oe]: against EVERY consumer,
   q behaves as "hand over the items xs in order, then the error oe if there is one,
   stopping at the first call the consumer declines".  [ssorted] = strictly ascending in
   byte order (hence duplicate-free).  [bltb start x] = start < x.  [wire] is what an
   error turns into when it crosses HTTP (arbitrary function; property C07 owns it). *)
From Coq Require Import String.
From OCI Require Import Model.Listing Model.ListingSpec Model.ListingLegacy Model.ListingCtx Proofs.Seq Proofs.Listing Proofs.ListingStack Proofs.ListingFast Proofs.ListingCtx.

(* ------------------------------------------------------------------ the iterator protocol *)

(* Every represented iterator, against every consumer: every call but the last carried an
   item and was answered "go on" - nothing follows a declined item, nothing follows an
   error. *)
Theorem C05_protocol_represented :
  forall (T S : Type) (q : Seq err T) (xs : list T) (oe : option err) (y : consumer err T S) (s : S),
    represents q xs oe -> protocol_ok (calls q y s).
Proof. intros T S q xs oe y s H. exact (protocol_represents q xs oe y s H). Qed.
Print Assumptions C05_protocol_represented.

(* ... and the items handed over are a prefix of xs, in order. *)
Theorem C05_protocol_prefix :
  forall (T S : Type) (q : Seq err T) (xs : list T) (oe : option err) (y : consumer err T S) (s : S),
    represents q xs oe -> exists n, items_of (calls q y s) = firstn n xs.
Proof.
  intros T S q xs oe y s H. rewrite (calls_represents q xs oe y s H). apply items_trace_of.
Qed.
Print Assumptions C05_protocol_prefix.

(* "complete or ends with an error": against the consumer that never declines, the calls are
   exactly all the items, then the error if there is one. *)
Theorem C05_complete_or_error :
  forall (T : Type) (q : Seq err T) (xs : list T) (oe : option err),
    represents q xs oe ->
    calls q always tt = map (fun x => (inl x, true)) xs ++ match oe with Some e => [(inr e, true)] | None => [] end.
Proof. intros T q xs oe H. rewrite (calls_represents q xs oe always tt H). apply trace_of_always. Qed.
Print Assumptions C05_complete_or_error.

(* The helpers of iter.go. *)
Theorem C05_SliceSeq : forall (T : Type) (xs : list T), represents (@SliceSeq err T xs) xs None.
Proof. intros. apply represents_SliceSeq. Qed.
Print Assumptions C05_SliceSeq.

Theorem C05_ErrorSeq : forall (T : Type) (e : err), represents (@ErrorSeq err T e) [] (Some e).
Proof. intros. apply represents_ErrorSeq. Qed.
Print Assumptions C05_ErrorSeq.

Theorem C05_All : forall (T : Type) (q : Seq err T) xs oe, represents q xs oe -> All q = (xs, oe).
Proof. intros T q xs oe. apply All_represents. Qed.
Print Assumptions C05_All.

(* Funcs.Repositories / Tags / Referrers: a set field's iterator is returned as it is; an
   unset field gives exactly one call, carrying the unsupported error. *)
Theorem C05_funcs_unset :
  forall q start S (y : consumer err bytes S) s,
    calls (ask (funcs_lister funcs_unset) q start) y s = [(inr ErrUnsupported, snd (y (inr ErrUnsupported) s))].
Proof.
  intros q start S y s. rewrite (calls_represents _ [] (Some ErrUnsupported)); [reflexivity|].
  destruct q; apply represents_ErrorSeq.
Qed.
Print Assumptions C05_funcs_unset.

Theorem C05_funcs_set :
  forall f g start, f_Repositories f = Some g -> funcs_Repositories f start = g start.
Proof. intros f g start H. unfold funcs_Repositories. now rewrite H. Qed.
Print Assumptions C05_funcs_set.

(* The client pager is a represented iterator - so it obeys the protocol against every
   consumer - whatever the server answers (ANY function from requests to responses: short or
   over-long pages, missing or bogus Link headers, errors, handler panics), for every page
   size, start point and amount of fuel. *)
Theorem C05_pager_protocol :
  forall wire (srv : wquery -> lresp) fuel n start,
    exists xs oe, represents (pager wire fuel srv n start) xs oe.
Proof. exact pager_represented. Qed.
Print Assumptions C05_pager_protocol.

(* Every stack the model can describe (no well-formedness asked: contents may be unsorted or
   hold duplicates), every query, start point, consumer: the protocol holds. *)
Theorem C05_stack_protocol :
  forall k q start S (y : consumer err bytes S) s, protocol_ok (calls (listing k q start) y s).
Proof. exact stack_protocol. Qed.
Print Assumptions C05_stack_protocol.

(* ------------------------------------------------------------------ ocimem *)

(* mapKeysIter over any key set (in any map order) and any start point: the keys strictly
   after the start point, sorted; strictly ascending when the keys are distinct (they are map
   keys); and equal to the whole sorted listing cut at the start point. *)
Theorem C05_mem_list :
  forall keys start,
    represents (mapKeysIter keys start) (sort_bytes (filter (bltb start) keys)) None
    /\ (forall x, In x (sort_bytes (filter (bltb start) keys)) <-> In x keys /\ blt start x)
    /\ (NoDup keys -> ssorted (sort_bytes (filter (bltb start) keys)))
    /\ (NoDup keys -> sort_bytes (filter (bltb start) keys) = filter (bltb start) (sort_bytes keys)).
Proof.
  intros keys start. split; [apply mapKeysIter_represents|]. split; [intros x; apply mem_list_In|].
  split; [apply mem_list_ssorted | apply mem_list_cut].
Qed.
Print Assumptions C05_mem_list.

(* ------------------------------------------------------------------ server + client pager *)

(* The list handlers never reach items[len(items)-1] with no items, for any request and any
   represented backend iterator. *)
Theorem C05_server_no_panic :
  forall o backend req xs oe,
    represents (backend (snd (setListQueryParams req))) xs oe -> handleList o backend req <> LR_panic.
Proof. exact handleList_no_panic. Qed.
Print Assumptions C05_server_no_panic.

(* pager_complete.  For every strictly sorted listing l, every backend that lists l from any
   start point, every client page size n >= 1, every server option set (MaxListPageSize that
   admits n, Link header on or off), every start point, every consumer: the pager run ends
   normally (no panic at items[len(items)-1], fuel not exhausted) having behaved exactly as
   "the elements of l after the start point, in order"; len l / n + 2 requests suffice. *)
Theorem C05_pager_complete :
  forall wire o l, ssorted l ->
  forall backend, (forall st, represents (backend st) (filter (bltb st) l) None) ->
  forall n, (1 <= n)%Z -> ((so_max o >? 0) && (n >? so_max o))%Z = false ->
  forall fuel start, (length l / Z.to_nat n + 2 <= fuel)%nat ->
    represents (pager wire fuel (handleList o backend) n start) (filter (bltb start) l) None
    /\ forall S (y : consumer err bytes S) s,
         snd (pager_run wire fuel (handleList o backend) n start S y s) = PDone.
Proof.
  intros wire o l Hl backend Hb n Hn Hacc fuel start Hf. split.
  - now apply pager_complete.
  - intros S y s. rewrite (pager_complete_run wire o l Hl backend Hb n Hn Hacc); [reflexivity|].
    pose proof (filter_length_le (bltb start) l) as Hle.
    assert (length (filter (bltb start) l) / Z.to_nat n <= length l / Z.to_nat n)%nat by (apply Nat.div_le_mono; lia).
    lia.
Qed.
Print Assumptions C05_pager_complete.

(* the hypotheses of pager_complete are satisfiable: an in-memory key set behind the server *)
Example C05_pager_complete_example :
  let l := [s "a"; s "b"; s "c"] in
  ssorted l /\ (forall st, represents (mapKeysIter [s "c"; s "a"; s "b"] st) (filter (bltb st) l) None).
Proof.
  split.
  - apply ascending_spec. reflexivity.
  - intros st. eapply represents_ext; [apply mapKeysIter_represents| |reflexivity].
    rewrite mem_list_cut; [reflexivity|]. repeat constructor; cbn; intuition discriminate.
Qed.

(* The server refuses the page size: exactly one error, no items. *)
Theorem C05_pager_refused :
  forall wire o backend n start fuel,
    ((so_max o >? 0) && (n >? so_max o))%Z = true -> (0 <= n)%Z -> (1 <= fuel)%nat ->
    represents (pager wire fuel (handleList o backend) n start) [] (Some (wire err_n_too_large)).
Proof.
  intros wire o backend n start fuel Hr Hn Hf S y s. unfold pager. now rewrite pager_refused.
Qed.
Print Assumptions C05_pager_refused.

(* Over a backend that fails (after delivering any sorted run of its names, from every start
   point) the pager ends with the image of one of the backend's errors, after a strictly
   ascending run of the backend's names after the start point: never a silently shortened
   list. *)
Theorem C05_pager_failing :
  forall wire o nm backend n (Pe : err -> Prop),
    (1 <= n)%Z -> ((so_max o >? 0) && (n >? so_max o))%Z = false ->
    (forall st, exists xs e, represents (backend st) xs (Some e) /\ ssorted xs
                             /\ (forall x, In x xs -> In x nm /\ blt st x) /\ Pe e) ->
    forall fuel start, (length nm + 1 <= fuel)%nat ->
    exists ys e,
      represents (pager wire fuel (handleList o backend) n start) ys (Some (wire e))
      /\ ssorted ys /\ (forall x, In x ys -> In x nm /\ blt start x) /\ Pe e.
Proof. exact pager_failing. Qed.
Print Assumptions C05_pager_failing.

(* Referrers over one hop (one request, no paging): the whole list, or the error alone. *)
Theorem C05_referrers_hop :
  forall wire it xs oe,
    represents it xs oe ->
    represents (client_Referrers wire (handleReferrers it))
               (match oe with Some _ => [] | None => xs end) (option_map wire oe).
Proof. exact refs_hop_represents. Qed.
Print Assumptions C05_referrers_hop.

(* ------------------------------------------------------------------ ociunify *)

(* merge_union: two complete listings merge into the sorted duplicate-free union. *)
Theorem C05_merge_union :
  forall it0 it1 xs0 xs1,
    represents it0 xs0 None -> represents it1 xs1 None ->
    let u := compact (sort_bytes (xs0 ++ xs1)) in
    represents (mergeIter it0 it1) u None /\ ssorted u /\ (forall x, In x u <-> In x xs0 \/ In x xs1).
Proof. exact merge_union. Qed.
Print Assumptions C05_merge_union.

(* both members cut at the same start point: the union cut at that start point *)
Theorem C05_merge_union_after :
  forall k0 k1 start, ssorted k0 -> ssorted k1 ->
    compact (sort_bytes (filter (bltb start) k0 ++ filter (bltb start) k1))
    = filter (bltb start) (compact (sort_bytes (k0 ++ k1))).
Proof. exact merge_union_after. Qed.
Print Assumptions C05_merge_union_after.

(* A member fails with something other than "not found": the merged items, then that error
   (the first member's first). *)
Theorem C05_merge_error :
  forall it0 it1 xs0 oe0 xs1 oe1 e,
    represents it0 xs0 oe0 -> represents it1 xs1 oe1 ->
    first_err (drop_not_found oe0) (drop_not_found oe1) = Some e ->
    represents (mergeIter it0 it1) (compact (sort_bytes (xs0 ++ xs1))) (Some e).
Proof. exact merge_error. Qed.
Print Assumptions C05_merge_error.

(* One member does not know the repository: the other member's listing, unchanged. *)
Theorem C05_merge_not_found_one :
  forall it0 it1 e0 xs1 oe1,
    represents it0 [] (Some e0) -> is_not_found (Some e0) = true ->
    represents it1 xs1 oe1 -> is_not_found oe1 = false -> ssorted xs1 ->
    represents (mergeIter it0 it1) xs1 oe1.
Proof. exact merge_not_found_one. Qed.
Print Assumptions C05_merge_not_found_one.

(* Neither knows it: the first member's error, no items. *)
Theorem C05_merge_not_found_both :
  forall it0 it1 e0 e1 xs0 xs1,
    represents it0 xs0 (Some e0) -> is_not_found (Some e0) = true ->
    represents it1 xs1 (Some e1) -> is_not_found (Some e1) = true ->
    represents (mergeIter it0 it1) [] (Some e0).
Proof. exact merge_not_found_both. Qed.
Print Assumptions C05_merge_not_found_both.

(* ------------------------------------------------------------------ ocifilter *)

(* select_filter: Select lists exactly the allowed names of the backend's listing, in the
   backend's order, ending as the backend ends - for every allow function, backend listing
   (with or without a final error) and start point. *)
Theorem C05_select_filter :
  forall allow backend start xs oe,
    represents (backend start) xs oe ->
    represents (ac_Repositories (select_check allow) true backend start) (filter allow xs) oe.
Proof. exact select_filter. Qed.
Print Assumptions C05_select_filter.

(* AccessChecker whose policy rejects the catalog: that error, once. *)
Theorem C05_access_checker_denied :
  forall check backend start e,
    check star AccessList = Some e -> represents (ac_Repositories check false backend start) [] (Some e).
Proof. exact ac_Repositories_denied. Qed.
Print Assumptions C05_access_checker_denied.

(* sub_strip: Sub p, from start point s, lists exactly the names r after s such that p/r is in
   the backend, stripped, in order (the backend lists the strictly sorted l from any start
   point; the repository "p/" itself - an invalid name - is not among them). *)
Theorem C05_sub_strip :
  forall prefix l oe backend start,
    ssorted l ->
    (forall st, represents (backend st) (filter (bltb st) l) oe) ->
    ~ In (prefix ++ slash) l ->
    represents (sub_Repositories prefix backend start)
               (filter (bltb start) (strip_all (prefix ++ slash) l)) oe
    /\ ssorted (strip_all (prefix ++ slash) l)
    /\ (forall r, In r (strip_all (prefix ++ slash) l) <-> In (prefix ++ slash ++ r) l).
Proof.
  intros prefix l oe backend start Hl Hb Hn.
  destruct (sub_strip prefix l oe backend start Hl Hb Hn) as [H1 H2]. split; [|split]; auto.
  intros r. rewrite strip_all_In. now rewrite <- app_assoc.
Qed.
Print Assumptions C05_sub_strip.

(* Before the repair (Model/ListingLegacy.v: the start point handed to the wrapped registry
   unprefixed) the statement above was false: Sub(r,"a") over {a/b, a/c, b}, listed from "b",
   delivered nothing although c lies after b (corpus/C05/sub_start_point.json). *)
Theorem C05_sub_strip_legacy_refuted :
  exists (prefix : bytes) (l : list bytes) (backend : bytes -> Seq err bytes) (start : bytes),
    ssorted l /\ (forall st, represents (backend st) (filter (bltb st) l) None) /\ (~ In (prefix ++ slash) l) /\
    ~ represents (legacy_sub_Repositories prefix backend start)
                 (filter (bltb start) (strip_all (prefix ++ slash) l)) None.
Proof.
  exists (s "a"), [s "a/b"; s "a/c"; s "b"], (fun st => seq_of (filter (bltb st) [s "a/b"; s "a/c"; s "b"]) None), (s "b").
  split; [apply ascending_spec; reflexivity|]. split; [intros st; apply represents_seq_of|].
  split; [cbn; intuition discriminate|].
  intros H. apply All_represents in H. vm_compute in H. discriminate.
Qed.
Print Assumptions C05_sub_strip_legacy_refuted.

(* ------------------------------------------------------------------ ocidebug *)

Theorem C05_debug_transparent :
  forall (T : Type) (it : Seq err T) xs oe, represents it xs oe -> represents (logIterReturn it) xs oe.
Proof. intros T it xs oe. apply logIterReturn_represents. Qed.
Print Assumptions C05_debug_transparent.

(* ------------------------------------------------------------------ every stack *)

(* stack_listing.  For EVERY well-formed stack description - any nesting, to any depth, of
   client->server hops (any page size >= 0 with 0 = the default 1000, any MaxListPageSize,
   Link header on or off), Select (any allowed set), Sub (any prefix), unify, debug, over
   in-memory registries (any contents), scripted backends (any sorted listing, with or
   without a final error) and unset function tables - every query (repositories, tags of any
   repository, referrers of any digest) and every start point, the listing is a represented
   iterator whose items are strictly ascending (so duplicate-free) names of the stack
   ([names], read naively off the description) lying after the start point; when nothing
   in the stack fails ([fails] = FNo) it is ALL of them and ends without an error; when the
   stack fails it ends with an error (a "not found" one with no items when no member knows
   the repository).  The fuel the model gives the pagers is never exhausted. *)
Theorem C05_stack_listing :
  forall k q start, stack_wfb k = true ->
  exists xs oe,
    represents (listing k q start) xs oe
    /\ ssorted xs
    /\ (forall x, In x xs -> In x (names k q) /\ after q start x = true)
    /\ match fails k q with
       | FNo => oe = None /\ (forall x, In x (names k q) -> after q start x = true -> In x xs)
       | FNotFound => names k q = [] /\ exists e, oe = Some e /\ is_not_found (Some e) = true
       | FErr => exists e, oe = Some e /\ is_not_found (Some e) = false
       end.
Proof. exact stack_listing. Qed.
Print Assumptions C05_stack_listing.

(* The same against the consumer that never declines: the log is the complete sequence, then
   the error if the stack fails - never a silently shortened list. *)
Theorem C05_stack_complete_or_error :
  forall k q start, stack_wfb k = true ->
  exists xs oe,
    map fst (calls (listing k q start) always tt) = map inl xs ++ match oe with Some e => [inr e] | None => [] end
    /\ ssorted xs
    /\ (forall x, In x xs -> In x (names k q) /\ after q start x = true)
    /\ match fails k q with
       | FNo => oe = None /\ (forall x, In x (names k q) -> after q start x = true -> In x xs)
       | FNotFound => xs = [] /\ exists e, oe = Some e /\ is_not_found (Some e) = true
       | FErr => exists e, oe = Some e /\ is_not_found (Some e) = false
       end.
Proof. exact stack_listing_always. Qed.
Print Assumptions C05_stack_complete_or_error.

(* Closed form (used to evaluate the correspondence on listings of tens of thousands of names,
   Obs/C05.v): against EVERY consumer, the calls a well-formed stack that must not fail makes
   are exactly those of the canonical iterator over the stack's names after the start point,
   sorted and without duplicates ([expected] = that list; Proofs/ListingFast.v). *)
Theorem C05_stack_closed_form :
  forall k q start S (y : consumer err bytes S) s,
  stack_wfb k = true -> fails k q = FNo ->
  calls (listing k q start) y s = trace_of (expected k q start) None y s.
Proof. exact listing_closed. Qed.
Print Assumptions C05_stack_closed_form.

(* A context that becomes done part-way (Model/ListingCtx.v: the context is a predicate on the
   consumer's state, read by the client pager before every page request and handed on by
   Select, Sub and debug).  For EVERY stack (no hypothesis), query, start point and call j during
   which the context is cancelled, the consumer that accepts everything sees the calls of the
   complete listing (xs, oe) - the one every consumer sees with a live context - or the calls
   of a prefix of xs followed by the context error: never a prefix followed by nothing. *)
Theorem C05_cancelled_complete_or_error :
  forall k q start j,
  exists xs oe,
    represents (listing k q start) xs oe
    /\ (calls_c (listing_c k q start) j = trace_of xs oe (cancel_at j) 0%N
        \/ exists pre post, xs = pre ++ post
                            /\ calls_c (listing_c k q start) j = trace_of pre (Some ctx_error) (cancel_at j) 0%N).
Proof. exact listing_c_calls. Qed.
Print Assumptions C05_cancelled_complete_or_error.

(* ... against any consumer and any way the context depends on the consumer's state: the
   context-taking listing of a stack is [cgood] with respect to its plain listing *)
Theorem C05_context_any_consumer :
  forall k fuel q start, cgood (ask_c (interp_c fuel k) q start) (ask (interp fuel k) q start).
Proof. exact interp_c_cgood. Qed.
Print Assumptions C05_context_any_consumer.

(* well-formed stacks exist at every shape; one with two hops, a Sub, a Select and a unify *)
Example C05_stack_example :
  let m := KMem [(s "p/a", {| mr_tags := [s "v1"; s "v2"]; mr_manifests := [] |});
                 (s "p/b", {| mr_tags := []; mr_manifests := [] |});
                 (s "q", {| mr_tags := []; mr_manifests := [] |})] in
  let o := {| so_max := 0; so_omit_link := true |} in
  let k := KHop 1 o (KSub (s "p") (KUnify (KHop 2 o m) (KSelect [s "p/b"] m))) in
  stack_wfb k = true /\ All (listing k QRepos []) = ([s "a"; s "b"], None).
Proof. split; vm_compute; reflexivity. Qed.
