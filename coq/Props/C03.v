(* C03  The HTTP client + server are transparent: same behaviour as the registry behind.

   Statements only.  This file holds the theorems about the SPECIFICATION of transparency
   (Model/Transparent.v: the relation [rel] between the direct answer and the answer through
   the stack, the table [expected_calls] of what the backend must be asked, the interim
   prediction [view] and the recorded deviations [known_result]) and the soundness of the
   correspondence check.  Two more groups of theorems belong to this property and are added
   to this file by the integrator; the file compiles without them:
     C03_url_codec*   (builder A, Proofs/RequestCodec.v): parse (construct r) = r for every
                      request with well-formed names, routing words included;
     C03_stack_*      (builder B2, Proofs/Stack*.v): the composed model ociclient model o
                      ociserver model o backend answers [rel]ated results and issues the
                      table's calls, for every history, option set, one and two hops. *)
From Coq Require Import String.
From OCI Require Import Model.Transparent Proofs.Transparent Obs.C03.

(* The interim prediction of the stack's answer deviates from the direct answer only in the
   recorded shapes: for every configuration, every content log, every operation and every
   answer a registry can give to it ([conforming]: right kind of answer, a code that survives
   the wire, a status the HEAD table keeps), [view] of the answer is [rel]ated to it, or
   differs from it exactly as one of the known findings describes (mount without size, blob
   media type not carried, range the client cannot send, body refused by net/http). *)
Theorem C03_view_rel :
  forall cfg l o r, conforming o r = true ->
    rel cfg l o r (view cfg o r) = true \/ known_result o r (view cfg o r) <> None.
Proof. exact view_rel. Qed.
Print Assumptions C03_view_rel.

(* [conforming] is satisfiable by non-trivial answers: a blob read with a media type, a 404
   on a HEAD-based resolve, a listing that ends in an error. *)
Example C03_conforming_examples :
  conforming (GetBlob (s "a/blobs/uploads") (s "sha256:x"))
             (OOk (RRead {| d_media := s "application/vnd.custom"; d_digest := s "sha256:x"; d_size := 1; d_artifact := [] |} [7%N])) = true
  /\ conforming (ResolveTag (s "x/manifests") (s "uploads")) (OErr MANIFEST_UNKNOWN) = true
  /\ conforming (Tags (s "tags/list") []) (OList [] (Some NAME_UNKNOWN)) = true.
Proof. repeat split; vm_compute; reflexivity. Qed.

(* rel is reflexive on every answer that is not a panic (a registry is transparent to
   itself), under every configuration that does not refuse listings by option. *)
Theorem C03_rel_refl :
  forall cfg l o r, well_shaped r = true -> refuses_lists cfg && is_listing o = false ->
    rel cfg l o r r = true.
Proof. exact rel_refl. Qed.
Print Assumptions C03_rel_refl.

(* rel composes: when the direct answer's errors carry a code, an answer related to it and
   an answer related to that one are related - so transparency of two hops follows from
   transparency of one hop applied twice.  (Without the hypothesis the claim is false: a
   direct error WITHOUT code is related to every error, see C03_rel_trans_needs_code.) *)
Theorem C03_rel_trans :
  forall cfg l o a b c, coded a = true ->
    rel cfg l o a b = true -> rel cfg l o b c = true -> rel cfg l o a c = true.
Proof. exact rel_trans. Qed.
Print Assumptions C03_rel_trans.

Theorem C03_rel_trans_needs_code_refuted :
  exists cfg l o a b c,
    rel cfg l o a b = true /\ rel cfg l o b c = true /\ rel cfg l o a c = false.
Proof.
  exists {| k_hops := 1; k_opts1 := default_opts; k_opts2 := default_opts; k_dbg_backend := false;
            k_dbg_client := false; k_page := 0; k_page2 := 0 |}, [], (Tags (s "r") []),
         (OList [] (Some ENone)), (OList [] (Some NAME_UNKNOWN)), (OList [] None).
  vm_compute. repeat split.
Qed.
Print Assumptions C03_rel_trans_needs_code_refuted.

(* Every call of the dispatch table carries the caller's own arguments: the names a call in
   [expected_calls cfg nb ss o v] mentions (repository, digest, tag, mount source, artifact
   type, commit digest) are arguments of [o] (for a writer operation: the repository its
   upload session was opened in). *)
Theorem C03_expected_args_exact :
  forall cfg nb ss o v c,
    In c (expected_calls cfg nb ss o v) -> incl (bcall_args c) (sess_repo ss :: op_args o).
Proof. exact expected_args_exact. Qed.
Print Assumptions C03_expected_args_exact.

(* The weaker check applied to the trace of a FAILED operation still guarantees the same. *)
Theorem C03_failed_args_exact :
  forall wr o tr c,
    keys_ok (op_keys wr o) tr = true -> In c tr -> incl (bcall_args c) (wr :: op_args o).
Proof. exact keys_ok_args. Qed.
Print Assumptions C03_failed_args_exact.

(* The HEAD-based resolves keep the HTTP status of the registry's error through any number
   of hops, for the statuses ociserver's table produces for a registry's resolve errors
   (404 401 403 429 400, and 500 for an error without a code). *)
Theorem C03_head_status_kept :
  forall n c, head_status_kept c = true -> status_class (iter_n n head_hop c) = status_class c.
Proof. exact head_hops_status. Qed.
Print Assumptions C03_head_status_kept.

(* The 15 standard codes (and UNKNOWN) survive the wire unchanged. *)
Theorem C03_std_codes_survive : forall t, code_ok (std_ecode t) = true.
Proof. exact std_code_ok. Qed.
Print Assumptions C03_std_codes_survive.

(* Soundness of the correspondence: a case on which the implementation agrees with the model
   side satisfies the property, or deviates from it only in the recorded shapes. *)
Theorem C03_corr_sound : forall c, model_agrees c = true -> obs_ok c = true \/ known_case c = true.
Proof. exact corr_sound. Qed.
Print Assumptions C03_corr_sound.
