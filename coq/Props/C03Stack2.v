(* C03, third part: history-level transparency widened (Proofs/StackWriters*.v, StackSlackMem.v, StackMemImm.v,
   StackHops*.v): histories with chunked-upload writers, histories with refused pushes, ImmutableTags mode, any
   number of hops.  Statements only; they are the lemmas' types as Coq prints them (tools/genprops.py). *)
From Coq Require Import String.
From OCI Require Proofs.StackWriters Proofs.StackWritersMem Proofs.StackSlackMem Proofs.StackMemImm Proofs.StackHops Proofs.StackHopsRefuted.

(* HISTORIES WITH WRITERS: for every backend satisfying Conforming and the upload contract UploadLaws, every admissible history in which PushBlobChunked / Resume / Write / Close / Size / Commit / Cancel on named upload sessions are interleaved with the other operations, the run through client + server and the direct run agree result by result (the recorded deviations - Cancel, resume -1 after one byte, Commit after a failed Commit - are side conditions) *)
Theorem C03_whistory_transparent :
  forall (linked : Ref.alg -> bool) (hash : Bytes.bytes -> Bytes.bytes -> Bytes.bytes)
    (subject_of : Bytes.bytes -> option (option Bytes.bytes))
    (media : Bytes.bytes -> Bytes.bytes) (enc : Server.jval -> Bytes.bytes)
    (dec_errors : Bytes.bytes -> option (list Errors.werr))
    (dec_names : bool -> Bytes.bytes -> option (list Bytes.bytes))
    (dec_index : Bytes.bytes -> option (list Iface.desc))
    (redirect : Bytes.bytes -> Bytes.bytes -> Bytes.bytes * Bytes.bytes) 
    (St : Type) (bstep : Server.backend St) (o : Server.opts) (cc : Stack.ccfg)
    (Inv : St -> Prop) (sim : St -> St -> Prop)
    (Upl : St -> Bytes.bytes -> Bytes.bytes -> Bytes.bytes -> Prop)
    (Hdl : St -> Iface.wid -> Bytes.bytes -> Bytes.bytes -> Prop) 
    (Room : nat -> St -> Prop),
  StackHistory.Conforming linked hash subject_of enc St bstep o Inv sim ->
  StackWriters.UploadLaws enc St bstep Inv sim Upl Hdl Room ->
  Server.o_locs o = None ->
  media StackBase.json_ct = StackBase.json_ct ->
  (forall w : Errors.werr, dec_errors (enc (Server.JErr w)) = Some (w :: nil)%list) ->
  (forall l : list Iface.desc, dec_index (enc (Server.JIndex l)) = Some l) ->
  (forall (name : Bytes.bytes) (l : list Bytes.bytes),
   dec_names true (enc (Server.JTags name l)) = Some l) ->
  (forall l : list Bytes.bytes, dec_names false (enc (Server.JCatalog l)) = Some l) ->
  1 <= Stack.cc_bufsz cc ->
  forall (b : St) (h : list StackWriters.hop),
  Inv b ->
  Room (Datatypes.length h) b ->
  StackWriters.wadmissible linked hash subject_of enc St bstep o cc Upl Hdl b nil nil h ->
  let d := StackWriters.hrun bstep b nil h in
  let v :=
    StackWriters.hrun
      (Stack.stack_bstep linked hash subject_of media enc dec_errors dec_names dec_index
         redirect bstep o cc) (Stack.sstate0 b) nil h in
  StackHistory.Forall3 StackWriters.hres_equiv h (snd d) (snd v) /\
  Datatypes.length (snd (fst d)) = Datatypes.length (snd (fst v)) /\
  sim (fst (fst d)) (Stack.sv_b (Stack.st_srv (fst (fst v)))) /\
  StackTwoHops.clean (fst (fst v)).
Proof. exact @StackWriters.whistory_transparent. Qed.
Print Assumptions C03_whistory_transparent.

(* the ocimem model satisfies the upload contract *)
Theorem C03_mem_upload_laws :
  forall (orc : MemObs.oracles) (imm : bool),
  StackWriters.UploadLaws StackRun.enc0 Mem.state
    (Server.backend_of_registry (MemObs.mem_step orc imm)) (StackWritersMem.InvW orc)
    StackMem.simM (StackWritersMem.m_upl orc) (StackWritersMem.m_hdl orc)
    StackWritersMem.m_room.
Proof. exact @StackWritersMem.mem_upload_laws. Qed.
Print Assumptions C03_mem_upload_laws.

(* hence for ocimem, ImmutableTags off or on, up to 10^40 uploads (the model prints upload ids with 40 digits) *)
Theorem C03_mem_whistory_transparent :
  forall (orc : MemObs.oracles) (more : list (Bytes.bytes * Bytes.bytes * Bytes.bytes))
    (imm : bool) (sv : Server.opts) (cc : Stack.ccfg) (h : list StackWriters.hop),
  StackMem.orc_sane orc more ->
  (imm = true ->
   MemRel.acyclic (MemObs.orc_hash orc) (MemObs.orc_img orc) (MemObs.orc_idx orc)) ->
  Server.o_locs sv = None ->
  1 <= Stack.cc_bufsz cc ->
  BinNat.N.le (BinNat.N.of_nat (Datatypes.length h)) StackWritersMem.id_limit ->
  StackWritersMem.mem_wadmissible orc more imm sv cc Mem.init nil nil h ->
  let d :=
    StackWriters.hrun (Server.backend_of_registry (MemObs.mem_step orc imm)) Mem.init nil h in
  let v :=
    StackWriters.hrun
      (StackRun.stack_backend (StackRun.soracles_of orc more) sv cc
         (Server.backend_of_registry (MemObs.mem_step orc imm))) (Stack.sstate0 Mem.init) nil
      h in
  StackHistory.Forall3 StackWriters.hres_equiv h (snd d) (snd v) /\
  Datatypes.length (snd (fst d)) = Datatypes.length (snd (fst v)) /\
  StackMem.simM (fst (fst d)) (Stack.sv_b (Stack.st_srv (fst (fst v)))) /\
  StackTwoHops.clean (fst (fst v)).
Proof. exact @StackWritersMem.mem_whistory_transparent. Qed.
Print Assumptions C03_mem_whistory_transparent.

(* HISTORIES WITH REFUSED PUSHES: a PushBlob that fails leaves the repository entry its upload session created; the stack run is related to the direct run up to content-free repositories (the unknown-vs-empty slack) *)
Theorem C03_history_transparent_slack :
  forall (linked : Ref.alg -> bool) (hash : Bytes.bytes -> Bytes.bytes -> Bytes.bytes)
    (subject_of : Bytes.bytes -> option (option Bytes.bytes))
    (media : Bytes.bytes -> Bytes.bytes) (enc : Server.jval -> Bytes.bytes)
    (dec_errors : Bytes.bytes -> option (list Errors.werr))
    (dec_names : bool -> Bytes.bytes -> option (list Bytes.bytes))
    (dec_index : Bytes.bytes -> option (list Iface.desc))
    (redirect : Bytes.bytes -> Bytes.bytes -> Bytes.bytes * Bytes.bytes) 
    (St : Type) (bstep : Server.backend St) (o : Server.opts) (cc : Stack.ccfg)
    (Inv : St -> Prop) (sim : St -> St -> Prop)
    (Upl : St -> Bytes.bytes -> Bytes.bytes -> Bytes.bytes -> Prop)
    (Hdl : St -> Iface.wid -> Bytes.bytes -> Bytes.bytes -> Prop) 
    (Room : nat -> St -> Prop),
  StackHistory.Conforming linked hash subject_of enc St bstep o Inv sim ->
  StackWriters.UploadLaws enc St bstep Inv sim Upl Hdl Room ->
  Server.o_locs o = None ->
  media StackBase.json_ct = StackBase.json_ct ->
  (forall w : Errors.werr, dec_errors (enc (Server.JErr w)) = Some (w :: nil)%list) ->
  (forall l : list Iface.desc, dec_index (enc (Server.JIndex l)) = Some l) ->
  (forall (name : Bytes.bytes) (l : list Bytes.bytes),
   dec_names true (enc (Server.JTags name l)) = Some l) ->
  (forall l : list Bytes.bytes, dec_names false (enc (Server.JCatalog l)) = Some l) ->
  1 <= Stack.cc_bufsz cc ->
  forall Slack : St -> St -> Prop,
  StackWriters.SlackLaws linked hash subject_of St bstep Inv Slack ->
  forall (b : St) (h : list Iface.op) (bps : list St),
  Inv b ->
  Room (Datatypes.length h) b ->
  StackWriters.shadow_adm linked hash subject_of enc St bstep o cc b h bps ->
  StackHistory.Forall3 StackWriters.slack_equiv h (snd (StackHistory.brun bstep b h))
    (snd
       (StackHistory.brun
          (Stack.stack_bstep linked hash subject_of media enc dec_errors dec_names dec_index
             redirect bstep o cc) (Stack.sstate0 b) h)) /\
  Slack (fst (StackHistory.brun bstep b h)) (List.last bps b) /\
  sim (List.last bps b)
    (Stack.sv_b
       (Stack.st_srv
          (fst
             (StackHistory.brun
                (Stack.stack_bstep linked hash subject_of media enc dec_errors dec_names
                   dec_index redirect bstep o cc) (Stack.sstate0 b) h)))).
Proof. exact @StackWriters.history_transparent_slack. Qed.
Print Assumptions C03_history_transparent_slack.

(* the same for ocimem *)
Theorem C03_mem_history_transparent_slack :
  forall (orc : MemObs.oracles) (more : list (Bytes.bytes * Bytes.bytes * Bytes.bytes))
    (imm : bool) (sv : Server.opts) (cc : Stack.ccfg) (h : list Iface.op)
    (bps : list Mem.state),
  StackMem.orc_sane orc more ->
  (imm = true ->
   MemRel.acyclic (MemObs.orc_hash orc) (MemObs.orc_img orc) (MemObs.orc_idx orc)) ->
  Server.o_locs sv = None ->
  1 <= Stack.cc_bufsz cc ->
  BinNat.N.le (BinNat.N.of_nat (Datatypes.length h)) StackWritersMem.id_limit ->
  StackSlackMem.mem_shadow_adm orc more imm sv cc Mem.init h bps ->
  StackHistory.Forall3 StackWriters.slack_equiv h
    (snd (StackHistory.brun (Server.backend_of_registry (MemObs.mem_step orc imm)) Mem.init h))
    (snd
       (StackHistory.brun
          (StackRun.stack_backend (StackRun.soracles_of orc more) sv cc
             (Server.backend_of_registry (MemObs.mem_step orc imm))) 
          (Stack.sstate0 Mem.init) h)) /\
  StackSlackMem.m_slack
    (fst (StackHistory.brun (Server.backend_of_registry (MemObs.mem_step orc imm)) Mem.init h))
    (List.last bps Mem.init) /\
  StackMem.simM (List.last bps Mem.init)
    (Stack.sv_b
       (Stack.st_srv
          (fst
             (StackHistory.brun
                (StackRun.stack_backend (StackRun.soracles_of orc more) sv cc
                   (Server.backend_of_registry (MemObs.mem_step orc imm)))
                (Stack.sstate0 Mem.init) h)))).
Proof. exact @StackSlackMem.mem_history_transparent_slack. Qed.
Print Assumptions C03_mem_history_transparent_slack.

(* the ocimem model in ImmutableTags mode satisfies Conforming (given no digest cycles among stored manifests) *)
Theorem C03_mem_conforming_imm :
  forall (orc : MemObs.oracles) (more : list (Bytes.bytes * Bytes.bytes * Bytes.bytes)),
  StackMem.orc_sane orc more ->
  MemRel.acyclic (MemObs.orc_hash orc) (MemObs.orc_img orc) (MemObs.orc_idx orc) ->
  forall o : Server.opts,
  StackHistory.Conforming (fun _ : Ref.alg => true) (StackRun.orc_hashhex orc more)
    (StackRun.orc_subject orc) StackRun.enc0 Mem.state (StackMemImm.mstepT orc) o
    (StackMem.InvM orc) StackMem.simM.
Proof. exact @StackMemImm.mem_conforming_imm. Qed.
Print Assumptions C03_mem_conforming_imm.

(* hence history-level transparency in ImmutableTags mode *)
Theorem C03_mem_history_transparent_imm :
  forall (orc : MemObs.oracles) (more : list (Bytes.bytes * Bytes.bytes * Bytes.bytes))
    (sv : Server.opts) (cc : Stack.ccfg) (h : list Iface.op),
  StackMem.orc_sane orc more ->
  MemRel.acyclic (MemObs.orc_hash orc) (MemObs.orc_img orc) (MemObs.orc_idx orc) ->
  Server.o_locs sv = None ->
  1 <= Stack.cc_bufsz cc ->
  StackMemImm.mem_admissible_imm orc more sv cc Mem.init h ->
  StackHistory.Forall3 StackHistoryRun.result_equiv h
    (snd (Iface.run (Stack.registry_of_backend (StackMemImm.mstepT orc)) Mem.init h))
    (snd (Iface.run (StackRun.one_hop orc more true sv cc) (Stack.sstate0 Mem.init) h)) /\
  StackMem.simM
    (fst (Iface.run (Stack.registry_of_backend (StackMemImm.mstepT orc)) Mem.init h))
    (Stack.sv_b
       (Stack.st_srv
          (fst (Iface.run (StackRun.one_hop orc more true sv cc) (Stack.sstate0 Mem.init) h)))).
Proof. exact @StackMemImm.mem_history_transparent_imm. Qed.
Print Assumptions C03_mem_history_transparent_imm.

(* ANY NUMBER OF HOPS with independent option sets per hop: the 13 single-request methods *)
Theorem C03_n_hops_one :
  forall (linked : Ref.alg -> bool) (hash : Bytes.bytes -> Bytes.bytes -> Bytes.bytes)
    (subject_of : Bytes.bytes -> option (option Bytes.bytes))
    (media : Bytes.bytes -> Bytes.bytes) (enc : Server.jval -> Bytes.bytes)
    (dec_errors : Bytes.bytes -> option (list Errors.werr))
    (dec_names : bool -> Bytes.bytes -> option (list Bytes.bytes))
    (dec_index : Bytes.bytes -> option (list Iface.desc))
    (redirect : Bytes.bytes -> Bytes.bytes -> Bytes.bytes * Bytes.bytes) 
    (B : Type) (bstep : Server.backend B),
  media StackBase.json_ct = StackBase.json_ct ->
  (forall w : Errors.werr, dec_errors (enc (Server.JErr w)) = Some (w :: nil)%list) ->
  (forall l : list Iface.desc, dec_index (enc (Server.JIndex l)) = Some l) ->
  forall (l : list StackHops.hcfg) (st : StackHops.hst B l) (c : Iface.op) 
    (b' : B) (r : Server.bres),
  StackStep.one_call c = true ->
  StackStep.wf_op linked hash subject_of c ->
  StackHops.all_clean B l st ->
  bstep (StackHops.innermost B l st) (StackHops.inner_op l c) = (b', r) ->
  StackHops.lvl_ok linked hash enc l c r ->
  snd
    (StackHops.hops linked hash subject_of media enc dec_errors dec_names dec_index redirect B
       bstep l st c) = StackHops.views hash enc l c r /\
  StackHops.innermost B l
    (fst
       (StackHops.hops linked hash subject_of media enc dec_errors dec_names dec_index
          redirect B bstep l st c)) = b' /\
  StackHops.all_clean B l
    (fst
       (StackHops.hops linked hash subject_of media enc dec_errors dec_names dec_index
          redirect B bstep l st c)).
Proof. exact @StackHops.n_hops_one. Qed.
Print Assumptions C03_n_hops_one.

(* a conforming answer stays conforming through n hops *)
Theorem C03_n_hops_conforming :
  forall (linked : Ref.alg -> bool) (hash : Bytes.bytes -> Bytes.bytes -> Bytes.bytes)
    (subject_of : Bytes.bytes -> option (option Bytes.bytes))
    (media : Bytes.bytes -> Bytes.bytes) (enc : Server.jval -> Bytes.bytes)
    (dec_errors : Bytes.bytes -> option (list Errors.werr))
    (dec_names : bool -> Bytes.bytes -> option (list Bytes.bytes))
    (dec_index : Bytes.bytes -> option (list Iface.desc))
    (redirect : Bytes.bytes -> Bytes.bytes -> Bytes.bytes * Bytes.bytes) 
    (B : Type) (bstep : Server.backend B),
  media StackBase.json_ct = StackBase.json_ct ->
  (forall w : Errors.werr, dec_errors (enc (Server.JErr w)) = Some (w :: nil)%list) ->
  (forall l : list Iface.desc, dec_index (enc (Server.JIndex l)) = Some l) ->
  forall (l : list StackHops.hcfg) (st : StackHops.hst B l) (c : Iface.op) 
    (b' : B) (r : Server.bres),
  StackStep.one_call c = true ->
  StackStep.wf_op linked hash subject_of c ->
  StackHops.all_clean B l st ->
  bstep (StackHops.innermost B l st) (StackHops.inner_op l c) = (b', r) ->
  List.Forall (StackHops.hop_ok linked hash enc c r) l ->
  StackHops.errors_relay hash enc l c r ->
  snd
    (StackHops.hops linked hash subject_of media enc dec_errors dec_names dec_index redirect B
       bstep l st c) = StackHops.views hash enc l c r /\
  StackHops.innermost B l
    (fst
       (StackHops.hops linked hash subject_of media enc dec_errors dec_names dec_index
          redirect B bstep l st c)) = b' /\
  StackHops.all_clean B l
    (fst
       (StackHops.hops linked hash subject_of media enc dec_errors dec_names dec_index
          redirect B bstep l st c)).
Proof. exact @StackHops.n_hops_conforming. Qed.
Print Assumptions C03_n_hops_conforming.

(* PushBlob through n hops stores exactly the caller's bytes *)
Theorem C03_n_hops_PushBlob :
  forall (linked : Ref.alg -> bool) (hash : Bytes.bytes -> Bytes.bytes -> Bytes.bytes)
    (subject_of : Bytes.bytes -> option (option Bytes.bytes))
    (media : Bytes.bytes -> Bytes.bytes) (enc : Server.jval -> Bytes.bytes)
    (dec_errors : Bytes.bytes -> option (list Errors.werr))
    (dec_names : bool -> Bytes.bytes -> option (list Bytes.bytes))
    (dec_index : Bytes.bytes -> option (list Iface.desc))
    (redirect : Bytes.bytes -> Bytes.bytes -> Bytes.bytes * Bytes.bytes) 
    (B : Type) (bstep : Server.backend B) (o : Server.opts) (cc : Stack.ccfg)
    (l : list (Server.opts * Stack.ccfg)) (st : StackHops.hst B ((o, cc) :: l))
    (rp : Bytes.bytes) (d : Iface.desc) (data : Bytes.bytes) (b8 : B),
  StackStep.wf_op linked hash subject_of (Iface.PushBlob rp d data) ->
  BinInt.Z.le (BinNums.Zpos BinNums.xH) (Bytes.blen data) ->
  List.Forall (fun x : StackHops.hcfg => Server.o_locs (fst x) = None) ((o, cc) :: l) ->
  StackHops.all_clean B ((o, cc) :: l) st ->
  StackHops.session_ok linked bstep (StackHops.innermost B ((o, cc) :: l) st) rp
    (Iface.d_digest d) data b8 ->
  snd
    (StackHops.hops linked hash subject_of media enc dec_errors dec_names dec_index redirect B
       bstep ((o, cc) :: l) st (Iface.PushBlob rp d data)) = Outcome.Ok (Server.VDesc d) /\
  StackHops.innermost B ((o, cc) :: l)
    (fst
       (StackHops.hops linked hash subject_of media enc dec_errors dec_names dec_index
          redirect B bstep ((o, cc) :: l) st (Iface.PushBlob rp d data))) = b8 /\
  StackHops.all_clean B ((o, cc) :: l)
    (fst
       (StackHops.hops linked hash subject_of media enc dec_errors dec_names dec_index
          redirect B bstep ((o, cc) :: l) st (Iface.PushBlob rp d data))).
Proof. exact @StackHops.n_hops_PushBlob. Qed.
Print Assumptions C03_n_hops_PushBlob.

(* likewise the empty blob *)
Theorem C03_n_hops_PushBlob_empty :
  forall (linked : Ref.alg -> bool) (hash : Bytes.bytes -> Bytes.bytes -> Bytes.bytes)
    (subject_of : Bytes.bytes -> option (option Bytes.bytes))
    (media : Bytes.bytes -> Bytes.bytes) (enc : Server.jval -> Bytes.bytes)
    (dec_errors : Bytes.bytes -> option (list Errors.werr))
    (dec_names : bool -> Bytes.bytes -> option (list Bytes.bytes))
    (dec_index : Bytes.bytes -> option (list Iface.desc))
    (redirect : Bytes.bytes -> Bytes.bytes -> Bytes.bytes * Bytes.bytes) 
    (B : Type) (bstep : Server.backend B) (o : Server.opts) (cc : Stack.ccfg)
    (l : list (Server.opts * Stack.ccfg)) (st : StackHops.hst B ((o, cc) :: l))
    (rp : Bytes.bytes) (d : Iface.desc) (b8 : B),
  StackStep.wf_op linked hash subject_of (Iface.PushBlob rp d nil) ->
  List.Forall (fun x : StackHops.hcfg => Server.o_locs (fst x) = None) ((o, cc) :: l) ->
  StackHops.all_clean B ((o, cc) :: l) st ->
  StackHops.session0_ok linked bstep (StackHops.innermost B ((o, cc) :: l) st) rp
    (Iface.d_digest d) b8 ->
  snd
    (StackHops.hops linked hash subject_of media enc dec_errors dec_names dec_index redirect B
       bstep ((o, cc) :: l) st (Iface.PushBlob rp d nil)) = Outcome.Ok (Server.VDesc d) /\
  StackHops.innermost B ((o, cc) :: l)
    (fst
       (StackHops.hops linked hash subject_of media enc dec_errors dec_names dec_index
          redirect B bstep ((o, cc) :: l) st (Iface.PushBlob rp d nil))) = b8 /\
  StackHops.all_clean B ((o, cc) :: l)
    (fst
       (StackHops.hops linked hash subject_of media enc dec_errors dec_names dec_index
          redirect B bstep ((o, cc) :: l) st (Iface.PushBlob rp d nil))).
Proof. exact @StackHops.n_hops_PushBlob_empty. Qed.
Print Assumptions C03_n_hops_PushBlob_empty.

(* the contract Conforming as stated is NOT closed under composition: the stack keeps the trace of its last call in its state while pages_well asks for the same state after a listing - why listings through n hops are not covered yet *)
Theorem C03_conforming_compose_refuted :
  ~
  (exists
     (Inv' : Stack.sstate Mem.state -> Prop) (sim' : Stack.sstate Mem.state ->
                                                     Stack.sstate Mem.state -> Prop),
     StackHistory.Conforming (StackRun.so_linked StackHopsRefuted.so0)
       (StackRun.so_hash StackHopsRefuted.so0) (StackRun.so_subject StackHopsRefuted.so0)
       StackRun.enc0 (Stack.sstate Mem.state) StackHopsRefuted.stack0 StackRun.default_opts
       Inv' sim' /\ Inv' (Stack.sstate0 Mem.init)).
Proof. exact @StackHopsRefuted.conforming_compose_refuted. Qed.
Print Assumptions C03_conforming_compose_refuted.

