(* C14  Read-only, immutable and immutable-tags modes hold for every history.
   Statements only; proofs live in Proofs/Immutable.v (the wrappers over an arbitrary
   wrapped registry), Proofs/ImmutableMem.v (the wrappers over the in-memory registry) and
   Proofs/MemImmutable.v (the in-memory registry in immutable-tags mode).

   Conventions: [trun w st h] runs history h through wrapper w from backend state st and
   returns the backend's final state with, per call, the result and the backend calls made;
   [ttrace] is the list of all backend calls; [final step st h] is the state after history h;
   [repo_of st r] is repository r as stored; [treach rp x] says digest x is named by a tag of
   rp or by a stored manifest that a tag reaches through manifest / subject references. *)
From Coq Require Import String.
From OCI Require Import Model.Mem Model.Immutable Proofs.FilterSelect Proofs.MemInv
  Proofs.MemImmutable Proofs.MemTagKids Proofs.Immutable Proofs.ImmutableMem.

(* ------------------------------ ReadOnly ------------------------------------------- *)

(* Go's selector rules applied to struct{Reader; Lister; deeper{*Funcs}}: the ten Reader /
   Lister methods come from the shallow embeddings (the wrapped registry), the other eight
   from the nil *Funcs; nothing is ambiguous or missing. *)
Theorem C14_readonly_method_set : forall m,
  select_method readonly_fields m =
  if reader_methods m then SelUnique SrcReader
  else if lister_methods m then SelUnique SrcLister
  else SelUnique SrcFuncs.
Proof. exact readonly_method_set. Qed.
Print Assumptions C14_readonly_method_set.

(* Every mutating call through ReadOnly (any wrapped registry, any state, any arguments):
   no backend call, backend state untouched, the error is "<Method>: unsupported operation". *)
Theorem C14_readonly_mutating_unsupported : forall (B : Type) (bstep : registry B) st o m,
  op_method o = Some m -> is_read_method m = false ->
  ro_step bstep st o = (st, promoted_result m, []) /\
  result_error (promoted_result m) = Some (unsupported_err (method_name m)).
Proof. exact @ro_mutating_unsupported. Qed.
Print Assumptions C14_readonly_mutating_unsupported.

(* Every read through ReadOnly is exactly the direct call on the wrapped registry. *)
Theorem C14_readonly_reads_identical : forall (B : Type) (bstep : registry B) st o,
  is_read_op o = true ->
  ro_step bstep st o = (fst (bstep st o), snd (bstep st o), [o]).
Proof. exact @ro_read_forwarded. Qed.
Print Assumptions C14_readonly_reads_identical.

(* Over every history: the wrapped registry sees exactly the reads of the history, in
   order, with the caller's arguments, and its final state is the replay of those reads. *)
Theorem C14_readonly_trace : forall (B : Type) (bstep : registry B) h st,
  ttrace (ro_step bstep) st h = filter is_read_op h /\
  fst (trun (ro_step bstep) st h) = final bstep st (filter is_read_op h).
Proof. exact @ro_trace. Qed.
Print Assumptions C14_readonly_trace.

(* No sequence of calls through ReadOnly(ocimem) changes the in-memory registry, whatever
   its configuration and state. *)
Theorem C14_readonly_no_change : forall hash vd vr vt di dx cfg h st,
  fst (trun (ro_step (step hash vd vr vt di dx cfg)) st h) = st.
Proof. exact readonly_mem_unchanged. Qed.
Print Assumptions C14_readonly_no_change.

(* ------------------------------ Immutable wrapper ---------------------------------- *)

(* The four methods the wrapper declares shadow the embedded Interface's. *)
Theorem C14_immutable_method_set : forall m,
  select_method immutable_fields m =
  if immutable_declared m then SelUnique SrcSelf else SelUnique SrcInterface.
Proof. exact immutable_method_set. Qed.
Print Assumptions C14_immutable_method_set.

(* Every delete through Immutable: ErrDenied, no backend call, state untouched; and over
   every history no delete is among the backend calls. *)
Theorem C14_immutable_no_delete : forall (B : Type) (bstep : registry B) hash,
  (forall st o, is_delete_op o = true -> imm_step bstep hash st o = (st, Err ErrDenied, [])) /\
  (forall h st c, In c (ttrace (imm_step bstep hash) st h) -> is_delete_op c = false).
Proof. intros B bstep hash. split; [apply imm_delete_denied | apply imm_no_delete_in_trace]. Qed.
Print Assumptions C14_immutable_no_delete.

(* Tags through Immutable over ANY wrapped registry that answers ResolveTag from a tag table
   [tagv] which only deletes and pushes under that very tag can change: a binding survives
   every call, a successful tagged push binds the tag to the digest of the pushed bytes, and
   once ResolveTag answered digest d it answers d after every continuation (sequential
   histories; a backend whose ResolveTag can fail for a bound tag is outside the hypothesis). *)
Theorem C14_immutable_wrapper_tags :
  forall (B : Type) (bstep : registry B) hash (tagv : B -> bytes -> bytes -> option bytes),
  (forall st r t, match tagv st r t with
                  | Some d => exists de, snd (bstep st (ResolveTag r t)) = Ok (RDesc de) /\ d_digest de = d
                  | None => exists e, snd (bstep st (ResolveTag r t)) = Err e
                  end) ->
  (forall st o r t, is_delete_op o = false -> touches o r t = false ->
                    tagv (fst (bstep st o)) r t = tagv st r t) ->
  (forall st o r t d, tagv st r t = Some d -> tagv (fst (fst (imm_step bstep hash st o))) r t = Some d) /\
  (forall st r t c m de, t <> [] ->
     snd (fst (imm_step bstep hash st (PushManifest r t c m))) = Ok (RDesc de) ->
     d_digest de = hash c /\ tagv (fst (fst (imm_step bstep hash st (PushManifest r t c m)))) r t = Some (hash c)) /\
  (forall h1 h2 st r t de,
     let '(s1, _) := trun (imm_step bstep hash) st h1 in
     snd (fst (imm_step bstep hash s1 (ResolveTag r t))) = Ok (RDesc de) ->
     let s1' := fst (fst (imm_step bstep hash s1 (ResolveTag r t))) in
     let '(s2, _) := trun (imm_step bstep hash) s1' h2 in
     exists de', snd (fst (imm_step bstep hash s2 (ResolveTag r t))) = Ok (RDesc de') /\
                 d_digest de' = d_digest de).
Proof.
  intros B bstep hash tagv H1 H2. split; [|split].
  - intros. now apply (imm_binding_kept bstep hash tagv H1 H2).
  - intros. now apply (imm_push_binds bstep hash tagv H1 H2).
  - intros. apply (imm_tag_forever bstep hash tagv H1 H2).
Qed.
Print Assumptions C14_immutable_wrapper_tags.

(* The same one tag at a time, for a registry that has other clients besides the wrapper's user:
   all that is asked of the backend is asked for the tag (r, t) alone - ResolveTag r t answers from
   the binding of (r, t), and serving an operation that is neither a delete nor a push under
   (r, t) leaves that binding alone, whatever else happens to the registry while it is served
   (somebody else's push under another tag landing between two calls of the wrapper).  Then the
   binding of (r, t) survives every call through the wrapper, a successful push under (r, t)
   binds it to the digest of the pushed bytes, and once ResolveTag r t answered digest d it
   answers d after every continuation. *)
Theorem C14_immutable_wrapper_tag_shared :
  forall (B : Type) (bstep : registry B) hash (r t : bytes) (tagv : B -> option bytes),
  (forall st, match tagv st with
              | Some d => exists de, snd (bstep st (ResolveTag r t)) = Ok (RDesc de) /\ d_digest de = d
              | None => exists e, snd (bstep st (ResolveTag r t)) = Err e
              end) ->
  (forall st o, is_delete_op o = false -> touches o r t = false -> tagv (fst (bstep st o)) = tagv st) ->
  (forall st o d, tagv st = Some d -> tagv (fst (fst (imm_step bstep hash st o))) = Some d) /\
  (forall st c m de, t <> [] ->
     snd (fst (imm_step bstep hash st (PushManifest r t c m))) = Ok (RDesc de) ->
     d_digest de = hash c /\ tagv (fst (fst (imm_step bstep hash st (PushManifest r t c m)))) = Some (hash c)) /\
  (forall h1 h2 st de,
     let '(s1, _) := trun (imm_step bstep hash) st h1 in
     snd (fst (imm_step bstep hash s1 (ResolveTag r t))) = Ok (RDesc de) ->
     let s1' := fst (fst (imm_step bstep hash s1 (ResolveTag r t))) in
     let '(s2, _) := trun (imm_step bstep hash) s1' h2 in
     exists de', snd (fst (imm_step bstep hash s2 (ResolveTag r t))) = Ok (RDesc de') /\
                 d_digest de' = d_digest de).
Proof.
  intros B bstep hash r t tagv H1 H2. split; [|split].
  - intros. now apply (imm_binding_kept_at bstep hash r t tagv H1 H2).
  - intros. now apply (imm_push_binds_at bstep hash r t tagv H1 H2).
  - intros. apply (imm_tag_forever_at bstep hash r t tagv H1 H2).
Qed.
Print Assumptions C14_immutable_wrapper_tag_shared.

(* The in-memory registry (any configuration) meets those two hypotheses with
   tagv = digest of the tag table entry: the previous theorem applies to Immutable(ocimem). *)
Theorem C14_immutable_mem_tags : forall hash vd vr vt di dx cfg h1 h2 st r t de,
  let istep := imm_step (step hash vd vr vt di dx cfg) hash in
  let '(s1, _) := trun istep st h1 in
  snd (fst (istep s1 (ResolveTag r t))) = Ok (RDesc de) ->
  let s1' := fst (fst (istep s1 (ResolveTag r t))) in
  let '(s2, _) := trun istep s1' h2 in
  exists de', snd (fst (istep s2 (ResolveTag r t))) = Ok (RDesc de') /\ d_digest de' = d_digest de.
Proof. intros. apply imm_mem_tag_forever. Qed.
Print Assumptions C14_immutable_mem_tags.

(* Nothing is deleted through Immutable(ocimem): over every history from every reachable
   state every stored blob and manifest is still stored, with the same bytes (same bytes:
   for a collision-free hash). *)
Theorem C14_immutable_mem_nothing_deleted : forall hash vd vr vt di dx cfg,
  (forall a b, hash a = hash b -> a = b) ->
  forall h st r, Inv hash di dx st ->
  grows (repo_of st r) (repo_of (fst (trun (imm_step (step hash vd vr vt di dx cfg) hash) st h)) r).
Proof. intros. now apply imm_mem_nothing_deleted. Qed.
Print Assumptions C14_immutable_mem_nothing_deleted.

(* ------------------------------ ocimem, immutable-tags mode ------------------------ *)

(* What one operation can do to one repository: the exhaustive table the other theorems are
   derived from (deletes carry the refersTo answer, a manifest push under ImmutableTags
   carries "tag was unbound" and "stored media type unchanged"). *)
Theorem C14_step_effect : forall hash vd vr vt di dx cfg st o r,
  effect hash di dx cfg o r (repo_of st r) (repo_of (fst (step hash vd vr vt di dx cfg st o)) r).
Proof. exact step_effect. Qed.
Print Assumptions C14_step_effect.

(* Once ResolveTag answered a descriptor (after any history from the empty registry) it
   answers that descriptor after every continuation, and GetTag succeeds with content of
   that digest.  No hypothesis on the hash. *)
Theorem C14_immutable_mode_tags : forall hash vd vr vt di dx cfg,
  immutable_tags cfg = true ->
  forall h1 h2 r t de,
  let step := step hash vd vr vt di dx cfg in
  let s1 := final step init h1 in
  snd (step s1 (ResolveTag r t)) = Ok (RDesc de) ->
  let s2 := final step s1 h2 in
  snd (step s2 (ResolveTag r t)) = Ok (RDesc de) /\
  exists b, snd (step s2 (GetTag r t)) = Ok (RRead (blob_desc hash b) (b_data b)) /\
            d_digest (blob_desc hash b) = d_digest de.
Proof. intros. now apply resolve_forever. Qed.
Print Assumptions C14_immutable_mode_tags.

(* The same bytes forever: once GetTag returned (descriptor, bytes) it returns exactly that
   after every continuation; a successful tagged push makes GetTag return the pushed bytes
   forever.  Hypothesis: digest.FromBytes is collision-free. *)
Theorem C14_immutable_mode_bytes : forall hash vd vr vt di dx cfg,
  immutable_tags cfg = true -> (forall a b, hash a = hash b -> a = b) ->
  let step := step hash vd vr vt di dx cfg in
  (forall h1 h2 r t de data,
     snd (step (final step init h1) (GetTag r t)) = Ok (RRead de data) ->
     snd (step (final step (final step init h1) h2) (GetTag r t)) = Ok (RRead de data)) /\
  (forall h1 h2 r t c m de, t <> [] ->
     let s1 := final step init h1 in
     snd (step s1 (PushManifest r t c m)) = Ok (RDesc de) ->
     let s2 := final step (fst (step s1 (PushManifest r t c m))) h2 in
     d_digest de = hash c /\
     snd (step s2 (ResolveTag r t)) = Ok (RDesc de) /\
     exists de', snd (step s2 (GetTag r t)) = Ok (RRead de' c) /\ d_digest de' = hash c).
Proof.
  intros hash vd vr vt di dx cfg Hi Hinj. cbn zeta. split.
  - intros. now apply (get_tag_forever hash vd vr vt di dx cfg Hi Hinj h1 h2 r t de data).
  - intros h1 h2 r t c m de Ht Hp.
    exact (tagged_push_forever hash vd vr vt di dx cfg Hi Hinj h1 h2 r t c m de Ht Hp).
Qed.
Print Assumptions C14_immutable_mode_bytes.

(* Tagged closure: whatever a tag reaches through stored manifests is still reached after
   every continuation, and what of it was retrievable (blob or manifest) stays retrievable
   with the same bytes.  (What was already missing when the tag was set is not claimed:
   PushManifest checks only direct references.)  Hypothesis: collision-free hash. *)
Theorem C14_tagged_closure_retrievable : forall hash vd vr vt di dx cfg,
  immutable_tags cfg = true -> (forall a b, hash a = hash b -> a = b) ->
  forall h1 h2 r x,
  let step := step hash vd vr vt di dx cfg in
  let s1 := final step init h1 in
  let s2 := final step s1 h2 in
  treach di dx (repo_of s1 r) x ->
  treach di dx (repo_of s2 r) x /\
  (forall de data, snd (step s1 (GetBlob r x)) = Ok (RRead de data) ->
     exists de', snd (step s2 (GetBlob r x)) = Ok (RRead de' data) /\ d_digest de' = d_digest de) /\
  (forall de data, snd (step s1 (GetManifest r x)) = Ok (RRead de data) ->
     snd (step s2 (GetManifest r x)) = Ok (RRead de data)).
Proof. intros. now apply tagged_closure_kept. Qed.
Print Assumptions C14_tagged_closure_retrievable.

(* The deletes: DeleteTag never succeeds; a DeleteBlob / DeleteManifest that succeeds removes
   something no tag reaches (soundness of the refersTo walk: it answers "no" only for
   unreached digests). *)
Theorem C14_immutable_mode_deletes : forall hash vd vr vt di dx cfg,
  immutable_tags cfg = true ->
  let step := step hash vd vr vt di dx cfg in
  (forall st r t, snd (step st (DeleteTag r t)) <> Ok RUnit) /\
  (forall st r d,
     snd (step st (DeleteBlob r d)) = Ok RUnit \/ snd (step st (DeleteManifest r d)) = Ok RUnit ->
     ~ treach di dx (repo_of st r) d).
Proof.
  intros hash vd vr vt di dx cfg Hi. cbn zeta. split.
  - intros. now apply delete_tag_refused.
  - intros st r d H. now apply (delete_only_unreached hash vd vr vt di dx cfg Hi st r d).
Qed.
Print Assumptions C14_immutable_mode_deletes.

(* The model's refersTo is fuelled; the Go function is not.  When stored manifests form no
   cycle (the hypothesis [acyclic]: with a real hash, no manifest contains, transitively, its
   own digest) the fuel is never exhausted, so the fuelled model and the unfuelled code
   agree. *)
Theorem C14_refers_to_fuel : forall di dx rp d,
  acyclic di dx rp -> tagged_refers_to di dx rp d <> OutOfFuel.
Proof. exact tagged_refers_to_fuel. Qed.
Print Assumptions C14_refers_to_fuel.

(* Immutable-tags mode, at every moment of every history (hence of every interleaving of a
   concurrent execution): whatever a tagged manifest names directly and the registry insists on
   at push time - the layers and the config of a tagged image, the entries of a tagged index - is
   stored.  Not only "stays stored once seen": a tag bound in the middle of a history, or by a
   goroutine racing a delete, has all its direct references in place.  (Subjects may dangle;
   deeper levels are what C14_tagged_closure_retrievable keeps from the moment they are there.) *)
Theorem C14_tagged_direct_refs_stored : forall hash vd vr vt di dx cfg,
  immutable_tags cfg = true -> (forall a b, hash a = hash b -> a = b) ->
  forall h r t de b rs k cd,
  let st := final (step hash vd vr vt di dx cfg) init h in
  itag st r t = Some de -> iman st r (d_digest de) = Some b ->
  manifest_refs di dx (b_media b) (b_data b) = Some rs -> In (k, cd) rs ->
  match k with
  | KBlob => iblob st r (d_digest cd) <> None
  | KManifest => iman st r (d_digest cd) <> None
  | KSubject => True
  end.
Proof. exact tagged_direct_refs_stored. Qed.
Print Assumptions C14_tagged_direct_refs_stored.

(* Concurrency clause.  Every operation of the registry is one atomic step (one critical
   section under Registry.mu: that is property C08's generated lock table, not proved here),
   so a concurrent execution of any number of threads is some interleaving [h] of their
   operation sequences [ths]; whatever the interleaving, tags, reachability and reached
   content are kept. *)
Theorem C14_immutable_mode_concurrent : forall hash vd vr vt di dx cfg,
  immutable_tags cfg = true -> (forall a b, hash a = hash b -> a = b) ->
  forall (ths : list (list op)) h st r,
  schedule ths h -> Inv hash di dx st ->
  keeps di dx (repo_of st r) (repo_of (final (step hash vd vr vt di dx cfg) st h) r).
Proof. intros. eapply concurrent_keeps; eauto. Qed.
Print Assumptions C14_immutable_mode_concurrent.

(* The hypotheses are satisfiable by non-trivial values: a registry holding a tagged image
   whose layer is reached, with an injective "hash" (the identity) and a rank for [acyclic]. *)
Example C14_hypotheses_satisfiable :
  let hash := fun b : bytes => b in
  let di := fun b : bytes => if beqb b (s "img") then
              Some {| im_layers := [ {| d_media := s "l"; d_digest := s "layer"; d_size := 5; d_artifact := [] |} ];
                      im_config := {| d_media := s "c"; d_digest := s "cfg"; d_size := 3; d_artifact := [] |};
                      im_subject := None |} else None in
  let dx := fun _ : bytes => None in
  let st := final (step hash (fun _ => true) (fun _ => true) (fun _ => true) di dx {| immutable_tags := true |}) init
              [ PushBlob (s "r") {| d_media := s "l"; d_digest := s "layer"; d_size := 5; d_artifact := [] |} (s "layer");
                PushBlob (s "r") {| d_media := s "c"; d_digest := s "cfg"; d_size := 3; d_artifact := [] |} (s "cfg");
                PushManifest (s "r") (s "t") (s "img") MT_IMAGE ] in
  (forall a b, hash a = hash b -> a = b) /\
  treach di dx (repo_of st (s "r")) (s "layer") /\
  iblob st (s "r") (s "layer") <> None /\
  acyclic di dx (repo_of st (s "r")).
Proof.
  intros hash di dx st. split; [auto|]. split; [|split].
  - apply (reach_down di dx _ _ KManifest
             {| d_media := MT_IMAGE; d_digest := s "img"; d_size := 3; d_artifact := [] |}
             {| b_media := MT_IMAGE; b_data := s "img"; b_subject := [] |}
             [ (KBlob, {| d_media := s "l"; d_digest := s "layer"; d_size := 5; d_artifact := [] |});
               (KBlob, {| d_media := s "c"; d_digest := s "cfg"; d_size := 3; d_artifact := [] |}) ]).
    + vm_compute. now left.
    + discriminate.
    + vm_compute. reflexivity.
    + vm_compute. reflexivity.
    + apply (reach_here di dx _ _ KBlob {| d_media := s "l"; d_digest := s "layer"; d_size := 5; d_artifact := [] |}).
      now left.
  - vm_compute. discriminate.
  - exists (fun _ => 0%nat). intros m b rs k de b' Hm Hrs Hin Hk Hb'. exfalso.
    assert (Hms : manifests (repo_of st (s "r")) =
                  [(s "img", {| b_media := MT_IMAGE; b_data := s "img"; b_subject := [] |})])
      by (vm_compute; reflexivity).
    unfold mlk in Hm. rewrite Hms in Hm. cbn [alookup] in Hm.
    destruct (beqb m (s "img")); [|discriminate]. injection Hm as <-.
    vm_compute in Hrs. injection Hrs as <-.
    destruct Hin as [H|[H|[]]]; injection H as <- _; congruence.
Qed.
