(* C17  Reference parsing is a total, exact partition consistent with the validators.
   Statements only; proofs live in Proofs/Ref.v (and Base/Regex.v for the matcher).

   [linked] says which hash implementations are linked into the binary (go-digest's
   Algorithm.Available asks the crypto registry; neither go-digest nor ociref imports a
   hash): every theorem holds for every value of it. *)
From Coq Require Import String.
From OCI Require Import Base.Outcome Base.Regex Model.Ref Proofs.Ref.

(* The four validity predicates are defined on every string: each returns a boolean
   (never the modelled panic at checkTag's s[0], never anything else). *)
Theorem C17_predicates_total : forall linked w,
  (exists b, is_valid_host w = Ok b) /\ (exists b, is_valid_repository w = Ok b) /\
  (exists b, is_valid_tag w = Ok b) /\ (exists b, is_valid_digest linked w = Ok b).
Proof. exact predicates_total. Qed.
Print Assumptions C17_predicates_total.

(* On the empty string in particular every predicate answers false. *)
Theorem C17_predicates_on_empty : forall linked,
  is_valid_host [] = Ok false /\ is_valid_repository [] = Ok false /\
  is_valid_tag [] = Ok false /\ is_valid_digest linked [] = Ok false.
Proof. exact predicates_on_empty. Qed.
Print Assumptions C17_predicates_on_empty.

(* The defect that was repaired: checkTag as it stood before the fix reads s[0] of the
   empty string; the repaired function differs from it on the empty string only. *)
Theorem C17_unrepaired_check_tag_panics : check_tag_unrepaired [] = Panic.
Proof. exact check_tag_unrepaired_panics. Qed.
Print Assumptions C17_unrepaired_check_tag_panics.

Theorem C17_repair_conservative : forall w, w <> [] -> check_tag w = check_tag_unrepaired w.
Proof. exact check_tag_repair_conservative. Qed.
Print Assumptions C17_repair_conservative.

(* checkTag's loop is the tag grammar [a-zA-Z0-9_][a-zA-Z0-9._-]{0,127}. *)
Theorem C17_tag_grammar : forall w, is_valid_tag w = Ok (tag_spec w).
Proof. exact is_valid_tag_spec. Qed.
Print Assumptions C17_tag_grammar.

(* Parse and ParseRelative never panic on any string: they return a reference or an error. *)
Theorem C17_parsing_never_panics : forall linked w,
  parse_relative linked w <> Panic /\ parse_relative linked w <> OutOfFuel /\
  parse linked w <> Panic /\ parse linked w <> OutOfFuel.
Proof. exact parsing_never_panics. Qed.
Print Assumptions C17_parsing_never_panics.

(* If a string parses, printing the result gives back the same string. *)
Theorem C17_parse_print : forall linked w ref,
  parse_relative linked w = Ok ref -> to_string ref = w.
Proof. exact parse_print. Qed.
Print Assumptions C17_parse_print.

(* The same for Parse, whose results always have a host. *)
Theorem C17_parse_print_abs : forall linked w ref,
  parse linked w = Ok ref -> to_string ref = w /\ r_host ref <> [].
Proof. exact parse_print_abs. Qed.
Print Assumptions C17_parse_print_abs.

(* Each part of a parsed reference satisfies its own predicate and length limit
   (an absent host, tag or digest is the empty string). *)
Theorem C17_parts_valid : forall linked w ref,
  parse_relative linked w = Ok ref ->
  (r_host ref = [] \/ is_valid_host (r_host ref) = Ok true) /\
  is_valid_repository (r_repo ref) = Ok true /\ (blen (r_repo ref) <= 255)%Z /\
  (r_tag ref = [] \/ is_valid_tag (r_tag ref) = Ok true /\ (blen (r_tag ref) <= 128)%Z) /\
  (r_digest ref = [] \/ is_valid_digest linked (r_digest ref) = Ok true).
Proof. exact parts_valid. Qed.
Print Assumptions C17_parts_valid.

(* Conversely: valid parts with a (valid, hence non-empty) host, repository within its
   limit, print to a string that both parsers take back to the same parts. *)
Theorem C17_print_parse : forall linked h r t d,
  is_valid_host h = Ok true ->
  is_valid_repository r = Ok true -> (blen r <= 255)%Z ->
  (t = [] \/ is_valid_tag t = Ok true) ->
  (d = [] \/ is_valid_digest linked d = Ok true) ->
  parse_relative linked (to_string (mkref h r t d)) = Ok (mkref h r t d) /\
  parse linked (to_string (mkref h r t d)) = Ok (mkref h r t d).
Proof. exact print_parse. Qed.
Print Assumptions C17_print_parse.

(* The hypotheses of C17_print_parse are satisfiable by a reference with every part present. *)
Example C17_print_parse_nonvacuous :
  let d := s "sha256:0123456789abcdef0123456789abcdef0123456789abcdef0123456789abcdef" in
  is_valid_host (s "reg.example.com:5000") = Ok true /\
  is_valid_repository (s "lib/foo__bar--baz.q_z") = Ok true /\
  is_valid_tag (s "V1.0-rc_2") = Ok true /\
  is_valid_digest (fun _ => true) d = Ok true /\
  parse (fun _ => true) (s "reg.example.com:5000/lib/foo__bar--baz.q_z:V1.0-rc_2@sha256:0123456789abcdef0123456789abcdef0123456789abcdef0123456789abcdef")
  = Ok (mkref (s "reg.example.com:5000") (s "lib/foo__bar--baz.q_z") (s "V1.0-rc_2") d).
Proof. vm_compute. repeat split. Qed.

(* Why the host is required: a valid host-less repository whose first element looks like a
   host prints to a string that parses to different parts. *)
Theorem C17_hostless_not_injective : exists r,
  is_valid_repository r = Ok true /\
  parse_relative (fun _ => true) (to_string (mkref [] r [] [])) <> Ok (mkref [] r [] []).
Proof. exists (s "a.b/c"). split; [reflexivity | vm_compute; discriminate]. Qed.
Print Assumptions C17_hostless_not_injective.

(* ... and that is the only obstacle: without a host the round trip holds whenever the
   host alternative of the pattern does not apply to the printed string. *)
Theorem C17_print_parse_hostless : forall linked r t d,
  is_valid_repository r = Ok true -> (blen r <= 255)%Z ->
  (t = [] \/ is_valid_tag t = Ok true) ->
  (d = [] \/ is_valid_digest linked d = Ok true) ->
  split_with_host (to_string (mkref [] r t d)) = None ->
  parse_relative linked (to_string (mkref [] r t d)) = Ok (mkref [] r t d).
Proof. exact print_parse_hostless. Qed.
Print Assumptions C17_print_parse_hostless.

(* The routing layer and the deprecated wrappers of ociregistry/valid.go apply the very same
   predicates; the manifests route classifies its last path element as digest, else tag,
   else not found, and that classification is total (this is where GET /v2/foo/manifests/
   used to panic). *)
Theorem C17_router_same_predicates : forall linked w,
  router_valid_repo w = is_valid_repository w /\
  router_valid_digest linked w = is_valid_digest linked w /\
  root_is_valid_repo_name w = is_valid_repository w /\
  root_is_valid_tag w = is_valid_tag w /\
  root_is_valid_digest linked w = is_valid_digest linked w /\
  router_manifest_ref linked w =
    Ok (match is_valid_digest linked w, is_valid_tag w with
        | Ok true, _ => RDigest
        | _, Ok true => RTag
        | _, _ => RNotFound
        end).
Proof. exact router_same_predicates. Qed.
Print Assumptions C17_router_same_predicates.

(* The matcher behind IsValidHost / IsValidRepository / go-digest's patterns decides the
   declarative regular-expression semantics. *)
Theorem C17_matcher_correct : forall r w, matches r w = true <-> Matches r w.
Proof. exact matches_sem. Qed.
Print Assumptions C17_matcher_correct.
