(* C03, second part: theorems about the MODEL of the HTTP layers (the first part, Props/C03.v, is
   about the specification of transparency and the soundness of the correspondence).

     C03_url_codec*        (Proofs/RequestCodec.v) parse (construct r) = norm r for every
                           request with well-formed names, routing words included;
     C03_dispatch*         (Proofs/StackDispatch.v) the handler table: which backend calls
                           an exchange makes, with which arguments;
     C03_descriptor_*      (Proofs/StackDesc.v) descriptors survive header emission and
                           descriptorFromResponse;
     C03_transparent_*     (Proofs/StackTransparent.v, StackListing.v) per method: the
                           composed model  ociclient model o wire o ociserver model o backend
                           (Model/Stack.v) returns the backend's answer and leaves the
                           backend in the state after the dispatched calls, for EVERY backend
                           whose answer to those calls is conforming, every option set;
     C03_step_one, C03_history_transparent*, C03_mem_*   (Proofs/StackStep.v, StackHistory*.v,
                           StackMem*.v) the history-level statement: for every backend
                           satisfying the contract [Conforming] - which the ocimem model does -
                           and every admissible history, the run through the stack and the
                           direct run agree result by result and end in related states;
     C03_winv_ops, C03_commit_stores   (Proofs/StackUploadInv.v) the upload protocol over
                           arbitrary writer-operation sequences;
     C03_two_hops_*, C03_conf_view     (Proofs/StackTwoHops.v, StackCompose.v) two hops;
     C03_*_refuted         (Proofs/StackRefuted.v) the recorded deviations as kernel-checked
                           witnesses on the ocimem model.

   Statements only (Proof. exact <lemma>. Qed. + Print Assumptions).  The statements are the
   lemmas' types as Coq prints them (Check), hence the fully qualified names. *)
From Coq Require Import String.
From OCI Require Proofs.RequestCodec Proofs.StackDispatch Proofs.StackDesc Proofs.StackTransparent Proofs.StackListingB Proofs.StackListing Proofs.StackTwoHops Proofs.StackRefuted Proofs.StackStep Proofs.StackHistory Proofs.StackHistoryRun Proofs.StackMem Proofs.StackMemRun Proofs.StackUploadInv Proofs.StackUploadMem Proofs.StackUploadEmpty Proofs.StackUploadErr Proofs.StackCompose Proofs.StackHistoryRefuted.

(* the client renders a Request value to method + URL, the server's router reads back exactly that value (norm: documented normalisations only), for every request with well-formed names, routing words included *)
Theorem C03_url_codec :
  forall (linked : Ref.alg -> bool) (r : Request.request),
  RequestCodecSpec.wf_request linked r = true ->
  exists path rawq : Bytes.bytes,
    Request.url_parse_v2 (snd (Request.construct r)) = Outcome.Ok (path, rawq) /\
    Request.parse_req linked (fst (Request.construct r)) path rawq =
    Outcome.Ok (RequestCodecSpec.norm r).
Proof. exact @RequestCodec.url_codec. Qed.
Print Assumptions C03_url_codec.

(* two well-formed requests rendered to the same method + URL are the same request (up to norm) *)
Theorem C03_url_codec_injective :
  forall (linked : Ref.alg -> bool) (r1 r2 : Request.request),
  RequestCodecSpec.wf_request linked r1 = true ->
  RequestCodecSpec.wf_request linked r2 = true ->
  Request.construct r1 = Request.construct r2 ->
  RequestCodecSpec.norm r1 = RequestCodecSpec.norm r2.
Proof. exact @RequestCodec.url_codec_injective. Qed.
Print Assumptions C03_url_codec_injective.

(* Request.Construct (which re-parses what it built) accepts every well-formed request *)
Theorem C03_construct_ok :
  forall (linked : Ref.alg -> bool) (r : Request.request),
  RequestCodecSpec.wf_request linked r = true ->
  Request.Construct linked r = Outcome.Ok (Request.construct r).
Proof. exact @RequestCodec.construct_ok. Qed.
Print Assumptions C03_construct_ok.

(* converse: what the router returns for a canonical request line is well-formed and renders back to a line that parses to the same request *)
Theorem C03_parse_construct :
  forall (linked : Ref.alg -> bool) (m p q : Bytes.bytes) (r : Request.request),
  RequestCodec.byte_list q = true ->
  Request.parse_req linked m p q = Outcome.Ok r ->
  RequestCodecSpec.parser_canonical r = true ->
  RequestCodecSpec.wf_request linked r = true /\
  RequestCodecSpec.norm r = r /\
  (exists path rawq : Bytes.bytes,
     Request.url_parse_v2 (snd (Request.construct r)) = Outcome.Ok (path, rawq) /\
     Request.parse_req linked (fst (Request.construct r)) path rawq = Outcome.Ok r).
Proof. exact @RequestCodec.parse_construct. Qed.
Print Assumptions C03_parse_construct.

(* the two router outputs construct cannot print back (empty upload id after base64 skipping CR/LF, n < -1) - why parser_canonical is a hypothesis above *)
Theorem C03_parse_construct_refuted :
  (exists r : Request.request,
     Request.parse_req RequestCodec.all_linked Request.m_GET
       (Bytes.s "/v2/foo/blobs/uploads/" ++
        BinNums.Npos (BinNums.xO (BinNums.xI (BinNums.xO BinNums.xH))) :: nil)%list nil =
     Outcome.Ok r /\
     Request.q_upload r = nil /\ Request.Construct RequestCodec.all_linked r = Outcome.Err tt) /\
  (exists r : Request.request,
     Request.parse_req RequestCodec.all_linked Request.m_GET (Bytes.s "/v2/_catalog")
       (Bytes.s "n=-5") = Outcome.Ok r /\
     Request.q_listn r = BinNums.Zneg (BinNums.xI (BinNums.xO BinNums.xH)) /\
     Request.q_listn (RequestCodecSpec.norm r) = BinNums.Zneg BinNums.xH /\
     RequestCodecSpec.codec_holds RequestCodec.all_linked r = true).
Proof. exact @RequestCodec.parse_construct_refuted. Qed.
Print Assumptions C03_parse_construct_refuted.

(* handler table: for every request the router accepts, every backend, option set, header and body, the backend calls ociserver makes are exactly those of dispatch_table, in order, and the backend ends in the state those calls lead to *)
Theorem C03_dispatch :
  forall (linked : Ref.alg -> bool) (digest_of : Bytes.bytes -> Bytes.bytes)
    (subject_of : Bytes.bytes -> option (option Bytes.bytes))
    (enc : Server.jval -> Bytes.bytes)
    (redirect : Bytes.bytes -> Bytes.bytes -> Bytes.bytes * Bytes.bytes) 
    (B : Type) (bstep : Server.backend B) (o : Server.opts) (b : B) 
    (req : Server.hreq) (r : Request.request),
  Request.parse_req linked (Server.hq_method req) (Server.hq_path req)
    (Server.hq_rawquery req) = Outcome.Ok r ->
  let
  '(b', tr, _) := Server.handle linked digest_of subject_of enc redirect B bstep o b req in
   (b', Stack.calls_of tr) =
   Stack.run_plan bstep b (Stack.dispatch_table linked digest_of subject_of o req r).
Proof. exact @StackDispatch.dispatch. Qed.
Print Assumptions C03_dispatch.

(* every backend call of an exchange carries the request's own repository / digest / tag / from / upload id *)
Theorem C03_dispatch_args_exact :
  forall (linked : Ref.alg -> bool) (digest_of : Bytes.bytes -> Bytes.bytes)
    (subject_of : Bytes.bytes -> option (option Bytes.bytes))
    (enc : Server.jval -> Bytes.bytes)
    (redirect : Bytes.bytes -> Bytes.bytes -> Bytes.bytes * Bytes.bytes) 
    (B : Type) (bstep : Server.backend B) (o : Server.opts) (b : B) 
    (req : Server.hreq) (r : Request.request),
  Request.parse_req linked (Server.hq_method req) (Server.hq_path req)
    (Server.hq_rawquery req) = Outcome.Ok r ->
  let
  '(_, tr, _) := Server.handle linked digest_of subject_of enc redirect B bstep o b req in
   List.Forall
     (fun e : Server.ev =>
      match e with
      | Server.ECall c _ => Stack.op_of_request r c = true
      | _ => True
      end) tr.
Proof. exact @StackDispatch.dispatch_args_exact. Qed.
Print Assumptions C03_dispatch_args_exact.

(* the simple request kinds make exactly one backend call *)
Theorem C03_dispatch_one_call :
  forall (linked : Ref.alg -> bool) (digest_of : Bytes.bytes -> Bytes.bytes)
    (subject_of : Bytes.bytes -> option (option Bytes.bytes))
    (enc : Server.jval -> Bytes.bytes)
    (redirect : Bytes.bytes -> Bytes.bytes -> Bytes.bytes * Bytes.bytes) 
    (B : Type) (bstep : Server.backend B) (o : Server.opts) (b : B) 
    (req : Server.hreq) (r : Request.request) (c : Iface.op),
  Request.parse_req linked (Server.hq_method req) (Server.hq_path req)
    (Server.hq_rawquery req) = Outcome.Ok r ->
  StackDispatch.simple_call o req r = Some c ->
  let
  '(b', tr, _) := Server.handle linked digest_of subject_of enc redirect B bstep o b req in
   b' = fst (bstep b c) /\ Stack.calls_of tr = ((c, snd (bstep b c)) :: nil)%list.
Proof. exact @StackDispatch.dispatch_one_call. Qed.
Print Assumptions C03_dispatch_one_call.

(* a request line the router refuses reaches the backend with no call at all *)
Theorem C03_dispatch_refused :
  forall (linked : Ref.alg -> bool) (digest_of : Bytes.bytes -> Bytes.bytes)
    (subject_of : Bytes.bytes -> option (option Bytes.bytes))
    (enc : Server.jval -> Bytes.bytes)
    (redirect : Bytes.bytes -> Bytes.bytes -> Bytes.bytes * Bytes.bytes) 
    (B : Type) (bstep : Server.backend B) (o : Server.opts) (b : B) 
    (req : Server.hreq),
  (forall r : Request.request,
   Request.parse_req linked (Server.hq_method req) (Server.hq_path req)
     (Server.hq_rawquery req) <> Outcome.Ok r) ->
  let
  '(b', tr, _) := Server.handle linked digest_of subject_of enc redirect B bstep o b req in
   b' = b /\ tr = nil.
Proof. exact @StackDispatch.dispatch_refused. Qed.
Print Assumptions C03_dispatch_refused.

(* digest and size survive ociserver's header emission and ociclient's descriptorFromResponse (blob HEAD) *)
Theorem C03_descriptor_roundtrip_blob_head :
  forall (linked : Ref.alg -> bool) (hash : Bytes.bytes -> Bytes.bytes -> Bytes.bytes)
    (media : Bytes.bytes -> Bytes.bytes)
    (dec_errors : Bytes.bytes -> option (list Errors.werr))
    (dec_names : bool -> Bytes.bytes -> option (list Bytes.bytes))
    (dec_index : Bytes.bytes -> option (list Iface.desc)) (idx : nat) 
    (rq : Http.hreq) (d : Iface.desc) (known : Bytes.bytes),
  Request.vdigest linked (Iface.d_digest d) = true ->
  StackDesc.int64 (Iface.d_size d) ->
  Client.descriptor_from_response
    (Stack.stack_env linked hash media dec_errors dec_names dec_index) Client.current
    (StackDesc.in_hand idx rq Http.MHead
       {|
         Server.p_status :=
           BinNums.Zpos
             (BinNums.xO
                (BinNums.xO
                   (BinNums.xO (BinNums.xI (BinNums.xO (BinNums.xO (BinNums.xI BinNums.xH)))))));
         Server.p_hdrs := StackDesc.hdrs_blob_head d;
         Server.p_body := nil;
         Server.p_json := None
       |}) known true true =
  Outcome.Ok
    {|
      Iface.d_media := Client.octet_stream;
      Iface.d_digest := Iface.d_digest d;
      Iface.d_size := Iface.d_size d;
      Iface.d_artifact := nil
    |}.
Proof. exact @StackDesc.descriptor_roundtrip_blob_head. Qed.
Print Assumptions C03_descriptor_roundtrip_blob_head.

(* digest, size and media type survive (manifest HEAD), every option set *)
Theorem C03_descriptor_roundtrip_manifest_head :
  forall (linked : Ref.alg -> bool) (hash : Bytes.bytes -> Bytes.bytes -> Bytes.bytes)
    (media : Bytes.bytes -> Bytes.bytes)
    (dec_errors : Bytes.bytes -> option (list Errors.werr))
    (dec_names : bool -> Bytes.bytes -> option (list Bytes.bytes))
    (dec_index : Bytes.bytes -> option (list Iface.desc)) (o : Server.opts) 
    (idx : nat) (rq : Http.hreq) (has_tag : bool) (d : Iface.desc) 
    (known : Bytes.bytes),
  Request.vdigest linked (Iface.d_digest d) = true ->
  StackDesc.int64 (Iface.d_size d) ->
  Request.vdigest linked known = true \/ known = nil ->
  Client.descriptor_from_response
    (Stack.stack_env linked hash media dec_errors dec_names dec_index) Client.current
    (StackDesc.in_hand idx rq Http.MHead
       {|
         Server.p_status :=
           BinNums.Zpos
             (BinNums.xO
                (BinNums.xO
                   (BinNums.xO (BinNums.xI (BinNums.xO (BinNums.xO (BinNums.xI BinNums.xH)))))));
         Server.p_hdrs := StackDesc.hdrs_manifest_head o has_tag d;
         Server.p_body := nil;
         Server.p_json := None
       |}) known true true =
  (let dg :=
     if (negb (Server.o_omit_digest_from_tag_get o) || has_tag)%bool
     then Iface.d_digest d
     else known in
   if Client.is_empty dg
   then Outcome.Err (Errors.Plain (Bytes.s "no digest found in response"))
   else
    Outcome.Ok
      {|
        Iface.d_media := StackDesc.media_or_octet (Iface.d_media d);
        Iface.d_digest := dg;
        Iface.d_size := Iface.d_size d;
        Iface.d_artifact := nil
      |}).
Proof. exact @StackDesc.descriptor_roundtrip_manifest_head. Qed.
Print Assumptions C03_descriptor_roundtrip_manifest_head.

(* the same for manifest GET, including the digest recovered from the body when the server omits it *)
Theorem C03_descriptor_roundtrip_manifest_get :
  forall (linked : Ref.alg -> bool) (hash : Bytes.bytes -> Bytes.bytes -> Bytes.bytes)
    (media : Bytes.bytes -> Bytes.bytes)
    (dec_errors : Bytes.bytes -> option (list Errors.werr))
    (dec_names : bool -> Bytes.bytes -> option (list Bytes.bytes))
    (dec_index : Bytes.bytes -> option (list Iface.desc)) (o : Server.opts) 
    (idx : nat) (rq : Http.hreq) (d : Iface.desc) (data known : Bytes.bytes),
  Request.vdigest linked (Iface.d_digest d) = true ->
  StackDesc.int64 (Iface.d_size d) ->
  Request.vdigest linked known = true \/ known = nil ->
  Client.descriptor_from_response
    (Stack.stack_env linked hash media dec_errors dec_names dec_index) Client.current
    (StackDesc.in_hand idx rq Http.MGet
       {|
         Server.p_status :=
           BinNums.Zpos
             (BinNums.xO
                (BinNums.xO
                   (BinNums.xO (BinNums.xI (BinNums.xO (BinNums.xO (BinNums.xI BinNums.xH)))))));
         Server.p_hdrs := StackDesc.hdrs_manifest_get o d;
         Server.p_body := data;
         Server.p_json := None
       |}) known true false =
  Outcome.Ok
    {|
      Iface.d_media := StackDesc.media_or_octet (Iface.d_media d);
      Iface.d_digest :=
        if Server.o_omit_digest_from_tag_get o then known else Iface.d_digest d;
      Iface.d_size := Iface.d_size d;
      Iface.d_artifact := nil
    |}.
Proof. exact @StackDesc.descriptor_roundtrip_manifest_get. Qed.
Print Assumptions C03_descriptor_roundtrip_manifest_get.

(* the same for blob GET *)
Theorem C03_descriptor_roundtrip_blob_get :
  forall (linked : Ref.alg -> bool) (hash : Bytes.bytes -> Bytes.bytes -> Bytes.bytes)
    (media : Bytes.bytes -> Bytes.bytes)
    (dec_errors : Bytes.bytes -> option (list Errors.werr))
    (dec_names : bool -> Bytes.bytes -> option (list Bytes.bytes))
    (dec_index : Bytes.bytes -> option (list Iface.desc)) (idx : nat) 
    (rq : Http.hreq) (dig : Bytes.bytes) (d : Iface.desc) (data known : Bytes.bytes),
  Request.vdigest linked dig = true ->
  StackDesc.int64 (Iface.d_size d) ->
  Client.descriptor_from_response
    (Stack.stack_env linked hash media dec_errors dec_names dec_index) Client.current
    (StackDesc.in_hand idx rq Http.MGet
       {|
         Server.p_status :=
           BinNums.Zpos
             (BinNums.xO
                (BinNums.xO
                   (BinNums.xO (BinNums.xI (BinNums.xO (BinNums.xO (BinNums.xI BinNums.xH)))))));
         Server.p_hdrs := StackDesc.hdrs_blob_get dig d;
         Server.p_body := data;
         Server.p_json := None
       |}) known true false =
  Outcome.Ok
    {|
      Iface.d_media := StackDesc.media_or_octet (Iface.d_media d);
      Iface.d_digest := dig;
      Iface.d_size := Iface.d_size d;
      Iface.d_artifact := nil
    |}.
Proof. exact @StackDesc.descriptor_roundtrip_blob_get. Qed.
Print Assumptions C03_descriptor_roundtrip_blob_get.

(* a ranged blob GET still describes the whole blob *)
Theorem C03_descriptor_roundtrip_blob_range :
  forall (linked : Ref.alg -> bool) (hash : Bytes.bytes -> Bytes.bytes -> Bytes.bytes)
    (media : Bytes.bytes -> Bytes.bytes)
    (dec_errors : Bytes.bytes -> option (list Errors.werr))
    (dec_names : bool -> Bytes.bytes -> option (list Bytes.bytes))
    (dec_index : Bytes.bytes -> option (list Iface.desc)) (idx : nat) 
    (rq : Http.hreq) (dig : Bytes.bytes) (d : Iface.desc) (data : Bytes.bytes)
    (start end_ : BinNums.Z) (known : Bytes.bytes),
  Request.vdigest linked dig = true ->
  StackDesc.int64 (Iface.d_size d) ->
  Client.descriptor_from_response
    (Stack.stack_env linked hash media dec_errors dec_names dec_index) Client.current
    (StackDesc.in_hand idx rq Http.MGet
       {|
         Server.p_status :=
           BinNums.Zpos
             (BinNums.xO
                (BinNums.xI
                   (BinNums.xI (BinNums.xI (BinNums.xO (BinNums.xO (BinNums.xI BinNums.xH)))))));
         Server.p_hdrs := StackDesc.hdrs_blob_range dig d start end_;
         Server.p_body := data;
         Server.p_json := None
       |}) known true false =
  Outcome.Ok
    {|
      Iface.d_media := StackDesc.media_or_octet (Iface.d_media d);
      Iface.d_digest := dig;
      Iface.d_size := Iface.d_size d;
      Iface.d_artifact := nil
    |}.
Proof. exact @StackDesc.descriptor_roundtrip_blob_range. Qed.
Print Assumptions C03_descriptor_roundtrip_blob_range.

(* ResolveBlob through client + server over ANY backend whose one answer is conforming returns that answer and leaves the backend in the state after that one call *)
Theorem C03_transparent_ResolveBlob_ok :
  forall (linked : Ref.alg -> bool) (hash : Bytes.bytes -> Bytes.bytes -> Bytes.bytes)
    (subject_of : Bytes.bytes -> option (option Bytes.bytes))
    (media : Bytes.bytes -> Bytes.bytes) (enc : Server.jval -> Bytes.bytes)
    (dec_errors : Bytes.bytes -> option (list Errors.werr))
    (dec_names : bool -> Bytes.bytes -> option (list Bytes.bytes))
    (dec_index : Bytes.bytes -> option (list Iface.desc))
    (redirect : Bytes.bytes -> Bytes.bytes -> Bytes.bytes * Bytes.bytes) 
    (B : Type) (bstep : Server.backend B) (o : Server.opts) (cc : Stack.ccfg)
    (w : Http.world (Stack.srv B)) (repo dig : Bytes.bytes) (b' : B) 
    (v : Server.bval),
  Request.vrepo repo = true ->
  Request.vdigest linked dig = true ->
  bstep (Stack.sv_b (Http.w_srv w)) (Iface.ResolveBlob repo dig) = (b', Outcome.Ok v) ->
  StackTransparent.conf_desc linked (Server.desc_of v) ->
  exists w' : Http.world (Stack.srv B),
    Stack.stack_call linked hash subject_of media enc dec_errors dec_names dec_index redirect
      bstep o cc (Client.CResolveBlob repo dig) w =
    (w', Client.ODesc (Outcome.Ok (StackTransparent.head_desc false (Server.desc_of v)))) /\
    Http.w_srv w' =
    StackBase.after B (Http.w_srv w) b'
      (Server.ECall (Iface.ResolveBlob repo dig) (Outcome.Ok v) :: nil).
Proof. exact @StackTransparent.transparent_ResolveBlob_ok. Qed.
Print Assumptions C03_transparent_ResolveBlob_ok.

(* a backend error of ResolveBlob crosses the hop with its status (HEAD carrier: the code is rebuilt from the status) *)
Theorem C03_transparent_ResolveBlob_err :
  forall (linked : Ref.alg -> bool) (hash : Bytes.bytes -> Bytes.bytes -> Bytes.bytes)
    (subject_of : Bytes.bytes -> option (option Bytes.bytes))
    (media : Bytes.bytes -> Bytes.bytes) (enc : Server.jval -> Bytes.bytes)
    (dec_errors : Bytes.bytes -> option (list Errors.werr))
    (dec_names : bool -> Bytes.bytes -> option (list Bytes.bytes))
    (dec_index : Bytes.bytes -> option (list Iface.desc))
    (redirect : Bytes.bytes -> Bytes.bytes -> Bytes.bytes * Bytes.bytes) 
    (B : Type) (bstep : Server.backend B) (o : Server.opts) (cc : Stack.ccfg),
  media StackBase.json_ct = StackBase.json_ct ->
  (forall w : Errors.werr, dec_errors (enc (Server.JErr w)) = Some (w :: nil)%list) ->
  forall (w : Http.world (Stack.srv B)) (repo dig : Bytes.bytes) (b' : B) (e : Errors.gerr),
  Request.vrepo repo = true ->
  Request.vdigest linked dig = true ->
  bstep (Stack.sv_b (Http.w_srv w)) (Iface.ResolveBlob repo dig) = (b', Outcome.Err e) ->
  StackTransparent.conf_err e ->
  BinInt.Z.le
    (Bytes.blen
       (enc
          (Server.JErr
             (Errors.r_err (Errors.marshal_error Errors.go_sprefix Errors.go_cprefix e)))))
    (BinNums.Zpos
       (BinNums.xO
          (BinNums.xO
             (BinNums.xO
                (BinNums.xO
                   (BinNums.xO
                      (BinNums.xO
                         (BinNums.xO
                            (BinNums.xO
                               (BinNums.xO
                                  (BinNums.xO
                                     (BinNums.xO (BinNums.xO (BinNums.xO BinNums.xH)))))))))))))) ->
  exists w' : Http.world (Stack.srv B),
    Stack.stack_call linked hash subject_of media enc dec_errors dec_names dec_index redirect
      bstep o cc (Client.CResolveBlob repo dig) w =
    (w', Client.ODesc (Outcome.Err (StackTransparent.wire_error enc true e))) /\
    Http.w_srv w' =
    StackBase.after B (Http.w_srv w) b'
      (Server.ECall (Iface.ResolveBlob repo dig) (Outcome.Err e) :: nil).
Proof. exact @StackTransparent.transparent_ResolveBlob_err. Qed.
Print Assumptions C03_transparent_ResolveBlob_err.

(* as above for ResolveManifest *)
Theorem C03_transparent_ResolveManifest_ok :
  forall (linked : Ref.alg -> bool) (hash : Bytes.bytes -> Bytes.bytes -> Bytes.bytes)
    (subject_of : Bytes.bytes -> option (option Bytes.bytes))
    (media : Bytes.bytes -> Bytes.bytes) (enc : Server.jval -> Bytes.bytes)
    (dec_errors : Bytes.bytes -> option (list Errors.werr))
    (dec_names : bool -> Bytes.bytes -> option (list Bytes.bytes))
    (dec_index : Bytes.bytes -> option (list Iface.desc))
    (redirect : Bytes.bytes -> Bytes.bytes -> Bytes.bytes * Bytes.bytes) 
    (B : Type) (bstep : Server.backend B) (o : Server.opts) (cc : Stack.ccfg)
    (w : Http.world (Stack.srv B)) (repo dig : Bytes.bytes) (b' : B) 
    (v : Server.bval),
  Request.vrepo repo = true ->
  Request.vdigest linked dig = true ->
  bstep (Stack.sv_b (Http.w_srv w)) (Iface.ResolveManifest repo dig) = (b', Outcome.Ok v) ->
  StackTransparent.conf_desc linked (Server.desc_of v) ->
  exists w' : Http.world (Stack.srv B),
    Stack.stack_call linked hash subject_of media enc dec_errors dec_names dec_index redirect
      bstep o cc (Client.CResolveManifest repo dig) w =
    (w',
     Client.ODesc
       (Outcome.Ok
          {|
            Iface.d_media := StackDesc.media_or_octet (Iface.d_media (Server.desc_of v));
            Iface.d_digest :=
              if Server.o_omit_digest_from_tag_get o
              then dig
              else Iface.d_digest (Server.desc_of v);
            Iface.d_size := Iface.d_size (Server.desc_of v);
            Iface.d_artifact := nil
          |})) /\
    Http.w_srv w' =
    StackBase.after B (Http.w_srv w) b'
      (Server.ECall (Iface.ResolveManifest repo dig) (Outcome.Ok v) :: nil).
Proof. exact @StackTransparent.transparent_ResolveManifest_ok. Qed.
Print Assumptions C03_transparent_ResolveManifest_ok.

(* as above *)
Theorem C03_transparent_ResolveManifest_err :
  forall (linked : Ref.alg -> bool) (hash : Bytes.bytes -> Bytes.bytes -> Bytes.bytes)
    (subject_of : Bytes.bytes -> option (option Bytes.bytes))
    (media : Bytes.bytes -> Bytes.bytes) (enc : Server.jval -> Bytes.bytes)
    (dec_errors : Bytes.bytes -> option (list Errors.werr))
    (dec_names : bool -> Bytes.bytes -> option (list Bytes.bytes))
    (dec_index : Bytes.bytes -> option (list Iface.desc))
    (redirect : Bytes.bytes -> Bytes.bytes -> Bytes.bytes * Bytes.bytes) 
    (B : Type) (bstep : Server.backend B) (o : Server.opts) (cc : Stack.ccfg),
  media StackBase.json_ct = StackBase.json_ct ->
  (forall w : Errors.werr, dec_errors (enc (Server.JErr w)) = Some (w :: nil)%list) ->
  forall (w : Http.world (Stack.srv B)) (repo dig : Bytes.bytes) (b' : B) (e : Errors.gerr),
  Request.vrepo repo = true ->
  Request.vdigest linked dig = true ->
  bstep (Stack.sv_b (Http.w_srv w)) (Iface.ResolveManifest repo dig) = (b', Outcome.Err e) ->
  StackTransparent.conf_err e ->
  BinInt.Z.le
    (Bytes.blen
       (enc
          (Server.JErr
             (Errors.r_err (Errors.marshal_error Errors.go_sprefix Errors.go_cprefix e)))))
    (BinNums.Zpos
       (BinNums.xO
          (BinNums.xO
             (BinNums.xO
                (BinNums.xO
                   (BinNums.xO
                      (BinNums.xO
                         (BinNums.xO
                            (BinNums.xO
                               (BinNums.xO
                                  (BinNums.xO
                                     (BinNums.xO (BinNums.xO (BinNums.xO BinNums.xH)))))))))))))) ->
  exists w' : Http.world (Stack.srv B),
    Stack.stack_call linked hash subject_of media enc dec_errors dec_names dec_index redirect
      bstep o cc (Client.CResolveManifest repo dig) w =
    (w', Client.ODesc (Outcome.Err (StackTransparent.wire_error enc true e))) /\
    Http.w_srv w' =
    StackBase.after B (Http.w_srv w) b'
      (Server.ECall (Iface.ResolveManifest repo dig) (Outcome.Err e) :: nil).
Proof. exact @StackTransparent.transparent_ResolveManifest_err. Qed.
Print Assumptions C03_transparent_ResolveManifest_err.

(* as above for ResolveTag *)
Theorem C03_transparent_ResolveTag_ok :
  forall (linked : Ref.alg -> bool) (hash : Bytes.bytes -> Bytes.bytes -> Bytes.bytes)
    (subject_of : Bytes.bytes -> option (option Bytes.bytes))
    (media : Bytes.bytes -> Bytes.bytes) (enc : Server.jval -> Bytes.bytes)
    (dec_errors : Bytes.bytes -> option (list Errors.werr))
    (dec_names : bool -> Bytes.bytes -> option (list Bytes.bytes))
    (dec_index : Bytes.bytes -> option (list Iface.desc))
    (redirect : Bytes.bytes -> Bytes.bytes -> Bytes.bytes * Bytes.bytes) 
    (B : Type) (bstep : Server.backend B) (o : Server.opts) (cc : Stack.ccfg)
    (w : Http.world (Stack.srv B)) (repo tag : Bytes.bytes) (b' : B) 
    (v : Server.bval),
  Request.vrepo repo = true ->
  Request.vtag tag = true ->
  bstep (Stack.sv_b (Http.w_srv w)) (Iface.ResolveTag repo tag) = (b', Outcome.Ok v) ->
  StackTransparent.conf_desc linked (Server.desc_of v) ->
  exists w' : Http.world (Stack.srv B),
    Stack.stack_call linked hash subject_of media enc dec_errors dec_names dec_index redirect
      bstep o cc (Client.CResolveTag repo tag) w =
    (w', Client.ODesc (Outcome.Ok (StackTransparent.head_desc true (Server.desc_of v)))) /\
    Http.w_srv w' =
    StackBase.after B (Http.w_srv w) b'
      (Server.ECall (Iface.ResolveTag repo tag) (Outcome.Ok v) :: nil).
Proof. exact @StackTransparent.transparent_ResolveTag_ok. Qed.
Print Assumptions C03_transparent_ResolveTag_ok.

(* as above *)
Theorem C03_transparent_ResolveTag_err :
  forall (linked : Ref.alg -> bool) (hash : Bytes.bytes -> Bytes.bytes -> Bytes.bytes)
    (subject_of : Bytes.bytes -> option (option Bytes.bytes))
    (media : Bytes.bytes -> Bytes.bytes) (enc : Server.jval -> Bytes.bytes)
    (dec_errors : Bytes.bytes -> option (list Errors.werr))
    (dec_names : bool -> Bytes.bytes -> option (list Bytes.bytes))
    (dec_index : Bytes.bytes -> option (list Iface.desc))
    (redirect : Bytes.bytes -> Bytes.bytes -> Bytes.bytes * Bytes.bytes) 
    (B : Type) (bstep : Server.backend B) (o : Server.opts) (cc : Stack.ccfg),
  media StackBase.json_ct = StackBase.json_ct ->
  (forall w : Errors.werr, dec_errors (enc (Server.JErr w)) = Some (w :: nil)%list) ->
  forall (w : Http.world (Stack.srv B)) (repo tag : Bytes.bytes) (b' : B) (e : Errors.gerr),
  Request.vrepo repo = true ->
  Request.vtag tag = true ->
  bstep (Stack.sv_b (Http.w_srv w)) (Iface.ResolveTag repo tag) = (b', Outcome.Err e) ->
  StackTransparent.conf_err e ->
  BinInt.Z.le
    (Bytes.blen
       (enc
          (Server.JErr
             (Errors.r_err (Errors.marshal_error Errors.go_sprefix Errors.go_cprefix e)))))
    (BinNums.Zpos
       (BinNums.xO
          (BinNums.xO
             (BinNums.xO
                (BinNums.xO
                   (BinNums.xO
                      (BinNums.xO
                         (BinNums.xO
                            (BinNums.xO
                               (BinNums.xO
                                  (BinNums.xO
                                     (BinNums.xO (BinNums.xO (BinNums.xO BinNums.xH)))))))))))))) ->
  exists w' : Http.world (Stack.srv B),
    Stack.stack_call linked hash subject_of media enc dec_errors dec_names dec_index redirect
      bstep o cc (Client.CResolveTag repo tag) w =
    (w', Client.ODesc (Outcome.Err (StackTransparent.wire_error enc true e))) /\
    Http.w_srv w' =
    StackBase.after B (Http.w_srv w) b'
      (Server.ECall (Iface.ResolveTag repo tag) (Outcome.Err e) :: nil).
Proof. exact @StackTransparent.transparent_ResolveTag_err. Qed.
Print Assumptions C03_transparent_ResolveTag_err.

(* DeleteBlob is relayed as one call with the caller's arguments *)
Theorem C03_transparent_DeleteBlob_ok :
  forall (linked : Ref.alg -> bool) (hash : Bytes.bytes -> Bytes.bytes -> Bytes.bytes)
    (subject_of : Bytes.bytes -> option (option Bytes.bytes))
    (media : Bytes.bytes -> Bytes.bytes) (enc : Server.jval -> Bytes.bytes)
    (dec_errors : Bytes.bytes -> option (list Errors.werr))
    (dec_names : bool -> Bytes.bytes -> option (list Bytes.bytes))
    (dec_index : Bytes.bytes -> option (list Iface.desc))
    (redirect : Bytes.bytes -> Bytes.bytes -> Bytes.bytes * Bytes.bytes) 
    (B : Type) (bstep : Server.backend B) (o : Server.opts) (cc : Stack.ccfg)
    (w : Http.world (Stack.srv B)) (repo dig : Bytes.bytes) (b' : B) 
    (v : Server.bval),
  Request.vrepo repo = true ->
  Request.vdigest linked dig = true ->
  bstep (Stack.sv_b (Http.w_srv w)) (Iface.DeleteBlob repo dig) = (b', Outcome.Ok v) ->
  exists w' : Http.world (Stack.srv B),
    Stack.stack_call linked hash subject_of media enc dec_errors dec_names dec_index redirect
      bstep o cc (Client.CDeleteBlob repo dig) w = (w', Client.OUnit (Outcome.Ok tt)) /\
    Http.w_srv w' =
    StackBase.after B (Http.w_srv w) b'
      (Server.ECall (Iface.DeleteBlob repo dig) (Outcome.Ok v) :: nil).
Proof. exact @StackTransparent.transparent_DeleteBlob_ok. Qed.
Print Assumptions C03_transparent_DeleteBlob_ok.

(* and its error comes back with code and status *)
Theorem C03_transparent_DeleteBlob_err :
  forall (linked : Ref.alg -> bool) (hash : Bytes.bytes -> Bytes.bytes -> Bytes.bytes)
    (subject_of : Bytes.bytes -> option (option Bytes.bytes))
    (media : Bytes.bytes -> Bytes.bytes) (enc : Server.jval -> Bytes.bytes)
    (dec_errors : Bytes.bytes -> option (list Errors.werr))
    (dec_names : bool -> Bytes.bytes -> option (list Bytes.bytes))
    (dec_index : Bytes.bytes -> option (list Iface.desc))
    (redirect : Bytes.bytes -> Bytes.bytes -> Bytes.bytes * Bytes.bytes) 
    (B : Type) (bstep : Server.backend B) (o : Server.opts) (cc : Stack.ccfg),
  media StackBase.json_ct = StackBase.json_ct ->
  (forall w : Errors.werr, dec_errors (enc (Server.JErr w)) = Some (w :: nil)%list) ->
  forall (w : Http.world (Stack.srv B)) (repo dig : Bytes.bytes) (b' : B) (e : Errors.gerr),
  Request.vrepo repo = true ->
  Request.vdigest linked dig = true ->
  bstep (Stack.sv_b (Http.w_srv w)) (Iface.DeleteBlob repo dig) = (b', Outcome.Err e) ->
  StackTransparent.conf_err e ->
  BinInt.Z.le
    (Bytes.blen
       (enc
          (Server.JErr
             (Errors.r_err (Errors.marshal_error Errors.go_sprefix Errors.go_cprefix e)))))
    (BinNums.Zpos
       (BinNums.xO
          (BinNums.xO
             (BinNums.xO
                (BinNums.xO
                   (BinNums.xO
                      (BinNums.xO
                         (BinNums.xO
                            (BinNums.xO
                               (BinNums.xO
                                  (BinNums.xO
                                     (BinNums.xO (BinNums.xO (BinNums.xO BinNums.xH)))))))))))))) ->
  exists w' : Http.world (Stack.srv B),
    Stack.stack_call linked hash subject_of media enc dec_errors dec_names dec_index redirect
      bstep o cc (Client.CDeleteBlob repo dig) w =
    (w', Client.OUnit (Outcome.Err (StackTransparent.wire_error enc false e))) /\
    Http.w_srv w' =
    StackBase.after B (Http.w_srv w) b'
      (Server.ECall (Iface.DeleteBlob repo dig) (Outcome.Err e) :: nil).
Proof. exact @StackTransparent.transparent_DeleteBlob_err. Qed.
Print Assumptions C03_transparent_DeleteBlob_err.

(* as above *)
Theorem C03_transparent_DeleteManifest_ok :
  forall (linked : Ref.alg -> bool) (hash : Bytes.bytes -> Bytes.bytes -> Bytes.bytes)
    (subject_of : Bytes.bytes -> option (option Bytes.bytes))
    (media : Bytes.bytes -> Bytes.bytes) (enc : Server.jval -> Bytes.bytes)
    (dec_errors : Bytes.bytes -> option (list Errors.werr))
    (dec_names : bool -> Bytes.bytes -> option (list Bytes.bytes))
    (dec_index : Bytes.bytes -> option (list Iface.desc))
    (redirect : Bytes.bytes -> Bytes.bytes -> Bytes.bytes * Bytes.bytes) 
    (B : Type) (bstep : Server.backend B) (o : Server.opts) (cc : Stack.ccfg)
    (w : Http.world (Stack.srv B)) (repo dig : Bytes.bytes) (b' : B) 
    (v : Server.bval),
  Request.vrepo repo = true ->
  Request.vdigest linked dig = true ->
  bstep (Stack.sv_b (Http.w_srv w)) (Iface.DeleteManifest repo dig) = (b', Outcome.Ok v) ->
  exists w' : Http.world (Stack.srv B),
    Stack.stack_call linked hash subject_of media enc dec_errors dec_names dec_index redirect
      bstep o cc (Client.CDeleteManifest repo dig) w = (w', Client.OUnit (Outcome.Ok tt)) /\
    Http.w_srv w' =
    StackBase.after B (Http.w_srv w) b'
      (Server.ECall (Iface.DeleteManifest repo dig) (Outcome.Ok v) :: nil).
Proof. exact @StackTransparent.transparent_DeleteManifest_ok. Qed.
Print Assumptions C03_transparent_DeleteManifest_ok.

(* as above *)
Theorem C03_transparent_DeleteManifest_err :
  forall (linked : Ref.alg -> bool) (hash : Bytes.bytes -> Bytes.bytes -> Bytes.bytes)
    (subject_of : Bytes.bytes -> option (option Bytes.bytes))
    (media : Bytes.bytes -> Bytes.bytes) (enc : Server.jval -> Bytes.bytes)
    (dec_errors : Bytes.bytes -> option (list Errors.werr))
    (dec_names : bool -> Bytes.bytes -> option (list Bytes.bytes))
    (dec_index : Bytes.bytes -> option (list Iface.desc))
    (redirect : Bytes.bytes -> Bytes.bytes -> Bytes.bytes * Bytes.bytes) 
    (B : Type) (bstep : Server.backend B) (o : Server.opts) (cc : Stack.ccfg),
  media StackBase.json_ct = StackBase.json_ct ->
  (forall w : Errors.werr, dec_errors (enc (Server.JErr w)) = Some (w :: nil)%list) ->
  forall (w : Http.world (Stack.srv B)) (repo dig : Bytes.bytes) (b' : B) (e : Errors.gerr),
  Request.vrepo repo = true ->
  Request.vdigest linked dig = true ->
  bstep (Stack.sv_b (Http.w_srv w)) (Iface.DeleteManifest repo dig) = (b', Outcome.Err e) ->
  StackTransparent.conf_err e ->
  BinInt.Z.le
    (Bytes.blen
       (enc
          (Server.JErr
             (Errors.r_err (Errors.marshal_error Errors.go_sprefix Errors.go_cprefix e)))))
    (BinNums.Zpos
       (BinNums.xO
          (BinNums.xO
             (BinNums.xO
                (BinNums.xO
                   (BinNums.xO
                      (BinNums.xO
                         (BinNums.xO
                            (BinNums.xO
                               (BinNums.xO
                                  (BinNums.xO
                                     (BinNums.xO (BinNums.xO (BinNums.xO BinNums.xH)))))))))))))) ->
  exists w' : Http.world (Stack.srv B),
    Stack.stack_call linked hash subject_of media enc dec_errors dec_names dec_index redirect
      bstep o cc (Client.CDeleteManifest repo dig) w =
    (w', Client.OUnit (Outcome.Err (StackTransparent.wire_error enc false e))) /\
    Http.w_srv w' =
    StackBase.after B (Http.w_srv w) b'
      (Server.ECall (Iface.DeleteManifest repo dig) (Outcome.Err e) :: nil).
Proof. exact @StackTransparent.transparent_DeleteManifest_err. Qed.
Print Assumptions C03_transparent_DeleteManifest_err.

(* as above *)
Theorem C03_transparent_DeleteTag_ok :
  forall (linked : Ref.alg -> bool) (hash : Bytes.bytes -> Bytes.bytes -> Bytes.bytes)
    (subject_of : Bytes.bytes -> option (option Bytes.bytes))
    (media : Bytes.bytes -> Bytes.bytes) (enc : Server.jval -> Bytes.bytes)
    (dec_errors : Bytes.bytes -> option (list Errors.werr))
    (dec_names : bool -> Bytes.bytes -> option (list Bytes.bytes))
    (dec_index : Bytes.bytes -> option (list Iface.desc))
    (redirect : Bytes.bytes -> Bytes.bytes -> Bytes.bytes * Bytes.bytes) 
    (B : Type) (bstep : Server.backend B) (o : Server.opts) (cc : Stack.ccfg)
    (w : Http.world (Stack.srv B)) (repo tag : Bytes.bytes) (b' : B) 
    (v : Server.bval),
  Request.vrepo repo = true ->
  Request.vtag tag = true ->
  bstep (Stack.sv_b (Http.w_srv w)) (Iface.DeleteTag repo tag) = (b', Outcome.Ok v) ->
  exists w' : Http.world (Stack.srv B),
    Stack.stack_call linked hash subject_of media enc dec_errors dec_names dec_index redirect
      bstep o cc (Client.CDeleteTag repo tag) w = (w', Client.OUnit (Outcome.Ok tt)) /\
    Http.w_srv w' =
    StackBase.after B (Http.w_srv w) b'
      (Server.ECall (Iface.DeleteTag repo tag) (Outcome.Ok v) :: nil).
Proof. exact @StackTransparent.transparent_DeleteTag_ok. Qed.
Print Assumptions C03_transparent_DeleteTag_ok.

(* as above *)
Theorem C03_transparent_DeleteTag_err :
  forall (linked : Ref.alg -> bool) (hash : Bytes.bytes -> Bytes.bytes -> Bytes.bytes)
    (subject_of : Bytes.bytes -> option (option Bytes.bytes))
    (media : Bytes.bytes -> Bytes.bytes) (enc : Server.jval -> Bytes.bytes)
    (dec_errors : Bytes.bytes -> option (list Errors.werr))
    (dec_names : bool -> Bytes.bytes -> option (list Bytes.bytes))
    (dec_index : Bytes.bytes -> option (list Iface.desc))
    (redirect : Bytes.bytes -> Bytes.bytes -> Bytes.bytes * Bytes.bytes) 
    (B : Type) (bstep : Server.backend B) (o : Server.opts) (cc : Stack.ccfg),
  media StackBase.json_ct = StackBase.json_ct ->
  (forall w : Errors.werr, dec_errors (enc (Server.JErr w)) = Some (w :: nil)%list) ->
  forall (w : Http.world (Stack.srv B)) (repo tag : Bytes.bytes) (b' : B) (e : Errors.gerr),
  Request.vrepo repo = true ->
  Request.vtag tag = true ->
  bstep (Stack.sv_b (Http.w_srv w)) (Iface.DeleteTag repo tag) = (b', Outcome.Err e) ->
  StackTransparent.conf_err e ->
  BinInt.Z.le
    (Bytes.blen
       (enc
          (Server.JErr
             (Errors.r_err (Errors.marshal_error Errors.go_sprefix Errors.go_cprefix e)))))
    (BinNums.Zpos
       (BinNums.xO
          (BinNums.xO
             (BinNums.xO
                (BinNums.xO
                   (BinNums.xO
                      (BinNums.xO
                         (BinNums.xO
                            (BinNums.xO
                               (BinNums.xO
                                  (BinNums.xO
                                     (BinNums.xO (BinNums.xO (BinNums.xO BinNums.xH)))))))))))))) ->
  exists w' : Http.world (Stack.srv B),
    Stack.stack_call linked hash subject_of media enc dec_errors dec_names dec_index redirect
      bstep o cc (Client.CDeleteTag repo tag) w =
    (w', Client.OUnit (Outcome.Err (StackTransparent.wire_error enc false e))) /\
    Http.w_srv w' =
    StackBase.after B (Http.w_srv w) b'
      (Server.ECall (Iface.DeleteTag repo tag) (Outcome.Err e) :: nil).
Proof. exact @StackTransparent.transparent_DeleteTag_err. Qed.
Print Assumptions C03_transparent_DeleteTag_err.

(* MountBlob is relayed with from / to / digest unchanged; the descriptor that comes back has the right digest (its size is the recorded deviation, see C03_mount_size_refuted) *)
Theorem C03_transparent_MountBlob_ok :
  forall (linked : Ref.alg -> bool) (hash : Bytes.bytes -> Bytes.bytes -> Bytes.bytes)
    (subject_of : Bytes.bytes -> option (option Bytes.bytes))
    (media : Bytes.bytes -> Bytes.bytes) (enc : Server.jval -> Bytes.bytes)
    (dec_errors : Bytes.bytes -> option (list Errors.werr))
    (dec_names : bool -> Bytes.bytes -> option (list Bytes.bytes))
    (dec_index : Bytes.bytes -> option (list Iface.desc))
    (redirect : Bytes.bytes -> Bytes.bytes -> Bytes.bytes * Bytes.bytes) 
    (B : Type) (bstep : Server.backend B) (o : Server.opts) (cc : Stack.ccfg)
    (w : Http.world (Stack.srv B)) (from to dig : Bytes.bytes) (b' : B) 
    (v : Server.bval),
  Server.o_locs o = None ->
  Request.vrepo from = true ->
  Request.vrepo to = true ->
  Request.vdigest linked dig = true ->
  bstep (Stack.sv_b (Http.w_srv w)) (Iface.MountBlob from to dig) = (b', Outcome.Ok v) ->
  Request.vdigest linked (Iface.d_digest (Server.desc_of v)) = true ->
  exists w' : Http.world (Stack.srv B),
    Stack.stack_call linked hash subject_of media enc dec_errors dec_names dec_index redirect
      bstep o cc (Client.CMountBlob from to dig) w =
    (w',
     Client.ODesc
       (Outcome.Ok
          {|
            Iface.d_media := Client.octet_stream;
            Iface.d_digest := Iface.d_digest (Server.desc_of v);
            Iface.d_size := BinNums.Z0;
            Iface.d_artifact := nil
          |})) /\
    Http.w_srv w' =
    StackBase.after B (Http.w_srv w) b'
      (Server.ECall (Iface.MountBlob from to dig) (Outcome.Ok v) :: nil).
Proof. exact @StackTransparent.transparent_MountBlob_ok. Qed.
Print Assumptions C03_transparent_MountBlob_ok.

(* as above for the error *)
Theorem C03_transparent_MountBlob_err :
  forall (linked : Ref.alg -> bool) (hash : Bytes.bytes -> Bytes.bytes -> Bytes.bytes)
    (subject_of : Bytes.bytes -> option (option Bytes.bytes))
    (media : Bytes.bytes -> Bytes.bytes) (enc : Server.jval -> Bytes.bytes)
    (dec_errors : Bytes.bytes -> option (list Errors.werr))
    (dec_names : bool -> Bytes.bytes -> option (list Bytes.bytes))
    (dec_index : Bytes.bytes -> option (list Iface.desc))
    (redirect : Bytes.bytes -> Bytes.bytes -> Bytes.bytes * Bytes.bytes) 
    (B : Type) (bstep : Server.backend B) (o : Server.opts) (cc : Stack.ccfg),
  media StackBase.json_ct = StackBase.json_ct ->
  (forall w : Errors.werr, dec_errors (enc (Server.JErr w)) = Some (w :: nil)%list) ->
  forall (w : Http.world (Stack.srv B)) (from to dig : Bytes.bytes) (b' : B) (e : Errors.gerr),
  Request.vrepo from = true ->
  Request.vrepo to = true ->
  Request.vdigest linked dig = true ->
  bstep (Stack.sv_b (Http.w_srv w)) (Iface.MountBlob from to dig) = (b', Outcome.Err e) ->
  StackTransparent.conf_err e ->
  BinInt.Z.le
    (Bytes.blen
       (enc
          (Server.JErr
             (Errors.r_err (Errors.marshal_error Errors.go_sprefix Errors.go_cprefix e)))))
    (BinNums.Zpos
       (BinNums.xO
          (BinNums.xO
             (BinNums.xO
                (BinNums.xO
                   (BinNums.xO
                      (BinNums.xO
                         (BinNums.xO
                            (BinNums.xO
                               (BinNums.xO
                                  (BinNums.xO
                                     (BinNums.xO (BinNums.xO (BinNums.xO BinNums.xH)))))))))))))) ->
  exists w' : Http.world (Stack.srv B),
    Stack.stack_call linked hash subject_of media enc dec_errors dec_names dec_index redirect
      bstep o cc (Client.CMountBlob from to dig) w =
    (w', Client.ODesc (Outcome.Err (StackTransparent.wire_error enc false e))) /\
    Http.w_srv w' =
    StackBase.after B (Http.w_srv w) b'
      (Server.ECall (Iface.MountBlob from to dig) (Outcome.Err e) :: nil).
Proof. exact @StackTransparent.transparent_MountBlob_err. Qed.
Print Assumptions C03_transparent_MountBlob_err.

(* GetBlob returns the backend's descriptor and bytes *)
Theorem C03_transparent_GetBlob_ok :
  forall (linked : Ref.alg -> bool) (hash : Bytes.bytes -> Bytes.bytes -> Bytes.bytes)
    (subject_of : Bytes.bytes -> option (option Bytes.bytes))
    (media : Bytes.bytes -> Bytes.bytes) (enc : Server.jval -> Bytes.bytes)
    (dec_errors : Bytes.bytes -> option (list Errors.werr))
    (dec_names : bool -> Bytes.bytes -> option (list Bytes.bytes))
    (dec_index : Bytes.bytes -> option (list Iface.desc))
    (redirect : Bytes.bytes -> Bytes.bytes -> Bytes.bytes * Bytes.bytes) 
    (B : Type) (bstep : Server.backend B) (o : Server.opts) (cc : Stack.ccfg)
    (w : Http.world (Stack.srv B)) (repo dig : Bytes.bytes) (bufsz : nat) 
    (b' : B) (v : Server.bval),
  Server.o_locs o = None ->
  1 <= bufsz ->
  Request.vrepo repo = true ->
  Request.vdigest linked dig = true ->
  bstep (Stack.sv_b (Http.w_srv w)) (Iface.GetBlob repo dig) = (b', Outcome.Ok v) ->
  Iface.d_size (Server.desc_of v) = Bytes.blen (Server.data_of v) ->
  BinInt.Z.le (Bytes.blen (Server.data_of v)) Request.max_int64 ->
  StackTransparent.content_of hash dig (Server.data_of v) ->
  exists w' : Http.world (Stack.srv B),
    Stack.stack_call linked hash subject_of media enc dec_errors dec_names dec_index redirect
      bstep o cc (Client.CGetBlob repo dig bufsz) w =
    (w',
     Client.ORead
       (Outcome.Ok
          ({|
             Iface.d_media := StackDesc.media_or_octet (Iface.d_media (Server.desc_of v));
             Iface.d_digest := dig;
             Iface.d_size := Iface.d_size (Server.desc_of v);
             Iface.d_artifact := nil
           |}, Server.data_of v, Client.RdEOF))) /\
    Http.w_srv w' =
    StackBase.after B (Http.w_srv w) b'
      (Server.ECall (Iface.GetBlob repo dig) (Outcome.Ok v) :: Server.ECloseR :: nil).
Proof. exact @StackTransparent.transparent_GetBlob_ok. Qed.
Print Assumptions C03_transparent_GetBlob_ok.

(* as above for the error *)
Theorem C03_transparent_GetBlob_err :
  forall (linked : Ref.alg -> bool) (hash : Bytes.bytes -> Bytes.bytes -> Bytes.bytes)
    (subject_of : Bytes.bytes -> option (option Bytes.bytes))
    (media : Bytes.bytes -> Bytes.bytes) (enc : Server.jval -> Bytes.bytes)
    (dec_errors : Bytes.bytes -> option (list Errors.werr))
    (dec_names : bool -> Bytes.bytes -> option (list Bytes.bytes))
    (dec_index : Bytes.bytes -> option (list Iface.desc))
    (redirect : Bytes.bytes -> Bytes.bytes -> Bytes.bytes * Bytes.bytes) 
    (B : Type) (bstep : Server.backend B) (o : Server.opts) (cc : Stack.ccfg),
  media StackBase.json_ct = StackBase.json_ct ->
  (forall w : Errors.werr, dec_errors (enc (Server.JErr w)) = Some (w :: nil)%list) ->
  forall (w : Http.world (Stack.srv B)) (repo dig : Bytes.bytes) (bufsz : nat) 
    (b' : B) (e : Errors.gerr),
  Server.o_locs o = None ->
  Request.vrepo repo = true ->
  Request.vdigest linked dig = true ->
  bstep (Stack.sv_b (Http.w_srv w)) (Iface.GetBlob repo dig) = (b', Outcome.Err e) ->
  StackTransparent.conf_err e ->
  BinInt.Z.le
    (Bytes.blen
       (enc
          (Server.JErr
             (Errors.r_err (Errors.marshal_error Errors.go_sprefix Errors.go_cprefix e)))))
    (BinNums.Zpos
       (BinNums.xO
          (BinNums.xO
             (BinNums.xO
                (BinNums.xO
                   (BinNums.xO
                      (BinNums.xO
                         (BinNums.xO
                            (BinNums.xO
                               (BinNums.xO
                                  (BinNums.xO
                                     (BinNums.xO (BinNums.xO (BinNums.xO BinNums.xH)))))))))))))) ->
  exists w' : Http.world (Stack.srv B),
    Stack.stack_call linked hash subject_of media enc dec_errors dec_names dec_index redirect
      bstep o cc (Client.CGetBlob repo dig bufsz) w =
    (w', Client.ORead (Outcome.Err (StackTransparent.wire_error enc false e))) /\
    Http.w_srv w' =
    StackBase.after B (Http.w_srv w) b'
      (Server.ECall (Iface.GetBlob repo dig) (Outcome.Err e) :: nil).
Proof. exact @StackTransparent.transparent_GetBlob_err. Qed.
Print Assumptions C03_transparent_GetBlob_err.

(* GetManifest returns the backend's descriptor (media type included) and bytes *)
Theorem C03_transparent_GetManifest_ok :
  forall (linked : Ref.alg -> bool) (hash : Bytes.bytes -> Bytes.bytes -> Bytes.bytes)
    (subject_of : Bytes.bytes -> option (option Bytes.bytes))
    (media : Bytes.bytes -> Bytes.bytes) (enc : Server.jval -> Bytes.bytes)
    (dec_errors : Bytes.bytes -> option (list Errors.werr))
    (dec_names : bool -> Bytes.bytes -> option (list Bytes.bytes))
    (dec_index : Bytes.bytes -> option (list Iface.desc))
    (redirect : Bytes.bytes -> Bytes.bytes -> Bytes.bytes * Bytes.bytes) 
    (B : Type) (bstep : Server.backend B) (o : Server.opts) (cc : Stack.ccfg)
    (w : Http.world (Stack.srv B)) (repo dig : Bytes.bytes) (bufsz : nat) 
    (b' : B) (v : Server.bval),
  1 <= bufsz ->
  Request.vrepo repo = true ->
  Request.vdigest linked dig = true ->
  bstep (Stack.sv_b (Http.w_srv w)) (Iface.GetManifest repo dig) = (b', Outcome.Ok v) ->
  Iface.d_digest (Server.desc_of v) = dig ->
  Iface.d_size (Server.desc_of v) = Bytes.blen (Server.data_of v) ->
  BinInt.Z.le (Bytes.blen (Server.data_of v)) Request.max_int64 ->
  StackTransparent.content_of hash dig (Server.data_of v) ->
  exists w' : Http.world (Stack.srv B),
    Stack.stack_call linked hash subject_of media enc dec_errors dec_names dec_index redirect
      bstep o cc (Client.CGetManifest repo dig bufsz) w =
    (w',
     Client.ORead
       (Outcome.Ok
          ({|
             Iface.d_media := StackDesc.media_or_octet (Iface.d_media (Server.desc_of v));
             Iface.d_digest := dig;
             Iface.d_size := Iface.d_size (Server.desc_of v);
             Iface.d_artifact := nil
           |}, Server.data_of v, Client.RdEOF))) /\
    Http.w_srv w' =
    StackBase.after B (Http.w_srv w) b'
      (Server.ECall (Iface.GetManifest repo dig) (Outcome.Ok v) :: Server.ECloseR :: nil).
Proof. exact @StackTransparent.transparent_GetManifest_ok. Qed.
Print Assumptions C03_transparent_GetManifest_ok.

(* as above *)
Theorem C03_transparent_GetManifest_err :
  forall (linked : Ref.alg -> bool) (hash : Bytes.bytes -> Bytes.bytes -> Bytes.bytes)
    (subject_of : Bytes.bytes -> option (option Bytes.bytes))
    (media : Bytes.bytes -> Bytes.bytes) (enc : Server.jval -> Bytes.bytes)
    (dec_errors : Bytes.bytes -> option (list Errors.werr))
    (dec_names : bool -> Bytes.bytes -> option (list Bytes.bytes))
    (dec_index : Bytes.bytes -> option (list Iface.desc))
    (redirect : Bytes.bytes -> Bytes.bytes -> Bytes.bytes * Bytes.bytes) 
    (B : Type) (bstep : Server.backend B) (o : Server.opts) (cc : Stack.ccfg),
  media StackBase.json_ct = StackBase.json_ct ->
  (forall w : Errors.werr, dec_errors (enc (Server.JErr w)) = Some (w :: nil)%list) ->
  forall (w : Http.world (Stack.srv B)) (repo dig : Bytes.bytes) (bufsz : nat) 
    (b' : B) (e : Errors.gerr),
  Request.vrepo repo = true ->
  Request.vdigest linked dig = true ->
  bstep (Stack.sv_b (Http.w_srv w)) (Iface.GetManifest repo dig) = (b', Outcome.Err e) ->
  StackTransparent.conf_err e ->
  BinInt.Z.le
    (Bytes.blen
       (enc
          (Server.JErr
             (Errors.r_err (Errors.marshal_error Errors.go_sprefix Errors.go_cprefix e)))))
    (BinNums.Zpos
       (BinNums.xO
          (BinNums.xO
             (BinNums.xO
                (BinNums.xO
                   (BinNums.xO
                      (BinNums.xO
                         (BinNums.xO
                            (BinNums.xO
                               (BinNums.xO
                                  (BinNums.xO
                                     (BinNums.xO (BinNums.xO (BinNums.xO BinNums.xH)))))))))))))) ->
  exists w' : Http.world (Stack.srv B),
    Stack.stack_call linked hash subject_of media enc dec_errors dec_names dec_index redirect
      bstep o cc (Client.CGetManifest repo dig bufsz) w =
    (w', Client.ORead (Outcome.Err (StackTransparent.wire_error enc false e))) /\
    Http.w_srv w' =
    StackBase.after B (Http.w_srv w) b'
      (Server.ECall (Iface.GetManifest repo dig) (Outcome.Err e) :: nil).
Proof. exact @StackTransparent.transparent_GetManifest_err. Qed.
Print Assumptions C03_transparent_GetManifest_err.

(* GetTag by tag, digest sent by the server *)
Theorem C03_transparent_GetTag_ok :
  forall (linked : Ref.alg -> bool) (hash : Bytes.bytes -> Bytes.bytes -> Bytes.bytes)
    (subject_of : Bytes.bytes -> option (option Bytes.bytes))
    (media : Bytes.bytes -> Bytes.bytes) (enc : Server.jval -> Bytes.bytes)
    (dec_errors : Bytes.bytes -> option (list Errors.werr))
    (dec_names : bool -> Bytes.bytes -> option (list Bytes.bytes))
    (dec_index : Bytes.bytes -> option (list Iface.desc))
    (redirect : Bytes.bytes -> Bytes.bytes -> Bytes.bytes * Bytes.bytes) 
    (B : Type) (bstep : Server.backend B) (o : Server.opts) (cc : Stack.ccfg)
    (w : Http.world (Stack.srv B)) (repo tag : Bytes.bytes) (bufsz : nat) 
    (b' : B) (v : Server.bval),
  Server.o_omit_digest_from_tag_get o = false ->
  1 <= bufsz ->
  Request.vrepo repo = true ->
  Request.vtag tag = true ->
  bstep (Stack.sv_b (Http.w_srv w)) (Iface.GetTag repo tag) = (b', Outcome.Ok v) ->
  Request.vdigest linked (Iface.d_digest (Server.desc_of v)) = true ->
  Iface.d_size (Server.desc_of v) = Bytes.blen (Server.data_of v) ->
  BinInt.Z.le (Bytes.blen (Server.data_of v)) Request.max_int64 ->
  StackTransparent.content_of hash (Iface.d_digest (Server.desc_of v)) (Server.data_of v) ->
  exists w' : Http.world (Stack.srv B),
    Stack.stack_call linked hash subject_of media enc dec_errors dec_names dec_index redirect
      bstep o cc (Client.CGetTag repo tag bufsz) w =
    (w',
     Client.ORead
       (Outcome.Ok
          (StackTransparent.head_desc true (Server.desc_of v), Server.data_of v, Client.RdEOF))) /\
    Http.w_srv w' =
    StackBase.after B (Http.w_srv w) b'
      (Server.ECall (Iface.GetTag repo tag) (Outcome.Ok v) :: Server.ECloseR :: nil).
Proof. exact @StackTransparent.transparent_GetTag_ok. Qed.
Print Assumptions C03_transparent_GetTag_ok.

(* as above *)
Theorem C03_transparent_GetTag_err :
  forall (linked : Ref.alg -> bool) (hash : Bytes.bytes -> Bytes.bytes -> Bytes.bytes)
    (subject_of : Bytes.bytes -> option (option Bytes.bytes))
    (media : Bytes.bytes -> Bytes.bytes) (enc : Server.jval -> Bytes.bytes)
    (dec_errors : Bytes.bytes -> option (list Errors.werr))
    (dec_names : bool -> Bytes.bytes -> option (list Bytes.bytes))
    (dec_index : Bytes.bytes -> option (list Iface.desc))
    (redirect : Bytes.bytes -> Bytes.bytes -> Bytes.bytes * Bytes.bytes) 
    (B : Type) (bstep : Server.backend B) (o : Server.opts) (cc : Stack.ccfg),
  media StackBase.json_ct = StackBase.json_ct ->
  (forall w : Errors.werr, dec_errors (enc (Server.JErr w)) = Some (w :: nil)%list) ->
  forall (w : Http.world (Stack.srv B)) (repo tag : Bytes.bytes) (bufsz : nat) 
    (b' : B) (e : Errors.gerr),
  Request.vrepo repo = true ->
  Request.vtag tag = true ->
  bstep (Stack.sv_b (Http.w_srv w)) (Iface.GetTag repo tag) = (b', Outcome.Err e) ->
  StackTransparent.conf_err e ->
  BinInt.Z.le
    (Bytes.blen
       (enc
          (Server.JErr
             (Errors.r_err (Errors.marshal_error Errors.go_sprefix Errors.go_cprefix e)))))
    (BinNums.Zpos
       (BinNums.xO
          (BinNums.xO
             (BinNums.xO
                (BinNums.xO
                   (BinNums.xO
                      (BinNums.xO
                         (BinNums.xO
                            (BinNums.xO
                               (BinNums.xO
                                  (BinNums.xO
                                     (BinNums.xO (BinNums.xO (BinNums.xO BinNums.xH)))))))))))))) ->
  exists w' : Http.world (Stack.srv B),
    Stack.stack_call linked hash subject_of media enc dec_errors dec_names dec_index redirect
      bstep o cc (Client.CGetTag repo tag bufsz) w =
    (w', Client.ORead (Outcome.Err (StackTransparent.wire_error enc false e))) /\
    Http.w_srv w' =
    StackBase.after B (Http.w_srv w) b'
      (Server.ECall (Iface.GetTag repo tag) (Outcome.Err e) :: nil).
Proof. exact @StackTransparent.transparent_GetTag_err. Qed.
Print Assumptions C03_transparent_GetTag_err.

(* OmitDigestFromTagGetResponse, manifest up to the in-memory threshold: the client recovers the digest by hashing the body *)
Theorem C03_transparent_GetTag_omitted_small :
  forall (linked : Ref.alg -> bool) (hash : Bytes.bytes -> Bytes.bytes -> Bytes.bytes)
    (subject_of : Bytes.bytes -> option (option Bytes.bytes))
    (media : Bytes.bytes -> Bytes.bytes) (enc : Server.jval -> Bytes.bytes)
    (dec_errors : Bytes.bytes -> option (list Errors.werr))
    (dec_names : bool -> Bytes.bytes -> option (list Bytes.bytes))
    (dec_index : Bytes.bytes -> option (list Iface.desc))
    (redirect : Bytes.bytes -> Bytes.bytes -> Bytes.bytes * Bytes.bytes) 
    (B : Type) (bstep : Server.backend B) (o : Server.opts) (cc : Stack.ccfg)
    (w : Http.world (Stack.srv B)) (repo tag : Bytes.bytes) (bufsz : nat) 
    (b' : B) (v : Server.bval),
  Server.o_omit_digest_from_tag_get o = true ->
  linked Ref.SHA256 = true ->
  1 <= bufsz ->
  Request.vrepo repo = true ->
  Request.vtag tag = true ->
  bstep (Stack.sv_b (Http.w_srv w)) (Iface.GetTag repo tag) = (b', Outcome.Ok v) ->
  Request.vdigest linked (Iface.d_digest (Server.desc_of v)) = true ->
  Iface.d_size (Server.desc_of v) = Bytes.blen (Server.data_of v) ->
  BinInt.Z.le (Bytes.blen (Server.data_of v)) Client.in_mem_threshold ->
  exists w' : Http.world (Stack.srv B),
    Stack.stack_call linked hash subject_of media enc dec_errors dec_names dec_index redirect
      bstep o cc (Client.CGetTag repo tag bufsz) w =
    (w',
     Client.ORead
       (Outcome.Ok
          ({|
             Iface.d_media := StackDesc.media_or_octet (Iface.d_media (Server.desc_of v));
             Iface.d_digest := Stack.digest_of hash (Server.data_of v);
             Iface.d_size := Iface.d_size (Server.desc_of v);
             Iface.d_artifact := nil
           |}, Server.data_of v, Client.RdEOF))) /\
    Http.w_srv w' =
    StackBase.after B (Http.w_srv w) b'
      (Server.ECall (Iface.GetTag repo tag) (Outcome.Ok v) :: Server.ECloseR :: nil).
Proof. exact @StackTransparent.transparent_GetTag_omitted_small. Qed.
Print Assumptions C03_transparent_GetTag_omitted_small.

(* above the threshold: one extra HEAD, i.e. one extra ResolveTag reaches the backend, and the answer is still the backend's *)
Theorem C03_transparent_GetTag_omitted_large :
  forall (linked : Ref.alg -> bool) (hash : Bytes.bytes -> Bytes.bytes -> Bytes.bytes)
    (subject_of : Bytes.bytes -> option (option Bytes.bytes))
    (media : Bytes.bytes -> Bytes.bytes) (enc : Server.jval -> Bytes.bytes)
    (dec_errors : Bytes.bytes -> option (list Errors.werr))
    (dec_names : bool -> Bytes.bytes -> option (list Bytes.bytes))
    (dec_index : Bytes.bytes -> option (list Iface.desc))
    (redirect : Bytes.bytes -> Bytes.bytes -> Bytes.bytes * Bytes.bytes) 
    (B : Type) (bstep : Server.backend B) (o : Server.opts) (cc : Stack.ccfg)
    (w : Http.world (Stack.srv B)) (repo tag : Bytes.bytes) (bufsz : nat) 
    (b' : B) (v : Server.bval) (b'' : B) (v1 : Server.bval),
  Server.o_omit_digest_from_tag_get o = true ->
  1 <= bufsz ->
  Request.vrepo repo = true ->
  Request.vtag tag = true ->
  bstep (Stack.sv_b (Http.w_srv w)) (Iface.GetTag repo tag) = (b', Outcome.Ok v) ->
  Request.vdigest linked (Iface.d_digest (Server.desc_of v)) = true ->
  Iface.d_size (Server.desc_of v) = Bytes.blen (Server.data_of v) ->
  BinInt.Z.le (Bytes.blen (Server.data_of v)) Request.max_int64 ->
  BinInt.Z.lt Client.in_mem_threshold (Bytes.blen (Server.data_of v)) ->
  bstep b' (Iface.ResolveTag repo tag) = (b'', Outcome.Ok v1) ->
  Request.vdigest linked (Iface.d_digest (Server.desc_of v1)) = true ->
  Iface.d_size (Server.desc_of v1) = Bytes.blen (Server.data_of v) ->
  StackTransparent.content_of hash (Iface.d_digest (Server.desc_of v1)) (Server.data_of v) ->
  exists w' : Http.world (Stack.srv B),
    Stack.stack_call linked hash subject_of media enc dec_errors dec_names dec_index redirect
      bstep o cc (Client.CGetTag repo tag bufsz) w =
    (w',
     Client.ORead
       (Outcome.Ok
          (StackTransparent.head_desc true (Server.desc_of v1), Server.data_of v, Client.RdEOF))) /\
    Http.w_srv w' =
    StackBase.after B
      (StackBase.after B (Http.w_srv w) b'
         (Server.ECall (Iface.GetTag repo tag) (Outcome.Ok v) :: Server.ECloseR :: nil)) b''
      (Server.ECall (Iface.ResolveTag repo tag) (Outcome.Ok v1) :: nil).
Proof. exact @StackTransparent.transparent_GetTag_omitted_large. Qed.
Print Assumptions C03_transparent_GetTag_omitted_large.

(* PushManifest by tag or digest: one call with the caller's bytes and media type *)
Theorem C03_transparent_PushManifest_ok :
  forall (linked : Ref.alg -> bool) (hash : Bytes.bytes -> Bytes.bytes -> Bytes.bytes)
    (subject_of : Bytes.bytes -> option (option Bytes.bytes))
    (media : Bytes.bytes -> Bytes.bytes) (enc : Server.jval -> Bytes.bytes)
    (dec_errors : Bytes.bytes -> option (list Errors.werr))
    (dec_names : bool -> Bytes.bytes -> option (list Bytes.bytes))
    (dec_index : Bytes.bytes -> option (list Iface.desc))
    (redirect : Bytes.bytes -> Bytes.bytes -> Bytes.bytes * Bytes.bytes) 
    (B : Type) (bstep : Server.backend B) (o : Server.opts) (cc : Stack.ccfg)
    (w : Http.world (Stack.srv B)) (repo tag contents : Bytes.bytes) 
    (med : list BinNums.N) (b' : B) (v : Server.bval),
  Server.o_locs o = None ->
  med <> nil ->
  Request.vrepo repo = true ->
  StackTransparent.tag_or_valid_digest linked hash tag contents ->
  Server.subject_from_manifest subject_of med contents <> None ->
  bstep (Stack.sv_b (Http.w_srv w)) (Iface.PushManifest repo tag contents med) =
  (b', Outcome.Ok v) ->
  exists w' : Http.world (Stack.srv B),
    Stack.stack_call linked hash subject_of media enc dec_errors dec_names dec_index redirect
      bstep o cc (Client.CPushManifest repo tag contents med) w =
    (w', Client.ODesc (Outcome.Ok (StackTransparent.manifest_desc hash contents med))) /\
    Http.w_srv w' =
    StackBase.after B (Http.w_srv w) b'
      (Server.ECall (Iface.PushManifest repo tag contents med) (Outcome.Ok v) :: nil).
Proof. exact @StackTransparent.transparent_PushManifest_ok. Qed.
Print Assumptions C03_transparent_PushManifest_ok.

(* as above *)
Theorem C03_transparent_PushManifest_err :
  forall (linked : Ref.alg -> bool) (hash : Bytes.bytes -> Bytes.bytes -> Bytes.bytes)
    (subject_of : Bytes.bytes -> option (option Bytes.bytes))
    (media : Bytes.bytes -> Bytes.bytes) (enc : Server.jval -> Bytes.bytes)
    (dec_errors : Bytes.bytes -> option (list Errors.werr))
    (dec_names : bool -> Bytes.bytes -> option (list Bytes.bytes))
    (dec_index : Bytes.bytes -> option (list Iface.desc))
    (redirect : Bytes.bytes -> Bytes.bytes -> Bytes.bytes * Bytes.bytes) 
    (B : Type) (bstep : Server.backend B) (o : Server.opts) (cc : Stack.ccfg),
  media StackBase.json_ct = StackBase.json_ct ->
  (forall w : Errors.werr, dec_errors (enc (Server.JErr w)) = Some (w :: nil)%list) ->
  forall (w : Http.world (Stack.srv B)) (repo tag contents : Bytes.bytes)
    (med : list BinNums.N) (b' : B) (e : Errors.gerr),
  med <> nil ->
  Request.vrepo repo = true ->
  StackTransparent.tag_or_valid_digest linked hash tag contents ->
  Server.subject_from_manifest subject_of med contents <> None ->
  bstep (Stack.sv_b (Http.w_srv w)) (Iface.PushManifest repo tag contents med) =
  (b', Outcome.Err e) ->
  StackTransparent.conf_err e ->
  BinInt.Z.le
    (Bytes.blen
       (enc
          (Server.JErr
             (Errors.r_err (Errors.marshal_error Errors.go_sprefix Errors.go_cprefix e)))))
    (BinNums.Zpos
       (BinNums.xO
          (BinNums.xO
             (BinNums.xO
                (BinNums.xO
                   (BinNums.xO
                      (BinNums.xO
                         (BinNums.xO
                            (BinNums.xO
                               (BinNums.xO
                                  (BinNums.xO
                                     (BinNums.xO (BinNums.xO (BinNums.xO BinNums.xH)))))))))))))) ->
  exists w' : Http.world (Stack.srv B),
    Stack.stack_call linked hash subject_of media enc dec_errors dec_names dec_index redirect
      bstep o cc (Client.CPushManifest repo tag contents med) w =
    (w', Client.ODesc (Outcome.Err (StackTransparent.wire_error enc false e))) /\
    Http.w_srv w' =
    StackBase.after B (Http.w_srv w) b'
      (Server.ECall (Iface.PushManifest repo tag contents med) (Outcome.Err e) :: nil).
Proof. exact @StackTransparent.transparent_PushManifest_err. Qed.
Print Assumptions C03_transparent_PushManifest_err.

(* GetBlobRange for every sendable range: the slice, and the whole blob's descriptor *)
Theorem C03_transparent_GetBlobRange_ok :
  forall (linked : Ref.alg -> bool) (hash : Bytes.bytes -> Bytes.bytes -> Bytes.bytes)
    (subject_of : Bytes.bytes -> option (option Bytes.bytes))
    (media : Bytes.bytes -> Bytes.bytes) (enc : Server.jval -> Bytes.bytes)
    (dec_errors : Bytes.bytes -> option (list Errors.werr))
    (dec_names : bool -> Bytes.bytes -> option (list Bytes.bytes))
    (dec_index : Bytes.bytes -> option (list Iface.desc))
    (redirect : Bytes.bytes -> Bytes.bytes -> Bytes.bytes * Bytes.bytes) 
    (B : Type) (bstep : Server.backend B) (o : Server.opts) (cc : Stack.ccfg)
    (w : Http.world (Stack.srv B)) (repo dig : Bytes.bytes) (o0 o1 : BinNums.Z) 
    (bufsz : nat) (b' : B) (v : Server.bval),
  Server.o_locs o = None ->
  1 <= bufsz ->
  Request.vrepo repo = true ->
  Request.vdigest linked dig = true ->
  StackRange.expressible o0 o1 ->
  (BinInt.Z.eqb o0 BinNums.Z0 && BinInt.Z.ltb o1 BinNums.Z0)%bool = false ->
  bstep (Stack.sv_b (Http.w_srv w))
    (Iface.GetBlobRange repo dig o0 (StackRange.server_end o1)) = (
  b', Outcome.Ok v) ->
  StackDesc.int64 (Iface.d_size (Server.desc_of v)) ->
  BinInt.Z.le o0 (Iface.d_size (Server.desc_of v)) ->
  Bytes.blen (Server.data_of v) =
  BinInt.Z.sub
    (StackDesc.range_end (Iface.d_size (Server.desc_of v)) (StackRange.server_end o1)) o0 ->
  exists w' : Http.world (Stack.srv B),
    Stack.stack_call linked hash subject_of media enc dec_errors dec_names dec_index redirect
      bstep o cc (Client.CGetBlobRange repo dig o0 o1 bufsz) w =
    (w',
     Client.ORead
       (Outcome.Ok
          ({|
             Iface.d_media := StackDesc.media_or_octet (Iface.d_media (Server.desc_of v));
             Iface.d_digest := dig;
             Iface.d_size := Iface.d_size (Server.desc_of v);
             Iface.d_artifact := nil
           |}, Server.data_of v, Client.RdEOF))) /\
    Http.w_srv w' =
    StackBase.after B (Http.w_srv w) b'
      (Server.ECall (Iface.GetBlobRange repo dig o0 (StackRange.server_end o1)) (Outcome.Ok v)
       :: Server.ECloseR :: nil).
Proof. exact @StackTransparent.transparent_GetBlobRange_ok. Qed.
Print Assumptions C03_transparent_GetBlobRange_ok.

(* as above *)
Theorem C03_transparent_GetBlobRange_err :
  forall (linked : Ref.alg -> bool) (hash : Bytes.bytes -> Bytes.bytes -> Bytes.bytes)
    (subject_of : Bytes.bytes -> option (option Bytes.bytes))
    (media : Bytes.bytes -> Bytes.bytes) (enc : Server.jval -> Bytes.bytes)
    (dec_errors : Bytes.bytes -> option (list Errors.werr))
    (dec_names : bool -> Bytes.bytes -> option (list Bytes.bytes))
    (dec_index : Bytes.bytes -> option (list Iface.desc))
    (redirect : Bytes.bytes -> Bytes.bytes -> Bytes.bytes * Bytes.bytes) 
    (B : Type) (bstep : Server.backend B) (o : Server.opts) (cc : Stack.ccfg),
  media StackBase.json_ct = StackBase.json_ct ->
  (forall w : Errors.werr, dec_errors (enc (Server.JErr w)) = Some (w :: nil)%list) ->
  forall (w : Http.world (Stack.srv B)) (repo dig : Bytes.bytes) (o0 o1 : BinNums.Z)
    (bufsz : nat) (b' : B) (e : Errors.gerr),
  Server.o_locs o = None ->
  Request.vrepo repo = true ->
  Request.vdigest linked dig = true ->
  StackRange.expressible o0 o1 ->
  (BinInt.Z.eqb o0 BinNums.Z0 && BinInt.Z.ltb o1 BinNums.Z0)%bool = false ->
  bstep (Stack.sv_b (Http.w_srv w))
    (Iface.GetBlobRange repo dig o0 (StackRange.server_end o1)) = (
  b', Outcome.Err e) ->
  StackTransparent.conf_err e ->
  BinInt.Z.le
    (Bytes.blen
       (enc
          (Server.JErr
             (Errors.r_err (Errors.marshal_error Errors.go_sprefix Errors.go_cprefix e)))))
    (BinNums.Zpos
       (BinNums.xO
          (BinNums.xO
             (BinNums.xO
                (BinNums.xO
                   (BinNums.xO
                      (BinNums.xO
                         (BinNums.xO
                            (BinNums.xO
                               (BinNums.xO
                                  (BinNums.xO
                                     (BinNums.xO (BinNums.xO (BinNums.xO BinNums.xH)))))))))))))) ->
  exists w' : Http.world (Stack.srv B),
    Stack.stack_call linked hash subject_of media enc dec_errors dec_names dec_index redirect
      bstep o cc (Client.CGetBlobRange repo dig o0 o1 bufsz) w =
    (w', Client.ORead (Outcome.Err (StackTransparent.wire_error enc false e))) /\
    Http.w_srv w' =
    StackBase.after B (Http.w_srv w) b'
      (Server.ECall (Iface.GetBlobRange repo dig o0 (StackRange.server_end o1))
         (Outcome.Err e) :: nil).
Proof. exact @StackTransparent.transparent_GetBlobRange_err. Qed.
Print Assumptions C03_transparent_GetBlobRange_err.

(* GetBlobRange(0, negative) reaches the backend as GetBlob (same range by the interface's definition) *)
Theorem C03_GetBlobRange_whole_is_GetBlob :
  forall (linked : Ref.alg -> bool) (hash : Bytes.bytes -> Bytes.bytes -> Bytes.bytes)
    (subject_of : Bytes.bytes -> option (option Bytes.bytes))
    (media : Bytes.bytes -> Bytes.bytes) (enc : Server.jval -> Bytes.bytes)
    (dec_errors : Bytes.bytes -> option (list Errors.werr))
    (dec_names : bool -> Bytes.bytes -> option (list Bytes.bytes))
    (dec_index : Bytes.bytes -> option (list Iface.desc))
    (redirect : Bytes.bytes -> Bytes.bytes -> Bytes.bytes * Bytes.bytes) 
    (B : Type) (bstep : Server.backend B) (o : Server.opts) (cc : Stack.ccfg)
    (w : Http.world (Stack.srv B)) (repo dig : Bytes.bytes) (o1 : BinNums.Z) 
    (bufsz : nat),
  BinInt.Z.lt o1 BinNums.Z0 ->
  Stack.stack_call linked hash subject_of media enc dec_errors dec_names dec_index redirect
    bstep o cc (Client.CGetBlobRange repo dig BinNums.Z0 o1 bufsz) w =
  Stack.stack_call linked hash subject_of media enc dec_errors dec_names dec_index redirect
    bstep o cc (Client.CGetBlob repo dig bufsz) w.
Proof. exact @StackTransparent.GetBlobRange_whole_is_GetBlob. Qed.
Print Assumptions C03_GetBlobRange_whole_is_GetBlob.

(* Referrers: the backend's descriptors in order (the artifactType argument is the recorded deviation) *)
Theorem C03_transparent_Referrers_ok :
  forall (linked : Ref.alg -> bool) (hash : Bytes.bytes -> Bytes.bytes -> Bytes.bytes)
    (subject_of : Bytes.bytes -> option (option Bytes.bytes))
    (media : Bytes.bytes -> Bytes.bytes) (enc : Server.jval -> Bytes.bytes)
    (dec_errors : Bytes.bytes -> option (list Errors.werr))
    (dec_names : bool -> Bytes.bytes -> option (list Bytes.bytes))
    (dec_index : Bytes.bytes -> option (list Iface.desc))
    (redirect : Bytes.bytes -> Bytes.bytes -> Bytes.bytes * Bytes.bytes) 
    (B : Type) (bstep : Server.backend B) (o : Server.opts) (cc : Stack.ccfg),
  (forall l : list Iface.desc, dec_index (enc (Server.JIndex l)) = Some l) ->
  forall (w : Http.world (Stack.srv B)) (repo dig art : Bytes.bytes) 
    (budget : option nat) (b' : B) (v : Server.bval),
  Server.o_disable_referrers o = false ->
  Request.vrepo repo = true ->
  Request.vdigest linked dig = true ->
  bstep (Stack.sv_b (Http.w_srv w)) (Iface.Referrers repo dig nil) = (b', Outcome.Ok v) ->
  Server.iter_err_of v = None ->
  BinInt.Z.le (Bytes.blen (enc (Server.JIndex (Server.descs_of v)))) Request.max_int64 ->
  exists w' : Http.world (Stack.srv B),
    Stack.stack_call linked hash subject_of media enc dec_errors dec_names dec_index redirect
      bstep o cc (Client.CReferrers repo dig art budget) w =
    (w',
     Client.ODescs (List.map inl (fst (fst (Client.yield_items (Server.descs_of v) budget))))
       Client.PDone) /\
    Http.w_srv w' =
    StackBase.after B (Http.w_srv w) b'
      (Server.ECall (Iface.Referrers repo dig nil) (Outcome.Ok v) :: nil).
Proof. exact @StackListingB.transparent_Referrers_ok. Qed.
Print Assumptions C03_transparent_Referrers_ok.

(* as above *)
Theorem C03_transparent_Referrers_err :
  forall (linked : Ref.alg -> bool) (hash : Bytes.bytes -> Bytes.bytes -> Bytes.bytes)
    (subject_of : Bytes.bytes -> option (option Bytes.bytes))
    (media : Bytes.bytes -> Bytes.bytes) (enc : Server.jval -> Bytes.bytes)
    (dec_errors : Bytes.bytes -> option (list Errors.werr))
    (dec_names : bool -> Bytes.bytes -> option (list Bytes.bytes))
    (dec_index : Bytes.bytes -> option (list Iface.desc))
    (redirect : Bytes.bytes -> Bytes.bytes -> Bytes.bytes * Bytes.bytes) 
    (B : Type) (bstep : Server.backend B) (o : Server.opts) (cc : Stack.ccfg),
  media StackBase.json_ct = StackBase.json_ct ->
  (forall w : Errors.werr, dec_errors (enc (Server.JErr w)) = Some (w :: nil)%list) ->
  forall (w : Http.world (Stack.srv B)) (repo dig art : Bytes.bytes) 
    (budget : option nat) (b' : B) (a : Server.bres) (e : Errors.gerr),
  Server.o_disable_referrers o = false ->
  Request.vrepo repo = true ->
  Request.vdigest linked dig = true ->
  bstep (Stack.sv_b (Http.w_srv w)) (Iface.Referrers repo dig nil) = (b', a) ->
  StackDesc.listing_error a = Some e ->
  StackTransparent.conf_err e ->
  BinInt.Z.le
    (Bytes.blen
       (enc
          (Server.JErr
             (Errors.r_err (Errors.marshal_error Errors.go_sprefix Errors.go_cprefix e)))))
    (BinNums.Zpos
       (BinNums.xO
          (BinNums.xO
             (BinNums.xO
                (BinNums.xO
                   (BinNums.xO
                      (BinNums.xO
                         (BinNums.xO
                            (BinNums.xO
                               (BinNums.xO
                                  (BinNums.xO
                                     (BinNums.xO (BinNums.xO (BinNums.xO BinNums.xH)))))))))))))) ->
  exists w' : Http.world (Stack.srv B),
    Stack.stack_call linked hash subject_of media enc dec_errors dec_names dec_index redirect
      bstep o cc (Client.CReferrers repo dig art budget) w =
    (w', Client.ODescs (inr (StackTransparent.wire_error enc false e) :: nil) Client.PDone) /\
    Http.w_srv w' =
    StackBase.after B (Http.w_srv w) b' (Server.ECall (Iface.Referrers repo dig nil) a :: nil).
Proof. exact @StackTransparent.transparent_Referrers_err. Qed.
Print Assumptions C03_transparent_Referrers_err.

(* PushBlob: the eight-call upload session the server performs stores exactly the caller's bytes under the caller's digest *)
Theorem C03_transparent_PushBlob_ok :
  forall (linked : Ref.alg -> bool) (hash : Bytes.bytes -> Bytes.bytes -> Bytes.bytes)
    (subject_of : Bytes.bytes -> option (option Bytes.bytes))
    (media : Bytes.bytes -> Bytes.bytes) (enc : Server.jval -> Bytes.bytes)
    (dec_errors : Bytes.bytes -> option (list Errors.werr))
    (dec_names : bool -> Bytes.bytes -> option (list Bytes.bytes))
    (dec_index : Bytes.bytes -> option (list Iface.desc))
    (redirect : Bytes.bytes -> Bytes.bytes -> Bytes.bytes * Bytes.bytes) 
    (B : Type) (bstep : Server.backend B) (o : Server.opts) (cc : Stack.ccfg)
    (w : Http.world (Stack.srv B)) (repo : Bytes.bytes) (d : Iface.desc) 
    (data : Bytes.bytes) (b1 b2 b3 b4 b5 b6 b7 b8 : B) (vw vid vcs : Server.bval)
    (rc : Server.bres) (vw2 vn vd : Server.bval) (rc2 : Server.bres),
  Server.o_locs o = None ->
  Request.vrepo repo = true ->
  Request.vdigest linked (Iface.d_digest d) = true ->
  Iface.d_size d = Bytes.blen data ->
  BinInt.Z.le (BinNums.Zpos BinNums.xH) (Bytes.blen data) /\
  BinInt.Z.le (Bytes.blen data) Request.max_int64 ->
  bstep (Stack.sv_b (Http.w_srv w)) (Iface.PushBlobChunked repo BinNums.Z0) =
  (b1, Outcome.Ok vw) ->
  bstep b1 (Iface.WID (Server.wid_of vw)) = (b2, Outcome.Ok vid) ->
  StackUpload.good_upload_id (Server.str_of vid) ->
  bstep b2 (Iface.WChunkSize (Server.wid_of vw)) = (b3, Outcome.Ok vcs) ->
  bstep b3 (Iface.WClose (Server.wid_of vw)) = (b4, rc) ->
  rc <> Outcome.Panic ->
  rc <> Outcome.OutOfFuel ->
  bstep b4 (Iface.PushBlobChunkedResume repo (Server.str_of vid) BinNums.Z0 (Bytes.blen data)) =
  (b5, Outcome.Ok vw2) ->
  bstep b5 (Iface.WWrite (Server.wid_of vw2) data) = (b6, Outcome.Ok vn) ->
  Server.n_of vn = Bytes.blen data ->
  bstep b6 (Iface.WCommit (Server.wid_of vw2) (Iface.d_digest d)) = (b7, Outcome.Ok vd) ->
  bstep b7 (Iface.WClose (Server.wid_of vw2)) = (b8, rc2) ->
  rc2 <> Outcome.Panic ->
  rc2 <> Outcome.OutOfFuel ->
  exists w' : Http.world (Stack.srv B),
    Stack.stack_call linked hash subject_of media enc dec_errors dec_names dec_index redirect
      bstep o cc (Client.CPushBlob repo d true true data) w =
    (w', Client.ODesc (Outcome.Ok d)) /\
    Http.w_srv w' =
    StackBase.after B
      (StackBase.after B (Http.w_srv w) b4
         (Server.ECall (Iface.PushBlobChunked repo BinNums.Z0) (Outcome.Ok vw)
          :: Server.ECall (Iface.WID (Server.wid_of vw)) (Outcome.Ok vid)
             :: Server.ECall (Iface.WChunkSize (Server.wid_of vw)) (Outcome.Ok vcs)
                :: Server.ECall (Iface.WClose (Server.wid_of vw)) rc :: nil)) b8
      (Server.ECall
         (Iface.PushBlobChunkedResume repo (Server.str_of vid) BinNums.Z0 (Bytes.blen data))
         (Outcome.Ok vw2)
       :: Server.ECall (Iface.WWrite (Server.wid_of vw2) data) (Outcome.Ok vn)
          :: Server.ECall (Iface.WCommit (Server.wid_of vw2) (Iface.d_digest d))
               (Outcome.Ok vd) :: Server.ECall (Iface.WClose (Server.wid_of vw2)) rc2 :: nil).
Proof. exact @StackTransparent.transparent_PushBlob_ok. Qed.
Print Assumptions C03_transparent_PushBlob_ok.

(* PushBlobChunked opens one upload session at the backend *)
Theorem C03_transparent_PushBlobChunked_start :
  forall (linked : Ref.alg -> bool) (hash : Bytes.bytes -> Bytes.bytes -> Bytes.bytes)
    (subject_of : Bytes.bytes -> option (option Bytes.bytes))
    (media : Bytes.bytes -> Bytes.bytes) (enc : Server.jval -> Bytes.bytes)
    (dec_errors : Bytes.bytes -> option (list Errors.werr))
    (dec_names : bool -> Bytes.bytes -> option (list Bytes.bytes))
    (dec_index : Bytes.bytes -> option (list Iface.desc))
    (redirect : Bytes.bytes -> Bytes.bytes -> Bytes.bytes * Bytes.bytes) 
    (B : Type) (bstep : Server.backend B) (o : Server.opts) (w : Http.world (Stack.srv B))
    (repo : Bytes.bytes) (cs : BinNums.Z) (b1 b2 b3 b4 : B) (vw vid vcs : Server.bval)
    (rc : Server.bres),
  Request.vrepo repo = true ->
  bstep (Stack.sv_b (Http.w_srv w)) (Iface.PushBlobChunked repo BinNums.Z0) =
  (b1, Outcome.Ok vw) ->
  bstep b1 (Iface.WID (Server.wid_of vw)) = (b2, Outcome.Ok vid) ->
  StackUpload.good_upload_id (Server.str_of vid) ->
  bstep b2 (Iface.WChunkSize (Server.wid_of vw)) = (b3, Outcome.Ok vcs) ->
  BinInt.Z.le Request.min_int64 (Server.n_of vcs) /\
  BinInt.Z.le (Server.n_of vcs) Request.max_int64 ->
  bstep b3 (Iface.WClose (Server.wid_of vw)) = (b4, rc) ->
  rc <> Outcome.Panic ->
  rc <> Outcome.OutOfFuel ->
  exists w' : Http.world (Stack.srv B),
    Client.push_blob_chunked (Stack.srv B)
      (Stack.serve_stack linked hash subject_of enc redirect bstep o)
      (Stack.stack_env linked hash media dec_errors dec_names dec_index) repo cs w =
    (w',
     Outcome.Ok
       {|
         Client.wr_chunk_size :=
           BinInt.Z.max (StackTransparent.default_or cs) (Server.n_of vcs);
         Client.wr_closed := false;
         Client.wr_chunk := Some nil;
         Client.wr_close_err := None;
         Client.wr_size := BinNums.Z0;
         Client.wr_flushed := BinNums.Z0;
         Client.wr_location :=
           Http.URef (Http.UReq (Client.start_upload_rreq repo))
             (StackUpload.upath repo (Server.str_of vid))
       |}) /\
    Http.w_srv w' =
    StackBase.after B (Http.w_srv w) b4
      (Server.ECall (Iface.PushBlobChunked repo BinNums.Z0) (Outcome.Ok vw)
       :: Server.ECall (Iface.WID (Server.wid_of vw)) (Outcome.Ok vid)
          :: Server.ECall (Iface.WChunkSize (Server.wid_of vw)) (Outcome.Ok vcs)
             :: Server.ECall (Iface.WClose (Server.wid_of vw)) rc :: nil).
Proof. exact @StackTransparent.transparent_PushBlobChunked_start. Qed.
Print Assumptions C03_transparent_PushBlobChunked_start.

(* a flush of the client's chunk reaches the backend writer as one Write of exactly those bytes at exactly that offset *)
Theorem C03_transparent_flush_patch :
  forall (linked : Ref.alg -> bool) (hash : Bytes.bytes -> Bytes.bytes -> Bytes.bytes)
    (subject_of : Bytes.bytes -> option (option Bytes.bytes))
    (media : Bytes.bytes -> Bytes.bytes) (enc : Server.jval -> Bytes.bytes)
    (dec_errors : Bytes.bytes -> option (list Errors.werr))
    (dec_names : bool -> Bytes.bytes -> option (list Bytes.bytes))
    (dec_index : Bytes.bytes -> option (list Iface.desc))
    (redirect : Bytes.bytes -> Bytes.bytes -> Bytes.bytes * Bytes.bytes) 
    (B : Type) (bstep : Server.backend B) (o : Server.opts) (w : Http.world (Stack.srv B))
    (wr : Client.writer) (repo id : Bytes.bytes) (buf : list BinNums.N) 
    (b1 b2 b3 b4 b5 : B) (vw vn vc vid vs : Server.bval),
  let data := (Client.chunk_bytes wr ++ buf)%list in
  let f := Client.wr_flushed wr in
  Request.vrepo repo = true ->
  StackUpload.good_upload_id id ->
  StackTransparent.writer_at wr repo id ->
  data <> nil ->
  BinInt.Z.le BinNums.Z0 f ->
  BinInt.Z.le (BinInt.Z.add f (Bytes.blen data)) Request.max_int64 ->
  bstep (Stack.sv_b (Http.w_srv w)) (Iface.PushBlobChunkedResume repo id f (Bytes.blen data)) =
  (b1, Outcome.Ok vw) ->
  bstep b1 (Iface.WWrite (Server.wid_of vw) data) = (b2, Outcome.Ok vn) ->
  Server.n_of vn = Bytes.blen data ->
  bstep b2 (Iface.WClose (Server.wid_of vw)) = (b3, Outcome.Ok vc) ->
  bstep b3 (Iface.WID (Server.wid_of vw)) = (b4, Outcome.Ok vid) ->
  StackUpload.good_upload_id (Server.str_of vid) ->
  bstep b4 (Iface.WSize (Server.wid_of vw)) = (b5, Outcome.Ok vs) ->
  exists w' : Http.world (Stack.srv B),
    Client.flush (Stack.srv B) (Stack.serve_stack linked hash subject_of enc redirect bstep o)
      (Stack.stack_env linked hash media dec_errors dec_names dec_index) wr buf nil w =
    (w',
     Outcome.Ok
       {|
         Client.wr_chunk_size := Client.wr_chunk_size wr;
         Client.wr_closed := Client.wr_closed wr;
         Client.wr_chunk := option_map (fun _ : Bytes.bytes => nil) (Client.wr_chunk wr);
         Client.wr_close_err := Client.wr_close_err wr;
         Client.wr_size := Client.wr_size wr;
         Client.wr_flushed := BinInt.Z.add f (Bytes.blen data);
         Client.wr_location :=
           Http.URef (Client.wr_location wr) (StackUpload.upath repo (Server.str_of vid))
       |}) /\
    Http.w_srv w' =
    StackBase.after B (Http.w_srv w) b5
      (Server.ECall (Iface.PushBlobChunkedResume repo id f (Bytes.blen data)) (Outcome.Ok vw)
       :: Server.ECall (Iface.WWrite (Server.wid_of vw) data) (Outcome.Ok vn)
          :: Server.ECall (Iface.WClose (Server.wid_of vw)) (Outcome.Ok vc)
             :: Server.ECall (Iface.WID (Server.wid_of vw)) (Outcome.Ok vid)
                :: Server.ECall (Iface.WSize (Server.wid_of vw)) (Outcome.Ok vs) :: nil).
Proof. exact @StackTransparent.transparent_flush_patch. Qed.
Print Assumptions C03_transparent_flush_patch.

(* Commit sends the remaining bytes and the digest; the backend commits that digest *)
Theorem C03_transparent_commit :
  forall (linked : Ref.alg -> bool) (hash : Bytes.bytes -> Bytes.bytes -> Bytes.bytes)
    (subject_of : Bytes.bytes -> option (option Bytes.bytes))
    (media : Bytes.bytes -> Bytes.bytes) (enc : Server.jval -> Bytes.bytes)
    (dec_errors : Bytes.bytes -> option (list Errors.werr))
    (dec_names : bool -> Bytes.bytes -> option (list Bytes.bytes))
    (dec_index : Bytes.bytes -> option (list Iface.desc))
    (redirect : Bytes.bytes -> Bytes.bytes -> Bytes.bytes * Bytes.bytes) 
    (B : Type) (bstep : Server.backend B) (o : Server.opts) (w : Http.world (Stack.srv B))
    (wr : Client.writer) (repo id dg : Bytes.bytes) (b1 b2 b3 b4 : B) 
    (vw vn vd : Server.bval) (rc : Server.bres),
  let data := Client.chunk_bytes wr in
  let f := Client.wr_flushed wr in
  Server.o_locs o = None ->
  Request.vrepo repo = true ->
  StackUpload.good_upload_id id ->
  StackTransparent.writer_at wr repo id ->
  Request.vdigest linked dg = true ->
  data <> nil ->
  BinInt.Z.le BinNums.Z0 f ->
  BinInt.Z.le (BinInt.Z.add f (Bytes.blen data)) Request.max_int64 ->
  bstep (Stack.sv_b (Http.w_srv w)) (Iface.PushBlobChunkedResume repo id f (Bytes.blen data)) =
  (b1, Outcome.Ok vw) ->
  bstep b1 (Iface.WWrite (Server.wid_of vw) data) = (b2, Outcome.Ok vn) ->
  Server.n_of vn = Bytes.blen data ->
  bstep b2 (Iface.WCommit (Server.wid_of vw) dg) = (b3, Outcome.Ok vd) ->
  Request.vdigest linked (Iface.d_digest (Server.desc_of vd)) = true ->
  bstep b3 (Iface.WClose (Server.wid_of vw)) = (b4, rc) ->
  rc <> Outcome.Panic ->
  rc <> Outcome.OutOfFuel ->
  exists (w' : Http.world (Stack.srv B)) (wr' : Client.writer),
    Client.writer_commit (Stack.srv B)
      (Stack.serve_stack linked hash subject_of enc redirect bstep o)
      (Stack.stack_env linked hash media dec_errors dec_names dec_index) wr dg w =
    (w',
     (wr',
      Outcome.Ok
        {|
          Iface.d_media := Client.octet_stream;
          Iface.d_digest := dg;
          Iface.d_size := Client.wr_size wr;
          Iface.d_artifact := nil
        |})) /\
    Client.wr_flushed wr' = BinInt.Z.add f (Bytes.blen data) /\
    Client.wr_size wr' = Client.wr_size wr /\
    Http.w_srv w' =
    StackBase.after B (Http.w_srv w) b4
      (Server.ECall (Iface.PushBlobChunkedResume repo id f (Bytes.blen data)) (Outcome.Ok vw)
       :: Server.ECall (Iface.WWrite (Server.wid_of vw) data) (Outcome.Ok vn)
          :: Server.ECall (Iface.WCommit (Server.wid_of vw) dg) (Outcome.Ok vd)
             :: Server.ECall (Iface.WClose (Server.wid_of vw)) rc :: nil).
Proof. exact @StackTransparent.transparent_commit. Qed.
Print Assumptions C03_transparent_commit.

(* the HTTP status of an error always survives a hop *)
Theorem C03_wire_error_status :
  forall (enc : Server.jval -> Bytes.bytes) (head : bool) (e : Errors.gerr),
  Errors.as_http (StackTransparent.wire_error enc head e) = Some (Errors.marshal_status e).
Proof. exact @StackTransparent.wire_error_status. Qed.
Print Assumptions C03_wire_error_status.

(* code and detail survive on responses that carry a body *)
Theorem C03_wire_error_body :
  forall (enc : Server.jval -> Bytes.bytes) (e : Errors.gerr),
  BinInt.Z.le
    (Bytes.blen
       (enc
          (Server.JErr
             (Errors.r_err (Errors.marshal_error Errors.go_sprefix Errors.go_cprefix e)))))
    (BinNums.Zpos
       (BinNums.xO
          (BinNums.xO
             (BinNums.xO
                (BinNums.xO
                   (BinNums.xO
                      (BinNums.xO
                         (BinNums.xO
                            (BinNums.xO
                               (BinNums.xO
                                  (BinNums.xO
                                     (BinNums.xO (BinNums.xO (BinNums.xO BinNums.xH)))))))))))))) ->
  Errors.marshal_code (StackTransparent.wire_error enc false e) = Errors.marshal_code e /\
  Errors.marshal_detail (StackTransparent.wire_error enc false e) = Errors.marshal_detail e /\
  Errors.marshal_status (StackTransparent.wire_error enc false e) = Errors.marshal_status e.
Proof. exact @StackTransparent.wire_error_body. Qed.
Print Assumptions C03_wire_error_body.

(* Tags through the pager: every page size >= 1, Link header or last= fallback: exactly the backend's listing after the start point (the size bound is asked of the documents actually produced, Proofs/StackListingB.v) *)
Theorem C03_transparent_Tags_ok :
  forall (linked : Ref.alg -> bool) (hash : Bytes.bytes -> Bytes.bytes -> Bytes.bytes)
    (subject_of : Bytes.bytes -> option (option Bytes.bytes))
    (media : Bytes.bytes -> Bytes.bytes) (enc : Server.jval -> Bytes.bytes)
    (dec_errors : Bytes.bytes -> option (list Errors.werr))
    (dec_names : bool -> Bytes.bytes -> option (list Bytes.bytes))
    (dec_index : Bytes.bytes -> option (list Iface.desc))
    (redirect : Bytes.bytes -> Bytes.bytes -> Bytes.bytes * Bytes.bytes) 
    (B : Type) (bstep : Server.backend B) (o : Server.opts) (cc : Stack.ccfg),
  (forall (name : Bytes.bytes) (l : list Bytes.bytes),
   dec_names true (enc (Server.JTags name l)) = Some l) ->
  forall (w : Http.world (Stack.srv B)) (repo start : Bytes.bytes)
    (full : Bytes.bytes -> list Bytes.bytes),
  Request.vrepo repo = true ->
  RequestCodec.byte_list start = true ->
  StackListing.page_size_ok o cc ->
  StackListing.pages_well B bstep (Stack.sv_b (Http.w_srv w)) (Iface.Tags repo) full ->
  StackListingB.pages_small enc cc (Server.JTags repo) full ->
  Datatypes.length (full start) < Stack.cc_fuel cc ->
  exists w' : Http.world (Stack.srv B),
    Stack.stack_call linked hash subject_of media enc dec_errors dec_names dec_index redirect
      bstep o cc (Client.CTags repo start None) w =
    (w', Client.ONames (List.map inl (full start)) Client.PDone) /\
    (exists starts : list Bytes.bytes,
       Http.w_srv w' =
       StackBase.after B (Http.w_srv w) (Stack.sv_b (Http.w_srv w))
         (List.map
            (fun s0 : Bytes.bytes =>
             Server.ECall (Iface.Tags repo s0) (Outcome.Ok (Server.VList (full s0) None)))
            starts)).
Proof. exact @StackListingB.transparent_Tags_ok. Qed.
Print Assumptions C03_transparent_Tags_ok.

(* a failing listing ends with the backend's error *)
Theorem C03_transparent_Tags_err :
  forall (linked : Ref.alg -> bool) (hash : Bytes.bytes -> Bytes.bytes -> Bytes.bytes)
    (subject_of : Bytes.bytes -> option (option Bytes.bytes))
    (media : Bytes.bytes -> Bytes.bytes) (enc : Server.jval -> Bytes.bytes)
    (dec_errors : Bytes.bytes -> option (list Errors.werr))
    (dec_names : bool -> Bytes.bytes -> option (list Bytes.bytes))
    (dec_index : Bytes.bytes -> option (list Iface.desc))
    (redirect : Bytes.bytes -> Bytes.bytes -> Bytes.bytes * Bytes.bytes) 
    (B : Type) (bstep : Server.backend B) (o : Server.opts) (cc : Stack.ccfg),
  media StackBase.json_ct = StackBase.json_ct ->
  (forall w : Errors.werr, dec_errors (enc (Server.JErr w)) = Some (w :: nil)%list) ->
  forall (w : Http.world (Stack.srv B)) (repo start : Bytes.bytes) 
    (b' : B) (a : Server.bres) (e : Errors.gerr),
  Request.vrepo repo = true ->
  RequestCodec.byte_list start = true ->
  StackListing.page_size_ok o cc ->
  1 <= Stack.cc_fuel cc ->
  bstep (Stack.sv_b (Http.w_srv w)) (Iface.Tags repo start) = (b', a) ->
  StackListing.first_error a = Some e ->
  StackTransparent.conf_err e ->
  BinInt.Z.le
    (Bytes.blen
       (enc
          (Server.JErr
             (Errors.r_err (Errors.marshal_error Errors.go_sprefix Errors.go_cprefix e)))))
    (BinNums.Zpos
       (BinNums.xO
          (BinNums.xO
             (BinNums.xO
                (BinNums.xO
                   (BinNums.xO
                      (BinNums.xO
                         (BinNums.xO
                            (BinNums.xO
                               (BinNums.xO
                                  (BinNums.xO
                                     (BinNums.xO (BinNums.xO (BinNums.xO BinNums.xH)))))))))))))) ->
  exists w' : Http.world (Stack.srv B),
    Stack.stack_call linked hash subject_of media enc dec_errors dec_names dec_index redirect
      bstep o cc (Client.CTags repo start None) w =
    (w', Client.ONames (inr (StackTransparent.wire_error enc false e) :: nil) Client.PDone) /\
    Http.w_srv w' =
    StackBase.after B (Http.w_srv w) b' (Server.ECall (Iface.Tags repo start) a :: nil).
Proof. exact @StackListing.transparent_Tags_err. Qed.
Print Assumptions C03_transparent_Tags_err.

(* as above for Repositories (the size bound is asked of the documents actually produced, Proofs/StackListingB.v) *)
Theorem C03_transparent_Repositories_ok :
  forall (linked : Ref.alg -> bool) (hash : Bytes.bytes -> Bytes.bytes -> Bytes.bytes)
    (subject_of : Bytes.bytes -> option (option Bytes.bytes))
    (media : Bytes.bytes -> Bytes.bytes) (enc : Server.jval -> Bytes.bytes)
    (dec_errors : Bytes.bytes -> option (list Errors.werr))
    (dec_names : bool -> Bytes.bytes -> option (list Bytes.bytes))
    (dec_index : Bytes.bytes -> option (list Iface.desc))
    (redirect : Bytes.bytes -> Bytes.bytes -> Bytes.bytes * Bytes.bytes) 
    (B : Type) (bstep : Server.backend B) (o : Server.opts) (cc : Stack.ccfg),
  (forall l : list Bytes.bytes, dec_names false (enc (Server.JCatalog l)) = Some l) ->
  forall (w : Http.world (Stack.srv B)) (start : Bytes.bytes)
    (full : Bytes.bytes -> list Bytes.bytes),
  RequestCodec.byte_list start = true ->
  StackListing.page_size_ok o cc ->
  StackListing.pages_well B bstep (Stack.sv_b (Http.w_srv w)) Iface.Repositories full ->
  StackListingB.pages_small enc cc Server.JCatalog full ->
  Datatypes.length (full start) < Stack.cc_fuel cc ->
  exists w' : Http.world (Stack.srv B),
    Stack.stack_call linked hash subject_of media enc dec_errors dec_names dec_index redirect
      bstep o cc (Client.CRepositories start None) w =
    (w', Client.ONames (List.map inl (full start)) Client.PDone) /\
    (exists starts : list Bytes.bytes,
       Http.w_srv w' =
       StackBase.after B (Http.w_srv w) (Stack.sv_b (Http.w_srv w))
         (List.map
            (fun s0 : Bytes.bytes =>
             Server.ECall (Iface.Repositories s0) (Outcome.Ok (Server.VList (full s0) None)))
            starts)).
Proof. exact @StackListingB.transparent_Repositories_ok. Qed.
Print Assumptions C03_transparent_Repositories_ok.

(* as above *)
Theorem C03_transparent_Repositories_err :
  forall (linked : Ref.alg -> bool) (hash : Bytes.bytes -> Bytes.bytes -> Bytes.bytes)
    (subject_of : Bytes.bytes -> option (option Bytes.bytes))
    (media : Bytes.bytes -> Bytes.bytes) (enc : Server.jval -> Bytes.bytes)
    (dec_errors : Bytes.bytes -> option (list Errors.werr))
    (dec_names : bool -> Bytes.bytes -> option (list Bytes.bytes))
    (dec_index : Bytes.bytes -> option (list Iface.desc))
    (redirect : Bytes.bytes -> Bytes.bytes -> Bytes.bytes * Bytes.bytes) 
    (B : Type) (bstep : Server.backend B) (o : Server.opts) (cc : Stack.ccfg),
  media StackBase.json_ct = StackBase.json_ct ->
  (forall w : Errors.werr, dec_errors (enc (Server.JErr w)) = Some (w :: nil)%list) ->
  forall (w : Http.world (Stack.srv B)) (start : Bytes.bytes) (b' : B) 
    (a : Server.bres) (e : Errors.gerr),
  RequestCodec.byte_list start = true ->
  StackListing.page_size_ok o cc ->
  1 <= Stack.cc_fuel cc ->
  bstep (Stack.sv_b (Http.w_srv w)) (Iface.Repositories start) = (b', a) ->
  StackListing.first_error a = Some e ->
  StackTransparent.conf_err e ->
  BinInt.Z.le
    (Bytes.blen
       (enc
          (Server.JErr
             (Errors.r_err (Errors.marshal_error Errors.go_sprefix Errors.go_cprefix e)))))
    (BinNums.Zpos
       (BinNums.xO
          (BinNums.xO
             (BinNums.xO
                (BinNums.xO
                   (BinNums.xO
                      (BinNums.xO
                         (BinNums.xO
                            (BinNums.xO
                               (BinNums.xO
                                  (BinNums.xO
                                     (BinNums.xO (BinNums.xO (BinNums.xO BinNums.xH)))))))))))))) ->
  exists w' : Http.world (Stack.srv B),
    Stack.stack_call linked hash subject_of media enc dec_errors dec_names dec_index redirect
      bstep o cc (Client.CRepositories start None) w =
    (w', Client.ONames (inr (StackTransparent.wire_error enc false e) :: nil) Client.PDone) /\
    Http.w_srv w' =
    StackBase.after B (Http.w_srv w) b' (Server.ECall (Iface.Repositories start) a :: nil).
Proof. exact @StackListing.transparent_Repositories_err. Qed.
Print Assumptions C03_transparent_Repositories_err.

(* two hops (client - server - client - server - backend), ResolveBlob *)
Theorem C03_two_hops_ResolveBlob :
  forall (linked : Ref.alg -> bool) (hash : Bytes.bytes -> Bytes.bytes -> Bytes.bytes)
    (subject_of : Bytes.bytes -> option (option Bytes.bytes))
    (media : Bytes.bytes -> Bytes.bytes) (enc : Server.jval -> Bytes.bytes)
    (dec_errors : Bytes.bytes -> option (list Errors.werr))
    (dec_names : bool -> Bytes.bytes -> option (list Bytes.bytes))
    (dec_index : Bytes.bytes -> option (list Iface.desc))
    (redirect : Bytes.bytes -> Bytes.bytes -> Bytes.bytes * Bytes.bytes) 
    (B : Type) (bstep : Server.backend B) (o1 o2 : Server.opts) (cc1 cc2 : Stack.ccfg)
    (w : Http.world (Stack.srv (Stack.sstate B))) (repo dig : Bytes.bytes) 
    (b' : B) (v : Server.bval),
  StackTwoHops.clean (StackTwoHops.inner_state B w) ->
  Request.vrepo repo = true ->
  Request.vdigest linked dig = true ->
  bstep (Stack.sv_b (Stack.st_srv (StackTwoHops.inner_state B w)))
    (Iface.ResolveBlob repo dig) = (b', Outcome.Ok v) ->
  StackTransparent.conf_desc linked (Server.desc_of v) ->
  exists w' : Http.world (Stack.srv (Stack.sstate B)),
    Stack.stack_call linked hash subject_of media enc dec_errors dec_names dec_index redirect
      (Stack.stack_bstep linked hash subject_of media enc dec_errors dec_names dec_index
         redirect bstep o1 cc1) o2 cc2 (Client.CResolveBlob repo dig) w =
    (w', Client.ODesc (Outcome.Ok (StackTransparent.head_desc false (Server.desc_of v)))) /\
    Stack.sv_b (Stack.st_srv (StackTwoHops.inner_state B w')) = b' /\
    Stack.sv_tr (Stack.st_srv (StackTwoHops.inner_state B w')) =
    (Server.ECall (Iface.ResolveBlob repo dig) (Outcome.Ok v) :: nil)%list.
Proof. exact @StackTwoHops.two_hops_ResolveBlob. Qed.
Print Assumptions C03_two_hops_ResolveBlob.

(* two hops: the status survives both *)
Theorem C03_two_hops_ResolveBlob_err :
  forall (linked : Ref.alg -> bool) (hash : Bytes.bytes -> Bytes.bytes -> Bytes.bytes)
    (subject_of : Bytes.bytes -> option (option Bytes.bytes))
    (media : Bytes.bytes -> Bytes.bytes) (enc : Server.jval -> Bytes.bytes)
    (dec_errors : Bytes.bytes -> option (list Errors.werr))
    (dec_names : bool -> Bytes.bytes -> option (list Bytes.bytes))
    (dec_index : Bytes.bytes -> option (list Iface.desc))
    (redirect : Bytes.bytes -> Bytes.bytes -> Bytes.bytes * Bytes.bytes) 
    (B : Type) (bstep : Server.backend B),
  media StackBase.json_ct = StackBase.json_ct ->
  (forall w : Errors.werr, dec_errors (enc (Server.JErr w)) = Some (w :: nil)%list) ->
  forall (o1 o2 : Server.opts) (cc1 cc2 : Stack.ccfg)
    (w : Http.world (Stack.srv (Stack.sstate B))) (repo dig : Bytes.bytes) 
    (b' : B) (e : Errors.gerr),
  StackTwoHops.clean (StackTwoHops.inner_state B w) ->
  Request.vrepo repo = true ->
  Request.vdigest linked dig = true ->
  bstep (Stack.sv_b (Stack.st_srv (StackTwoHops.inner_state B w)))
    (Iface.ResolveBlob repo dig) = (b', Outcome.Err e) ->
  StackTransparent.conf_err e ->
  BinInt.Z.le
    (Bytes.blen
       (enc
          (Server.JErr
             (Errors.r_err (Errors.marshal_error Errors.go_sprefix Errors.go_cprefix e)))))
    (BinNums.Zpos
       (BinNums.xO
          (BinNums.xO
             (BinNums.xO
                (BinNums.xO
                   (BinNums.xO
                      (BinNums.xO
                         (BinNums.xO
                            (BinNums.xO
                               (BinNums.xO
                                  (BinNums.xO
                                     (BinNums.xO (BinNums.xO (BinNums.xO BinNums.xH)))))))))))))) ->
  BinInt.Z.le
    (Bytes.blen
       (enc
          (Server.JErr
             (Errors.r_err
                (Errors.marshal_error Errors.go_sprefix Errors.go_cprefix
                   (StackTransparent.wire_error enc true e))))))
    (BinNums.Zpos
       (BinNums.xO
          (BinNums.xO
             (BinNums.xO
                (BinNums.xO
                   (BinNums.xO
                      (BinNums.xO
                         (BinNums.xO
                            (BinNums.xO
                               (BinNums.xO
                                  (BinNums.xO
                                     (BinNums.xO (BinNums.xO (BinNums.xO BinNums.xH)))))))))))))) ->
  exists (w' : Http.world (Stack.srv (Stack.sstate B))) (e2 : Errors.gerr),
    Stack.stack_call linked hash subject_of media enc dec_errors dec_names dec_index redirect
      (Stack.stack_bstep linked hash subject_of media enc dec_errors dec_names dec_index
         redirect bstep o1 cc1) o2 cc2 (Client.CResolveBlob repo dig) w =
    (w', Client.ODesc (Outcome.Err e2)) /\
    Errors.as_http e2 = Some (Errors.marshal_status e) /\
    Stack.sv_b (Stack.st_srv (StackTwoHops.inner_state B w')) = b' /\
    Stack.sv_tr (Stack.st_srv (StackTwoHops.inner_state B w')) =
    (Server.ECall (Iface.ResolveBlob repo dig) (Outcome.Err e) :: nil)%list.
Proof. exact @StackTwoHops.two_hops_ResolveBlob_err. Qed.
Print Assumptions C03_two_hops_ResolveBlob_err.

(* two hops, GetBlob *)
Theorem C03_two_hops_GetBlob :
  forall (linked : Ref.alg -> bool) (hash : Bytes.bytes -> Bytes.bytes -> Bytes.bytes)
    (subject_of : Bytes.bytes -> option (option Bytes.bytes))
    (media : Bytes.bytes -> Bytes.bytes) (enc : Server.jval -> Bytes.bytes)
    (dec_errors : Bytes.bytes -> option (list Errors.werr))
    (dec_names : bool -> Bytes.bytes -> option (list Bytes.bytes))
    (dec_index : Bytes.bytes -> option (list Iface.desc))
    (redirect : Bytes.bytes -> Bytes.bytes -> Bytes.bytes * Bytes.bytes) 
    (B : Type) (bstep : Server.backend B) (o1 o2 : Server.opts) (cc1 cc2 : Stack.ccfg)
    (w : Http.world (Stack.srv (Stack.sstate B))) (repo dig : Bytes.bytes) 
    (bufsz : nat) (b' : B) (v : Server.bval),
  StackTwoHops.clean (StackTwoHops.inner_state B w) ->
  Server.o_locs o1 = None ->
  Server.o_locs o2 = None ->
  1 <= Stack.cc_bufsz cc1 ->
  1 <= bufsz ->
  Request.vrepo repo = true ->
  Request.vdigest linked dig = true ->
  bstep (Stack.sv_b (Stack.st_srv (StackTwoHops.inner_state B w))) (Iface.GetBlob repo dig) =
  (b', Outcome.Ok v) ->
  Iface.d_size (Server.desc_of v) = Bytes.blen (Server.data_of v) ->
  BinInt.Z.le (Bytes.blen (Server.data_of v)) Request.max_int64 ->
  StackTransparent.content_of hash dig (Server.data_of v) ->
  exists w' : Http.world (Stack.srv (Stack.sstate B)),
    Stack.stack_call linked hash subject_of media enc dec_errors dec_names dec_index redirect
      (Stack.stack_bstep linked hash subject_of media enc dec_errors dec_names dec_index
         redirect bstep o1 cc1) o2 cc2 (Client.CGetBlob repo dig bufsz) w =
    (w',
     Client.ORead
       (Outcome.Ok
          ({|
             Iface.d_media := StackDesc.media_or_octet (Iface.d_media (Server.desc_of v));
             Iface.d_digest := dig;
             Iface.d_size := Iface.d_size (Server.desc_of v);
             Iface.d_artifact := nil
           |}, Server.data_of v, Client.RdEOF))) /\
    Stack.sv_b (Stack.st_srv (StackTwoHops.inner_state B w')) = b' /\
    Stack.sv_tr (Stack.st_srv (StackTwoHops.inner_state B w')) =
    (Server.ECall (Iface.GetBlob repo dig) (Outcome.Ok v) :: Server.ECloseR :: nil)%list.
Proof. exact @StackTwoHops.two_hops_GetBlob. Qed.
Print Assumptions C03_two_hops_GetBlob.

(* as above *)
Theorem C03_two_hops_GetBlob_err :
  forall (linked : Ref.alg -> bool) (hash : Bytes.bytes -> Bytes.bytes -> Bytes.bytes)
    (subject_of : Bytes.bytes -> option (option Bytes.bytes))
    (media : Bytes.bytes -> Bytes.bytes) (enc : Server.jval -> Bytes.bytes)
    (dec_errors : Bytes.bytes -> option (list Errors.werr))
    (dec_names : bool -> Bytes.bytes -> option (list Bytes.bytes))
    (dec_index : Bytes.bytes -> option (list Iface.desc))
    (redirect : Bytes.bytes -> Bytes.bytes -> Bytes.bytes * Bytes.bytes) 
    (B : Type) (bstep : Server.backend B),
  media StackBase.json_ct = StackBase.json_ct ->
  (forall w : Errors.werr, dec_errors (enc (Server.JErr w)) = Some (w :: nil)%list) ->
  forall (o1 o2 : Server.opts) (cc1 cc2 : Stack.ccfg)
    (w : Http.world (Stack.srv (Stack.sstate B))) (repo dig : Bytes.bytes) 
    (bufsz : nat) (b' : B) (e : Errors.gerr),
  StackTwoHops.clean (StackTwoHops.inner_state B w) ->
  Server.o_locs o1 = None ->
  Server.o_locs o2 = None ->
  Request.vrepo repo = true ->
  Request.vdigest linked dig = true ->
  bstep (Stack.sv_b (Stack.st_srv (StackTwoHops.inner_state B w))) (Iface.GetBlob repo dig) =
  (b', Outcome.Err e) ->
  StackTransparent.conf_err e ->
  BinInt.Z.le
    (Bytes.blen
       (enc
          (Server.JErr
             (Errors.r_err (Errors.marshal_error Errors.go_sprefix Errors.go_cprefix e)))))
    (BinNums.Zpos
       (BinNums.xO
          (BinNums.xO
             (BinNums.xO
                (BinNums.xO
                   (BinNums.xO
                      (BinNums.xO
                         (BinNums.xO
                            (BinNums.xO
                               (BinNums.xO
                                  (BinNums.xO
                                     (BinNums.xO (BinNums.xO (BinNums.xO BinNums.xH)))))))))))))) ->
  BinInt.Z.le
    (Bytes.blen
       (enc
          (Server.JErr
             (Errors.r_err
                (Errors.marshal_error Errors.go_sprefix Errors.go_cprefix
                   (StackTransparent.wire_error enc false e))))))
    (BinNums.Zpos
       (BinNums.xO
          (BinNums.xO
             (BinNums.xO
                (BinNums.xO
                   (BinNums.xO
                      (BinNums.xO
                         (BinNums.xO
                            (BinNums.xO
                               (BinNums.xO
                                  (BinNums.xO
                                     (BinNums.xO (BinNums.xO (BinNums.xO BinNums.xH)))))))))))))) ->
  exists (w' : Http.world (Stack.srv (Stack.sstate B))) (e2 : Errors.gerr),
    Stack.stack_call linked hash subject_of media enc dec_errors dec_names dec_index redirect
      (Stack.stack_bstep linked hash subject_of media enc dec_errors dec_names dec_index
         redirect bstep o1 cc1) o2 cc2 (Client.CGetBlob repo dig bufsz) w =
    (w', Client.ORead (Outcome.Err e2)) /\
    Errors.marshal_code e2 = Errors.marshal_code e /\
    Errors.marshal_detail e2 = Errors.marshal_detail e /\
    Errors.marshal_status e2 = Errors.marshal_status e /\
    Stack.sv_b (Stack.st_srv (StackTwoHops.inner_state B w')) = b' /\
    Stack.sv_tr (Stack.st_srv (StackTwoHops.inner_state B w')) =
    (Server.ECall (Iface.GetBlob repo dig) (Outcome.Err e) :: nil)%list.
Proof. exact @StackTwoHops.two_hops_GetBlob_err. Qed.
Print Assumptions C03_two_hops_GetBlob_err.

(* two hops, DeleteTag *)
Theorem C03_two_hops_DeleteTag :
  forall (linked : Ref.alg -> bool) (hash : Bytes.bytes -> Bytes.bytes -> Bytes.bytes)
    (subject_of : Bytes.bytes -> option (option Bytes.bytes))
    (media : Bytes.bytes -> Bytes.bytes) (enc : Server.jval -> Bytes.bytes)
    (dec_errors : Bytes.bytes -> option (list Errors.werr))
    (dec_names : bool -> Bytes.bytes -> option (list Bytes.bytes))
    (dec_index : Bytes.bytes -> option (list Iface.desc))
    (redirect : Bytes.bytes -> Bytes.bytes -> Bytes.bytes * Bytes.bytes) 
    (B : Type) (bstep : Server.backend B) (o1 o2 : Server.opts) (cc1 cc2 : Stack.ccfg)
    (w : Http.world (Stack.srv (Stack.sstate B))) (repo tag : Bytes.bytes) 
    (b' : B) (v : Server.bval),
  StackTwoHops.clean (StackTwoHops.inner_state B w) ->
  Request.vrepo repo = true ->
  Request.vtag tag = true ->
  bstep (Stack.sv_b (Stack.st_srv (StackTwoHops.inner_state B w))) (Iface.DeleteTag repo tag) =
  (b', Outcome.Ok v) ->
  exists w' : Http.world (Stack.srv (Stack.sstate B)),
    Stack.stack_call linked hash subject_of media enc dec_errors dec_names dec_index redirect
      (Stack.stack_bstep linked hash subject_of media enc dec_errors dec_names dec_index
         redirect bstep o1 cc1) o2 cc2 (Client.CDeleteTag repo tag) w =
    (w', Client.OUnit (Outcome.Ok tt)) /\
    Stack.sv_b (Stack.st_srv (StackTwoHops.inner_state B w')) = b' /\
    Stack.sv_tr (Stack.st_srv (StackTwoHops.inner_state B w')) =
    (Server.ECall (Iface.DeleteTag repo tag) (Outcome.Ok v) :: nil)%list.
Proof. exact @StackTwoHops.two_hops_DeleteTag. Qed.
Print Assumptions C03_two_hops_DeleteTag.

(* RECORDED DEVIATION (known finding C03-mount-size), witness on the ocimem model: PushBlob then MountBlob answers size 100 directly and 0 through the stack *)
Theorem C03_transparent_MountBlob_refuted :
  exists h : list Iface.op,
  ~ StackRefuted.transparent_on StackRun.default_opts StackRun.default_ccfg h.
Proof. exact @StackRefuted.transparent_MountBlob_refuted. Qed.
Print Assumptions C03_transparent_MountBlob_refuted.

(* RECORDED DEVIATION (C03-range-unsendable): GetBlobRange 5 5 is the empty range directly and 416 through the stack, the backend is never asked *)
Theorem C03_transparent_GetBlobRange_empty_refuted :
  exists h : list Iface.op,
  ~ StackRefuted.transparent_on StackRun.default_opts StackRun.default_ccfg h.
Proof. exact @StackRefuted.transparent_GetBlobRange_empty_refuted. Qed.
Print Assumptions C03_transparent_GetBlobRange_empty_refuted.

(* RECORDED DEVIATION (C03-range-unsendable): a reversed range on an unknown blob is BLOB_UNKNOWN directly and UNKNOWN through the stack *)
Theorem C03_transparent_GetBlobRange_unasked_refuted :
  exists h : list Iface.op,
  ~ StackRefuted.transparent_on StackRun.default_opts StackRun.default_ccfg h.
Proof. exact @StackRefuted.transparent_GetBlobRange_unasked_refuted. Qed.
Print Assumptions C03_transparent_GetBlobRange_unasked_refuted.

(* RECORDED DEVIATION (C03-blob-media-type): a blob pushed with media type x-custom reads back as application/octet-stream through the stack *)
Theorem C03_transparent_PushBlob_media_refuted :
  exists h : list Iface.op,
  ~ StackRefuted.transparent_on StackRun.default_opts StackRun.default_ccfg h.
Proof. exact @StackRefuted.transparent_PushBlob_media_refuted. Qed.
Print Assumptions C03_transparent_PushBlob_media_refuted.

(* by design of MaxListPageSize: a client page size above the server's limit is refused UNSUPPORTED *)
Theorem C03_transparent_Tags_page_size_refuted :
  exists h : list Iface.op,
  ~ StackRefuted.transparent_on StackRefuted.max2 StackRun.default_ccfg h.
Proof. exact @StackRefuted.transparent_Tags_page_size_refuted. Qed.
Print Assumptions C03_transparent_Tags_page_size_refuted.

(* ONE statement for the 13 single-request methods, success and failure: a step of the stack runner over any backend answering conformingly returns view(answer), leaves the backend in the state after exactly the dispatched call, and records exactly that call *)
Theorem C03_step_one :
  forall (linked : Ref.alg -> bool) (hash : Bytes.bytes -> Bytes.bytes -> Bytes.bytes)
    (subject_of : Bytes.bytes -> option (option Bytes.bytes))
    (media : Bytes.bytes -> Bytes.bytes) (enc : Server.jval -> Bytes.bytes)
    (dec_errors : Bytes.bytes -> option (list Errors.werr))
    (dec_names : bool -> Bytes.bytes -> option (list Bytes.bytes))
    (dec_index : Bytes.bytes -> option (list Iface.desc))
    (redirect : Bytes.bytes -> Bytes.bytes -> Bytes.bytes * Bytes.bytes) 
    (B : Type) (bstep : Server.backend B) (o : Server.opts) (cc : Stack.ccfg),
  media StackBase.json_ct = StackBase.json_ct ->
  (forall w : Errors.werr, dec_errors (enc (Server.JErr w)) = Some (w :: nil)%list) ->
  (forall l : list Iface.desc, dec_index (enc (Server.JIndex l)) = Some l) ->
  Server.o_locs o = None ->
  1 <= Stack.cc_bufsz cc ->
  forall (st : Stack.sstate B) (c : Iface.op) (b' : B) (r : Server.bres),
  StackStep.one_call c = true ->
  StackStep.wf_op linked hash subject_of c ->
  StackTwoHops.clean st ->
  bstep (Stack.sv_b (Stack.st_srv st)) (StackStep.bop c) = (b', r) ->
  StackStep.conf_answer linked hash enc o c r ->
  StackStep.tag_small o c r ->
  StackStep.referrers_ok o c ->
  Stack.stack_bstep linked hash subject_of media enc dec_errors dec_names dec_index redirect
    bstep o cc st c =
  (StackStep.stepped B st b' (StackStep.events c r), StackStep.view hash enc o c r).
Proof. exact @StackStep.step_one. Qed.
Print Assumptions C03_step_one.

(* HISTORY LEVEL: for every backend satisfying the contract Conforming, every option set and every admissible history of the 16 one-call methods, the run through the stack and the direct run agree result by result (bres_equiv) and end in related backend states *)
Theorem C03_history_transparent :
  forall (linked : Ref.alg -> bool) (hash : Bytes.bytes -> Bytes.bytes -> Bytes.bytes)
    (subject_of : Bytes.bytes -> option (option Bytes.bytes))
    (media : Bytes.bytes -> Bytes.bytes) (enc : Server.jval -> Bytes.bytes)
    (dec_errors : Bytes.bytes -> option (list Errors.werr))
    (dec_names : bool -> Bytes.bytes -> option (list Bytes.bytes))
    (dec_index : Bytes.bytes -> option (list Iface.desc))
    (redirect : Bytes.bytes -> Bytes.bytes -> Bytes.bytes * Bytes.bytes) 
    (St : Type) (bstep : Server.backend St) (o : Server.opts) (cc : Stack.ccfg)
    (Inv : St -> Prop) (sim : St -> St -> Prop),
  StackHistory.Conforming linked hash subject_of enc St bstep o Inv sim ->
  media StackBase.json_ct = StackBase.json_ct ->
  (forall w : Errors.werr, dec_errors (enc (Server.JErr w)) = Some (w :: nil)%list) ->
  (forall l : list Iface.desc, dec_index (enc (Server.JIndex l)) = Some l) ->
  (forall (name : Bytes.bytes) (l : list Bytes.bytes),
   dec_names true (enc (Server.JTags name l)) = Some l) ->
  (forall l : list Bytes.bytes, dec_names false (enc (Server.JCatalog l)) = Some l) ->
  Server.o_locs o = None ->
  1 <= Stack.cc_bufsz cc ->
  forall (b : St) (h : list Iface.op),
  Inv b ->
  StackHistory.admissible linked hash subject_of enc St bstep o cc b h ->
  StackHistory.Forall3 StackHistory.bres_equiv h (snd (StackHistory.brun bstep b h))
    (snd
       (StackHistory.brun
          (Stack.stack_bstep linked hash subject_of media enc dec_errors dec_names dec_index
             redirect bstep o cc) (Stack.sstate0 b) h)) /\
  sim (fst (StackHistory.brun bstep b h))
    (Stack.sv_b
       (Stack.st_srv
          (fst
             (StackHistory.brun
                (Stack.stack_bstep linked hash subject_of media enc dec_errors dec_names
                   dec_index redirect bstep o cc) (Stack.sstate0 b) h)))) /\
  StackTwoHops.clean
    (fst
       (StackHistory.brun
          (Stack.stack_bstep linked hash subject_of media enc dec_errors dec_names dec_index
             redirect bstep o cc) (Stack.sstate0 b) h)).
Proof. exact @StackHistory.history_transparent. Qed.
Print Assumptions C03_history_transparent.

(* the same on the history runner of Obs/StackRun.v (no JSON hypothesis left: the concrete encoders are discharged) *)
Theorem C03_history_transparent_run :
  forall (so : StackRun.soracles) (o : Server.opts) (cc : Stack.ccfg)
    (St : Type) (bstep : Server.backend St) (Inv : St -> Prop) (sim : St -> St -> Prop)
    (b : St) (h : list Iface.op),
  StackHistory.Conforming (StackRun.so_linked so) (StackRun.so_hash so)
    (StackRun.so_subject so) StackRun.enc0 St bstep o Inv sim ->
  Server.o_locs o = None ->
  1 <= Stack.cc_bufsz cc ->
  Inv b ->
  StackHistory.admissible (StackRun.so_linked so) (StackRun.so_hash so)
    (StackRun.so_subject so) StackRun.enc0 St bstep o cc b h ->
  StackHistory.Forall3 StackHistoryRun.result_equiv h
    (snd (Iface.run (Stack.registry_of_backend bstep) b h))
    (snd (Iface.run (StackRun.stack_step so o cc bstep) (Stack.sstate0 b) h)) /\
  sim (fst (Iface.run (Stack.registry_of_backend bstep) b h))
    (Stack.sv_b
       (Stack.st_srv (fst (Iface.run (StackRun.stack_step so o cc bstep) (Stack.sstate0 b) h)))).
Proof. exact @StackHistoryRun.history_transparent_run. Qed.
Print Assumptions C03_history_transparent_run.

(* the contract is inhabited: the ocimem model satisfies Conforming (ImmutableTags off, sane oracles) *)
Theorem C03_mem_conforming :
  forall (orc : MemObs.oracles) (more : list (Bytes.bytes * Bytes.bytes * Bytes.bytes)),
  StackMem.orc_sane orc more ->
  forall o : Server.opts,
  StackHistory.Conforming (fun _ : Ref.alg => true) (StackRun.orc_hashhex orc more)
    (StackRun.orc_subject orc) StackRun.enc0 Mem.state (StackMem.mstep orc) o
    (StackMem.InvM orc) StackMem.simM.
Proof. exact @StackMem.mem_conforming. Qed.
Print Assumptions C03_mem_conforming.

(* hence: client + server over ocimem is transparent for every admissible history *)
Theorem C03_mem_history_transparent :
  forall (orc : MemObs.oracles) (more : list (Bytes.bytes * Bytes.bytes * Bytes.bytes))
    (sv : Server.opts) (cc : Stack.ccfg) (h : list Iface.op),
  StackMem.orc_sane orc more ->
  Server.o_locs sv = None ->
  1 <= Stack.cc_bufsz cc ->
  StackMemRun.mem_admissible orc more sv cc Mem.init h ->
  StackHistory.Forall3 StackHistoryRun.result_equiv h
    (snd (Iface.run (Stack.registry_of_backend (StackMem.mstep orc)) Mem.init h))
    (snd (Iface.run (StackRun.one_hop orc more false sv cc) (Stack.sstate0 Mem.init) h)) /\
  StackMem.simM (fst (Iface.run (Stack.registry_of_backend (StackMem.mstep orc)) Mem.init h))
    (Stack.sv_b
       (Stack.st_srv
          (fst (Iface.run (StackRun.one_hop orc more false sv cc) (Stack.sstate0 Mem.init) h)))).
Proof. exact @StackMemRun.mem_history_transparent. Qed.
Print Assumptions C03_mem_history_transparent.

(* upload protocol: the invariant relating the client writer (size, flushed, chunk, location), the backend writer buffer and the bytes written so far is preserved by every sequence of Write / Size / ChunkSize / Cancel / Close, for every partition of the content and every chunk size *)
Theorem C03_winv_ops :
  forall (linked : Ref.alg -> bool) (hash : Bytes.bytes -> Bytes.bytes -> Bytes.bytes)
    (subject_of : Bytes.bytes -> option (option Bytes.bytes))
    (media : Bytes.bytes -> Bytes.bytes) (enc : Server.jval -> Bytes.bytes)
    (dec_errors : Bytes.bytes -> option (list Errors.werr))
    (dec_names : bool -> Bytes.bytes -> option (list Bytes.bytes))
    (dec_index : Bytes.bytes -> option (list Iface.desc))
    (redirect : Bytes.bytes -> Bytes.bytes -> Bytes.bytes * Bytes.bytes) 
    (B : Type) (bstep : Server.backend B) (o : Server.opts) (repo id : Bytes.bytes),
  Request.vrepo repo = true ->
  StackUpload.good_upload_id id ->
  forall (Upl : B -> Bytes.bytes -> Prop) (accepts : Bytes.bytes -> Bytes.bytes -> Prop)
    (Stored : B -> Bytes.bytes -> Bytes.bytes -> Prop),
  StackUploadInv.AppendUpload linked B bstep repo id Upl accepts Stored ->
  forall (ops : list Client.wop) (w : Http.world (Stack.srv B)) (wr : Client.writer)
    (data : Bytes.bytes),
  StackUploadInv.WInv B repo id Upl wr (Stack.sv_b (Http.w_srv w)) data ->
  List.forallb StackUploadInv.pre_commit ops = true ->
  BinInt.Z.le (BinInt.Z.add (Bytes.blen data) (Bytes.blen (StackUploadInv.all_written ops)))
    Request.max_int64 ->
  let
  '(w', wr', rs) :=
   StackUploadInv.run_wops linked hash subject_of media enc dec_errors dec_names dec_index
     redirect B bstep o wr ops w in
   StackUploadInv.WInv B repo id Upl wr' (Stack.sv_b (Http.w_srv w'))
     (data ++ StackUploadInv.all_written ops)%list /\
   StackUploadInv.answers_ok wr data ops rs /\
   Stack.sv_outside (Http.w_srv w') = Stack.sv_outside (Http.w_srv w).
Proof. exact @StackUploadInv.winv_ops. Qed.
Print Assumptions C03_winv_ops.

(* so Commit stores exactly the concatenation of what was written *)
Theorem C03_commit_stores :
  forall (linked : Ref.alg -> bool) (hash : Bytes.bytes -> Bytes.bytes -> Bytes.bytes)
    (subject_of : Bytes.bytes -> option (option Bytes.bytes))
    (media : Bytes.bytes -> Bytes.bytes) (enc : Server.jval -> Bytes.bytes)
    (dec_errors : Bytes.bytes -> option (list Errors.werr))
    (dec_names : bool -> Bytes.bytes -> option (list Bytes.bytes))
    (dec_index : Bytes.bytes -> option (list Iface.desc))
    (redirect : Bytes.bytes -> Bytes.bytes -> Bytes.bytes * Bytes.bytes) 
    (B : Type) (bstep : Server.backend B) (o : Server.opts) (repo id : Bytes.bytes),
  Request.vrepo repo = true ->
  StackUpload.good_upload_id id ->
  Server.o_locs o = None ->
  forall (Upl : B -> Bytes.bytes -> Prop) (accepts : Bytes.bytes -> Bytes.bytes -> Prop)
    (Stored : B -> Bytes.bytes -> Bytes.bytes -> Prop),
  StackUploadInv.AppendUpload linked B bstep repo id Upl accepts Stored ->
  forall (w : Http.world (Stack.srv B)) (wr : Client.writer) (data dg : Bytes.bytes),
  StackUploadInv.WInv B repo id Upl wr (Stack.sv_b (Http.w_srv w)) data ->
  Request.vdigest linked dg = true ->
  accepts dg data ->
  BinInt.Z.le (Bytes.blen data) Request.max_int64 ->
  exists (w' : Http.world (Stack.srv B)) (wr' : Client.writer),
    Client.writer_op (Stack.srv B)
      (Stack.serve_stack linked hash subject_of enc redirect bstep o)
      (Stack.stack_env linked hash media dec_errors dec_names dec_index) Client.current wr
      (Client.WoCommit dg) w =
    (w',
     (wr',
      Client.WrDesc
        (Outcome.Ok
           {|
             Iface.d_media := Client.octet_stream;
             Iface.d_digest := dg;
             Iface.d_size := Bytes.blen data;
             Iface.d_artifact := nil
           |}))) /\ Stored (Stack.sv_b (Http.w_srv w')) dg data.
Proof. exact @StackUploadInv.commit_stores. Qed.
Print Assumptions C03_commit_stores.

(* ocimem is such an append-buffer backend *)
Theorem C03_mem_append_upload :
  forall (orc : MemObs.oracles) (repo id : Bytes.bytes),
  StackUploadInv.AppendUpload (fun _ : Ref.alg => true) Mem.state 
    (StackMem.mstep orc) repo id (StackUploadMem.m_upl orc repo id)
    (StackUploadMem.m_accepts orc) (StackUploadMem.m_stored repo).
Proof. exact @StackUploadMem.mem_append_upload. Qed.
Print Assumptions C03_mem_append_upload.

(* Commit with an empty chunk *)
Theorem C03_transparent_commit_empty :
  forall (linked : Ref.alg -> bool) (hash : Bytes.bytes -> Bytes.bytes -> Bytes.bytes)
    (subject_of : Bytes.bytes -> option (option Bytes.bytes))
    (media : Bytes.bytes -> Bytes.bytes) (enc : Server.jval -> Bytes.bytes)
    (dec_errors : Bytes.bytes -> option (list Errors.werr))
    (dec_names : bool -> Bytes.bytes -> option (list Bytes.bytes))
    (dec_index : Bytes.bytes -> option (list Iface.desc))
    (redirect : Bytes.bytes -> Bytes.bytes -> Bytes.bytes * Bytes.bytes) 
    (B : Type) (bstep : Server.backend B) (o : Server.opts) (w : Http.world (Stack.srv B))
    (wr : Client.writer) (repo id dg : Bytes.bytes) (b1 b3 b4 : B) 
    (vw vd : Server.bval) (rc : Server.bres),
  let f := Client.wr_flushed wr in
  Server.o_locs o = None ->
  Request.vrepo repo = true ->
  StackUpload.good_upload_id id ->
  StackTransparent.writer_at wr repo id ->
  Request.vdigest linked dg = true ->
  Client.chunk_bytes wr = nil ->
  BinInt.Z.le BinNums.Z0 f /\ BinInt.Z.le f Request.max_int64 ->
  bstep (Stack.sv_b (Http.w_srv w)) (Iface.PushBlobChunkedResume repo id f BinNums.Z0) =
  (b1, Outcome.Ok vw) ->
  bstep b1 (Iface.WCommit (Server.wid_of vw) dg) = (b3, Outcome.Ok vd) ->
  Request.vdigest linked (Iface.d_digest (Server.desc_of vd)) = true ->
  bstep b3 (Iface.WClose (Server.wid_of vw)) = (b4, rc) ->
  rc <> Outcome.Panic ->
  rc <> Outcome.OutOfFuel ->
  exists (w' : Http.world (Stack.srv B)) (wr' : Client.writer),
    Client.writer_commit (Stack.srv B)
      (Stack.serve_stack linked hash subject_of enc redirect bstep o)
      (Stack.stack_env linked hash media dec_errors dec_names dec_index) wr dg w =
    (w',
     (wr',
      Outcome.Ok
        {|
          Iface.d_media := Client.octet_stream;
          Iface.d_digest := dg;
          Iface.d_size := Client.wr_size wr;
          Iface.d_artifact := nil
        |})) /\
    Client.wr_flushed wr' = f /\
    Client.wr_size wr' = Client.wr_size wr /\
    Http.w_srv w' =
    StackBase.after B (Http.w_srv w) b4
      (Server.ECall (Iface.PushBlobChunkedResume repo id f BinNums.Z0) (Outcome.Ok vw)
       :: Server.ECall (Iface.WCommit (Server.wid_of vw) dg) (Outcome.Ok vd)
          :: Server.ECall (Iface.WClose (Server.wid_of vw)) rc :: nil).
Proof. exact @StackUploadEmpty.transparent_commit_empty. Qed.
Print Assumptions C03_transparent_commit_empty.

(* PushBlob of the empty content *)
Theorem C03_transparent_PushBlob_empty :
  forall (linked : Ref.alg -> bool) (hash : Bytes.bytes -> Bytes.bytes -> Bytes.bytes)
    (subject_of : Bytes.bytes -> option (option Bytes.bytes))
    (media : Bytes.bytes -> Bytes.bytes) (enc : Server.jval -> Bytes.bytes)
    (dec_errors : Bytes.bytes -> option (list Errors.werr))
    (dec_names : bool -> Bytes.bytes -> option (list Bytes.bytes))
    (dec_index : Bytes.bytes -> option (list Iface.desc))
    (redirect : Bytes.bytes -> Bytes.bytes -> Bytes.bytes * Bytes.bytes) 
    (B : Type) (bstep : Server.backend B) (o : Server.opts) (cc : Stack.ccfg)
    (w : Http.world (Stack.srv B)) (repo : Bytes.bytes) (d : Iface.desc)
    (b1 b2 b3 b4 b5 b7 b8 : B) (vw vid vcs : Server.bval) (rc : Server.bres)
    (vw2 vd : Server.bval) (rc2 : Server.bres),
  Server.o_locs o = None ->
  Request.vrepo repo = true ->
  Request.vdigest linked (Iface.d_digest d) = true ->
  Iface.d_size d = BinNums.Z0 ->
  bstep (Stack.sv_b (Http.w_srv w)) (Iface.PushBlobChunked repo BinNums.Z0) =
  (b1, Outcome.Ok vw) ->
  bstep b1 (Iface.WID (Server.wid_of vw)) = (b2, Outcome.Ok vid) ->
  StackUpload.good_upload_id (Server.str_of vid) ->
  bstep b2 (Iface.WChunkSize (Server.wid_of vw)) = (b3, Outcome.Ok vcs) ->
  bstep b3 (Iface.WClose (Server.wid_of vw)) = (b4, rc) ->
  rc <> Outcome.Panic ->
  rc <> Outcome.OutOfFuel ->
  bstep b4 (Iface.PushBlobChunkedResume repo (Server.str_of vid) BinNums.Z0 BinNums.Z0) =
  (b5, Outcome.Ok vw2) ->
  bstep b5 (Iface.WCommit (Server.wid_of vw2) (Iface.d_digest d)) = (b7, Outcome.Ok vd) ->
  bstep b7 (Iface.WClose (Server.wid_of vw2)) = (b8, rc2) ->
  rc2 <> Outcome.Panic ->
  rc2 <> Outcome.OutOfFuel ->
  exists w' : Http.world (Stack.srv B),
    Stack.stack_call linked hash subject_of media enc dec_errors dec_names dec_index redirect
      bstep o cc (Client.CPushBlob repo d true true nil) w = (w', Client.ODesc (Outcome.Ok d)) /\
    Http.w_srv w' =
    StackBase.after B
      (StackBase.after B (Http.w_srv w) b4
         (Server.ECall (Iface.PushBlobChunked repo BinNums.Z0) (Outcome.Ok vw)
          :: Server.ECall (Iface.WID (Server.wid_of vw)) (Outcome.Ok vid)
             :: Server.ECall (Iface.WChunkSize (Server.wid_of vw)) (Outcome.Ok vcs)
                :: Server.ECall (Iface.WClose (Server.wid_of vw)) rc :: nil)) b8
      (Server.ECall
         (Iface.PushBlobChunkedResume repo (Server.str_of vid) BinNums.Z0 BinNums.Z0)
         (Outcome.Ok vw2)
       :: Server.ECall (Iface.WCommit (Server.wid_of vw2) (Iface.d_digest d)) (Outcome.Ok vd)
          :: Server.ECall (Iface.WClose (Server.wid_of vw2)) rc2 :: nil).
Proof. exact @StackUploadEmpty.transparent_PushBlob_empty. Qed.
Print Assumptions C03_transparent_PushBlob_empty.

(* PushBlob when the backend refuses to open the upload *)
Theorem C03_transparent_PushBlob_err_start :
  forall (linked : Ref.alg -> bool) (hash : Bytes.bytes -> Bytes.bytes -> Bytes.bytes)
    (subject_of : Bytes.bytes -> option (option Bytes.bytes))
    (media : Bytes.bytes -> Bytes.bytes) (enc : Server.jval -> Bytes.bytes)
    (dec_errors : Bytes.bytes -> option (list Errors.werr))
    (dec_names : bool -> Bytes.bytes -> option (list Bytes.bytes))
    (dec_index : Bytes.bytes -> option (list Iface.desc))
    (redirect : Bytes.bytes -> Bytes.bytes -> Bytes.bytes * Bytes.bytes) 
    (B : Type) (bstep : Server.backend B) (o : Server.opts) (cc : Stack.ccfg),
  media StackBase.json_ct = StackBase.json_ct ->
  (forall w : Errors.werr, dec_errors (enc (Server.JErr w)) = Some (w :: nil)%list) ->
  forall (w : Http.world (Stack.srv B)) (repo : Bytes.bytes) (d : Iface.desc)
    (present rew : bool) (data : Bytes.bytes) (b1 : B) (e : Errors.gerr),
  Request.vrepo repo = true ->
  bstep (Stack.sv_b (Http.w_srv w)) (Iface.PushBlobChunked repo BinNums.Z0) =
  (b1, Outcome.Err e) ->
  StackTransparent.conf_err e ->
  BinInt.Z.le
    (Bytes.blen
       (enc
          (Server.JErr
             (Errors.r_err (Errors.marshal_error Errors.go_sprefix Errors.go_cprefix e)))))
    (BinNums.Zpos
       (BinNums.xO
          (BinNums.xO
             (BinNums.xO
                (BinNums.xO
                   (BinNums.xO
                      (BinNums.xO
                         (BinNums.xO
                            (BinNums.xO
                               (BinNums.xO
                                  (BinNums.xO
                                     (BinNums.xO (BinNums.xO (BinNums.xO BinNums.xH)))))))))))))) ->
  exists w' : Http.world (Stack.srv B),
    Stack.stack_call linked hash subject_of media enc dec_errors dec_names dec_index redirect
      bstep o cc (Client.CPushBlob repo d present rew data) w =
    (w', Client.ODesc (Outcome.Err (StackTransparent.wire_error enc false e))) /\
    Http.w_srv w' =
    StackBase.after B (Http.w_srv w) b1
      (Server.ECall (Iface.PushBlobChunked repo BinNums.Z0) (Outcome.Err e) :: nil).
Proof. exact @StackUploadErr.transparent_PushBlob_err_start. Qed.
Print Assumptions C03_transparent_PushBlob_err_start.

(* PushBlob when the backend refuses the commit (e.g. digest mismatch) *)
Theorem C03_transparent_PushBlob_err_commit :
  forall (linked : Ref.alg -> bool) (hash : Bytes.bytes -> Bytes.bytes -> Bytes.bytes)
    (subject_of : Bytes.bytes -> option (option Bytes.bytes))
    (media : Bytes.bytes -> Bytes.bytes) (enc : Server.jval -> Bytes.bytes)
    (dec_errors : Bytes.bytes -> option (list Errors.werr))
    (dec_names : bool -> Bytes.bytes -> option (list Bytes.bytes))
    (dec_index : Bytes.bytes -> option (list Iface.desc))
    (redirect : Bytes.bytes -> Bytes.bytes -> Bytes.bytes * Bytes.bytes) 
    (B : Type) (bstep : Server.backend B) (o : Server.opts) (cc : Stack.ccfg),
  media StackBase.json_ct = StackBase.json_ct ->
  (forall w : Errors.werr, dec_errors (enc (Server.JErr w)) = Some (w :: nil)%list) ->
  forall (w : Http.world (Stack.srv B)) (repo : Bytes.bytes) (d : Iface.desc)
    (data : Bytes.bytes) (b1 b2 b3 b4 b5 b6 b7 b8 : B) (vw vid vcs : Server.bval)
    (rc : Server.bres) (vw2 vn : Server.bval) (e : Errors.gerr) (rc2 : Server.bres),
  Request.vrepo repo = true ->
  Request.vdigest linked (Iface.d_digest d) = true ->
  Iface.d_size d = Bytes.blen data ->
  BinInt.Z.le (BinNums.Zpos BinNums.xH) (Bytes.blen data) /\
  BinInt.Z.le (Bytes.blen data) Request.max_int64 ->
  bstep (Stack.sv_b (Http.w_srv w)) (Iface.PushBlobChunked repo BinNums.Z0) =
  (b1, Outcome.Ok vw) ->
  bstep b1 (Iface.WID (Server.wid_of vw)) = (b2, Outcome.Ok vid) ->
  StackUpload.good_upload_id (Server.str_of vid) ->
  bstep b2 (Iface.WChunkSize (Server.wid_of vw)) = (b3, Outcome.Ok vcs) ->
  bstep b3 (Iface.WClose (Server.wid_of vw)) = (b4, rc) ->
  rc <> Outcome.Panic ->
  rc <> Outcome.OutOfFuel ->
  bstep b4 (Iface.PushBlobChunkedResume repo (Server.str_of vid) BinNums.Z0 (Bytes.blen data)) =
  (b5, Outcome.Ok vw2) ->
  bstep b5 (Iface.WWrite (Server.wid_of vw2) data) = (b6, Outcome.Ok vn) ->
  Server.n_of vn = Bytes.blen data ->
  bstep b6 (Iface.WCommit (Server.wid_of vw2) (Iface.d_digest d)) = (b7, Outcome.Err e) ->
  bstep b7 (Iface.WClose (Server.wid_of vw2)) = (b8, rc2) ->
  rc2 <> Outcome.Panic ->
  rc2 <> Outcome.OutOfFuel ->
  StackTransparent.conf_err e ->
  BinInt.Z.le
    (Bytes.blen
       (enc
          (Server.JErr
             (Errors.r_err (Errors.marshal_error Errors.go_sprefix Errors.go_cprefix e)))))
    (BinNums.Zpos
       (BinNums.xO
          (BinNums.xO
             (BinNums.xO
                (BinNums.xO
                   (BinNums.xO
                      (BinNums.xO
                         (BinNums.xO
                            (BinNums.xO
                               (BinNums.xO
                                  (BinNums.xO
                                     (BinNums.xO (BinNums.xO (BinNums.xO BinNums.xH)))))))))))))) ->
  exists w' : Http.world (Stack.srv B),
    Stack.stack_call linked hash subject_of media enc dec_errors dec_names dec_index redirect
      bstep o cc (Client.CPushBlob repo d true true data) w =
    (w', Client.ODesc (Outcome.Err (StackTransparent.wire_error enc false e))) /\
    Http.w_srv w' =
    StackBase.after B
      (StackBase.after B (Http.w_srv w) b4
         (Server.ECall (Iface.PushBlobChunked repo BinNums.Z0) (Outcome.Ok vw)
          :: Server.ECall (Iface.WID (Server.wid_of vw)) (Outcome.Ok vid)
             :: Server.ECall (Iface.WChunkSize (Server.wid_of vw)) (Outcome.Ok vcs)
                :: Server.ECall (Iface.WClose (Server.wid_of vw)) rc :: nil)) b8
      (Server.ECall
         (Iface.PushBlobChunkedResume repo (Server.str_of vid) BinNums.Z0 (Bytes.blen data))
         (Outcome.Ok vw2)
       :: Server.ECall (Iface.WWrite (Server.wid_of vw2) data) (Outcome.Ok vn)
          :: Server.ECall (Iface.WCommit (Server.wid_of vw2) (Iface.d_digest d))
               (Outcome.Err e) :: Server.ECall (Iface.WClose (Server.wid_of vw2)) rc2 :: nil).
Proof. exact @StackUploadErr.transparent_PushBlob_err_commit. Qed.
Print Assumptions C03_transparent_PushBlob_err_commit.

(* composition: what the stack answers to a conforming answer is conforming again *)
Theorem C03_conf_view :
  forall (linked : Ref.alg -> bool) (hash : Bytes.bytes -> Bytes.bytes -> Bytes.bytes)
    (subject_of : Bytes.bytes -> option (option Bytes.bytes))
    (enc : Server.jval -> Bytes.bytes) (o1 o2 : Server.opts) (c : Iface.op) 
    (r : Server.bres),
  StackStep.one_call c = true ->
  StackStep.wf_op linked hash subject_of c ->
  StackStep.conf_answer linked hash enc o1 c r ->
  StackStep.conf_answer linked hash enc o2 c r ->
  StackStep.tag_small o1 c r ->
  (forall (h : bool) (e : Errors.gerr),
   StackCompose.answer_error c r = Some (h, e) ->
   StackStep.relayable enc (StackTransparent.wire_error enc h e)) ->
  StackStep.conf_answer linked hash enc o2 c (StackStep.view hash enc o1 c r).
Proof. exact @StackCompose.conf_view. Qed.
Print Assumptions C03_conf_view.

(* two hops for all 13 single-request methods at once *)
Theorem C03_two_hops_one :
  forall (linked : Ref.alg -> bool) (hash : Bytes.bytes -> Bytes.bytes -> Bytes.bytes)
    (subject_of : Bytes.bytes -> option (option Bytes.bytes))
    (media : Bytes.bytes -> Bytes.bytes) (enc : Server.jval -> Bytes.bytes)
    (dec_errors : Bytes.bytes -> option (list Errors.werr))
    (dec_names : bool -> Bytes.bytes -> option (list Bytes.bytes))
    (dec_index : Bytes.bytes -> option (list Iface.desc))
    (redirect : Bytes.bytes -> Bytes.bytes -> Bytes.bytes * Bytes.bytes) 
    (B : Type) (bstep : Server.backend B) (o1 o2 : Server.opts) (cc1 cc2 : Stack.ccfg),
  media StackBase.json_ct = StackBase.json_ct ->
  (forall w : Errors.werr, dec_errors (enc (Server.JErr w)) = Some (w :: nil)%list) ->
  (forall l : list Iface.desc, dec_index (enc (Server.JIndex l)) = Some l) ->
  Server.o_locs o1 = None ->
  Server.o_locs o2 = None ->
  1 <= Stack.cc_bufsz cc1 ->
  1 <= Stack.cc_bufsz cc2 ->
  forall (st2 : Stack.sstate (Stack.sstate B)) (c : Iface.op) (b' : B) (r : Server.bres),
  StackStep.one_call c = true ->
  StackStep.wf_op linked hash subject_of c ->
  StackTwoHops.clean st2 ->
  StackTwoHops.clean (StackCompose.inner B st2) ->
  bstep (Stack.sv_b (Stack.st_srv (StackCompose.inner B st2))) (StackStep.bop c) = (b', r) ->
  StackStep.conf_answer linked hash enc o1 c r ->
  StackStep.conf_answer linked hash enc o2 c (StackStep.view hash enc o1 c r) ->
  StackStep.tag_small o1 c r ->
  StackStep.tag_small o2 c (StackStep.view hash enc o1 c r) ->
  StackStep.referrers_ok o1 c ->
  StackStep.referrers_ok o2 c ->
  Stack.stack_bstep linked hash subject_of media enc dec_errors dec_names dec_index redirect
    (Stack.stack_bstep linked hash subject_of media enc dec_errors dec_names dec_index
       redirect bstep o1 cc1) o2 cc2 st2 c =
  (StackStep.stepped (Stack.sstate B) st2
     (StackStep.stepped B (StackCompose.inner B st2) b' (StackStep.events c r))
     (StackStep.events c (StackStep.view hash enc o1 c r)),
   StackStep.view hash enc o2 c (StackStep.view hash enc o1 c r)).
Proof. exact @StackCompose.two_hops_one. Qed.
Print Assumptions C03_two_hops_one.

(* without the side condition the history theorem is false: the empty range (recorded deviation) *)
Theorem C03_history_transparent_refuted :
  ~ StackHistoryRefuted.transparent_unconditionally.
Proof. exact @StackHistoryRefuted.history_transparent_refuted. Qed.
Print Assumptions C03_history_transparent_refuted.

(* and: a PushBlob that fails leaves the repository entry behind the server (the upload session was opened before the digest was checked) - the unknown-vs-empty slack of C02, confirmed on the real code *)
Theorem C03_history_transparent_push_refuted :
  ~ StackHistoryRefuted.transparent_unconditionally.
Proof. exact @StackHistoryRefuted.history_transparent_push_refuted. Qed.
Print Assumptions C03_history_transparent_push_refuted.

